// C15 harness: failover. Drives the REAL ServantProxy.doInvoke / endpointManager / AdapterProxy
// state machine (registry mode, scripted loopback servers, timestamps shifted instead of sleeping)
// through histories of `start call | finish call ok/fail | advance d | checkStatus | server up/down`,
// compares every step with the Lean model (stream "health") and evaluates the property oracle on
// the implementation's own observations.
package main

import (
	"context"
	"encoding/json"
	"fmt"
	"math/rand"
	"os"
	"sort"
	"strconv"
	"strings"
	"time"

	"github.com/TarsCloud/TarsGo/tars"
	"github.com/TarsCloud/TarsGo/tars/protocol/res/requestf"
	"github.com/TarsCloud/TarsGo/tars/selector/consistenthash"
	"github.com/TarsCloud/TarsGo/tars/util/current"
	"github.com/TarsCloud/TarsGo/tars/util/endpoint"
	"github.com/TarsCloud/TarsGo/tars/util/rogger"

	"verifharness/common"
)

// ---- the property's own constants (from the property text, NOT from the code) ----
const (
	propMinFailures = 2  // "none is taken out with fewer than two failures"
	propStreak      = 5  // "at least 5 in a row"
	propStreakSecs  = 5  // "for at least 5 seconds"
	propProbeEvery  = 30 // "no more often than every 30 seconds"
)

// Op is one step of a history (the replayable unit is the whole Case).
type Op struct {
	K      string `json:"k"`                // adv | chk | start | fin | toggle
	D      int64  `json:"d,omitempty"`      // adv: seconds
	Sel    string `json:"sel,omitempty"`    // start: con | rr | mod
	Hash   uint32 `json:"hash,omitempty"`   // start: hash code (con, mod)
	OneWay bool   `json:"oneway,omitempty"` // start: one-way call
	Call   int    `json:"call,omitempty"`   // fin: ordinal of the start op (0-based)
	OK     bool   `json:"ok,omitempty"`     // fin: answer (true) or cancel (false)
	Ep     int    `json:"ep,omitempty"`     // toggle: endpoint
	Up     bool   `json:"up,omitempty"`     // toggle: bring up / take down
}

type Case struct {
	N    int    `json:"n"`
	Seed int64  `json:"seed"`
	Name string `json:"name,omitempty"`
	Ops  []Op   `json:"ops"`
}

type callInfo struct{ host string }
type ctxKey struct{}

type callState struct {
	ord    int
	ep     int
	probe  bool
	open   bool
	cancel context.CancelFunc
	done   chan error
}

type runner struct {
	w       *world
	res     *common.Result
	c       Case
	verbose bool

	lastR   int64
	vnow    int64
	calls   []*callState
	tainted bool
	broken  string // harness-level problem (not a verdict)

	lines  []string
	impls  []string
	opIdx  []int // lines[i] was produced by c.Ops[opIdx[i]]
	shadow *consistenthash.ConsistentHash

	// oracle bookkeeping, from the implementation's observations only
	failsSince  []int
	streak      []int
	lastOk      []int64
	everOk      []bool
	lastProbe   []int64
	everProbe   []bool
	lastGrant   []int64
	everGrant   []bool
	grants      []int
	probes      []int
	blockedByUs []bool // oracle's view: taken out and not yet reinstated
	// probe liveness: probeRef[i] = the latest moment from which the 30 s to the next probe candidate
	// may be counted (blocked / candidate queued / probe call handed out / a status check during
	// which the endpoint could not be connected to or still had a candidate waiting)
	probeRef    []int64
	probeRefSet []bool
}

func newRunner(n int, seed int64, name string, res *common.Result) (*runner, error) {
	w, err := newWorld(n)
	if err != nil {
		return nil, err
	}
	w.vm.SeedRand(seed)
	r := &runner{w: w, res: res, c: Case{N: n, Seed: seed, Name: name}, lastR: time.Now().Unix()}
	r.failsSince = make([]int, n)
	r.streak = make([]int, n)
	r.lastOk = make([]int64, n)
	r.everOk = make([]bool, n)
	r.lastProbe = make([]int64, n)
	r.everProbe = make([]bool, n)
	r.lastGrant = make([]int64, n)
	r.everGrant = make([]bool, n)
	r.grants = make([]int, n)
	r.probes = make([]int, n)
	r.blockedByUs = make([]bool, n)
	r.probeRef = make([]int64, n)
	r.probeRefSet = make([]bool, n)
	r.lines = append(r.lines, fmt.Sprintf("init auto 2000000000 %d", n))
	r.impls = append(r.impls, "-|"+r.implState())
	r.opIdx = append(r.opIdx, -1)
	return r, nil
}

func (r *runner) close() {
	for _, c := range r.calls {
		if c.open {
			c.cancel()
			select {
			case <-c.done:
			case <-time.After(5 * time.Second):
			}
			c.open = false
		}
	}
	r.w.close()
}

// ---- real clock vs. virtual clock ----

// sync: wait out the last 30 ms of a wall-clock second, cancel real elapsed seconds by shifting the
// stored timestamps forward, and return the second the next operation will see.
func (r *runner) sync() int64 {
	for {
		now := time.Now()
		if now.Nanosecond() > 970_000_000 {
			time.Sleep(time.Duration(1_000_500_000 - now.Nanosecond()))
			continue
		}
		s := now.Unix()
		if s != r.lastR {
			r.w.vm.ShiftTimes(-(s - r.lastR))
			r.lastR = s
		}
		return s
	}
}

// post: the operation must have run within one wall-clock second, otherwise what it compared
// against is ambiguous and the rest of the case is abandoned (counted, never judged).
func (r *runner) post(s int64) {
	if time.Now().Unix() != s {
		r.tainted = true
	}
}

// ---- observations ----

func (r *runner) activeCounts() []int {
	out := make([]int, r.w.n)
	for _, k := range r.w.vm.Active() {
		if i, ok := r.w.idxOf[k]; ok {
			out[i]++
		}
	}
	return out
}

func ageStr(now, t int64) string {
	a := now - t
	if a >= 1000000 {
		return "inf"
	}
	return strconv.FormatInt(a, 10)
}

func b01(b bool) int {
	if b {
		return 1
	}
	return 0
}

func csvInts(xs []int) string {
	if len(xs) == 0 {
		return "-"
	}
	s := make([]string, len(xs))
	for i, x := range xs {
		s[i] = strconv.Itoa(x)
	}
	return strings.Join(s, ",")
}

func (r *runner) implState() string {
	var act []int
	for i, c := range r.activeCounts() {
		for k := 0; k < c; k++ {
			act = append(act, i)
		}
	}
	var pend []int
	for _, k := range r.w.vm.ProbePending() {
		pend = append(pend, r.w.idxOf[k])
	}
	sort.Ints(pend)
	var infl []string
	var inflKeys []int
	for _, c := range r.calls {
		if c.open {
			inflKeys = append(inflKeys, 2*c.ep+b01(c.probe))
		}
	}
	sort.Ints(inflKeys)
	for _, x := range inflKeys {
		infl = append(infl, fmt.Sprintf("%d:%d", x/2, x%2))
	}
	inflS := "-"
	if len(infl) > 0 {
		inflS = strings.Join(infl, ",")
	}
	var recs []string
	for i, k := range r.w.keys {
		h := r.w.vm.Health(k)
		if !h.Exists {
			continue
		}
		recs = append(recs, fmt.Sprintf("%d:%d/%d/%d/%d/%s/%s/%s/%d", i, h.FailCount, h.LastFailCount, h.SendCount, b01(h.Status),
			ageStr(r.lastR, h.LastSuccessTime), ageStr(r.lastR, h.LastBlockTime), ageStr(r.lastR, h.LastCheckTime), b01(h.Closed)))
	}
	recS := "-"
	if len(recs) > 0 {
		recS = strings.Join(recs, ";")
	}
	return fmt.Sprintf("act=%s q=%d pend=%s infl=%s recs=%s", csvInts(act), r.w.vm.ProbeQueueLen(), csvInts(pend), inflS, recS)
}

// canonModel brings the model's answer to the shape of the implementation's observation: the
// selector membership is not observable (it is checked through the admissibility of every pick),
// of the probe queue only the length is.
func canonModel(ans string) string {
	parts := strings.SplitN(ans, "|", 2)
	if len(parts) != 2 {
		return ans
	}
	var out []string
	for _, f := range strings.Fields(parts[1]) {
		switch {
		case strings.HasPrefix(f, "sel="):
		case strings.HasPrefix(f, "q="):
			v := strings.TrimPrefix(f, "q=")
			n := 0
			if v != "-" {
				n = len(strings.Split(v, ","))
			}
			out = append(out, fmt.Sprintf("q=%d", n))
		default:
			out = append(out, f)
		}
	}
	return parts[0] + "|" + strings.Join(out, " ")
}

func (r *runner) record(opi int, line string, events []string) {
	ev := "-"
	if len(events) > 0 {
		ev = strings.Join(events, ";")
	}
	r.lines = append(r.lines, line)
	r.impls = append(r.impls, ev+"|"+r.implState())
	r.opIdx = append(r.opIdx, opi)
}

func (r *runner) violate(class, locus, what string) {
	cs := r.c
	cs.Ops = append([]Op{}, r.c.Ops...)
	r.res.Violate(common.Violation{Signature: "C15:" + class + ":" + locus, What: what,
		Case: common.Case{Stream: "health", Op: cs, Impl: r.impls[len(r.impls)-1], Note: fmt.Sprintf("after op #%d of the case, virtual time %d", len(cs.Ops)-1, r.vnow)}})
}

// othersActive: some other endpoint is in normal rotation, i.e. it is in activeEp and its record (if
// any) is not blocked. (activeEp alone is not enough: after two overlapping successful probes it
// holds the endpoint twice and a later block removes only one copy.)
func (r *runner) othersActive(ep int, act []int, st []tars.VerifHealth) bool {
	for i, c := range act {
		if i != ep && c > 0 && (!st[i].Exists || st[i].Status) {
			return true
		}
	}
	return false
}

// ---- executing one op against the real code ----

func (r *runner) exec(op Op) {
	if r.tainted || r.broken != "" {
		return
	}
	r.c.Ops = append(r.c.Ops, op)
	opi := len(r.c.Ops) - 1
	switch op.K {
	case "adv":
		r.sync()
		r.w.vm.ShiftTimes(op.D)
		r.vnow += op.D
		r.record(opi, fmt.Sprintf("adv %d", op.D), nil)
		r.count("adv", fmt.Sprintf("adv:%s", advClass(op.D)))
	case "toggle":
		s := r.w.srv[op.Ep]
		if op.Up == s.isUp() {
			return
		}
		if op.Up {
			if err := s.up(); err != nil {
				return // port taken meanwhile: the server stays down
			}
		} else {
			s.down()
		}
		r.w.vm.FreshClient(r.w.keys[op.Ep])
		r.res.Histogram["env:toggle"]++
	case "chk":
		r.execChk(opi)
	case "start":
		r.execStart(opi, op)
	case "fin":
		r.execFin(opi, op)
	}
}

func advClass(d int64) string {
	switch {
	case d == 0:
		return "0"
	case d < 5:
		return "<5"
	case d < 30:
		return "5..29"
	case d < 60:
		return "30..59"
	}
	return ">=60"
}

func (r *runner) count(kind, class string) {
	key := kind + "|" + r.impls[len(r.impls)-1]
	if len(key) > 400 {
		key = key[:400]
	}
	r.res.Count(key, class, kind != "adv")
	r.res.TracesValidated++
}

func (r *runner) execChk(opi int) {
	w := r.w
	s := r.sync()
	act0 := r.activeCounts()
	pend0 := map[string]bool{}
	for _, k := range w.vm.ProbePending() {
		pend0[k] = true
	}
	st0 := make([]tars.VerifHealth, w.n)
	for i, k := range w.keys {
		st0[i] = w.vm.Health(k)
	}
	var conn []int
	for i, sv := range w.srv {
		if sv.isUp() {
			conn = append(conn, i)
		}
	}
	qlen0 := w.vm.ProbeQueueLen()
	up := make([]bool, w.n)
	for i, sv := range w.srv {
		up[i] = sv.isUp()
	}
	w.vm.CheckStatus()
	r.post(s)
	if r.tainted {
		return
	}
	qlen1 := w.vm.ProbeQueueLen()
	act1 := r.activeCounts()
	pend1 := map[string]bool{}
	for _, k := range w.vm.ProbePending() {
		pend1[k] = true
	}
	var events []string
	cls := "chk:quiet"
	for _, k := range w.vm.Registry() {
		i := w.idxOf[k]
		if act1[i] < act0[i] {
			events = append(events, fmt.Sprintf("blocked:%d", i))
			cls = "chk:blocked"
		}
		if pend1[k] && !pend0[k] {
			events = append(events, fmt.Sprintf("grant:%d", i))
			if cls == "chk:quiet" {
				cls = "chk:grant"
			}
		}
	}
	r.record(opi, "chk "+csvInts(conn), events)
	r.count("chk", cls)

	// ---- oracle ----
	for i, k := range w.keys {
		h1 := w.vm.Health(k)
		takenOut := act1[i] < act0[i] || (st0[i].Exists && st0[i].Status && h1.Exists && !h1.Status)
		if takenOut {
			if r.failsSince[i] < propMinFailures {
				r.violate("blocked-early", "checkStatus", fmt.Sprintf("endpoint %d was taken out of rotation with %d failed calls since it was last (re)instated", i, r.failsSince[i]))
			}
			r.blockedByUs[i] = true
		}
		// liveness clause: >= 5 consecutive failures, no success for >= 5 s, another endpoint active
		if r.streak[i] >= propStreak && (!r.everOk[i] || r.vnow-r.lastOk[i] >= propStreakSecs) && r.othersActive(i, act0, st0) {
			if h1.Exists && h1.Status {
				r.violate("not-blocked", "checkStatus", fmt.Sprintf("endpoint %d: %d consecutive failed calls, none succeeded for >= %d s, another endpoint is active, yet it is still in rotation after the status check", i, r.streak[i], propStreakSecs))
			}
		}
		if pend1[k] && !pend0[k] {
			if r.everGrant[i] && r.vnow-r.lastGrant[i] < propProbeEvery {
				r.violate("probe-too-often", "checkActive", fmt.Sprintf("endpoint %d was queued as probe candidate %d s after it was last queued", i, r.vnow-r.lastGrant[i]))
			}
			if !h1.Exists || h1.Status {
				r.violate("probe-not-blocked", "checkStatus", fmt.Sprintf("endpoint %d is not blocked but was queued as probe candidate", i))
			}
			r.everGrant[i], r.lastGrant[i] = true, r.vnow
			r.grants[i]++
		}
		if st0[i].Exists && !st0[i].Status && h1.Status {
			r.violate("unblocked-without-success", "checkStatus", fmt.Sprintf("endpoint %d went back to active without a successful probe", i))
		}
	}
	// probe liveness ("a blocked endpoint is THEN probed ... every 30 seconds": probing keeps
	// happening). An endpoint that was blocked before this check, can be connected to, has no
	// candidate waiting (by the oracle's own count of candidates queued and handed out — NOT by the
	// implementation's marker) and whose reference time is >= 30 s ago must be queued by this check.
	markerGrants := 0
	var starved []int
	for i, k := range w.keys {
		granted := pend1[k] && !pend0[k]
		if granted {
			markerGrants++
		}
		blocked0 := st0[i].Exists && !st0[i].Status
		if !blocked0 {
			continue
		}
		if !r.probeRefSet[i] { // blocked before the oracle saw it happen: count from now
			r.probeRef[i], r.probeRefSet[i] = r.vnow, true
			continue
		}
		outstanding := r.grants[i]-b01(granted) > r.probes[i]
		switch {
		case granted:
			r.probeRef[i] = r.vnow
		case !up[i] || outstanding:
			r.probeRef[i] = r.vnow
		case r.vnow-r.probeRef[i] >= propProbeEvery:
			starved = append(starved, i)
		}
	}
	if unexplained := (qlen1 - qlen0) - markerGrants; len(starved) > unexplained {
		i := starved[0]
		r.violate("probe-starved", "checkStatus", fmt.Sprintf("endpoint %d is blocked, can be connected to, has no probe candidate waiting and was last blocked/queued/probed %d s ago, but the status check did not queue it as probe candidate: it is never probed again", i, r.vnow-r.probeRef[i]))
		for _, j := range starved {
			r.probeRef[j] = r.vnow // report once per 30 s
		}
	}
	for i := range w.keys {
		if h1 := w.vm.Health(w.keys[i]); (act1[i] < act0[i]) || (st0[i].Exists && st0[i].Status && h1.Exists && !h1.Status) {
			r.probeRef[i], r.probeRefSet[i] = r.vnow, true // taken out now
		}
	}
}

func (r *runner) mkCtx(op Op, info *callInfo) (context.Context, context.CancelFunc) {
	ctx := context.WithValue(context.Background(), ctxKey{}, info)
	ctx = current.ContextWithClientCurrent(ctx)
	switch op.Sel {
	case "con":
		current.SetClientHash(ctx, int(tars.ConsistentHash), op.Hash)
	case "mod":
		current.SetClientHash(ctx, int(tars.ModHash), op.Hash)
	}
	return context.WithCancel(ctx)
}

func (r *runner) execStart(opi int, op Op) {
	w := r.w
	s := r.sync()
	q0 := w.vm.ProbeQueueLen()
	act0 := r.activeCounts()
	st0 := make([]tars.VerifHealth, w.n)
	for i, k := range w.keys {
		st0[i] = w.vm.Health(k)
	}
	ord := len(r.calls)
	info := &callInfo{}
	ctx, cancel := r.mkCtx(op, info)
	cs := &callState{ord: ord, ep: -1, cancel: cancel, done: make(chan error, 1)}
	r.calls = append(r.calls, cs)
	ctype := byte(0)
	if op.OneWay {
		ctype = 1
	}
	go func() {
		var resp requestf.ResponsePacket
		cs.done <- w.sp.TarsInvoke(ctx, ctype, fmt.Sprintf("w%dc%d", w.id, ord), nil, nil, nil, &resp)
	}()
	var events []string
	var line string
	cls := "start"
	timeout := time.After(20 * time.Second)
	arrived := false
	var finished, sendErr bool
	oneWayArrived := false
	for !(arrived || finished) {
		select {
		case a := <-w.arrivals:
			if a.call == ord {
				if op.OneWay {
					oneWayArrived = true // a one-way call is over when TarsInvoke returns, not when its request arrives
					continue
				}
				arrived = true
				cs.ep = a.srv
			}
		case err := <-cs.done:
			finished = true
			sendErr = err != nil
		case <-timeout:
			r.broken = fmt.Sprintf("call %d neither reached a server nor returned within 20 s", ord)
			cancel()
			return
		}
	}
	probe := w.vm.ProbeQueueLen() < q0
	cs.probe = probe
	if finished {
		cancel()
		if info.host == "" {
			// no adapter selected
			r.post(s)
			if r.tainted {
				return
			}
			r.record(opi, fmt.Sprintf("start nil 0 %d", b01(op.OneWay)), []string{"none"})
			r.count("start", "start:no-endpoint")
			if len(w.vm.Registry()) > 0 {
				r.violate("no-endpoint", "SelectAdapterProxy", "the registry lists endpoints but the call failed outright: no endpoint was selected")
			}
			return
		}
		cs.ep = w.hostIdx[info.host]
		if sendErr {
			events = []string{fmt.Sprintf("picked:%d:%d", cs.ep, b01(probe)), fmt.Sprintf("fail:%d", cs.ep)}
			line = fmt.Sprintf("start %d 0 %d", cs.ep, b01(op.OneWay))
			cls = "start:send-failed"
		} else {
			// one-way call: returned success; its request still reaches the server
			events = []string{fmt.Sprintf("picked:%d:%d", cs.ep, b01(probe)), fmt.Sprintf("ok:%d", cs.ep)}
			line = fmt.Sprintf("start %d 1 1", cs.ep)
			cls = "start:oneway"
			t2 := time.After(20 * time.Second)
			for got := oneWayArrived; !got; {
				select {
				case a := <-w.arrivals:
					got = a.call == ord
				case <-t2:
					r.broken = fmt.Sprintf("one-way call %d never reached its server", ord)
					return
				}
			}
			if !op.OneWay {
				r.broken = "a two-way call returned success without an answer"
				return
			}
		}
	} else {
		cs.open = true
		events = []string{fmt.Sprintf("picked:%d:%d", cs.ep, b01(probe))}
		line = fmt.Sprintf("start %d 1 0", cs.ep)
		cls = "start:in-flight"
	}
	r.post(s)
	if r.tainted {
		return
	}
	ep := cs.ep
	if probe {
		cls += "+probe"
	} else if act0[ep] == 0 {
		cls += "+fallback"
	}
	r.record(opi, line, events)
	r.count("start", cls)

	// ---- oracle ----
	if !probe {
		for i := range w.keys {
			if r.grants[i] > r.probes[i] {
				r.violate("probe-starved", "SelectAdapterProxy", fmt.Sprintf("a probe candidate (endpoint %d) is waiting but the call was not used as its probe", i))
				break
			}
		}
	}
	if probe {
		r.probeRef[ep], r.probeRefSet[ep] = r.vnow, true
		if r.everProbe[ep] && r.vnow-r.lastProbe[ep] < propProbeEvery {
			r.violate("probe-burst", "SelectAdapterProxy", fmt.Sprintf("blocked endpoint %d was probed by two calls %d s apart (probe candidates are queued >= 30 s apart but consumed whenever the next call comes)", ep, r.vnow-r.lastProbe[ep]))
		}
		r.everProbe[ep], r.lastProbe[ep] = true, r.vnow
		r.probes[ep]++
		if r.probes[ep] > r.grants[ep] {
			r.violate("probe-not-single", "SelectAdapterProxy", fmt.Sprintf("endpoint %d: more probe calls (%d) than probe candidates queued (%d)", ep, r.probes[ep], r.grants[ep]))
		}
	} else if st0[ep].Exists && !st0[ep].Status && r.othersActive(ep, act0, st0) {
		r.violate("blocked-in-rotation", "SelectAdapterProxy", fmt.Sprintf("blocked endpoint %d received a normal (non-probe) call although another endpoint is active", ep))
	}
	if finished {
		if sendErr {
			r.noteFail(ep)
		} else {
			r.noteOk(ep)
		}
		h1 := w.vm.Health(w.keys[ep])
		if st0[ep].Exists && !st0[ep].Status && h1.Status {
			r.violate("unblocked-without-success", "doInvoke", fmt.Sprintf("endpoint %d went back to active without a successful two-way probe", ep))
		}
	}
}

func (r *runner) noteFail(ep int) {
	r.failsSince[ep]++
	r.streak[ep]++
}

func (r *runner) noteOk(ep int) {
	r.streak[ep] = 0
	r.everOk[ep], r.lastOk[ep] = true, r.vnow
}

func (r *runner) execFin(opi int, op Op) {
	w := r.w
	if op.Call < 0 || op.Call >= len(r.calls) || !r.calls[op.Call].open {
		r.c.Ops = r.c.Ops[:len(r.c.Ops)-1] // nothing to finish: not part of the history
		return
	}
	cs := r.calls[op.Call]
	ep := cs.ep
	s := r.sync()
	act0 := r.activeCounts()
	st0 := w.vm.Health(w.keys[ep])
	want := op.OK
	if want && !w.srv[ep].answer(cs.ord) {
		want = false // its connection is gone: the call can only fail
		r.c.Ops[opi].OK = false
	}
	if !want {
		cs.cancel()
	}
	var err error
	select {
	case err = <-cs.done:
	case <-time.After(20 * time.Second):
		r.broken = fmt.Sprintf("call %d did not return within 20 s of being answered/cancelled", cs.ord)
		return
	}
	cs.cancel()
	cs.open = false
	ok := err == nil
	if ok != want {
		// the environment did not do what the script wanted (e.g. the answer got lost): the history
		// continues with what really happened
		r.res.Histogram[fmt.Sprintf("env:unexpected-outcome-want-%v", want)]++
		r.c.Ops[opi].OK = ok
	}
	reinstated := true
	if ok && cs.probe {
		// the real code reinstates in a goroutine: wait for it (bounded)
		reinstated = false
		dl := time.Now().Add(3 * time.Second)
		for time.Now().Before(dl) {
			if r.activeCounts()[ep] > act0[ep] && w.vm.Health(w.keys[ep]).Status {
				reinstated = true
				break
			}
			time.Sleep(200 * time.Microsecond)
		}
	}
	if reinstated {
		// (when the wait above ran out, the second boundary it crossed is irrelevant: nothing
		// time-dependent is compared for a reinstatement that never came)
		r.post(s)
		if r.tainted {
			return
		}
	} else {
		r.lastR = time.Now().Unix() // the wait consumed real seconds; the case ends with the violation below
		r.tainted = true
	}
	act1 := r.activeCounts()
	h1 := w.vm.Health(w.keys[ep])
	var events []string
	cls := "fin:fail"
	if act1[ep] > act0[ep] {
		events = append(events, fmt.Sprintf("reinst:%d", ep))
	}
	if ok {
		events = append(events, fmt.Sprintf("ok:%d", ep))
		cls = "fin:ok"
	} else {
		events = append(events, fmt.Sprintf("fail:%d", ep))
	}
	if cs.probe {
		cls += "+probe"
	}
	if reinstated {
		r.record(opi, fmt.Sprintf("fin %d %d %d", ep, b01(cs.probe), b01(ok)), events)
		r.count("fin", cls)
	}

	// ---- oracle ----
	if ok {
		if cs.probe {
			if !reinstated || !(act1[ep] > 0 && h1.Status) {
				r.violate("not-reinstated", "doInvoke", fmt.Sprintf("the probe call on blocked endpoint %d succeeded but the endpoint is not back in rotation", ep))
			} else {
				r.failsSince[ep] = 0
				r.blockedByUs[ep] = false
			}
		} else if !st0.Status && h1.Status {
			r.violate("unblocked-without-success", "doInvoke", fmt.Sprintf("endpoint %d went back to active on a call that was not its probe", ep))
		}
		r.noteOk(ep)
	} else {
		r.noteFail(ep)
		if !st0.Status && (h1.Status || act1[ep] > act0[ep]) {
			r.violate("unblocked-without-success", "doInvoke", fmt.Sprintf("endpoint %d went back to active although the call on it failed", ep))
		}
	}
}

// ---- comparing a finished case with the model ----

func (r *runner) compare(m *common.Model) {
	if r.broken != "" {
		r.res.Fatal(optsOut, fmt.Errorf("%s (case %s, %d ops)", r.broken, r.c.Name, len(r.c.Ops)))
	}
	if r.tainted {
		r.res.Histogram["abandoned:wall-clock-second-boundary"]++
	}
	ans, err := m.Batch(r.lines)
	if err != nil {
		r.res.Fatal(optsOut, err)
	}
	for i := range r.lines {
		mc := canonModel(ans[i])
		if r.verbose {
			fmt.Printf("%-22s model: %s\n%-22s impl:  %s\n", r.lines[i], mc, "", r.impls[i])
		}
		if ans[i] == common.NoModel {
			continue
		}
		if mc != r.impls[i] {
			cs := r.c
			if r.opIdx[i] >= 0 {
				cs.Ops = append([]Op{}, r.c.Ops[:r.opIdx[i]+1]...)
			}
			r.res.Diverge(common.Case{Stream: "health", Op: cs, Model: mc, Impl: r.impls[i], Note: "first diverging step: " + r.lines[i]})
			return
		}
	}
}

var optsOut string

func main() {
	o := common.ParseOpts()
	optsOut = o.Out
	res := common.NewResult("C15", o)
	res.Streams = []string{"health"}
	rogger.SetLevel(rogger.OFF)
	tars.ServerConfigPath = "/nonexistent/verif-c15.conf" // keeps tars from parsing our command line
	tars.RegisterClientFilter(func(ctx context.Context, msg *tars.Message, invoke tars.Invoke, timeout time.Duration) error {
		err := invoke(ctx, msg, timeout)
		if info, ok := ctx.Value(ctxKey{}).(*callInfo); ok && msg.Adp != nil {
			info.host = msg.Adp.GetPoint().Host
		}
		return err
	})
	m, err := common.StartModel(o.Model, "health")
	if err != nil {
		res.Fatal(o.Out, err)
	}
	defer m.Close()

	if o.Replay != "" {
		var c Case
		if err := common.ReadReplay(o.Replay, &c); err != nil {
			res.Fatal(o.Out, err)
		}
		r, err := newRunner(c.N, c.Seed, c.Name, res)
		if err != nil {
			res.Fatal(o.Out, err)
		}
		r.verbose = true
		for _, op := range c.Ops {
			r.exec(op)
		}
		r.compare(m)
		r.close()
		if r.tainted {
			fmt.Println("note: the replay crossed a wall-clock second boundary and was cut short; run it again")
		}
	} else {
		generate(o, res, m)
	}
	res.Rule = "case = history over 2..5 registry endpoints of {start call (consistent-hash/round-robin/mod-hash, one-way or two-way), " +
		"answer or cancel an open call, advance d s (boundary-dense around 5/30/60), checkStatus, server up/down}; directed scenarios around every " +
		"threshold (incl. k failed probes in a row followed by recovery) plus random histories; every step compares events + full health records + activeEp + probe queue with the Lean model; " +
		"non-trivial = distinct (step kind, resulting state) other than pure time advances"
	if err := res.Write(o.Out); err != nil {
		fmt.Fprintln(os.Stderr, err)
		os.Exit(3)
	}
}

// ---- generators ----

type gen struct {
	r   *runner
	rng *rand.Rand
}

// shadowOwner predicts (for generator guidance only) which active endpoint the consistent-hash
// selector maps a code to.
func (g *gen) hashFor(target int) (uint32, bool) {
	act := g.r.activeCounts()
	if act[target] == 0 {
		return 0, false
	}
	ch := consistenthash.New(false, consistenthash.KetamaHash)
	var eps []endpoint.Endpoint
	for i, c := range act {
		if c > 0 {
			eps = append(eps, g.r.w.eps[i])
		}
	}
	ch.Refresh(eps)
	for try := 0; try < 400; try++ {
		h := g.rng.Uint32()
		if ep, ok := ch.FindInt32(h); ok && ep.Host == g.r.w.eps[target].Host {
			return h, true
		}
	}
	return 0, false
}

// callOn issues a two-way call aimed at endpoint target (if it is in rotation and no probe is
// pending) and finishes it at once. Returns the endpoint that actually got it (-1: none).
func (g *gen) callOn(target int, ok bool) int {
	h, found := g.hashFor(target)
	if !found {
		h = g.rng.Uint32()
	}
	return g.call(Op{K: "start", Sel: "con", Hash: h}, ok)
}

func (g *gen) call(start Op, ok bool) int {
	n0 := len(g.r.calls)
	g.r.exec(start)
	if len(g.r.calls) == n0 {
		return -1
	}
	cs := g.r.calls[n0]
	if cs.open {
		g.r.exec(Op{K: "fin", Call: cs.ord, OK: ok})
	}
	return cs.ep
}

var advSet = []int64{0, 1, 1, 2, 3, 4, 4, 5, 5, 6, 7, 10, 20, 24, 25, 26, 28, 29, 29, 30, 30, 31, 32, 35, 54, 55, 56, 58, 59, 60, 60, 61, 65, 90, 120}

func (g *gen) randomSteps(k int) {
	r, rng := g.r, g.rng
	failP := make([]float64, r.w.n)
	for i := range failP {
		failP[i] = []float64{0, 0, 0.1, 0.5, 0.9, 1}[rng.Intn(6)]
	}
	for i := 0; i < k && !r.tainted && r.broken == ""; i++ {
		x := rng.Intn(100)
		switch {
		case x < 45:
			op := Op{K: "start", Sel: "con", Hash: rng.Uint32(), OneWay: rng.Intn(12) == 0}
			switch rng.Intn(10) {
			case 0:
				op.Sel = "rr"
			case 1:
				op.Sel = "mod"
			}
			if op.Sel == "con" && rng.Intn(2) == 0 {
				if h, ok := g.hashFor(rng.Intn(r.w.n)); ok {
					op.Hash = h
				}
			}
			n0 := len(r.calls)
			r.exec(op)
			if len(r.calls) > n0 && r.calls[n0].open && rng.Intn(10) < 7 {
				cs := r.calls[n0]
				r.exec(Op{K: "fin", Call: cs.ord, OK: rng.Float64() >= failP[cs.ep]})
			}
		case x < 60:
			var open []*callState
			for _, c := range r.calls {
				if c.open {
					open = append(open, c)
				}
			}
			if len(open) > 0 {
				cs := open[rng.Intn(len(open))]
				r.exec(Op{K: "fin", Call: cs.ord, OK: rng.Float64() >= failP[cs.ep]})
			}
		case x < 78:
			r.exec(Op{K: "chk"})
		case x < 92:
			r.exec(Op{K: "adv", D: advSet[rng.Intn(len(advSet))]})
		case x < 97:
			ep := rng.Intn(r.w.n)
			r.exec(Op{K: "toggle", Ep: ep, Up: !r.w.srv[ep].isUp()})
		default:
			failP[rng.Intn(r.w.n)] = []float64{0, 0.1, 0.5, 0.9, 1}[rng.Intn(5)]
		}
	}
}

// scenario: directed prefix around one threshold, then random continuation.
func (g *gen) scenario(kind, rep int) {
	r, rng := g.r, g.rng
	n := r.w.n
	j := rng.Intn(n)
	pick := func(xs ...int64) int64 { return xs[rng.Intn(len(xs))] }
	// drive exactly `k` more failed calls onto j (others succeed)
	failsOn := func(k int, viaDown bool) {
		if viaDown {
			r.exec(Op{K: "toggle", Ep: j, Up: false})
		}
		for got, tries := 0, 0; got < k && tries < 40*k && !r.tainted && r.broken == ""; tries++ {
			if g.callOn(j, false) == j {
				got++
			} else {
				// a call that went elsewhere and was cancelled counts as a failure there; heal it
				// so that only j degrades
				for i := 0; i < n; i++ {
					if i != j {
						g.callOn(i, true)
					}
				}
			}
		}
		if viaDown {
			r.exec(Op{K: "toggle", Ep: j, Up: true})
		}
	}
	oksOn := func(ep, k int) {
		for got, tries := 0, 0; got < k && tries < 20*k+20 && !r.tainted && r.broken == ""; tries++ {
			if g.callOn(ep, true) == ep {
				got++
			}
		}
	}
	switch kind {
	case 0: // streak / interval boundary of the first rule (ratio kept below 1/2 by earlier successes)
		for i := 0; i < n; i++ {
			oksOn(i, 1)
		}
		// (consecutive failures, seconds since the last success) sweep the 3x3 grid around (5, 5)
		k := []int{4, 5, 6}[rep%3]
		gap := []int64{4, 5, 6}[(rep/3)%3]
		first := int64(rng.Intn(int(gap) + 1))
		oksOn(j, int(pick(8, 12, 16)))
		r.exec(Op{K: "adv", D: first})
		failsOn(k, rng.Intn(2) == 0)
		r.exec(Op{K: "adv", D: gap - first})
		r.exec(Op{K: "chk"})
		g.traffic(6)
	case 1: // ratio rule: failCount around overN, ratio around 1/2, streak below 5
		f := []int{1, 2, 3}[rep%3]
		okN := []int{0, 1, 2, 3, 4}[(rep/3)%5]
		for a, b := 0, 0; (a < f || b < okN) && !r.tainted && r.broken == ""; {
			if a < f && (b >= okN || rng.Intn(2) == 0) {
				failsOn(1, false)
				a++
			} else {
				oksOn(j, 1)
				b++
			}
		}
		r.exec(Op{K: "adv", D: pick(0, 1, 5)})
		r.exec(Op{K: "chk"})
		g.traffic(6)
	case 2: // probe gate: blocked, then 28..31 s, check, probe, outcome, again
		failsOn(int(pick(2, 5, 6)), true)
		r.exec(Op{K: "adv", D: pick(0, 5)})
		r.exec(Op{K: "chk"})
		if rng.Intn(3) == 0 {
			r.exec(Op{K: "toggle", Ep: j, Up: false}) // not connectable at probe time
		}
		for round := 0; round < 3; round++ {
			r.exec(Op{K: "adv", D: []int64{29, 30, 31, 30, 28}[(rep+round)%5]})
			r.exec(Op{K: "chk"})
			if rng.Intn(3) > 0 {
				g.call(Op{K: "start", Sel: "con", Hash: rng.Uint32()}, rng.Intn(2) == 0)
			}
			if rng.Intn(2) == 0 {
				r.exec(Op{K: "adv", D: pick(1, 2)})
				r.exec(Op{K: "chk"})
			}
			if !r.w.srv[j].isUp() && rng.Intn(2) == 0 {
				r.exec(Op{K: "toggle", Ep: j, Up: true})
			}
		}
		g.traffic(6)
	case 3: // everything blocked: fallback, then recovery
		for i := 0; i < n; i++ {
			r.exec(Op{K: "toggle", Ep: i, Up: false})
		}
		for i := 0; i < 6*n; i++ {
			g.call(Op{K: "start", Sel: []string{"con", "rr", "mod"}[rng.Intn(3)], Hash: rng.Uint32()}, false)
		}
		r.exec(Op{K: "adv", D: pick(4, 5, 6)})
		r.exec(Op{K: "chk"})
		for i := 0; i < 4; i++ {
			g.call(Op{K: "start", Sel: []string{"con", "rr", "mod"}[rng.Intn(3)], Hash: rng.Uint32()}, false)
		}
		for i := 0; i < n; i++ {
			if rng.Intn(3) > 0 {
				r.exec(Op{K: "toggle", Ep: i, Up: true})
			}
		}
		for i := 0; i < 3; i++ {
			g.call(Op{K: "start", Sel: "con", Hash: rng.Uint32()}, true)
		}
		r.exec(Op{K: "adv", D: pick(29, 30, 31)})
		r.exec(Op{K: "chk"})
		g.traffic(8)
	case 4: // sparse traffic: a queued probe candidate is consumed late (the probe-burst shape)
		failsOn(int(pick(2, 5)), false)
		r.exec(Op{K: "adv", D: 5})
		r.exec(Op{K: "chk"})
		r.exec(Op{K: "adv", D: 30})
		r.exec(Op{K: "chk"})
		r.exec(Op{K: "adv", D: pick(1, 15, 29)})
		g.call(Op{K: "start", Sel: "con", Hash: rng.Uint32()}, false)
		r.exec(Op{K: "adv", D: pick(1, 15, 30)})
		r.exec(Op{K: "chk"})
		g.call(Op{K: "start", Sel: "con", Hash: rng.Uint32()}, rng.Intn(2) == 0)
		g.traffic(4)
	case 5: // after a reinstatement: the 60 s statistics window restarts
		failsOn(5, false)
		r.exec(Op{K: "adv", D: 5})
		r.exec(Op{K: "chk"})
		r.exec(Op{K: "adv", D: 30})
		r.exec(Op{K: "chk"})
		g.call(Op{K: "start", Sel: "con", Hash: rng.Uint32()}, true) // probe succeeds
		failsOn(int(pick(1, 2, 3)), false)
		r.exec(Op{K: "adv", D: pick(1, 58, 59)})
		r.exec(Op{K: "chk"})
		r.exec(Op{K: "adv", D: pick(1, 2)})
		r.exec(Op{K: "chk"})
		g.traffic(4)
	case 7: // k failed probes in a row, then the server recovers: probing must keep happening
		failsOn(int(pick(2, 5)), false)
		r.exec(Op{K: "adv", D: 5})
		r.exec(Op{K: "chk"})
		k := 1 + rep%3
		for round := 0; round < k; round++ {
			if rep%4 == 3 && round == 0 { // not connectable at the first attempt
				r.exec(Op{K: "toggle", Ep: j, Up: false})
				r.exec(Op{K: "adv", D: pick(30, 31)})
				r.exec(Op{K: "chk"})
				r.exec(Op{K: "toggle", Ep: j, Up: true})
			}
			r.exec(Op{K: "adv", D: []int64{30, 31, 45}[(rep+round)%3]})
			r.exec(Op{K: "chk"})
			g.call(Op{K: "start", Sel: "con", Hash: rng.Uint32()}, false) // the probe; it fails
			if rng.Intn(2) == 0 {
				g.traffic(2)
			}
		}
		r.exec(Op{K: "adv", D: pick(29, 30, 30, 31)})
		r.exec(Op{K: "chk"})
		g.call(Op{K: "start", Sel: "con", Hash: rng.Uint32()}, true) // probe again: succeeds
		r.exec(Op{K: "adv", D: pick(1, 2)})
		r.exec(Op{K: "chk"})
		g.call(Op{K: "start", Sel: "con", Hash: rng.Uint32()}, true)
		g.traffic(6)
	case 6: // two probes in flight at once, one-way probe
		failsOn(5, false)
		r.exec(Op{K: "adv", D: 5})
		r.exec(Op{K: "chk"})
		r.exec(Op{K: "adv", D: 30})
		r.exec(Op{K: "chk"})
		n0 := len(r.calls)
		r.exec(Op{K: "start", Sel: "con", Hash: rng.Uint32(), OneWay: rng.Intn(3) == 0})
		r.exec(Op{K: "adv", D: 30})
		r.exec(Op{K: "chk"})
		r.exec(Op{K: "start", Sel: "con", Hash: rng.Uint32()})
		for k := n0; k < len(r.calls); k++ {
			r.exec(Op{K: "fin", Call: k, OK: rng.Intn(3) > 0})
		}
		r.exec(Op{K: "adv", D: pick(4, 5)})
		r.exec(Op{K: "chk"})
		g.traffic(6)
	}
}

func (g *gen) traffic(k int) {
	for i := 0; i < k; i++ {
		g.call(Op{K: "start", Sel: []string{"con", "con", "rr", "mod"}[g.rng.Intn(4)], Hash: g.rng.Uint32()}, g.rng.Intn(4) > 0)
	}
}

func generate(o *common.Opts, res *common.Result, m *common.Model) {
	rng := o.Rand()
	nScen, nRand, randLen := 15, 40, 60
	if o.Thorough() {
		nScen, nRand, randLen = 300, 3000, 100
	}
	runCase := func(name string, n int, body func(g *gen)) {
		seed := rng.Int63()
		r, err := newRunner(n, seed, name, res)
		if err != nil {
			res.Fatal(o.Out, err)
		}
		g := &gen{r: r, rng: rand.New(rand.NewSource(seed))}
		body(g)
		r.compare(m)
		r.close()
		res.Histogram["case:"+strings.SplitN(name, "#", 2)[0]]++
		if len(res.Samples) < 4 {
			b, _ := json.Marshal(r.c.Ops[:min(len(r.c.Ops), 12)])
			res.Sample(map[string]string{"case": name, "n": strconv.Itoa(n), "first_ops": string(b)})
		}
	}
	for rep := 0; rep < nScen; rep++ {
		for kind := 0; kind <= 7; kind++ {
			n := 2 + rng.Intn(3)
			if kind == 3 {
				n = 1 + rng.Intn(3)
			}
			k, rp := kind, rep
			runCase(fmt.Sprintf("scenario%d#%d", kind, rep), n, func(g *gen) {
				g.scenario(k, rp)
				g.randomSteps(15)
			})
		}
	}
	for i := 0; i < nRand; i++ {
		n := 1 + rng.Intn(5)
		runCase(fmt.Sprintf("random#%d", i), n, func(g *gen) { g.randomSteps(randLen) })
	}
}
