package main

// The world the real failover code runs in: scripted TCP servers on 127.0.0.1..127.0.0.n (the
// selectors key endpoints by host) that speak the Tars framing, hold every request until told to
// answer it, and can be taken down (connection refused) and brought back; a registry stub; one
// Communicator + the verif-tagged manager hook per case.

import (
	"context"
	"encoding/binary"
	"fmt"
	"io"
	"net"
	"strconv"
	"strings"
	"sync"
	"time"

	"github.com/TarsCloud/TarsGo/tars"
	"github.com/TarsCloud/TarsGo/tars/protocol/codec"
	"github.com/TarsCloud/TarsGo/tars/protocol/res/endpointf"
	"github.com/TarsCloud/TarsGo/tars/protocol/res/requestf"
	"github.com/TarsCloud/TarsGo/tars/registry"
	"github.com/TarsCloud/TarsGo/tars/util/endpoint"
)

type stubRegistry struct{ eps []endpointf.EndpointF }

func (s *stubRegistry) Registry(context.Context, *registry.ServantInstance) error   { return nil }
func (s *stubRegistry) Deregister(context.Context, *registry.ServantInstance) error { return nil }
func (s *stubRegistry) QueryServant(context.Context, string) ([]registry.Endpoint, []registry.Endpoint, error) {
	return append([]endpointf.EndpointF{}, s.eps...), nil, nil
}
func (s *stubRegistry) QueryServantBySet(ctx context.Context, id, _ string) ([]registry.Endpoint, []registry.Endpoint, error) {
	return s.QueryServant(ctx, id)
}

// arrival: a request reached a server.
type arrival struct {
	srv   int
	call  int // parsed from the function name "c<call>"
	reqID int32
}

type held struct {
	conn  net.Conn
	reqID int32
}

var worldSeq int

type server struct {
	world    int
	idx      int
	host     string
	port     int
	mu       sync.Mutex
	ln       net.Listener
	conns    map[net.Conn]struct{}
	held     map[int]held // call -> connection holding its request
	arrivals chan arrival
}

func (s *server) isUp() bool {
	s.mu.Lock()
	defer s.mu.Unlock()
	return s.ln != nil
}

func (s *server) up() error {
	var ln net.Listener
	var err error
	for try := 0; try < 20; try++ {
		ln, err = net.Listen("tcp", fmt.Sprintf("%s:%d", s.host, s.port))
		if err == nil {
			break
		}
		time.Sleep(5 * time.Millisecond)
	}
	if err != nil {
		return err
	}
	s.mu.Lock()
	s.ln = ln
	s.port = ln.Addr().(*net.TCPAddr).Port
	s.mu.Unlock()
	go func() {
		for {
			c, err := ln.Accept()
			if err != nil {
				return
			}
			s.mu.Lock()
			if s.ln != ln { // taken down meanwhile
				s.mu.Unlock()
				c.Close()
				return
			}
			s.conns[c] = struct{}{}
			s.mu.Unlock()
			go s.serve(c)
		}
	}()
	return nil
}

// down closes the listener and every accepted connection: new dials are refused, held requests
// can no longer be answered.
func (s *server) down() {
	s.mu.Lock()
	if s.ln != nil {
		s.ln.Close()
		s.ln = nil
	}
	for c := range s.conns {
		c.Close()
	}
	s.conns = map[net.Conn]struct{}{}
	s.held = map[int]held{}
	s.mu.Unlock()
}

func (s *server) serve(c net.Conn) {
	defer func() {
		s.mu.Lock()
		delete(s.conns, c)
		s.mu.Unlock()
		c.Close()
	}()
	for {
		var h [4]byte
		if _, err := io.ReadFull(c, h[:]); err != nil {
			return
		}
		n := int(binary.BigEndian.Uint32(h[:]))
		if n < 4 || n > 1<<20 {
			return
		}
		body := make([]byte, n-4)
		if _, err := io.ReadFull(c, body); err != nil {
			return
		}
		var req requestf.RequestPacket
		if err := req.ReadFrom(codec.NewReader(body)); err != nil {
			return
		}
		// function name = "w<world>c<call>"; anything else (a straggler of an earlier case whose
		// client re-dialled a reused port) is ignored
		call := -1
		if f := strings.SplitN(strings.TrimPrefix(req.SFuncName, "w"), "c", 2); len(f) == 2 && strings.HasPrefix(req.SFuncName, "w") {
			if wv, err := strconv.Atoi(f[0]); err == nil && wv == s.world {
				if v, err := strconv.Atoi(f[1]); err == nil {
					call = v
				}
			}
		}
		if call < 0 {
			continue
		}
		s.mu.Lock()
		s.held[call] = held{c, req.IRequestId}
		s.mu.Unlock()
		s.arrivals <- arrival{s.idx, call, req.IRequestId}
	}
}

// answer sends the success response of a held request; false if it can no longer be answered.
func (s *server) answer(call int) bool {
	s.mu.Lock()
	h, ok := s.held[call]
	delete(s.held, call)
	s.mu.Unlock()
	if !ok {
		return false
	}
	rsp := requestf.ResponsePacket{IVersion: 1, IRequestId: h.reqID}
	os := codec.NewBuffer()
	_ = os.WriteSliceInt8(make([]int8, 4))
	if err := rsp.WriteTo(os); err != nil {
		return false
	}
	bs := os.ToBytes()
	binary.BigEndian.PutUint32(bs, uint32(len(bs)))
	_, err := h.conn.Write(bs)
	return err == nil
}

func (s *server) canAnswer(call int) bool {
	s.mu.Lock()
	defer s.mu.Unlock()
	_, ok := s.held[call]
	return ok
}

type world struct {
	id       int
	n        int
	srv      []*server
	keys     []string // endpoint key per index
	eps      []endpoint.Endpoint
	idxOf    map[string]int // key -> index
	hostIdx  map[string]int
	arrivals chan arrival
	vm       *tars.VerifManager
	sp       *tars.ServantProxy
}

func newWorld(n int) (*world, error) {
	worldSeq++
	w := &world{id: worldSeq, n: n, idxOf: map[string]int{}, hostIdx: map[string]int{}, arrivals: make(chan arrival, 1024)}
	reg := &stubRegistry{}
	for i := 0; i < n; i++ {
		s := &server{world: w.id, idx: i, host: fmt.Sprintf("127.0.0.%d", i+1), conns: map[net.Conn]struct{}{}, held: map[int]held{}, arrivals: w.arrivals}
		if err := s.up(); err != nil {
			w.close()
			return nil, err
		}
		w.srv = append(w.srv, s)
		ef := endpointf.EndpointF{Host: s.host, Port: int32(s.port), Timeout: 3000, Istcp: 1}
		reg.eps = append(reg.eps, ef)
		ep := endpoint.Tars2endpoint(ef)
		w.eps = append(w.eps, ep)
		w.keys = append(w.keys, ep.Key)
		w.idxOf[ep.Key] = i
		w.hostIdx[s.host] = i
	}
	comm := tars.NewCommunicator(tars.Registrar(reg))
	vm, err := tars.VerifNewManager(comm, "App.Server.Obj")
	if err != nil {
		w.close()
		return nil, err
	}
	w.vm = vm
	w.sp = vm.Servant()
	w.sp.TarsSetTimeout(600000) // calls end when the script says so, not by the default 3 s timeout
	return w, nil
}

func (w *world) close() {
	for _, s := range w.srv {
		s.down()
	}
	if w.vm != nil {
		for _, k := range w.keys {
			w.vm.FreshClient(k) // closes the old transport client; the new one never dials
		}
	}
}
