// ctup06: the C06 clauses (no made-up data, truncation and mistyping rejected) for tup.UniAttribute.Decode.
package main

import "verifharness/tuprun"

func main() { tuprun.Launch("C06") }
