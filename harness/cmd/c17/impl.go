package main

import (
	"bytes"
	"encoding/hex"
	"encoding/xml"
	"fmt"
	"io"
	"sort"
	"strconv"
	"strings"

	"github.com/TarsCloud/TarsGo/tars/util/conf"
)

const defStr = "<def>"

func hexList(l []string, sorted bool) string {
	h := make([]string, len(l))
	for i, s := range l {
		h[i] = hx(s)
	}
	if sorted {
		sort.Strings(h)
	}
	return strings.Join(h, ",")
}

// answer: every getter of the real Conf on one path string, in the driver's format.
func answer(c *conf.Conf, path string) string {
	b := func(x bool) string {
		if x {
			return "1"
		}
		return "0"
	}
	m := c.GetMap(path)
	ms := make([]string, 0, len(m))
	for k, v := range m {
		ms = append(ms, hx(k)+":"+hx(v))
	}
	sort.Strings(ms)
	return "S=" + hx(c.GetStringWithDef(path, defStr)) +
		";D=" + hexList(c.GetDomain(path), true) +
		";K=" + hexList(c.GetDomainKey(path), true) +
		";L=" + hexList(c.GetDomainLine(path), false) +
		";M=" + strings.Join(ms, ",") +
		";I=" + strconv.Itoa(c.GetIntWithDef(path, -7)) +
		";J=" + strconv.Itoa(int(c.GetInt32WithDef(path, -7))) +
		";B=" + b(c.GetBoolWithDef(path, true)) + b(c.GetBoolWithDef(path, false))
}

// implRun: New() + InitFromBytes + all getters; "ok <answers>" | "error" | "panic".
// The parsed Conf is returned for the oracle (nil unless ok).
func implRun(input []byte, paths []string) (res string, c *conf.Conf, panicMsg string) {
	defer func() {
		if r := recover(); r != nil {
			res, c, panicMsg = "panic", nil, fmt.Sprint(r)
		}
	}()
	cf := conf.New()
	if err := cf.InitFromBytes(input); err != nil {
		return "error", nil, ""
	}
	out := make([]string, 0, len(paths)+1)
	out = append(out, "ok")
	for _, p := range paths {
		out = append(out, answer(cf, p))
	}
	return strings.Join(out, " "), cf, ""
}

// tok is one token of Go's xml.Decoder, reduced to what InitFromBytes looks at.
type tok struct {
	kind byte // S E C O
	s    string
}

// xmlTokens runs encoding/xml (same configuration as conf.go: xml.NewDecoder defaults) over the
// input: the tokens and whether the stream ended with a syntax error instead of io.EOF.
func xmlTokens(input []byte) (toks []tok, syntaxErr bool, panicked bool) {
	defer func() {
		if r := recover(); r != nil {
			panicked = true
		}
	}()
	d := xml.NewDecoder(bytes.NewReader(input))
	for {
		t, err := d.Token()
		if t == nil {
			return toks, err != io.EOF, false
		}
		switch x := t.(type) {
		case xml.StartElement:
			toks = append(toks, tok{'S', x.Name.Local})
		case xml.EndElement:
			toks = append(toks, tok{'E', x.Name.Local})
		case xml.CharData:
			toks = append(toks, tok{'C', string(x)})
		default:
			toks = append(toks, tok{'O', ""})
		}
	}
}

func tokWords(toks []tok) []string {
	w := make([]string, len(toks))
	for i, t := range toks {
		if t.kind == 'O' {
			w[i] = "O"
		} else {
			w[i] = string(t.kind) + hx(t.s)
		}
	}
	return w
}

func unhex(s string) []byte {
	if s == "-" || s == "" {
		return nil
	}
	b, err := hex.DecodeString(s)
	if err != nil {
		panic(err)
	}
	return b
}

// ---- the token-level reference used by the all-or-error oracle on arbitrary input ----

// refDomain: what the token stream says, per domain path (joined with "/"): lines that must be
// listed, keys with their last value, sub-domain names. Independent re-statement of the format
// (split on '\n', trim " \t\n" (and a '\r' left by a character reference), '#', first '=').
type refView struct {
	lines   map[string][]string
	keys    map[string]map[string]string
	subs    map[string]map[string]bool
	order   []string // domain paths in first-visit order
	clash   bool     // a key and a sub-domain of one domain share a name
	nested  bool     // the stream is well nested (never an end tag at depth 0)
	longest int      // longest line in bytes
}

func refOf(toks []tok) *refView {
	v := &refView{lines: map[string][]string{}, keys: map[string]map[string]string{}, subs: map[string]map[string]bool{}, nested: true}
	visit := func(p string) {
		if _, ok := v.keys[p]; !ok {
			v.keys[p] = map[string]string{}
			v.subs[p] = map[string]bool{}
			v.order = append(v.order, p)
		}
	}
	var stack []string
	cur := func() string { return strings.Join(stack, "/") }
	visit("")
	for _, t := range toks {
		switch t.kind {
		case 'S':
			p := cur()
			v.subs[p][t.s] = true
			if _, isKey := v.keys[p][t.s]; isKey {
				v.clash = true
			}
			stack = append(stack, t.s)
			visit(cur())
		case 'E':
			if len(stack) == 0 {
				v.nested = false
				return v
			}
			stack = stack[:len(stack)-1]
		case 'C':
			p := cur()
			for _, raw := range strings.Split(t.s, "\n") {
				if len(raw) > v.longest {
					v.longest = len(raw)
				}
				raw = strings.TrimSuffix(raw, "\r")
				line := strings.Trim(raw, " \t\n")
				if line == "" || line[0] == '#' {
					continue
				}
				v.lines[p] = append(v.lines[p], line)
				k, val := line, ""
				if i := strings.IndexByte(line, '='); i >= 0 {
					k, val = line[:i], strings.Trim(line[i+1:], " \t\n")
				}
				k = strings.Trim(k, " \t\n")
				if k == "" {
					continue
				}
				v.keys[p][k] = val
				if v.subs[p][k] {
					v.clash = true
				}
			}
		}
	}
	return v
}
