package main

import (
	"math/rand"
	"strings"
)

// ---- pools ----

var wsPool = []string{"", "", "", " ", "\t", "  ", " \t ", "\t\t", "        "}

// XML names without ':' (first: letter or '_'; then letters, digits, '.', '-', '_'), incl. non-ASCII
var domNames = []string{"a", "b", "tars", "application", "server", "client", "Srv.Obj-1Adapter", "_x", "A", "n0des",
	"é", "名字", "a.b.c", "x-y", "root", "k1", "Ünï"}

var keyNames = []string{"k", "k1", "k2", "node", "locator", "sample-rate", "a b", "a/b", "x>", ">x", "q>r", "k#1", "a\tb",
	"ключ", "鍵", "it's", `"q"`, "]]", "a.b", "async-invoke-timeout", "0", "-", "K", "endpoint", "allow", "x;y", "k]]x", "p%", "(", "~"}

var valPool = []string{"", "v", "v1", "tcp -h 127.0.0.1 -p 10015 -t 60000", "a=b", "=", "==x", "a = b = c", "x#y", "# not a comment",
	"/usr/local/app/tars/", "tars.tarsconfig.ConfigObj@tcp -h 10.0.0.1 -p 1  -t 5:tcp -h 10.0.0.2 -p 2", "値", "smörgås", "a>b", "a]]b", "]]", "\"q\"", "it's",
	"0", "1", "42", "-7", "+5", "007", "2147483647", "2147483648", "-2147483648", "-2147483649", "9223372036854775807", "9223372036854775808",
	"-9223372036854775808", "-9223372036854775809", "99999999999999999999", "1_000", "0x10", "1e3", "12a", "-", "+", "--1", "1 2",
	"true", "false", "T", "F", "t", "f", "TRUE", "FALSE", "True", "False", "tRUE", "yes", "Y", "N",
	"1.5", "-0.25", "1e10", "NaN", "Inf", "-inf", ".5", "5.", "1.5.2", "0x1p-2", "1e400", "Y", "15M"}

func pick(rng *rand.Rand, l []string) string { return l[rng.Intn(len(l))] }

func genLine(rng *rand.Rand, keys []string) Line {
	switch r := rng.Intn(20); {
	case r < 2:
		return Line{T: "b", Pre: pick(rng, wsPool)}
	case r < 4:
		txt := pick(rng, []string{"", " comment", "k=v", "#", " = ", "hello test", "ключ=値", "\t<- no, that would be a tag"})
		if strings.ContainsAny(txt, "<&") {
			txt = "plain"
		}
		return Line{T: "c", Pre: pick(rng, wsPool), Text: txt}
	}
	l := Line{T: "kv", Pre: pick(rng, wsPool), Key: pick(rng, keys), Mid: pick(rng, wsPool), Post: pick(rng, wsPool)}
	if rng.Intn(8) != 0 {
		l.HasVal = true
		l.W = pick(rng, wsPool)
		l.Val = pick(rng, valPool)
	}
	return l
}

func genText(rng *rand.Rand, keys []string, maxLines int) Item {
	n := rng.Intn(maxLines + 1)
	it := Item{}
	for i := 0; i < n; i++ {
		it.Lines = append(it.Lines, genLine(rng, keys))
	}
	it.Tail = pick(rng, wsPool)
	return it
}

// genItems: alternating text / domains; `keys` and `doms` are the name pools of this level (the
// caller keeps them disjoint unless a clash is wanted).
func genItems(rng *rand.Rand, depth int, keys, doms []string, maxLines int) []Item {
	var items []Item
	ndom := 0
	if depth > 0 {
		ndom = rng.Intn(4)
	}
	for i := 0; i <= ndom; i++ {
		t := genText(rng, keys, maxLines)
		if len(t.Lines) > 0 || t.Tail != "" {
			items = append(items, t)
		}
		if i < ndom {
			items = append(items, Item{Dom: true, Name: pick(rng, doms), Body: genItems(rng, depth-1, keys, doms, maxLines)})
		}
	}
	return items
}

// subset picks n distinct names.
func subset(rng *rand.Rand, pool []string, n int) []string {
	p := rng.Perm(len(pool))
	if n > len(pool) {
		n = len(pool)
	}
	out := make([]string, n)
	for i := 0; i < n; i++ {
		out[i] = pool[p[i]]
	}
	return out
}

// genDoc: a grammar document. Small name pools make duplicate keys and repeated (merged) domains
// frequent. Keys and domain names are kept disjoint (NoClash) unless clash is set.
func genDoc(rng *rand.Rand, clash bool) []Item {
	doms := subset(rng, domNames, 1+rng.Intn(4))
	var keys []string
	for _, k := range subset(rng, keyNames, 1+rng.Intn(6)) {
		keys = append(keys, k)
	}
	if clash {
		keys = append(keys, doms[0])
	} else {
		// remove accidental clashes (pools overlap on purpose: "k1", "root")
		var ks []string
		for _, k := range keys {
			dup := false
			for _, d := range doms {
				if d == k {
					dup = true
				}
			}
			if !dup {
				ks = append(ks, k)
			}
		}
		if len(ks) == 0 {
			ks = []string{"kk"}
		}
		keys = ks
	}
	depth := rng.Intn(5)
	return genItems(rng, depth, keys, doms, 5)
}

// withLongLine appends a domain holding a key whose line is about n bytes, followed by a witness key.
func withLongLine(rng *rand.Rand, base []Item, n int) []Item {
	long := Line{T: "kv", Key: "long", HasVal: true, Val: pick(rng, []string{"x", "ab", "é"}), Post: pick(rng, wsPool)}
	unit := len(long.Val)
	long.ValRep = (n - len("long=")) / unit
	if long.ValRep < 1 {
		long.ValRep = 1
	}
	body := []Item{{Lines: []Line{{T: "b"}, {T: "kv", Key: "before", HasVal: true, Val: "1"}, long,
		{T: "kv", Key: "after", HasVal: true, Val: "2"}, {T: "kv", Key: "after2", Mid: " ", HasVal: true, W: " ", Val: "3"}}}}
	if rng.Intn(2) == 0 {
		body = append(body, Item{Dom: true, Name: "sub", Body: []Item{{Lines: []Line{{T: "kv", Key: "s", HasVal: true, Val: "1"}}}}},
			Item{Lines: []Line{{T: "kv", Key: "tail", HasVal: true, Val: "4"}}})
	}
	return append(append([]Item{}, base...), Item{Dom: true, Name: "L", Body: body}, Item{Lines: []Line{{T: "b"}}})
}

// ---- malformed stream ----

// fragments inserted as separate lines into a rendered grammar document
var badFragments = []struct{ name, s string }{
	{"amp", "zz=x&y\n"},
	{"amp-alone", "&\n"},
	{"entity-ok", "zz=a&amp;b&#65;\n"},
	{"entity-unknown", "zz=&nbsp;\n"},
	{"lt-in-value", "zz=a<b\n"},
	{"lt-space", "zz=a < b\n"},
	{"gt-only", "zz=a>b\n"},
	{"unclosed-start", "<zzopen>\n"},
	{"stray-end", "</zzend>\n"},
	{"mismatched", "<zza>\nzz=1\n</zzb>\n"},
	{"balanced-extra", "<zzd>\nzz=1\n</zzd>\n"},
	{"attr", "<zzd a=\"1\" b='2'>\nzz=1\n</zzd>\n"},
	{"attr-bad", "<zzd a=1>\nzz=1\n</zzd>\n"},
	{"selfclose", "<zzd/>\n"},
	{"comment", "<!-- zz=1 -->\n"},
	{"comment-inline", "zz=1<!-- c -->2\n"},
	{"comment-unclosed", "<!-- zz=1 \n"},
	{"cdata", "<![CDATA[ zz=a<b&c ]]>\n"},
	{"cdata-inline", "zz=<![CDATA[a<b]]>\n"},
	{"cdata-unclosed", "<![CDATA[ zz=1 \n"},
	{"cdata-end", "zz=a]]>b\n"},
	{"procinst", "<?xml version=\"1.0\"?>\n"},
	{"directive", "<!DOCTYPE zz>\n"},
	{"colon-name", "<ns:zzd>\nzz=1\n</ns:zzd>\n"},
	{"ctrl-char", "zz=a\x01b\n"},
	{"bad-utf8", "zz=a\xffb\n"},
	{"nul", "zz=a\x00b\n"},
	{"cr-lines", "zz=1\r\nzy=2\rzx=3\r\n"},
	{"charref-cr", "zz=1&#13;\n"},
	{"lone-lt", "<\n"},
	{"lt-eof", "<"},
	{"empty-key", "=v\n = w\n"},
	{"vt-ff", "zz\v=\f1\n"},
	{"nbsp", "zz=\u00a0v\u00a0\n"},
	{"bom", "\ufeffzz=1\n"},
}

// lineStarts: offsets in the rendered document where a fragment can be inserted as its own
// line(s): the start and the position after every '\n'.
func lineStarts(b []byte) []int {
	out := []int{0}
	for i, c := range b {
		if c == '\n' {
			out = append(out, i+1)
		}
	}
	return out
}
