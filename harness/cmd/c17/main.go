// C17 harness: config parser (tars/util/conf). Correspondence of the real `conf` package with the
// Lean model (stream "conf"): grammar documents (render, Go's encoding/xml tokenisation of the
// rendered bytes against the model's `tokens d`, every getter on every domain/key path), token
// streams of malformed inputs; plus the property oracle evaluated on the implementation itself
// (complete and exact, or an error; never a panic).
package main

import (
	"fmt"
	"math/rand"
	"sort"
	"strconv"
	"strings"

	"github.com/TarsCloud/TarsGo/tars/util/conf"

	"verifharness/common"
)

// Op is one case (also the `case` of a replay file).
type Op struct {
	Kind  string   `json:"kind"`            // doc | bytes
	Class string   `json:"class,omitempty"` // generator class (histogram)
	Doc   []Item   `json:"doc,omitempty"`   // doc: the grammar document; bytes: the base document (may be empty)
	Frag  string   `json:"frag,omitempty"`  // bytes: name of the inserted fragment / mutation
	Hex   string   `json:"hex,omitempty"`   // bytes: the input
	Paths []string `json:"paths,omitempty"` // extra path strings (hex)
	NoOra bool     `json:"no_oracle,omitempty"`
}

type prepared struct {
	op    Op
	input []byte
	paths []string
	toks  []tok
	xmlEr bool
	line  string // model line
}

func capList(l []string, n int) []string {
	if len(l) > n {
		return l[:n]
	}
	return l
}

// pathsForDoc: deterministic list of path strings exercising every domain and key of the document.
func pathsForDoc(root *domain) []string {
	var dps []domPath
	root.walk(nil, &dps)
	paths := []string{"/", ""}
	for i, dp := range dps {
		if i >= 30 {
			break
		}
		p := pathOf(dp.names)
		if len(dp.names) > 0 {
			paths = append(paths, p)
			if i%2 == 0 {
				paths = append(paths, p+"/")
			}
			if i%5 == 0 {
				paths = append(paths, strings.TrimPrefix(p, "/"))
			}
		}
		last := dp.d.last()
		for j, k := range capList(sortedKeys(last), 12) {
			switch (i + j) % 3 {
			case 0:
				paths = append(paths, p+"<"+k+">")
			case 1:
				paths = append(paths, strings.TrimSuffix(p, "/")+"/<"+k+">")
			default:
				paths = append(paths, p+"<"+k+">", p+"<"+k)
			}
		}
		paths = append(paths, p+"<absent-key>", strings.TrimSuffix(p, "/")+"/absent-domain", strings.TrimSuffix(p, "/")+"/absent-domain<k>")
	}
	return paths
}

func pathsForBytes(v *refView) []string {
	paths := []string{"/", ""}
	for i, p := range v.order {
		if i >= 30 {
			break
		}
		ps := "/" + p
		if p != "" {
			paths = append(paths, ps)
		}
		ks := sortedKeys(v.keys[p])
		for _, k := range capList(ks, 12) {
			paths = append(paths, ps+"<"+k+">")
		}
	}
	return paths
}

func prepare(op Op) *prepared {
	p := &prepared{op: op}
	var words []string
	switch op.Kind {
	case "doc":
		p.input = renderDoc(op.Doc)
		root := newDomain()
		root.add(op.Doc)
		p.paths = pathsForDoc(root)
		words = []string{"doc", strconv.Itoa(len(op.Doc))}
		encode(op.Doc, &words)
	default:
		p.input = unhex(op.Hex)
	}
	p.toks, p.xmlEr, _ = xmlTokens(p.input)
	if op.Kind != "doc" {
		p.paths = pathsForBytes(refOf(p.toks))
		if len(op.Doc) > 0 {
			root := newDomain()
			root.add(op.Doc)
			p.paths = append(p.paths, pathsForDoc(root)...)
		}
		words = append([]string{"toks"}, tokWords(p.toks)...)
		if p.xmlEr {
			words = append(words, "err")
		} else {
			words = append(words, "eof")
		}
	}
	for _, h := range op.Paths {
		p.paths = append(p.paths, string(unhex(h)))
	}
	words = append(words, "Q")
	for _, q := range p.paths {
		words = append(words, hx(q))
	}
	p.line = strings.Join(words, " ")
	return p
}

// splitModel: parts of a model answer. doc: "render <hex> toks <tok>* end wf <b> canon <b> maxline <n> R <res> A <res>"
type modelAns struct {
	render   string
	toks     []string
	wf       string
	canon    string
	repaired string
	asFound  string
}

func canonRes(words []string) string {
	if len(words) == 0 {
		return "?"
	}
	if words[0] == "error" {
		return "error"
	}
	return strings.Join(words, " ")
}

func parseModel(ans string) (m modelAns, ok bool) {
	w := strings.Fields(ans)
	i := 0
	if len(w) > 0 && w[0] == "render" {
		if len(w) < 4 || w[2] != "toks" {
			return m, false
		}
		m.render = w[1]
		i = 3
		for i < len(w) && w[i] != "end" {
			m.toks = append(m.toks, w[i])
			i++
		}
		if i+7 > len(w) || w[i+1] != "wf" || w[i+3] != "canon" || w[i+5] != "maxline" {
			return m, false
		}
		m.wf, m.canon = w[i+2], w[i+4]
		i += 7
	}
	if i >= len(w) || w[i] != "R" {
		return m, false
	}
	j := i + 1
	for j < len(w) && w[j] != "A" {
		j++
	}
	if j >= len(w) {
		return m, false
	}
	m.repaired = canonRes(w[i+1 : j])
	m.asFound = canonRes(w[j+1:])
	return m, true
}

func short(s string) string {
	if len(s) > 600 {
		return s[:600] + fmt.Sprintf("…(%d bytes)", len(s))
	}
	return s
}

func main() {
	o := common.ParseOpts()
	res := common.NewResult("C17", o)
	res.Streams = []string{"conf"}
	rng := o.Rand()
	m, err := common.StartModel(o.Model, "conf")
	if err != nil {
		res.Fatal(o.Out, err)
	}
	defer m.Close()

	var ops []Op
	if o.Replay != "" {
		var c Op
		if err := common.ReadReplay(o.Replay, &c); err != nil {
			res.Fatal(o.Out, err)
		}
		ops = []Op{c}
	} else {
		ops = genOps(o, rng)
	}

	const B = 400
	for i := 0; i < len(ops); i += B {
		j := i + B
		if j > len(ops) {
			j = len(ops)
		}
		preps := make([]*prepared, j-i)
		lines := make([]string, j-i)
		for k := i; k < j; k++ {
			preps[k-i] = prepare(ops[k])
			lines[k-i] = preps[k-i].line
		}
		ans, err := m.Batch(lines)
		if err != nil {
			res.Fatal(o.Out, err)
		}
		for k := range preps {
			check(preps[k], ans[k], res, o.Replay != "")
		}
	}
	res.Rule = "cases = grammar documents (nested/merged domains, duplicate keys, blanks, comments, '=' in values, empty and missing " +
		"values, non-ASCII names, lines up to 200 KiB) rendered and parsed by the real conf package, every getter on every " +
		"domain/key path in several path spellings; malformed inputs = grammar documents with one inserted fragment " +
		"(&, <, unbalanced/mismatched tags, attributes, comments, CDATA, PI, control bytes, bad UTF-8), truncations, over-long " +
		"lines, random bytes, exhaustive short lines and path strings over small alphabets; non-trivial = distinct input " +
		"bytes with at least one key or domain or a tokenizer error"
	if err := res.Write(o.Out); err != nil {
		panic(err)
	}
}

func genOps(o *common.Opts, rng *rand.Rand) []Op {
	var ops []Op
	ndoc, nmal, nrand := 1200, 1500, 1500
	if o.Thorough() {
		ndoc, nmal, nrand = 20000, 25000, 30000
	}
	// 0. fixed documents: the repo's own test file shape, D7/D21 witnesses as grammar-adjacent inputs
	ops = append(ops, fixedOps()...)
	// 1. grammar documents
	for i := 0; i < ndoc; i++ {
		ops = append(ops, Op{Kind: "doc", Class: "doc", Doc: genDoc(rng, false)})
	}
	// 1b. the name-clash boundary (tie only: outside the grammar)
	for i := 0; i < ndoc/10; i++ {
		ops = append(ops, Op{Kind: "doc", Class: "doc-clash", Doc: genDoc(rng, true), NoOra: true})
	}
	// 1c. long lines around the bufio.Scanner default limit and beyond
	longs := []int{4095, 4096, 4097, 65534, 65535, 65536, 65537, 70000, 131072, 1<<20 + 7}
	if o.Thorough() {
		longs = append(longs, 65533, 65538, 100000, 200000, 262144, 1<<20 - 1, 1<<20, 4<<20 + 1)
	}
	for _, n := range longs {
		ops = append(ops, Op{Kind: "doc", Class: "doc-long", Doc: withLongLine(rng, genDoc(rng, false), n)})
	}
	// 2. malformed: one fragment inserted as its own line(s) into a grammar document
	for i := 0; i < nmal; i++ {
		d := genDoc(rng, false)
		b := renderDoc(d)
		fr := badFragments[i%len(badFragments)]
		st := lineStarts(b)
		at := st[rng.Intn(len(st))]
		in := append(append(append([]byte{}, b[:at]...), fr.s...), b[at:]...)
		ops = append(ops, Op{Kind: "bytes", Class: "frag", Frag: fr.name, Doc: d, Hex: hx(string(in))})
	}
	// 2b. truncations and byte mutations of grammar documents
	for i := 0; i < nmal/3; i++ {
		d := genDoc(rng, false)
		b := renderDoc(d)
		if len(b) == 0 {
			continue
		}
		switch rng.Intn(3) {
		case 0:
			ops = append(ops, Op{Kind: "bytes", Class: "truncate", Frag: "truncate", Hex: hx(string(b[:rng.Intn(len(b))]))})
		case 1:
			c := append([]byte{}, b...)
			mut := "<>&/=#\n \x00\xff]!-"
			c[rng.Intn(len(c))] = mut[rng.Intn(len(mut))]
			ops = append(ops, Op{Kind: "bytes", Class: "mutate", Frag: "mutate", Hex: hx(string(c))})
		default:
			c := append([]byte{}, b...)
			i, j := rng.Intn(len(c)), rng.Intn(len(c))
			if i > j {
				i, j = j, i
			}
			c = append(c[:i], c[j:]...)
			ops = append(ops, Op{Kind: "bytes", Class: "delete", Frag: "delete", Hex: hx(string(c))})
		}
	}
	// 2c. over-long raw lines (not produced by the grammar generator: no newline at the end, CR, inside nested domains)
	for _, n := range []int{65535, 65536, 70000} {
		long := strings.Repeat("y", n)
		for _, s := range []string{
			"<a>\nk1=v1\nk2=" + long + "\nk3=v3\n</a>\n",
			"<a>\nk1=v1\n" + long,
			"<a>\nk1=v1\n" + long + "\r\nk3=v3\n<b>\nk4=1\n</b>\nk5=5\n</a>",
			long + "=1\nk=2\n",
		} {
			ops = append(ops, Op{Kind: "bytes", Class: "long-raw", Frag: "long-line", Hex: hx(s)})
		}
	}
	// 3. random bytes over a tag-heavy alphabet, and uniformly random bytes
	alpha := []byte("<></ab=# \n\t&;!-[]?\"'\r\x00\xc3\xa9")
	for i := 0; i < nrand; i++ {
		n := rng.Intn(40)
		b := make([]byte, n)
		if i%4 == 0 {
			rng.Read(b)
		} else {
			for k := range b {
				b[k] = alpha[rng.Intn(len(alpha))]
			}
		}
		ops = append(ops, Op{Kind: "bytes", Class: "random", Frag: "random", Hex: hx(string(b))})
	}
	// 4. exhaustive: every line over a small alphabet inside one domain (line handling),
	//    every short path string over the path meta characters against a fixed document
	lineAlpha := []byte{' ', '\t', 'k', '=', '#', 'v'}
	maxLen := 5
	if o.Thorough() {
		maxLen = 6
	}
	var rec func(cur []byte)
	rec = func(cur []byte) {
		ops = append(ops, Op{Kind: "bytes", Class: "exh-line", Frag: "line", Hex: hx("<d>" + string(cur) + "\nz=1\n</d>")})
		if len(cur) == maxLen {
			return
		}
		for _, c := range lineAlpha {
			rec(append(cur, c))
		}
	}
	rec(nil)
	pathAlpha := []byte{'/', '<', '>', 'a', ' '}
	pmax := 5
	if o.Thorough() {
		pmax = 6
	}
	var paths []string
	var prec func(cur []byte)
	prec = func(cur []byte) {
		paths = append(paths, hx(string(cur)))
		if len(cur) == pmax {
			return
		}
		for _, c := range pathAlpha {
			prec(append(cur, c))
		}
	}
	prec(nil)
	pdoc := []Item{{Dom: true, Name: "a", Body: []Item{
		{Lines: []Line{{T: "kv", Key: "a", HasVal: true, Val: "1"}, {T: "kv", Key: "a a", HasVal: true, Val: "2"}, {T: "kv", Key: ">a", HasVal: true, Val: "3"}, {T: "kv", Key: "a>", HasVal: true, Val: "4"}, {T: "kv", Key: ">", HasVal: true, Val: "5"}}},
		{Dom: true, Name: "aa", Body: []Item{{Lines: []Line{{T: "kv", Key: "a", HasVal: true, Val: "6"}, {T: "kv", Key: "a/a", HasVal: true, Val: "7"}}}}},
	}}, {Lines: []Line{{T: "kv", Key: "a a", HasVal: true, Val: "8"}, {T: "kv", Key: "aa", HasVal: true, Val: "9"}}}}
	for i := 0; i < len(paths); i += 150 {
		j := i + 150
		if j > len(paths) {
			j = len(paths)
		}
		ops = append(ops, Op{Kind: "doc", Class: "exh-path", Doc: pdoc, Paths: paths[i:j]})
	}
	return ops
}

func fixedOps() []Op {
	raw := func(frag, s string) Op { return Op{Kind: "bytes", Class: "fixed", Frag: frag, Hex: hx(s)} }
	return []Op{
		raw("ok", "<a>\nk1=v1\nk2=v2\nk3=v3\n</a>\n"),
		raw("amp", "<a>\nk1=v1\nk2=x&y\nk3=v3\n</a>\n"),
		raw("lt-in-value", "<a>\nk1=v1\nk2=a<b\nk3=v3\n</a>\n"),
		raw("mismatched", "<a>\nk1=v1\n</b>\n"),
		raw("unclosed", "<a>\nk1=v1\nk2=v2\n"),
		raw("stray-end", "</root>"),
		raw("extra-end", "<a>\nk1=v1\n</a></a>"),
		raw("two-roots", "<taf>\n<application>\nx=1\n</application>\n</taf>\n\n<taf>\n<application>\nx=2\ny=3\n</application>\n</taf>\n"),
		raw("clash-key-first", "<a>\nb=1\n<b>\nx=1\n</b>\n</a>\n"),
		raw("clash-dom-first", "<a>\n<b>\nx=1\n</b>\nb=1\n</a>\n"),
		raw("empty", ""),
		raw("only-text", "k=v"),
	}
}

// ---------------------------------------------------------------------------------------------

func check(p *prepared, modelAns string, res *common.Result, verbose bool) {
	op := p.op
	impl, cf, panicMsg := implRun(p.input, p.paths)
	ref := refOf(p.toks)
	nontrivial := len(ref.order) > 1 || len(ref.keys[""]) > 0 || p.xmlEr
	class := op.Class
	if op.Kind == "bytes" && op.Class == "frag" {
		class = "frag:" + op.Frag
	}
	res.Count(string(p.input), class, nontrivial)
	res.Histogram["impl:"+strings.SplitN(impl, " ", 2)[0]]++
	if p.xmlEr {
		res.Histogram["xml:syntax-error"]++
	}
	if ref.longest >= 65536 {
		res.Histogram["line>=64KiB"]++
	}
	mk := func(note string) common.Case {
		return common.Case{Stream: "conf", Op: op, Model: short(modelAns), Impl: short(impl), Note: note}
	}

	// ---- correspondence ----
	if modelAns != common.NoModel {
		ma, ok := parseModel(modelAns)
		switch {
		case !ok:
			res.Diverge(mk("model answer not understood"))
		default:
			if op.Kind == "doc" {
				if ma.render != hx(string(p.input)) {
					res.Diverge(mk("render: the model renders the document differently from the harness"))
				}
				if ma.wf != "1" || (ma.canon != "1" && len(op.Doc) > 0) {
					res.Diverge(mk("generator emitted a document outside the grammar (wf=" + ma.wf + " canon=" + ma.canon + ")"))
				}
				// Go's encoding/xml tokenisation of the rendered bytes = the model's `tokens d`
				got := strings.Join(tokWords(p.toks), " ")
				if got != strings.Join(ma.toks, " ") || p.xmlEr {
					c := mk("encoding/xml tokenises the rendered document differently from the model's `tokens d`")
					c.Impl = short(got + fmt.Sprintf(" err=%v", p.xmlEr))
					c.Model = short(strings.Join(ma.toks, " "))
					res.Diverge(c)
				}
				res.TracesValidated++
			}
			if impl != ma.repaired {
				note := "conf package and model (repaired variant) disagree"
				if impl == ma.asFound {
					note += "; the implementation behaves like the as-found variant (D7/D21 not repaired in this tree)"
				}
				c := mk(note)
				c.Model, c.Impl = diffAt(ma.repaired, impl)
				res.Diverge(c)
			}
		}
	}
	if verbose {
		fmt.Printf("input (%d bytes): %q\nxml tokens: %s err=%v\nmodel: %s\nimpl:  %s\n", len(p.input), short(string(p.input)),
			short(strings.Join(tokWords(p.toks), " ")), p.xmlEr, short(modelAns), short(impl))
	}

	// ---- property oracle on the implementation ----
	viol := func(sig, what, note string) {
		res.Violate(common.Violation{Signature: sig, What: what, Case: mk(note)})
	}
	if impl == "panic" {
		viol("C17:panic:InitFromBytes", "InitFromBytes panics", panicMsg)
		return
	}
	if !ref.nested {
		viol("C17:not-well-nested:xml.Decoder", "encoding/xml returned an end element at depth 0 (assumption of the no-panic theorem)", "")
	}
	if op.NoOra {
		return
	}
	cause := "other"
	if p.xmlEr {
		cause = "Token"
	} else if ref.longest >= 65536 {
		cause = "Scanner"
	}
	if op.Kind == "doc" {
		// a grammar document must be accepted and represented completely and exactly
		if impl == "error" {
			viol("C17:valid-rejected:InitFromBytes", "a document of the config grammar is rejected", "")
			return
		}
		root := newDomain()
		root.add(op.Doc)
		if root.clash() {
			return
		}
		if sig, note := oracleDoc(cf, root, cause, false); sig != "" {
			viol(sig, "a document of the config grammar is not represented completely and exactly", note)
		}
		return
	}
	// arbitrary bytes: an error, or everything written is there
	if impl == "error" {
		return
	}
	// (a) the base document's keys and domains (the inserted fragment is a separate line)
	if len(op.Doc) > 0 {
		root := newDomain()
		root.add(op.Doc)
		if sig, note := oracleDoc(cf, root, cause, true); sig != "" {
			if p.xmlEr {
				// the structure after the point of the swallowed syntax error is arbitrary
				sig = "C17:silent-truncation:InitFromBytes.Token"
			}
			viol(sig, "InitFromBytes returned nil but part of the document is not retrievable", note)
			return
		}
	}
	// (b) every line of every text the tokenizer delivered must be listed, every key retrievable
	if !ref.clash {
		if sig, note := oracleRef(cf, ref, cause); sig != "" {
			viol(sig, "InitFromBytes returned nil but part of the document is not retrievable", note)
			return
		}
	}
	// (c) the tokenizer reported a syntax error: success means the rest of the input was dropped silently
	if p.xmlEr {
		viol("C17:error-swallowed:InitFromBytes.Token", "encoding/xml reports a syntax error, InitFromBytes returns nil (the rest of the input is ignored)", "")
	}
}

func diffAt(a, b string) (string, string) {
	i := 0
	for i < len(a) && i < len(b) && a[i] == b[i] {
		i++
	}
	s := i - 80
	if s < 0 {
		s = 0
	}
	return fmt.Sprintf("@%d …%s", i, short(a[s:])), fmt.Sprintf("@%d …%s", i, short(b[s:]))
}

// missing: some wanted element is not in got
func missing(got, want []string) bool {
	g := map[string]bool{}
	for _, x := range got {
		g[x] = true
	}
	for _, x := range want {
		if !g[x] {
			return true
		}
	}
	return false
}

func sameSet(got []string, want []string) bool {
	g := append([]string{}, got...)
	w := append([]string{}, want...)
	sort.Strings(g)
	sort.Strings(w)
	if len(g) != len(w) {
		return false
	}
	for i := range g {
		if g[i] != w[i] {
			return false
		}
	}
	return true
}

func q(s string) string {
	if len(s) > 60 {
		return fmt.Sprintf("%q…(%d bytes)", s[:60], len(s))
	}
	return fmt.Sprintf("%q", s)
}

// oracleDoc: what the property demands of a parsed grammar document, from the Doc alone.
// With subset set (the document had a fragment inserted as separate lines) only the presence and
// values of what the base document wrote are demanded, not the absence of anything else.
func oracleDoc(c *conf.Conf, root *domain, cause string, subset bool) (sig, note string) {
	var dps []domPath
	root.walk(nil, &dps)
	loss := "C17:silent-truncation:InitFromBytes." + cause
	for _, dp := range dps {
		p := pathOf(dp.names)
		last := dp.d.last()
		// listings
		var subs []string
		for n := range dp.d.subs {
			subs = append(subs, n)
		}
		if got := c.GetDomain(p); !sameSet(got, subs) {
			if missing(got, subs) {
				return loss, fmt.Sprintf("GetDomain(%s) = %q, written sub-domains %q", q(p), got, subs)
			}
			if !subset {
				return "C17:wrong-listing:GetDomain", fmt.Sprintf("GetDomain(%s) = %q, written sub-domains %q", q(p), got, subs)
			}
		}
		if got := c.GetDomainKey(p); !sameSet(got, sortedKeys(last)) {
			if missing(got, sortedKeys(last)) {
				return loss, fmt.Sprintf("GetDomainKey(%s) has %d keys, %d written", q(p), len(got), len(last))
			}
			if !subset {
				return "C17:wrong-listing:GetDomainKey", fmt.Sprintf("GetDomainKey(%s) = %q, written %q", q(p), got, sortedKeys(last))
			}
		}
		m := c.GetMap(p)
		for k, v := range last {
			got, ok := m[k]
			if !ok {
				return loss, fmt.Sprintf("GetMap(%s) lacks key %s", q(p), q(k))
			}
			if got != v {
				return "C17:wrong-value:GetMap", fmt.Sprintf("GetMap(%s)[%s] = %s, written %s", q(p), q(k), q(got), q(v))
			}
		}
		if len(m) != len(last) && !subset {
			return "C17:wrong-listing:GetMap.extra", fmt.Sprintf("GetMap(%s) has %d entries, %d written", q(p), len(m), len(last))
		}
		gl := c.GetDomainLine(p)
		if subset {
			// the written lines must appear in order (other lines may be interleaved)
			i := 0
			for _, l := range gl {
				if i < len(dp.d.lines) && l == dp.d.lines[i] {
					i++
				}
			}
			if i < len(dp.d.lines) {
				return loss, fmt.Sprintf("GetDomainLine(%s) lacks the written line %s", q(p), q(dp.d.lines[i]))
			}
			gl = dp.d.lines
		}
		if len(gl) < len(dp.d.lines) {
			return loss, fmt.Sprintf("GetDomainLine(%s) has %d lines, %d written", q(p), len(gl), len(dp.d.lines))
		}
		if len(gl) != len(dp.d.lines) {
			return "C17:wrong-listing:GetDomainLine", fmt.Sprintf("GetDomainLine(%s) has %d lines, %d written", q(p), len(gl), len(dp.d.lines))
		}
		for i := range gl {
			if gl[i] != dp.d.lines[i] {
				return "C17:wrong-listing:GetDomainLine", fmt.Sprintf("GetDomainLine(%s)[%d] = %s, written %s", q(p), i, q(gl[i]), q(dp.d.lines[i]))
			}
		}
		// values and typed getters through path strings
		for k, v := range last {
			if !addressableKey(k) {
				continue
			}
			for _, ps := range []string{p + "<" + k + ">", strings.TrimSuffix(p, "/") + "/<" + k + ">"} {
				if got := c.GetStringWithDef(ps, defStr); got != v {
					if got == defStr {
						return loss, fmt.Sprintf("GetString(%s) not found, written %s", q(ps), q(v))
					}
					return "C17:wrong-value:GetString", fmt.Sprintf("GetString(%s) = %s, written %s", q(ps), q(got), q(v))
				}
				if s := typedOracle(c, ps, v, true); s != "" {
					return s, fmt.Sprintf("typed getter on %s (value %s)", q(ps), q(v))
				}
			}
		}
		// absent key, absent domain: the supplied default / empty listings
		ak := p + "<absent-key>"
		if _, ok := last["absent-key"]; !ok {
			if c.GetStringWithDef(ak, defStr) != defStr || c.GetString(ak) != "" {
				return "C17:wrong-default:GetStringWithDef", "absent key " + q(ak)
			}
			if s := typedOracle(c, ak, "", false); s != "" {
				return s, "absent key " + q(ak)
			}
		}
		if _, ok := dp.d.subs["absent-domain"]; !ok {
			ad := strings.TrimSuffix(p, "/") + "/absent-domain"
			if _, isKey := last["absent-domain"]; !isKey {
				if len(c.GetDomain(ad)) != 0 || len(c.GetDomainKey(ad)) != 0 || len(c.GetDomainLine(ad)) != 0 || len(c.GetMap(ad)) != 0 {
					return "C17:wrong-listing:absent-domain", "listing of the absent domain " + q(ad) + " is not empty"
				}
			}
		}
	}
	return "", ""
}

// typedOracle: GetInt/GetInt32/GetBool/GetFloat…WithDef return the strconv value of the written
// string, or the supplied default when the key is absent or the value malformed.
func typedOracle(c *conf.Conf, path, v string, present bool) string {
	for _, d := range []int{-7, 123456} {
		want := d
		if n, err := strconv.Atoi(v); present && err == nil {
			want = n
		}
		if c.GetIntWithDef(path, d) != want {
			return "C17:wrong-value:GetIntWithDef"
		}
	}
	wantI := 0
	if n, err := strconv.Atoi(v); present && err == nil {
		wantI = n
	}
	if c.GetInt(path) != wantI {
		return "C17:wrong-value:GetInt"
	}
	for _, d := range []int32{-7, 99} {
		want := d
		if n, err := strconv.ParseInt(v, 10, 32); present && err == nil {
			want = int32(n)
		}
		if c.GetInt32WithDef(path, d) != want {
			return "C17:wrong-value:GetInt32WithDef"
		}
	}
	for _, d := range []bool{true, false} {
		want := d
		if b, err := strconv.ParseBool(v); present && err == nil {
			want = b
		}
		if c.GetBoolWithDef(path, d) != want {
			return "C17:wrong-value:GetBoolWithDef"
		}
	}
	for _, d := range []float64{-7.5, 0} {
		want := d
		if f, err := strconv.ParseFloat(v, 64); present && err == nil {
			want = f
		}
		got := c.GetFloatWithDef(path, d)
		if got != want && !(got != got && want != want) {
			return "C17:wrong-value:GetFloatWithDef"
		}
	}
	return ""
}

// oracleRef: on arbitrary input that InitFromBytes accepted, every line and key of every text the
// tokenizer delivered must be retrievable (reference computed from the token stream by refOf).
func oracleRef(c *conf.Conf, v *refView, cause string) (sig, note string) {
	loss := "C17:silent-truncation:InitFromBytes." + cause
	for _, p := range v.order {
		ps := "/" + p
		gl := c.GetDomainLine(ps)
		want := v.lines[p]
		if len(gl) < len(want) {
			return loss, fmt.Sprintf("GetDomainLine(%s) has %d lines, the text has %d", q(ps), len(gl), len(want))
		}
		if len(gl) != len(want) {
			return "C17:wrong-listing:GetDomainLine", fmt.Sprintf("GetDomainLine(%s) has %d lines, the text has %d", q(ps), len(gl), len(want))
		}
		for i := range gl {
			if gl[i] != want[i] {
				return "C17:wrong-listing:GetDomainLine", fmt.Sprintf("GetDomainLine(%s)[%d] = %s, text %s", q(ps), i, q(gl[i]), q(want[i]))
			}
		}
		m := c.GetMap(ps)
		for k, val := range v.keys[p] {
			got, ok := m[k]
			if !ok {
				return loss, fmt.Sprintf("GetMap(%s) lacks key %s", q(ps), q(k))
			}
			if got != val {
				return "C17:wrong-value:GetMap", fmt.Sprintf("GetMap(%s)[%s] = %s, text %s", q(ps), q(k), q(got), q(val))
			}
		}
		var subs []string
		for n := range v.subs[p] {
			subs = append(subs, n)
		}
		if got := c.GetDomain(ps); !sameSet(got, subs) {
			if len(got) < len(subs) {
				return loss, fmt.Sprintf("GetDomain(%s) = %q, written %q", q(ps), got, subs)
			}
			return "C17:wrong-listing:GetDomain", fmt.Sprintf("GetDomain(%s) = %q, written %q", q(ps), got, subs)
		}
	}
	return "", ""
}
