package main

import (
	"encoding/hex"
	"sort"
	"strconv"
	"strings"
)

// Line / Item mirror Model/Conf.lean's `Line`, `Text`, `Item` (DESIGN.md Appendix C).
type Line struct {
	T      string `json:"t"` // kv | c | b
	Pre    string `json:"pre,omitempty"`
	Key    string `json:"key,omitempty"`
	Mid    string `json:"mid,omitempty"`
	HasVal bool   `json:"hasval,omitempty"`
	W      string `json:"w,omitempty"`
	Val    string `json:"val,omitempty"`
	ValRep int    `json:"valrep,omitempty"` // >0: the value is Val repeated ValRep times (long lines)
	Post   string `json:"post,omitempty"`
	Text   string `json:"text,omitempty"` // comment text after '#'
}

type Item struct {
	Dom   bool   `json:"dom,omitempty"`
	Name  string `json:"name,omitempty"`
	Body  []Item `json:"body,omitempty"`
	Lines []Line `json:"lines,omitempty"`
	Tail  string `json:"tail,omitempty"`
}

func (l Line) value() string {
	if l.ValRep > 0 {
		return strings.Repeat(l.Val, l.ValRep)
	}
	return l.Val
}

func (l Line) text() string {
	switch l.T {
	case "kv":
		s := l.Pre + l.Key + l.Mid
		if l.HasVal {
			s += "=" + l.W + l.value()
		}
		return s + l.Post
	case "c":
		return l.Pre + "#" + l.Text
	}
	return l.Pre
}

// listed: the line as GetDomainLine must list it (surrounding blanks removed), "" for none.
func (l Line) listed() (string, bool) {
	if l.T != "kv" {
		return "", false
	}
	if !l.HasVal {
		return l.Key, true
	}
	v := l.value()
	if v == "" {
		return l.Key + l.Mid + "=", true
	}
	return l.Key + l.Mid + "=" + l.W + v, true
}

func render(items []Item, b *strings.Builder) {
	for _, it := range items {
		if it.Dom {
			b.WriteString("<" + it.Name + ">")
			render(it.Body, b)
			b.WriteString("</" + it.Name + ">")
			continue
		}
		for _, l := range it.Lines {
			b.WriteString(l.text())
			b.WriteByte('\n')
		}
		b.WriteString(it.Tail)
	}
}

func renderDoc(items []Item) []byte {
	var b strings.Builder
	render(items, &b)
	return []byte(b.String())
}

func hx(s string) string {
	if s == "" {
		return "-"
	}
	return hex.EncodeToString([]byte(s))
}

// encode: the driver's word encoding of a document.
func encode(items []Item, w *[]string) {
	for _, it := range items {
		if it.Dom {
			*w = append(*w, "D", hx(it.Name), strconv.Itoa(len(it.Body)))
			encode(it.Body, w)
			continue
		}
		*w = append(*w, "T", strconv.Itoa(len(it.Lines)))
		for _, l := range it.Lines {
			switch l.T {
			case "kv":
				if l.HasVal {
					*w = append(*w, "K", hx(l.Pre), hx(l.Key), hx(l.Mid), "1", hx(l.W), hx(l.value()), hx(l.Post))
				} else {
					*w = append(*w, "K", hx(l.Pre), hx(l.Key), hx(l.Mid), "0", hx(l.Post))
				}
			case "c":
				*w = append(*w, "C", hx(l.Pre), hx(l.Text))
			default:
				*w = append(*w, "B", hx(l.Pre))
			}
		}
		*w = append(*w, hx(it.Tail))
	}
}

// ---- what a document says (the oracle's view, computed from the Doc alone) ----

type kv struct{ k, v string }

type domain struct {
	entries []kv     // in document order
	lines   []string // listed lines in document order
	subs    map[string]*domain
	subSeq  []string
}

func newDomain() *domain { return &domain{subs: map[string]*domain{}} }

func (d *domain) add(items []Item) {
	for _, it := range items {
		if it.Dom {
			s, ok := d.subs[it.Name]
			if !ok {
				s = newDomain()
				d.subs[it.Name] = s
				d.subSeq = append(d.subSeq, it.Name)
			}
			s.add(it.Body)
			continue
		}
		for _, l := range it.Lines {
			if ls, ok := l.listed(); ok {
				d.lines = append(d.lines, ls)
				d.entries = append(d.entries, kv{l.Key, l.value()})
			}
		}
	}
}

func (d *domain) last() map[string]string {
	m := map[string]string{}
	for _, e := range d.entries {
		m[e.k] = e.v
	}
	return m
}

// clash: some (merged) domain has a key and a sub-domain of the same name.
func (d *domain) clash() bool {
	for _, e := range d.entries {
		if _, ok := d.subs[e.k]; ok {
			return true
		}
	}
	for _, s := range d.subs {
		if s.clash() {
			return true
		}
	}
	return false
}

type domPath struct {
	names []string
	d     *domain
}

func (d *domain) walk(prefix []string, out *[]domPath) {
	*out = append(*out, domPath{append([]string{}, prefix...), d})
	names := append([]string{}, d.subSeq...)
	sort.Strings(names)
	for _, n := range names {
		d.subs[n].walk(append(prefix, n), out)
	}
}

func sortedKeys(m map[string]string) []string {
	ks := make([]string, 0, len(m))
	for k := range m {
		ks = append(ks, k)
	}
	sort.Strings(ks)
	return ks
}

// addressable: a path string can spell this key (`/dom<key>`): non-empty, no '/', no '<', no '>'
// at either end. Other keys are reachable through GetMap / GetDomainKey only.
func addressableKey(k string) bool {
	return k != "" && !strings.ContainsAny(k, "/<") && k[0] != '>' && k[len(k)-1] != '>'
}

func pathOf(names []string) string { return "/" + strings.Join(names, "/") }
