// C18 harness: endpoint strings. Correspondence of endpoint.Parse / Endpoint.String /
// Tars2endpoint / Endpoint2tars (and of the Go standard-library functions the model re-implements:
// strings.Fields, strconv.ParseInt(s, 0, 64), %d) with the Lean model (stream "endpoint"), plus the
// property oracle evaluated on the implementation itself: values demanded by the generating
// description, defaults, weight normalisation, convert round trip, key equality, no panic.
package main

import (
	"encoding/hex"
	"fmt"
	"math"
	"math/rand"
	"os"
	"runtime"
	"strconv"
	"strings"

	"github.com/TarsCloud/TarsGo/tars/protocol/res/endpointf"
	"github.com/TarsCloud/TarsGo/tars/util/endpoint"

	"verifharness/common"
)

// ---------------------------------------------------------------------------------------------
// operations

type item struct {
	Kind string `json:"kind"`          // one of h p t g q w v e b
	Form string `json:"form"`          // p: -x v   d: --x v   e: -x=v   f: --x=v
	Sep  string `json:"sep"`           // blanks before the option
	Sep2 string `json:"sep2"`          // blanks between flag and value (forms p, d)
	Str  string `json:"str,omitempty"` // value of h, b
	Int  int64  `json:"int,omitempty"` // value of the others
}

type desc struct {
	Proto string `json:"proto"`
	Items []item `json:"items"`
	Trail string `json:"trail"`
}

type epf struct {
	Host                                                           string
	Port, Timeout, Istcp, Grid, Qos, Weight, WeightType, AuthType int32
	SetId                                                          string
	Proto, Bind                                                    string // only for e2t
}

// op is one case. Exactly one of the payloads is used, by Kind.
type op struct {
	Kind  string `json:"kind"`            // parse | desc | fields | atoi | fmt | conv | variant
	Class string `json:"class,omitempty"` // generator class (histogram)
	Hex   string `json:"hex,omitempty"`   // parse, fields, atoi: the input string, hex
	Text  string `json:"text,omitempty"`  // the same, quoted, for the reader (not used)
	Desc  *desc  `json:"desc,omitempty"`
	Int   int64  `json:"int,omitempty"` // fmt
	F     *epf   `json:"f,omitempty"`   // conv
	Mgr   *mcase `json:"mgr,omitempty"` // mgr (stream mgr, see mgr.go)
	Conc  *ccase `json:"conc,omitempty"` // conc (stream conc, see conc.go)
}

func hx(s string) string { return common.Hex([]byte(s)) }

func unhex(s string) string {
	if s == "-" || s == "" {
		return ""
	}
	b, err := hex.DecodeString(s)
	if err != nil {
		panic(err)
	}
	return string(b)
}

var letters = map[string]bool{"h": true, "p": true, "t": true, "g": true, "q": true, "w": true, "v": true, "e": true, "b": true}

func (it item) text() string {
	if it.Kind == "h" || it.Kind == "b" {
		return it.Str
	}
	return strconv.FormatInt(it.Int, 10)
}

// render mirrors `Tars.Endpoint.render` (the model renders the same description; the two strings
// are compared, so that the theorems' `render` is the generator's).
func (d *desc) render() string {
	var b strings.Builder
	b.WriteString(d.Proto)
	for _, it := range d.Items {
		b.WriteString(it.Sep)
		if it.Form == "d" || it.Form == "f" {
			b.WriteString("--")
		} else {
			b.WriteString("-")
		}
		b.WriteString(it.Kind)
		if it.Form == "e" || it.Form == "f" {
			b.WriteString("=")
		} else {
			b.WriteString(it.Sep2)
		}
		b.WriteString(it.text())
	}
	b.WriteString(d.Trail)
	return b.String()
}

func (d *desc) line() string {
	var b strings.Builder
	fmt.Fprintf(&b, "desc %s %s", d.Proto, hx(d.Trail))
	for _, it := range d.Items {
		v := ""
		if it.Kind == "h" || it.Kind == "b" {
			v = hx(it.Str)
		} else {
			v = strconv.FormatInt(it.Int, 10)
		}
		s2 := it.Sep2
		if it.Form == "e" || it.Form == "f" {
			s2 = ""
		}
		fmt.Fprintf(&b, " %s:%s:%s:%s:%s", it.Kind, it.Form, hx(it.Sep), hx(s2), v)
	}
	return b.String()
}

func (o op) line() string {
	switch o.Kind {
	case "variant":
		return "variant"
	case "parse":
		return "parse " + o.Hex
	case "fields":
		return "fields " + o.Hex
	case "atoi":
		return "atoi " + o.Hex
	case "fmt":
		return "fmt " + strconv.FormatInt(o.Int, 10)
	case "desc":
		return o.Desc.line()
	case "conv":
		f := o.F
		return fmt.Sprintf("t2e %s %d %d %d %d %d %d %d %d %s", hx(f.Host), f.Port, f.Timeout, f.Istcp, f.Grid, f.Qos,
			f.Weight, f.WeightType, f.AuthType, hx(f.SetId))
	case "mgr", "conc":
		return "variant"
	case "conv2":
		f := o.F
		return fmt.Sprintf("e2t %s %d %d %d %d %d %d %d %d %s %s %s", hx(f.Host), f.Port, f.Timeout, f.Istcp, f.Grid, f.Qos,
			f.Weight, f.WeightType, f.AuthType, hx(f.Proto), hx(f.Bind), hx(f.SetId))
	}
	return "bad"
}

// ---------------------------------------------------------------------------------------------
// the implementation

func showEndpoint(e endpoint.Endpoint) string {
	return fmt.Sprintf("host=%s port=%d timeout=%d istcp=%d grid=%d qos=%d weight=%d wtype=%d auth=%d proto=%s bind=%s setid=%s key=%s",
		hx(e.Host), e.Port, e.Timeout, e.Istcp, e.Grid, e.Qos, e.Weight, e.WeightType, e.AuthType, hx(e.Proto), hx(e.Bind),
		hx(e.SetId), hx(e.Key))
}

func showF(f endpointf.EndpointF) string {
	return fmt.Sprintf("host=%s port=%d timeout=%d istcp=%d grid=%d qos=%d weight=%d wtype=%d auth=%d setid=%s",
		hx(f.Host), f.Port, f.Timeout, f.Istcp, f.Grid, f.Qos, f.Weight, f.WeightType, f.AuthType, hx(f.SetId))
}

// implParse runs the real endpoint.Parse. Result: "ok <endpoint>" or "panic"; panicClass names the
// kind of panic for the violation signature.
func implParse(s string) (out string, e endpoint.Endpoint, panicClass string) {
	defer func() {
		if r := recover(); r != nil {
			out = "panic"
			panicClass = "panic-other"
			if re, ok := r.(runtime.Error); ok && strings.Contains(re.Error(), "slice bounds out of range") {
				panicClass = "panic-slice-bounds"
			} else if ok && strings.Contains(re.Error(), "index out of range") {
				panicClass = "panic-index"
			}
		}
	}()
	e = endpoint.Parse(s)
	return "ok " + showEndpoint(e), e, ""
}

func guard(f func() string) (out string) {
	defer func() {
		if r := recover(); r != nil {
			out = "panic"
		}
	}()
	return f()
}

// canonModelParse strips the coverage suffix (stop=… path=…) and the panic site.
func canonModelParse(ans string) (canon, stop, path string) {
	if strings.HasPrefix(ans, "panic") {
		return "panic", "", ""
	}
	w := strings.Fields(ans)
	keep := w[:0:0]
	for _, x := range w {
		switch {
		case strings.HasPrefix(x, "stop="):
			stop = x[5:]
		case strings.HasPrefix(x, "path="):
			path = x[5:]
		default:
			keep = append(keep, x)
		}
	}
	return strings.Join(keep, " "), stop, path
}

// ---------------------------------------------------------------------------------------------
// the oracle: what a description denotes, computed from the description alone

type want struct {
	host, bind, proto                                               string
	port, timeout, istcp, grid, qos, weight, weightType, authType int32
}

func expected(d *desc) want {
	host, bind := "", ""
	port, timeout, grid, qos, weight, wt, auth := int64(0), int64(3000), int64(0), int64(0), int64(-1), int64(0), int64(0)
	for _, it := range d.Items { // flag semantics: a repeated option overrides the earlier one
		switch it.Kind {
		case "h":
			host = it.Str
		case "b":
			bind = it.Str
		case "p":
			port = it.Int
		case "t":
			timeout = it.Int
		case "g":
			grid = it.Int
		case "q":
			qos = it.Int
		case "w":
			weight = it.Int
		case "v":
			wt = it.Int
		case "e":
			auth = it.Int
		}
	}
	// weight normalisation: an endpoint with a weight type other than 0 and no weight, or a weight
	// above 100, gets weight 100
	if wt != 0 && (weight == -1 || weight > 100) {
		weight = 100
	}
	w := want{host: host, bind: bind, port: int32(port), timeout: int32(timeout), grid: int32(grid), qos: int32(qos),
		weight: int32(weight), weightType: int32(wt), authType: int32(auth)}
	switch d.Proto {
	case "tcp":
		w.proto, w.istcp = "tcp", 1
	case "ssl":
		w.proto, w.istcp = "tcp", 2
	case "udp":
		w.proto, w.istcp = "udp", 0
	}
	return w
}

func diffWant(w want, e endpoint.Endpoint) (field, detail string) {
	chk := func(name string, a, b interface{}) {
		if field == "" && a != b {
			field, detail = name, fmt.Sprintf("%s: expected %v, got %v", name, a, b)
		}
	}
	chk("host", w.host, e.Host)
	chk("port", w.port, e.Port)
	chk("timeout", w.timeout, e.Timeout)
	chk("istcp", w.istcp, e.Istcp)
	chk("grid", w.grid, e.Grid)
	chk("qos", w.qos, e.Qos)
	chk("weight", w.weight, e.Weight)
	chk("weightType", w.weightType, e.WeightType)
	chk("authType", w.authType, e.AuthType)
	chk("proto", w.proto, e.Proto)
	chk("bind", w.bind, e.Bind)
	// the format of Key is not part of the property (only its equality across origins is, see
	// convertOracle); the model's Key is compared with the implementation's by the correspondence
	return
}

// convertOracle: Endpoint -> EndpointF -> Endpoint preserves the ten members named by the
// property; with validProto also the cache key, and an EndpointF built by a registry for the same
// endpoint obtains the same key.
func convertOracle(e endpoint.Endpoint, validProto bool) (locus, detail string) {
	defer func() {
		if r := recover(); r != nil {
			locus, detail = "convert-panic", fmt.Sprint(r)
		}
	}()
	f := endpoint.Endpoint2tars(e)
	e2 := endpoint.Tars2endpoint(f)
	chk := func(name string, a, b interface{}) {
		if locus == "" && a != b {
			locus, detail = name, fmt.Sprintf("%s: %v became %v after Endpoint2tars/Tars2endpoint", name, a, b)
		}
	}
	chk("convert-host", e.Host, e2.Host)
	chk("convert-port", e.Port, e2.Port)
	chk("convert-timeout", e.Timeout, e2.Timeout)
	chk("convert-istcp", e.Istcp, e2.Istcp)
	chk("convert-grid", e.Grid, e2.Grid)
	chk("convert-qos", e.Qos, e2.Qos)
	chk("convert-weight", e.Weight, e2.Weight)
	chk("convert-weightType", e.WeightType, e2.WeightType)
	chk("convert-authType", e.AuthType, e2.AuthType)
	chk("convert-setId", e.SetId, e2.SetId)
	chk("convert-isTcp()", e.IsTcp(), e2.IsTcp())
	chk("convert-isSSL()", e.IsSSL(), e2.IsSSL())
	if validProto {
		chk("key-roundtrip", e.Key, e2.Key)
		// the registry's own description of this endpoint
		reg := endpointf.EndpointF{Host: e.Host, Port: e.Port, Timeout: e.Timeout, Istcp: e.Istcp, Grid: e.Grid, Qos: e.Qos,
			Weight: e.Weight, WeightType: e.WeightType, AuthType: e.AuthType, SetId: "set.a.1", Groupworkid: 7, BakFlag: 1}
		chk("key-registry", e.Key, endpoint.Tars2endpoint(reg).Key)
	}
	return
}

// ---------------------------------------------------------------------------------------------
// generators

var intPool = []int64{0, 1, -1, 2, 7, 10, 80, 99, 100, 101, 102, 255, 1000, 3000, 3001, 8080, 10000, 19386, 60000, 65535, 65536,
	-2, -100, -101, math.MaxInt32, math.MaxInt32 - 1, math.MinInt32, math.MinInt32 + 1}
var widePool = []int64{math.MaxInt32 + 1, math.MinInt32 - 1, 1 << 32, 1<<32 + 1, 1<<32 - 1, -(1 << 32), 1<<32 + 100, 1<<32 - 1 - 100 + 1<<32,
	math.MaxInt64, math.MinInt64, math.MaxInt64 - 1, math.MinInt64 + 1, 1 << 62, 99999999999}

func genInt(rng *rand.Rand, kind string, wide bool) int64 {
	if wide && rng.Intn(3) == 0 {
		return widePool[rng.Intn(len(widePool))]
	}
	switch rng.Intn(6) {
	case 0:
		return int64(rng.Int31())
	case 1:
		return -int64(rng.Int31())
	case 2:
		if kind == "v" || kind == "e" {
			return int64(rng.Intn(3))
		}
		return int64(rng.Intn(200)) - 50
	}
	if kind == "v" {
		return []int64{0, 0, 1, 1, 2, -1}[rng.Intn(6)]
	}
	return intPool[rng.Intn(len(intPool))]
}

var hostPool = []string{"127.0.0.1", "10.219.139.142", "localhost", "host-1.example.com", "::1", "[fe80::1]", "a", "-h", "-p", "--", "-",
	"x=y", "=", "0", "tcp", "h", "1.2.3.4", "UPPER.case", "a_b", "~!@#$%^&*()"}

func genHost(rng *rand.Rand) string {
	if rng.Intn(2) == 0 {
		return hostPool[rng.Intn(len(hostPool))]
	}
	if rng.Intn(6) == 0 {
		// a non-ASCII word (valid or malformed UTF-8) that strings.Fields returns as one field
		for try := 0; try < 20; try++ {
			var b strings.Builder
			for i, n := 0, 1+rng.Intn(4); i < n; i++ {
				if rng.Intn(2) == 0 {
					b.WriteString(uniOther[rng.Intn(len(uniOther))])
				} else {
					b.WriteByte(byte(33 + rng.Intn(94)))
				}
			}
			t := b.String()
			if f := strings.Fields(t); len(f) == 1 && f[0] == t {
				return t
			}
		}
	}
	n := 1 + rng.Intn(12)
	b := make([]byte, n)
	for i := range b {
		b[i] = byte(33 + rng.Intn(94)) // printable ASCII without the space
	}
	return string(b)
}

var blankPlain = []string{" ", " ", " ", "\t", "  ", " \t", "\t ", "   "}
var blankAny = []string{"\n", "\r", "\v", "\f", " \n", "\r\n", "\t\v\f", " \r "}

func genSep(rng *rand.Rand) string {
	if rng.Intn(10) == 0 {
		return blankAny[rng.Intn(len(blankAny))]
	}
	return blankPlain[rng.Intn(len(blankPlain))]
}

var kinds = []string{"h", "p", "t", "g", "q", "w", "v", "e", "b"}

func genItem(rng *rand.Rand, kind string, wide bool, forms bool) item {
	it := item{Kind: kind, Form: "p", Sep: genSep(rng), Sep2: genSep(rng)}
	if forms && rng.Intn(4) == 0 {
		it.Form = []string{"d", "e", "f"}[rng.Intn(3)]
	}
	if kind == "h" || kind == "b" {
		it.Str = genHost(rng)
	} else {
		it.Int = genInt(rng, kind, wide)
	}
	return it
}

func genDesc(rng *rand.Rand, wide, forms, dup bool) *desc {
	d := &desc{Proto: []string{"tcp", "udp", "ssl"}[rng.Intn(3)]}
	perm := rng.Perm(len(kinds))
	n := rng.Intn(len(kinds) + 1)
	if rng.Intn(3) == 0 {
		n = len(kinds)
	}
	for _, k := range perm[:n] {
		d.Items = append(d.Items, genItem(rng, kinds[k], wide, forms))
	}
	if dup && len(d.Items) > 0 {
		for i := 0; i < 1+rng.Intn(3); i++ {
			k := d.Items[rng.Intn(len(d.Items))].Kind
			pos := rng.Intn(len(d.Items) + 1)
			d.Items = append(d.Items[:pos], append([]item{genItem(rng, k, wide, forms)}, d.Items[pos:]...)...)
		}
	}
	if rng.Intn(5) == 0 {
		d.Trail = genSep(rng)
	}
	return d
}

func descOp(d *desc, class string) op {
	s := d.render()
	return op{Kind: "desc", Class: class, Desc: d, Hex: hx(s), Text: strconv.Quote(s)}
}

func parseOp(s, class string) op {
	return op{Kind: "parse", Class: class, Hex: hx(s), Text: strconv.Quote(s)}
}

func permutations(n int, f func([]int)) {
	p := make([]int, n)
	for i := range p {
		p[i] = i
	}
	var rec func(k int)
	rec = func(k int) {
		if k == n {
			f(p)
			return
		}
		for i := k; i < n; i++ {
			p[k], p[i] = p[i], p[k]
			rec(k + 1)
			p[k], p[i] = p[i], p[k]
		}
	}
	rec(0)
}

func allStrings(alpha []string, maxLen int, f func(string)) {
	var rec func(prefix string, l int)
	rec = func(prefix string, l int) {
		f(prefix)
		if l == maxLen {
			return
		}
		for _, a := range alpha {
			rec(prefix+a, l+1)
		}
	}
	rec("", 0)
}

var numberish = []string{"0", "00", "08", "010", "0x10", "0X1F", "0x", "0b11", "0B2", "0o17", "0O8", "1_0", "_1", "1_", "1__0", "0_7", "0x_1f",
	"+5", "-0", "+-5", "--5", "+", "-", "", "abc", "1a", "12.5", "1e3", " 5", "9223372036854775807", "9223372036854775808",
	"-9223372036854775808", "-9223372036854775809", "18446744073709551615", "18446744073709551616", "99999999999999999999",
	"-99999999999999999999", "0x7fffffffffffffff", "0x8000000000000000", "-0x8000000000000000", "0xffffffffffffffff",
	"0x10000000000000000", "0777777777777777777777", "01777777777777777777777", "0b" + strings.Repeat("1", 63), "0b" + strings.Repeat("1", 64),
	"4294967296", "4294967297", "2147483648", "-2147483649", "1_000", "0b1_0", "0o1_7", "0_x10", "\uff10", "\u0661\u0662"}

func genNumberish(rng *rand.Rand) string {
	if rng.Intn(2) == 0 {
		return numberish[rng.Intn(len(numberish))]
	}
	const alpha = "0123456789abcdefABCDEFxXoObB_+-zZ. "
	n := rng.Intn(24)
	b := make([]byte, n)
	for i := range b {
		switch rng.Intn(4) {
		case 0:
			b[i] = alpha[rng.Intn(len(alpha))]
		default:
			b[i] = "0123456789"[rng.Intn(10)]
		}
	}
	s := string(b)
	switch rng.Intn(6) {
	case 0:
		s = "0x" + s
	case 1:
		s = "-" + s
	case 2:
		s = "0" + s
	}
	return s
}

var uniSpaces = []string{"\u0085", "\u00a0", "\u1680", "\u2000", "\u2003", "\u2007", "\u200a", "\u2028", "\u2029", "\u202f", "\u205f", "\u3000"}
var uniOther = []string{"\u200b", "\u00e9", "\u4e2d", "\U0001f600", "\ufeff", "\u180e", "\u0084", "\u009f", "\u200c", "\u167f", "\u1681", "\u1fff", "\u200b", "\u2027", "\u202a", "\u2030", "\u205e", "\u2060", "\u2fff", "\u3001",
	"\xc2", "\xe2\x80", "\xe2", "\xff", "\xfe", "\x80", "\x85", "\xa0", "\xc0\xa0", "\xe0\x80\x80", "\xed\xa0\x80", "\xf0\x80\x80\x80",
	"\xf4\x90\x80\x80", "\xf0\x9f\x98", "\xc2\x20", "\xe1\x9a", "\xe3\x80", "\xf8\x88\x80\x80\x80", "\xe0\xa0\x80", "\xed\x9f\xbf", "\xf4\x8f\xbf\xbf", "\xf0\x90\x80\x80", "\xc2\x85\x85", "\xe2\x80\xa8\xa8"}

func genUniString(rng *rand.Rand) string {
	var b strings.Builder
	n := rng.Intn(10)
	for i := 0; i < n; i++ {
		switch rng.Intn(8) {
		case 0:
			b.WriteString(uniSpaces[rng.Intn(len(uniSpaces))])
		case 1:
			b.WriteString(uniOther[rng.Intn(len(uniOther))])
		case 2:
			b.WriteString(blankAny[rng.Intn(len(blankAny))])
		case 3:
			b.WriteByte(byte(rng.Intn(256)))
		case 4:
			b.WriteString(" ")
		default:
			b.WriteString([]string{"tcp", "-p", "80", "-h", "a", "x", "-t", "1"}[rng.Intn(8)])
		}
	}
	return b.String()
}

// mutate derives a malformed or unusual string from a valid description.
func mutate(rng *rand.Rand, d *desc) (string, string) {
	s := d.render()
	switch rng.Intn(16) {
	case 0:
		if len(s) > 0 {
			i := rng.Intn(len(s))
			return s[:i] + s[i+1:], "delete-byte"
		}
	case 1:
		i := rng.Intn(len(s) + 1)
		return s[:i] + string(rune(32+rng.Intn(95))) + s[i:], "insert-byte"
	case 2:
		return s[:rng.Intn(len(s)+1)], "truncate"
	case 3:
		return s + " -" + []string{"x", "help", "hh", "P", "z=1", "port"}[rng.Intn(6)] + " 5" + " -p 7", "unknown-option"
	case 4:
		return s + " -" + kinds[rng.Intn(len(kinds))], "missing-value"
	case 5:
		return s + " -" + []string{"p", "t", "g", "q", "w", "v", "e"}[rng.Intn(7)] + " " + genNumberish(rng) + " -t 77 -h after", "number-syntax"
	case 6:
		return s + " " + []string{"--", "-", "---p 5", "-=5", "--=5", "-- -p 5", "x -p 5", "--- x", "-p=", "-h=", "--p= 5"}[rng.Intn(11)] + " -t 78", "flag-syntax"
	case 7:
		return " " + s, "leading-blank"
	case 8:
		return []string{"tcpx", "TCP", "xyz", "tc", "t", "", "tcp-p", "sslv3", "udp6", "Tcp", "ssl", "ud"}[rng.Intn(12)] + s[3:], "proto"
	case 9:
		sp := uniSpaces[rng.Intn(len(uniSpaces))]
		return strings.Replace(s, " ", sp, 1+rng.Intn(3)), "unicode-blank"
	case 10:
		o := uniOther[rng.Intn(len(uniOther))]
		i := rng.Intn(len(s) + 1)
		return s[:i] + o + s[i:], "non-ascii"
	case 11:
		return s + " -p " + genNumberish(rng), "number-syntax"
	case 12:
		return s + ":" + s, "joined-list"
	case 13:
		return strings.Replace(s, "-", "--", 1), "double-dash"
	case 14:
		return strings.ToUpper(s), "upper"
	case 15:
		return s + " -h " + genUniString(rng), "non-ascii"
	}
	return s, "identity"
}

// splitDirect is a replica of the three statements of newEndpointManager (tars/endpointmanager.go)
// that turn "Obj@ep:ep:…" into the arguments of endpoint.Parse.
func splitDirect(objName string) []string {
	pos := strings.Index(objName, "@")
	if pos > 0 {
		return strings.Split(objName[pos+1:], ":")
	}
	return nil
}

func genOps(o *common.Opts, rng *rand.Rand) []op {
	var ops []op
	thorough := o.Thorough()
	scale := func(q, t int) int {
		if thorough {
			return t
		}
		return q
	}
	ops = append(ops, op{Kind: "variant"})

	// 1. descriptions: proto x option subsets x orders x spellings x blanks
	for i := 0; i < scale(12000, 120000); i++ {
		ops = append(ops, descOp(genDesc(rng, false, false, false), "desc:plain"))
	}
	for i := 0; i < scale(6000, 60000); i++ {
		ops = append(ops, descOp(genDesc(rng, true, true, false), "desc:forms+wide"))
	}
	for i := 0; i < scale(2000, 20000); i++ {
		ops = append(ops, descOp(genDesc(rng, true, true, true), "desc:repeated-option"))
	}
	// every order of the options: all permutations of 5 options (quick), of all 9 (thorough)
	{
		base := []item{{Kind: "h", Str: "10.0.0.7"}, {Kind: "p", Int: 19386}, {Kind: "t", Int: 60000}, {Kind: "w", Int: 250}, {Kind: "v", Int: 1},
			{Kind: "g", Int: 3}, {Kind: "q", Int: 4}, {Kind: "e", Int: 1}, {Kind: "b", Str: "0.0.0.0"}}
		n := scale(5, 9)
		permutations(n, func(p []int) {
			for _, sp := range []string{" ", "\t  "} {
				d := &desc{Proto: "ssl"}
				for _, k := range p {
					it := base[k]
					it.Form, it.Sep, it.Sep2 = "p", sp, sp
					d.Items = append(d.Items, it)
				}
				ops = append(ops, descOp(d, "desc:all-orders"))
				if thorough {
					break
				}
			}
		})
	}
	// single options and the bare protocol: defaults
	for _, pr := range []string{"tcp", "udp", "ssl"} {
		for _, tr := range []string{"", " ", "\t\n"} {
			ops = append(ops, descOp(&desc{Proto: pr, Trail: tr}, "desc:defaults"))
		}
		for _, k := range kinds {
			for i := 0; i < 6; i++ {
				ops = append(ops, descOp(&desc{Proto: pr, Items: []item{genItem(rng, k, true, true)}}, "desc:single-option"))
			}
		}
	}
	// weight rule grid
	for _, w := range []int64{-2, -1, 0, 1, 99, 100, 101, 1000, math.MaxInt32, 1<<32 - 1, 1 << 32, 1<<32 + 50} {
		for _, v := range []int64{-1, 0, 1, 2, 1 << 32, 1<<32 + 1} {
			for _, order := range []bool{false, true} {
				its := []item{{Kind: "w", Form: "p", Sep: " ", Sep2: " ", Int: w}, {Kind: "v", Form: "p", Sep: " ", Sep2: " ", Int: v}}
				if order {
					its[0], its[1] = its[1], its[0]
				}
				ops = append(ops, descOp(&desc{Proto: "tcp", Items: its}, "desc:weight-rule"))
			}
			ops = append(ops, descOp(&desc{Proto: "tcp", Items: []item{{Kind: "v", Form: "p", Sep: " ", Sep2: " ", Int: v}}}, "desc:weight-rule"))
		}
	}

	// 2. malformed stream
	allStrings([]string{"t", "c", "p", " ", "-", "h", "1"}, scale(3, 5), func(s string) {
		ops = append(ops, parseOp(s, "malformed:short-all"))
	})
	allStrings([]string{" ", "\t", "\n", "\u00a0", "\u3000", "\x85", "x"}, scale(3, 4), func(s string) {
		ops = append(ops, parseOp(s, "malformed:blank-all"))
	})
	for b := 0; b < 256; b++ {
		ops = append(ops, parseOp(string([]byte{byte(b)}), "malformed:short-all"))
		ops = append(ops, parseOp(string([]byte{byte(b), byte(b), byte(b)}), "malformed:short-all"))
		ops = append(ops, parseOp("tcp"+string([]byte{byte(b)})+"-p"+string([]byte{byte(b)})+"5", "malformed:separator-byte"))
	}
	for i := 0; i < scale(16000, 200000); i++ {
		s, cls := mutate(rng, genDesc(rng, true, true, false))
		ops = append(ops, parseOp(s, "malformed:"+cls))
	}
	for i := 0; i < scale(6000, 80000); i++ {
		n := rng.Intn(40)
		b := make([]byte, n)
		const alpha = "tcpudsl -hptgqwveb=0123456789\t-- "
		for j := range b {
			if rng.Intn(12) == 0 {
				b[j] = byte(rng.Intn(256))
			} else {
				b[j] = alpha[rng.Intn(len(alpha))]
			}
		}
		ops = append(ops, parseOp(string(b), "malformed:random"))
	}
	for i := 0; i < scale(2000, 20000); i++ {
		ops = append(ops, parseOp("tcp "+genUniString(rng), "malformed:non-ascii"))
	}
	// address lists as newEndpointManager splits them (trailing / doubled / leading separators)
	for i := 0; i < scale(300, 5000); i++ {
		n := 1 + rng.Intn(4)
		parts := make([]string, n)
		for j := range parts {
			switch rng.Intn(5) {
			case 0:
				parts[j] = ""
			case 1:
				parts[j] = []string{" ", "  ", "\t", "   ", "tc"}[rng.Intn(5)]
			default:
				parts[j] = genDesc(rng, false, false, false).render()
			}
		}
		obj := "App.Srv.Obj@" + strings.Join(parts, ":")
		for _, p := range splitDirect(obj) {
			ops = append(ops, parseOp(p, "list-part"))
		}
	}
	for _, obj := range []string{"A.B.C@tcp -h 127.0.0.1 -p 1 -t 100:", "A.B.C@", "A.B.C@:", "A.B.C@tcp -h 1.1.1.1 -p 1::tcp -h 1.1.1.2 -p 2",
		"A.B.C@tcp -h ::1 -p 5", "A.B.C@ tcp -h 1.1.1.1 -p 1"} {
		for _, p := range splitDirect(obj) {
			ops = append(ops, parseOp(p, "list-part"))
		}
	}

	// 3. the standard-library functions the model re-implements
	for i := 0; i < scale(12000, 200000); i++ {
		s := genNumberish(rng)
		ops = append(ops, op{Kind: "atoi", Class: "stdlib:ParseInt", Hex: hx(s), Text: strconv.Quote(s)})
	}
	for _, s := range numberish {
		for _, pre := range []string{"", "-", "+"} {
			ops = append(ops, op{Kind: "atoi", Class: "stdlib:ParseInt", Hex: hx(pre + s), Text: strconv.Quote(pre + s)})
		}
	}
	for i := 0; i < scale(8000, 100000); i++ {
		s := genUniString(rng)
		ops = append(ops, op{Kind: "fields", Class: "stdlib:Fields", Hex: hx(s), Text: strconv.Quote(s)})
	}
	for _, v := range append(append([]int64{}, intPool...), widePool...) {
		ops = append(ops, op{Kind: "fmt", Class: "stdlib:%d", Int: v})
	}
	for i := 0; i < scale(500, 20000); i++ {
		ops = append(ops, op{Kind: "fmt", Class: "stdlib:%d", Int: int64(rng.Uint64())})
	}

	// 4. conversions
	gen32 := func() int32 {
		switch rng.Intn(3) {
		case 0:
			return int32(intPool[rng.Intn(len(intPool))])
		case 1:
			return int32(rng.Uint32())
		}
		return int32(rng.Intn(5))
	}
	for i := 0; i < scale(6000, 60000); i++ {
		f := &epf{Host: genHost(rng), Port: gen32(), Timeout: gen32(), Istcp: []int32{0, 1, 2, 2, 1, 0, 3, -1, gen32()}[rng.Intn(9)], Grid: gen32(), Qos: gen32(),
			Weight: gen32(), WeightType: gen32(), AuthType: gen32(), SetId: []string{"", "", "set.a.1", "*", genHost(rng)}[rng.Intn(5)],
			Proto: []string{"tcp", "udp", "ssl", "", "xyz"}[rng.Intn(5)], Bind: []string{"", "0.0.0.0"}[rng.Intn(2)]}
		if rng.Intn(10) == 0 {
			f.Host = genUniString(rng)
		}
		ops = append(ops, op{Kind: "conv", Class: "convert:Tars2endpoint", F: f})
		ops = append(ops, op{Kind: "conv2", Class: "convert:Endpoint2tars", F: f})
	}
	return ops
}

// ---------------------------------------------------------------------------------------------
// checking

var treeVariant = "?" // what the implementation does on "": panics (asFound) or not (repaired)

// curModel is the model's answer for the case being checked (recorded in violations).
var curModel string

func viol(res *common.Result, class, locus, what string, c op, impl, note string) {
	res.Violate(common.Violation{Signature: "C18:" + class + ":" + locus, What: what,
		Case: common.Case{Stream: "endpoint", Op: c, Model: trunc(curModel), Impl: trunc(impl), Note: note}})
}

func isValidProto(s string) bool {
	return strings.HasPrefix(s, "tcp") || strings.HasPrefix(s, "udp") || strings.HasPrefix(s, "ssl")
}

// checkParsed: oracles that apply to every string.
func checkParsed(c op, s string, implOut string, e endpoint.Endpoint, pclass string, res *common.Result) {
	if implOut == "panic" {
		viol(res, pclass, "Parse", fmt.Sprintf("endpoint.Parse(%q) panics", s), c, implOut, "no string may make the parser crash")
		return
	}
	valid := isValidProto(s) && len(strings.Fields(s)) > 0
	if locus, detail := convertOracle(e, valid); locus != "" {
		cls := "wrong-value"
		if locus == "convert-panic" {
			cls = "panic-other"
		}
		viol(res, cls, locus, "Endpoint -> EndpointF -> Endpoint does not preserve the endpoint / its cache key", c, implOut, detail)
	}
}

func check(c op, ans string, res *common.Result, verbose bool) {
	nm := ans == common.NoModel
	curModel = ans
	switch c.Kind {
	case "variant":
		if verbose {
			fmt.Printf("model: %s\nimpl:  %s\n", ans, treeVariant)
		}
		res.Count("variant", "variant", false)
		if !nm && ans != treeVariant {
			res.Diverge(common.Case{Stream: "endpoint", Op: c, Model: ans, Impl: treeVariant,
				Note: "the extractor's view of Parse's guard and the behaviour of Parse(\"\") disagree"})
		}
	case "parse":
		s := unhex(c.Hex)
		impl, e, pclass := implParse(s)
		mc, stop, path := canonModelParse(ans)
		if verbose {
			fmt.Printf("input: %q\nmodel: %s\nimpl:  %s\n", s, ans, impl)
		}
		res.Count("parse/"+c.Hex, c.Class, len(s) >= 3)
		if stop != "" {
			res.Histogram["model-branch:stop="+stop]++
			res.Histogram["model-branch:fields-path="+path]++
		} else if !nm {
			res.Histogram["model-branch:"+ans]++
		}
		res.Sample(map[string]string{"op": "parse " + c.Text, "impl": trunc(impl)})
		if !nm && impl != mc {
			res.Diverge(common.Case{Stream: "endpoint", Op: c, Model: trunc(ans), Impl: trunc(impl)})
		}
		checkParsed(c, s, impl, e, pclass, res)
		res.TracesValidated++
	case "desc":
		d := c.Desc
		s := d.render()
		impl, e, pclass := implParse(s)
		if verbose {
			fmt.Printf("input: %q\nmodel: %s\nimpl:  %s\n", s, ans, impl)
		}
		res.Count("desc/"+hx(s), c.Class, len(d.Items) > 0)
		res.Histogram[fmt.Sprintf("desc-options:%d", len(d.Items))]++
		for _, it := range d.Items {
			if (it.Kind == "h" || it.Kind == "b") && strings.IndexFunc(it.Str, func(r rune) bool { return r >= 0x80 }) >= 0 {
				res.Histogram["desc-value:non-ascii-word"]++
				break
			}
		}
		if !nm {
			parts := strings.SplitN(ans, " | ", 2)
			if len(parts) != 2 {
				res.Diverge(common.Case{Stream: "endpoint", Op: c, Model: trunc(ans), Impl: "(model did not accept the description)"})
			} else {
				if parts[0] != hx(s) {
					res.Diverge(common.Case{Stream: "endpoint", Op: c, Model: trunc(parts[0]), Impl: hx(s), Note: "render of the model differs from the generator's"})
				}
				if "ok "+parts[1] != impl {
					res.Diverge(common.Case{Stream: "endpoint", Op: c, Model: trunc(parts[1]), Impl: trunc(impl),
						Note: "Desc.endpoint (right-hand side of C18_parse) differs from endpoint.Parse of the rendered string"})
				}
			}
		}
		// oracle
		if impl == "panic" {
			viol(res, pclass, "Parse", fmt.Sprintf("endpoint.Parse(%q) panics", s), c, impl, "")
			return
		}
		if field, detail := diffWant(expected(d), e); field != "" {
			viol(res, "wrong-value", "Parse-"+field, fmt.Sprintf("endpoint.Parse(%q) does not yield the described endpoint", s), c, impl, detail)
		}
		checkParsed(c, s, impl, e, pclass, res)
		res.TracesValidated++
	case "fields":
		s := unhex(c.Hex)
		fs := strings.Fields(s)
		impl := strconv.Itoa(len(fs))
		for _, f := range fs {
			impl += " " + hx(f)
		}
		if verbose {
			fmt.Printf("input: %q\nmodel: %s\nimpl:  %s\n", s, ans, impl)
		}
		res.Count("fields/"+c.Hex, c.Class, len(fs) > 0)
		if !nm && impl != ans {
			res.Diverge(common.Case{Stream: "endpoint", Op: c, Model: trunc(ans), Impl: trunc(impl), Note: "strings.Fields"})
		}
	case "atoi":
		s := unhex(c.Hex)
		v, err := strconv.ParseInt(s, 0, strconv.IntSize)
		cls := "ok"
		if err != nil {
			cls = "syntax"
			if ne, ok := err.(*strconv.NumError); ok && ne.Err == strconv.ErrRange {
				cls = "range"
			}
		}
		impl := fmt.Sprintf("%d %s", v, cls)
		if verbose {
			fmt.Printf("input: %q\nmodel: %s\nimpl:  %s\n", s, ans, impl)
		}
		res.Count("atoi/"+c.Hex, c.Class+":"+cls, cls == "ok")
		if !nm && impl != ans {
			res.Diverge(common.Case{Stream: "endpoint", Op: c, Model: trunc(ans), Impl: trunc(impl), Note: "strconv.ParseInt(s, 0, 64)"})
		}
	case "fmt":
		impl := hx(fmt.Sprintf("%d", c.Int))
		if verbose {
			fmt.Printf("model: %s\nimpl:  %s\n", ans, impl)
		}
		res.Count("fmt/"+impl, c.Class, true)
		if !nm && impl != ans {
			res.Diverge(common.Case{Stream: "endpoint", Op: c, Model: trunc(ans), Impl: trunc(impl), Note: "%d"})
		}
	case "conv":
		f := c.F
		ef := endpointf.EndpointF{Host: f.Host, Port: f.Port, Timeout: f.Timeout, Istcp: f.Istcp, Grid: f.Grid, Qos: f.Qos,
			Weight: f.Weight, WeightType: f.WeightType, AuthType: f.AuthType, SetId: f.SetId, Groupworkid: 11, Grouprealid: 12, BakFlag: 1}
		var e endpoint.Endpoint
		impl := guard(func() string { e = endpoint.Tars2endpoint(ef); return showEndpoint(e) })
		if verbose {
			fmt.Printf("model: %s\nimpl:  %s\n", ans, impl)
		}
		res.Count("t2e/"+impl, c.Class, true)
		if !nm && impl != ans {
			res.Diverge(common.Case{Stream: "endpoint", Op: c, Model: trunc(ans), Impl: trunc(impl)})
		}
		if impl == "panic" {
			viol(res, "panic-other", "Tars2endpoint", "Tars2endpoint panics", c, impl, "")
			return
		}
		// oracle: EndpointF -> Endpoint -> EndpointF keeps the ten members; the key is String()
		back := guard(func() string { return showF(endpoint.Endpoint2tars(e)) })
		ef.Groupworkid, ef.Grouprealid, ef.BakFlag = 0, 0, 0
		if back != showF(ef) {
			viol(res, "wrong-value", "convert-registry-roundtrip", "EndpointF -> Endpoint -> EndpointF changes a member", c, back, "expected "+showF(ef))
		}
		// datagram or stream, as the transport kind says
		if (f.Istcp == 0) != e.IsUdp() || (f.Istcp == 2) != e.IsSSL() {
			viol(res, "wrong-value", "Tars2endpoint-transport", "Tars2endpoint: transport kind of the registry entry is not kept", c, impl, "")
		}
		if locus, detail := convertOracle(e, true); locus != "" {
			viol(res, "wrong-value", locus, "Endpoint -> EndpointF -> Endpoint does not preserve the endpoint / its cache key", c, impl, detail)
		}
		res.TracesValidated++
	case "conv2":
		f := c.F
		e := endpoint.Endpoint{Host: f.Host, Port: f.Port, Timeout: f.Timeout, Istcp: f.Istcp, Grid: f.Grid, Qos: f.Qos,
			Weight: f.Weight, WeightType: f.WeightType, AuthType: f.AuthType, Proto: f.Proto, Bind: f.Bind, SetId: f.SetId}
		impl := guard(func() string { return showF(endpoint.Endpoint2tars(e)) })
		if verbose {
			fmt.Printf("model: %s\nimpl:  %s\n", ans, impl)
		}
		res.Count("e2t/"+impl, c.Class, true)
		if !nm && impl != ans {
			res.Diverge(common.Case{Stream: "endpoint", Op: c, Model: trunc(ans), Impl: trunc(impl)})
		}
		if locus, detail := convertOracle(e, false); locus != "" {
			viol(res, "wrong-value", locus, "Endpoint -> EndpointF -> Endpoint does not preserve a member", c, impl, detail)
		}
		res.TracesValidated++
	}
}

func trunc(s string) string {
	if len(s) > 400 {
		return s[:400] + "..."
	}
	return s
}

func main() {
	o := common.ParseOpts()
	if !strings.Contains(o.Model, "tm_endpoint") && strings.HasSuffix(o.Model, "tm_wire") {
		o.Model = strings.TrimSuffix(o.Model, "tm_wire") + "tm_endpoint"
	}
	res := common.NewResult("C18", o)
	res.Streams = []string{"endpoint", "mgr", "conc"}
	defer mgrCleanup()
	rng := o.Rand()
	m, err := common.StartModel(o.Model, "endpoint")
	if err != nil {
		res.Fatal(o.Out, err)
	}
	defer m.Close()
	if strconv.IntSize != 64 {
		res.Fatal(o.Out, fmt.Errorf("out of model: the model assumes a 64-bit int, this platform has %d", strconv.IntSize))
	}
	// flag.FlagSet prints its usage text on every parse error; keep the log readable
	realStderr := os.Stderr
	if dn, err := os.OpenFile(os.DevNull, os.O_WRONLY, 0); err == nil {
		os.Stderr = dn
	}
	fatal := func(err error) {
		mgrCleanup()
		os.Stderr = realStderr
		res.Fatal(o.Out, err)
	}

	if out, _, _ := implParse(""); out == "panic" {
		treeVariant = "asFound"
	} else {
		treeVariant = "repaired"
	}
	res.Note("endpoint.Parse(\"\") on this tree: %s", map[string]string{"asFound": "panics (as found, D1)", "repaired": "returns (guard present)"}[treeVariant])

	var ops []op
	if o.Replay != "" {
		var c op
		if err := common.ReadReplay(o.Replay, &c); err != nil {
			fatal(err)
		}
		if c.Kind == "desc" && c.Desc == nil {
			fatal(fmt.Errorf("replay: desc case without description"))
		}
		if c.Kind == "mgr" && c.Mgr == nil {
			fatal(fmt.Errorf("replay: mgr case without script"))
		}
		if c.Kind == "conc" && c.Conc == nil {
			fatal(fmt.Errorf("replay: conc case without strings"))
		}
		ops = []op{{Kind: "variant"}, c}
	} else {
		ops = genOps(o, rng)
	}

	const B = 50000
	for i := 0; i < len(ops); i += B {
		j := i + B
		if j > len(ops) {
			j = len(ops)
		}
		lines := make([]string, j-i)
		for k := i; k < j; k++ {
			lines[k-i] = ops[k].line()
		}
		ans, err := m.Batch(lines)
		if err != nil {
			fatal(err)
		}
		for k := i; k < j; k++ {
			if ops[k].Kind == "mgr" || ops[k].Kind == "conc" {
				continue
			}
			check(ops[k], ans[k-i], res, o.Replay != "" && ops[k].Kind != "variant")
		}
	}
	// stream conc: Parse and the conversions under concurrent use (before the manager stream, whose
	// background goroutines would only add noise)
	var ccases []*ccase
	if o.Replay != "" {
		for _, c := range ops {
			if c.Kind == "conc" {
				cc := *c.Conc
				if cc.Rounds < 10 {
					cc.Rounds = 10 // a replay repeats the concurrent phase until it shows the difference
				}
				ccases = append(ccases, &cc)
			}
		}
	} else {
		nc := 3
		if o.Thorough() {
			nc = 8
		}
		for i := 0; i < nc; i++ {
			cc := genConcCase(rng, o.Thorough())
			if i == 0 {
				cc.G = 16
			} else if i == 1 {
				cc.G = 4
			}
			ccases = append(ccases, cc)
		}
	}
	for _, cc := range ccases {
		if err := checkConc(cc, m, res, o.Replay != ""); err != nil {
			fatal(fmt.Errorf("conc stream: %v", err))
		}
	}
	// stream mgr: the endpoint manager's key sites (network, a few cases)
	var mcases []*mcase
	if o.Replay != "" {
		for _, c := range ops {
			if c.Kind == "mgr" {
				mcases = append(mcases, c.Mgr)
			}
		}
	} else {
		// the fixed script first: one endpoint of every kind, two inactive/active refreshes, three probe rounds
		mcases = append(mcases, &mcase{Kinds: []int32{1, 0, 2}, Tmo: []int32{3000, 3000, 3000}, Steps: []mstep{{K: "warm"}, {K: "inactive", I: 2},
			{K: "active", I: 2}, {K: "inactive", I: 0}, {K: "active", I: 0}, {K: "block"}, {K: "probe"}, {K: "probe"}, {K: "inactive", I: 1}, {K: "active", I: 1}, {K: "probe"}}})
		nm := 4
		if o.Thorough() {
			nm = 40
		}
		for i := 0; i < nm; i++ {
			mcases = append(mcases, genMgrCase(rng))
		}
	}
	for _, mc := range mcases {
		if err := runMgr(mc, m, res, o.Replay != ""); err != nil {
			fatal(fmt.Errorf("mgr stream: %v", err))
		}
	}
	res.Rule = "cases = endpoint descriptions (protocol x subset of the 9 options x order x spelling -x v/--x v/-x=v/--x=v x blank runs x values " +
		"incl. int32/int64 boundaries; all orders of 5 (thorough: 9) options) rendered and parsed; malformed strings (all strings <= 3 (thorough 5) over " +
		"{t,c,p,' ',-,h,1}, all blank strings, single bytes, mutated descriptions, random bytes, non-ASCII blanks, address-list parts); " +
		"EndpointF/Endpoint values for the conversions; number strings / strings for the re-implemented ParseInt, Fields, %d. " +
		"non-trivial = distinct input with at least one option (desc) or at least 3 bytes (parse). Stream conc: 3 (thorough 8) phases of G = 4..16 goroutines " +
		"each parsing + converting its own sequence of ~60 different strings 2500 (thorough 20000) times, every result compared with the sequential one. Stream mgr: registry-mode endpoint managers with " +
		"tcp/udp/ssl endpoints driven through warm, block, probe rounds and active/inactive/drop refreshes (1 fixed + 4 (thorough 40) random scripts)"
	os.Stderr = realStderr
	if err := res.Write(o.Out); err != nil {
		panic(err)
	}
}
