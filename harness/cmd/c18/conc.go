package main

// stream conc: endpoint.Parse (and the two conversions) are pure functions — the Lean model `parse`
// is one by construction — so what a call returns must not depend on what other goroutines are
// doing.  G goroutines each parse their own sequence of DIFFERENT endpoint strings (and convert
// Endpoint -> EndpointF -> Endpoint) for a few thousand iterations; every result is compared with
// the result of the same call made sequentially beforehand, which is itself compared with the model.
// Parse is called concurrently in practice: every StringToProxy / adapter configuration parses.

import (
	"fmt"
	"math/rand"
	"strconv"
	"sync"
	"sync/atomic"

	"github.com/TarsCloud/TarsGo/tars/util/endpoint"

	"verifharness/common"
)

type ccase struct {
	G       int      `json:"g"`       // goroutines
	Iters   int      `json:"iters"`   // calls per goroutine
	Strings []string `json:"strings"` // hex; goroutine k starts at string k and walks with stride k+1
	Rounds  int      `json:"rounds,omitempty"`
}

func genConcCase(rng *rand.Rand, thorough bool) *ccase {
	c := &ccase{G: 4 + rng.Intn(13), Iters: 2500}
	if thorough {
		c.Iters = 20000
	}
	seen := map[string]bool{}
	add := func(s string) {
		if !seen[s] {
			seen[s] = true
			c.Strings = append(c.Strings, hx(s))
		}
	}
	// few options each, so that most strings leave most targets at their defaults: a leaked
	// value of another call is then visible
	for _, s := range []string{"tcp -h 10.0.0.1 -p 1", "udp -h 10.0.0.6 -p 6 -w 12", "ssl -h 10.0.0.3 -p 3 -t 500", "tcp -p 7 -g 1 -q 2",
		"udp -h h -b 0.0.0.0", "ssl -v 1", "tcp -h 10.0.0.9 -p 9 -t 60000 -e 1 -w 50 -v 1", "tcp", "udp -t abc -p 5", "tcp -x 1 -p 8"} {
		add(s)
	}
	for len(c.Strings) < 48 {
		d := genDesc(rng, true, true, false)
		if len(d.Items) > 4 {
			d.Items = d.Items[:1+rng.Intn(4)]
		}
		add(d.render())
	}
	for i := 0; i < 6; i++ {
		s, _ := mutate(rng, genDesc(rng, false, false, false))
		add(s)
	}
	return c
}

// seqResult: what one sequential call gives (Parse, then the conversion round trip).
func seqResult(s string) string {
	out, e, _ := implParse(s)
	if out == "panic" {
		return out
	}
	return out + " | " + guard(func() string { return showEndpoint(endpoint.Tars2endpoint(endpoint.Endpoint2tars(e))) })
}

// runConc returns the first mismatches of one concurrent phase.
func runConc(c *ccase, want []string, strs []string) (mismatches int64, first []string) {
	var wg sync.WaitGroup
	var mu sync.Mutex
	var n int64
	start := make(chan struct{})
	for g := 0; g < c.G; g++ {
		wg.Add(1)
		go func(g int) {
			defer wg.Done()
			<-start
			idx := g % len(strs)
			for it := 0; it < c.Iters; it++ {
				got := seqResult(strs[idx])
				if got != want[idx] {
					if atomic.AddInt64(&n, 1) <= 3 {
						mu.Lock()
						first = append(first, fmt.Sprintf("Parse(%q) concurrently: %s; alone: %s", strs[idx], trunc(got), trunc(want[idx])))
						mu.Unlock()
					}
				}
				idx = (idx + g + 1) % len(strs)
			}
		}(g)
	}
	close(start)
	wg.Wait()
	return n, first
}

func checkConc(c *ccase, model *common.Model, res *common.Result, verbose bool) error {
	strs := make([]string, len(c.Strings))
	lines := make([]string, len(c.Strings))
	for i, h := range c.Strings {
		strs[i] = unhex(h)
		lines[i] = "parse " + hx(strs[i])
	}
	o := op{Kind: "conc", Class: "conc", Conc: c}
	// sequential reference, checked against the model like every other parse
	ans, err := model.Batch(lines)
	if err != nil {
		return err
	}
	want := make([]string, len(strs))
	for i, s := range strs {
		want[i] = seqResult(s)
		check(op{Kind: "parse", Class: "conc:sequential-reference", Hex: hx(s), Text: strconv.Quote(s)}, ans[i], res, false)
		if again := seqResult(s); again != want[i] {
			res.Violate(common.Violation{Signature: "C18:wrong-value:Parse-repeat", What: fmt.Sprintf("two sequential calls Parse(%q) give different results", s),
				Case: common.Case{Stream: "conc", Op: o, Impl: trunc(again), Note: "first call: " + trunc(want[i])}})
		}
	}
	rounds := c.Rounds
	if rounds <= 0 {
		rounds = 1
	}
	var total int64
	var first []string
	for r := 0; r < rounds && total == 0; r++ {
		total, first = runConc(c, want, strs)
	}
	res.Count(fmt.Sprintf("conc/%d/%d/%d", c.G, c.Iters, len(strs)), "conc:G="+strconv.Itoa(c.G), true)
	res.Histogram["conc-calls"] += c.G * c.Iters
	res.TracesValidated++
	if verbose {
		fmt.Printf("conc: %d goroutines x %d calls over %d strings, up to %d rounds: %d results differ from the sequential ones\n", c.G, c.Iters, len(strs), rounds, total)
		for _, f := range first {
			fmt.Println("  ", f)
		}
	}
	if total > 0 {
		note := ""
		for _, f := range first {
			note += f + " || "
		}
		res.Violate(common.Violation{Signature: "C18:wrong-value:Parse-concurrent",
			What: fmt.Sprintf("%d of %d concurrent calls (G=%d goroutines, each parsing its own sequence of different strings) returned something else than the same call made alone: "+
				"Parse / the conversions share state between calls", total, c.G*c.Iters, c.G),
			Case: common.Case{Stream: "conc", Op: o, Impl: trunc(first[0]), Note: trunc(note)}})
	}
	return nil
}
