package main

// stream mgr: "two descriptions of the same endpoint obtain the same cache key" at the level of the
// endpoint manager, which keeps three key-indexed tables (epList: adapters; checkAdapterList: probe
// candidates handed to SelectAdapterProxy; the registry's inactive list compared against epList's
// keys on every refresh) and computes keys at several sites.  A registry-mode endpointManager
// (hooks of tars/verif_health.go, build tag verif: no background ticker, CheckStatus, ShiftTimes,
// Refresh, Health, ProbePending …) is driven with endpoints of all three transport kinds through
//
//	warm        every endpoint is selected at least once (its adapter is created and cached)
//	block       calls fail (servers accept and never answer), checkStatus takes every endpoint out
//	probe       the retry interval passes, checkStatus queues a probe per blocked endpoint, the next
//	            calls are handed the probes, the probes fail
//	inactive i  the registry moves endpoint i to its inactive list; the manager refreshes
//	active i    … and back
//	drop i      the registry forgets endpoint i
//
// Oracle (on the implementation): every key seen in activeEp, the registry list and the probe table
// is the key of `endpoint.Parse(<address string of that endpoint>)` (= key of the registry entry);
// a probe that was handed out leaves no entry behind, so the endpoint is probed again EVERY
// interval; an endpoint on the inactive list keeps its adapter.  Correspondence: the model's
// `parse` of the address string and `tars2endpoint` of the registry entry give that same key.

import (
	"context"
	"crypto/ecdsa"
	"crypto/elliptic"
	crand "crypto/rand"
	"crypto/tls"
	"crypto/x509"
	"crypto/x509/pkix"
	"encoding/pem"
	"fmt"
	"math/big"
	"math/rand"
	"net"
	"os"
	"path/filepath"
	"sort"
	"strings"
	"sync"
	"time"

	"github.com/TarsCloud/TarsGo/tars"
	"github.com/TarsCloud/TarsGo/tars/protocol/res/endpointf"
	"github.com/TarsCloud/TarsGo/tars/protocol/res/requestf"
	"github.com/TarsCloud/TarsGo/tars/registry"
	"github.com/TarsCloud/TarsGo/tars/util/endpoint"
	"github.com/TarsCloud/TarsGo/tars/util/rogger"

	"verifharness/common"
)

type mstep struct {
	K string `json:"k"` // warm | block | probe | inactive | active | drop
	I int    `json:"i,omitempty"`
}

type mcase struct {
	Kinds []int32 `json:"kinds"` // transport kind (Istcp) per endpoint: 0 udp, 1 tcp, 2 ssl
	Tmo   []int32 `json:"tmo"`   // timeout member per endpoint
	Steps []mstep `json:"steps"`
}

// ---- registry stub with an active and an inactive list ----

type mgrRegistry struct {
	mu               sync.Mutex
	active, inactive []endpointf.EndpointF
}

func (r *mgrRegistry) Registry(context.Context, *registry.ServantInstance) error   { return nil }
func (r *mgrRegistry) Deregister(context.Context, *registry.ServantInstance) error { return nil }
func (r *mgrRegistry) QueryServant(context.Context, string) ([]registry.Endpoint, []registry.Endpoint, error) {
	r.mu.Lock()
	defer r.mu.Unlock()
	return append([]endpointf.EndpointF{}, r.active...), append([]endpointf.EndpointF{}, r.inactive...), nil
}
func (r *mgrRegistry) QueryServantBySet(ctx context.Context, id, _ string) ([]registry.Endpoint, []registry.Endpoint, error) {
	return r.QueryServant(ctx, id)
}

// ---- servers that accept (ssl: complete the handshake) and never answer ----

type muteSrv struct {
	kind int32
	port int32
	ln   net.Listener
	pc   net.PacketConn
	mu   sync.Mutex
	cs   []net.Conn
}

func (s *muteSrv) close() {
	if s.ln != nil {
		s.ln.Close()
	}
	if s.pc != nil {
		s.pc.Close()
	}
	s.mu.Lock()
	for _, c := range s.cs {
		c.Close()
	}
	s.mu.Unlock()
}

func startMute(host string, kind int32, srvTLS *tls.Config) (*muteSrv, error) {
	s := &muteSrv{kind: kind}
	if kind == 0 {
		pc, err := net.ListenPacket("udp", host+":0")
		if err != nil {
			return nil, err
		}
		s.pc = pc
		s.port = int32(pc.LocalAddr().(*net.UDPAddr).Port)
		go func() {
			buf := make([]byte, 2048)
			for {
				if _, _, err := pc.ReadFrom(buf); err != nil {
					return
				}
			}
		}()
		return s, nil
	}
	var ln net.Listener
	var err error
	if kind == 2 {
		ln, err = tls.Listen("tcp", host+":0", srvTLS)
	} else {
		ln, err = net.Listen("tcp", host+":0")
	}
	if err != nil {
		return nil, err
	}
	s.ln = ln
	s.port = int32(ln.Addr().(*net.TCPAddr).Port)
	go func() {
		for {
			c, err := ln.Accept()
			if err != nil {
				return
			}
			s.mu.Lock()
			s.cs = append(s.cs, c)
			s.mu.Unlock()
			go func() {
				buf := make([]byte, 2048)
				for {
					if _, err := c.Read(buf); err != nil { // the first Read performs the TLS handshake
						return
					}
				}
			}()
		}
	}()
	return s, nil
}

// ---- TLS material: one self-signed certificate for 127.0.0.1..16; the client trusts it through
// the ordinary configuration file (/tars/application/client<ca>), no hook needed ----

var (
	mgrTLSOnce sync.Once
	mgrSrvTLS  *tls.Config
	mgrTLSDir  string
	mgrTLSErr  error
)

func mgrSetupTLS() error {
	mgrTLSOnce.Do(func() {
		priv, err := ecdsa.GenerateKey(elliptic.P256(), crand.Reader)
		if err != nil {
			mgrTLSErr = err
			return
		}
		tmpl := &x509.Certificate{
			SerialNumber: big.NewInt(18), Subject: pkix.Name{CommonName: "c18-mgr"},
			NotBefore: time.Now().Add(-time.Hour), NotAfter: time.Now().Add(24 * time.Hour),
			KeyUsage: x509.KeyUsageDigitalSignature | x509.KeyUsageCertSign, IsCA: true, BasicConstraintsValid: true,
			ExtKeyUsage: []x509.ExtKeyUsage{x509.ExtKeyUsageServerAuth},
		}
		for i := 1; i <= 16; i++ {
			tmpl.IPAddresses = append(tmpl.IPAddresses, net.ParseIP(fmt.Sprintf("127.0.0.%d", i)))
		}
		der, err := x509.CreateCertificate(crand.Reader, tmpl, tmpl, &priv.PublicKey, priv)
		if err != nil {
			mgrTLSErr = err
			return
		}
		mgrSrvTLS = &tls.Config{Certificates: []tls.Certificate{{Certificate: [][]byte{der}, PrivateKey: priv}}}
		dir, err := os.MkdirTemp("", "c18mgr")
		if err != nil {
			mgrTLSErr = err
			return
		}
		mgrTLSDir = dir
		ca := filepath.Join(dir, "ca.pem")
		if err := os.WriteFile(ca, pem.EncodeToMemory(&pem.Block{Type: "CERTIFICATE", Bytes: der}), 0o600); err != nil {
			mgrTLSErr = err
			return
		}
		cfg := "<tars>\n<application>\n<client>\nca=" + ca + "\n</client>\n<server>\nlogLevel=ERROR\n</server>\n</application>\n</tars>\n"
		cf := filepath.Join(dir, "client.conf")
		if err := os.WriteFile(cf, []byte(cfg), 0o600); err != nil {
			mgrTLSErr = err
			return
		}
		tars.ServerConfigPath = cf // read once, by the first NewCommunicator of the process
	})
	return mgrTLSErr
}

func mgrCleanup() {
	if mgrTLSDir != "" {
		os.RemoveAll(mgrTLSDir)
	}
}

var kindWord = map[int32]string{0: "udp", 1: "tcp", 2: "ssl"}

func genMgrCase(rng *rand.Rand) *mcase {
	n := 3 + rng.Intn(3)
	c := &mcase{}
	kinds := []int32{0, 1, 2}
	for len(kinds) < n {
		kinds = append(kinds, int32(rng.Intn(3)))
	}
	rng.Shuffle(len(kinds), func(i, j int) { kinds[i], kinds[j] = kinds[j], kinds[i] })
	c.Kinds = kinds
	for range kinds {
		c.Tmo = append(c.Tmo, []int32{3000, 3000, 100, 60000, 1}[rng.Intn(5)])
	}
	pair := func() {
		i := rng.Intn(n)
		c.Steps = append(c.Steps, mstep{K: "inactive", I: i}, mstep{K: "active", I: i})
	}
	c.Steps = append(c.Steps, mstep{K: "warm"})
	for k := rng.Intn(3); k > 0; k-- {
		pair()
	}
	c.Steps = append(c.Steps, mstep{K: "block"}, mstep{K: "probe"})
	if rng.Intn(2) == 0 {
		pair()
	}
	c.Steps = append(c.Steps, mstep{K: "probe"})
	if rng.Intn(2) == 0 {
		c.Steps = append(c.Steps, mstep{K: "probe"})
	}
	if rng.Intn(2) == 0 {
		c.Steps = append(c.Steps, mstep{K: "drop", I: rng.Intn(n)})
	}
	return c
}

var mgrSeq int

type mgrRun struct {
	c      *mcase
	res    *common.Result
	op     op
	n      int
	epf    []endpointf.EndpointF
	addr   []string
	want   []string // canonical key per endpoint: endpoint.Parse(addr).Key
	state  []int    // 0 active, 1 inactive, 2 dropped
	srv    []*muteSrv
	reg    *mgrRegistry
	vm     *tars.VerifManager
	sp     *tars.ServantProxy
	trace  []string
	broken string
}

func (r *mgrRun) logf(f string, a ...interface{}) { r.trace = append(r.trace, fmt.Sprintf(f, a...)) }

func (r *mgrRun) violate(locus, what string) {
	tr := strings.Join(r.trace, " | ")
	if len(tr) > 1500 {
		tr = "…" + tr[len(tr)-1500:]
	}
	r.res.Violate(common.Violation{Signature: "C18:wrong-value:" + locus, What: what,
		Case: common.Case{Stream: "mgr", Op: r.op, Impl: trunc(what), Note: tr}})
}

func (r *mgrRun) call() {
	ctx, cancel := context.WithTimeout(context.Background(), 25*time.Millisecond) // a deadline in the context overrides TarsSetTimeout
	defer cancel()
	var resp requestf.ResponsePacket
	_ = r.sp.TarsInvoke(ctx, 0, "c18", nil, nil, nil, &resp)
}

func (r *mgrRun) pushRegistry() error {
	var act, inact []endpointf.EndpointF
	for i, st := range r.state {
		switch st {
		case 0:
			act = append(act, r.epf[i])
		case 1:
			inact = append(inact, r.epf[i])
		}
	}
	r.reg.mu.Lock()
	r.reg.active, r.reg.inactive = act, inact
	r.reg.mu.Unlock()
	if r.vm == nil {
		return nil
	}
	return r.vm.Refresh()
}

func (r *mgrRun) idxOfKey(k string) int {
	for i, w := range r.want {
		if w == k {
			return i
		}
	}
	return -1
}

// checkKeys: every key the manager shows belongs to one of the endpoints, as Parse names it.
func (r *mgrRun) checkKeys(where string) {
	for _, src := range []struct {
		site string
		keys []string
	}{{"activeEp", r.vm.Active()}, {"registry", r.vm.Registry()}, {"checkAdapterList", r.vm.ProbePending()}} {
		for _, k := range src.keys {
			if r.idxOfKey(k) < 0 {
				r.violate("key-site-"+src.site, fmt.Sprintf("%s: %s holds the key %q, which is not the key endpoint.Parse gives any of the endpoints %q",
					where, src.site, k, r.addr))
			}
		}
	}
}

func (r *mgrRun) activeIdx() []int {
	var out []int
	for i, st := range r.state {
		if st == 0 {
			out = append(out, i)
		}
	}
	return out
}

func sortedCopy(a []string) []string {
	b := append([]string{}, a...)
	sort.Strings(b)
	return b
}

func (r *mgrRun) step(s mstep) {
	switch s.K {
	case "warm":
		for try := 0; try < 6*r.n; try++ {
			all := true
			for _, i := range r.activeIdx() {
				if !r.vm.Health(r.want[i]).Exists {
					all = false
				}
			}
			if all {
				break
			}
			r.call()
		}
		for _, i := range r.activeIdx() {
			if !r.vm.Health(r.want[i]).Exists {
				r.violate("key-site-epList", fmt.Sprintf("after %d calls no adapter is cached under %q, the key of %q", 6*r.n, r.want[i], r.addr[i]))
			}
		}
		r.logf("warm")
	case "block":
		for try := 0; try < 14*r.n; try++ {
			done := true
			for _, i := range r.activeIdx() {
				if h := r.vm.Health(r.want[i]); h.Exists && h.Status && h.LastFailCount < 5 {
					done = false
				}
			}
			if done {
				break
			}
			r.call()
		}
		r.vm.ShiftTimes(6)
		r.vm.CheckStatus()
		for _, i := range r.activeIdx() {
			if h := r.vm.Health(r.want[i]); !h.Exists || h.Status {
				r.broken = fmt.Sprintf("block: endpoint %q not taken out (health %+v)", r.addr[i], h)
				return
			}
		}
		r.logf("block")
	case "probe":
		var blocked []string
		for _, i := range r.activeIdx() {
			if h := r.vm.Health(r.want[i]); h.Exists && !h.Status && !h.Closed {
				blocked = append(blocked, r.want[i])
			}
		}
		r.vm.ShiftTimes(31)
		r.vm.CheckStatus()
		pend := sortedCopy(r.vm.ProbePending())
		q := r.vm.ProbeQueueLen()
		r.logf("probe: blocked=%d queued=%d pending=%q", len(blocked), q, pend)
		r.checkKeys("probe")
		if q != len(blocked) {
			missing := []string{}
			for _, k := range blocked {
				missing = append(missing, r.addr[r.idxOfKey(k)])
			}
			r.violate("key-site-probe", fmt.Sprintf("%d endpoints are blocked and the retry interval has passed, but %d probes are queued "+
				"(entries of checkAdapterList: %q; blocked endpoints %q): an endpoint whose probe was handed out earlier is not probed again", len(blocked), q, pend, missing))
		}
		for k := 0; k < q; k++ {
			r.call()
		}
		if left := r.vm.ProbePending(); len(left) > 0 || r.vm.ProbeQueueLen() != 0 {
			r.violate("key-site-probe", fmt.Sprintf("all %d queued probes were handed out, yet checkAdapterList still holds %q (queue %d): "+
				"the hand-out site removes the entry under a different key than the one it was stored under", q, left, r.vm.ProbeQueueLen()))
		}
	case "inactive", "active", "drop":
		i := s.I % r.n
		before := r.vm.Health(r.want[i])
		old := r.state[i]
		switch s.K {
		case "inactive":
			r.state[i] = 1
		case "active":
			r.state[i] = 0
		case "drop":
			r.state[i] = 2
		}
		if len(r.activeIdx()) == 0 { // the manager ignores an empty active list
			r.state[i] = old
			r.logf("%s %d skipped", s.K, i)
			return
		}
		if err := r.pushRegistry(); err != nil {
			r.broken = "refresh: " + err.Error()
			return
		}
		after := r.vm.Health(r.want[i])
		r.logf("%s %d (%s): adapter %v -> %v", s.K, i, r.addr[i], before.Exists, after.Exists)
		r.checkKeys(s.K)
		if s.K != "drop" && before.Exists && (!after.Exists || after.Closed || after.SendCount < before.SendCount) {
			r.violate("key-site-inactive", fmt.Sprintf("endpoint %q (key %q) is on the registry's %s list and had an adapter, but after the refresh the adapter is gone "+
				"(exists=%v closed=%v): the refresh compares the cached keys with a differently built key", r.addr[i], r.want[i], map[int]string{0: "active", 1: "inactive"}[r.state[i]], after.Exists, after.Closed))
		}
		if s.K == "drop" && after.Exists {
			r.res.Note("mgr: adapter of a dropped endpoint still cached (%s)", r.addr[i])
		}
	}
}

func runMgr(c *mcase, model *common.Model, res *common.Result, verbose bool) error {
	if err := mgrSetupTLS(); err != nil {
		return err
	}
	mgrSeq++
	r := &mgrRun{c: c, res: res, op: op{Kind: "mgr", Class: "mgr", Mgr: c}, n: len(c.Kinds), reg: &mgrRegistry{}}
	defer func() {
		for _, s := range r.srv {
			s.close()
		}
	}()
	var lines []string
	for i, k := range c.Kinds {
		host := fmt.Sprintf("127.0.0.%d", i+1)
		s, err := startMute(host, k, mgrSrvTLS)
		if err != nil {
			return err
		}
		r.srv = append(r.srv, s)
		ef := endpointf.EndpointF{Host: host, Port: s.port, Timeout: c.Tmo[i], Istcp: k, SetId: "", Weight: 100}
		r.epf = append(r.epf, ef)
		a := fmt.Sprintf("%s -h %s -p %d -t %d", kindWord[k], host, s.port, c.Tmo[i])
		r.addr = append(r.addr, a)
		r.want = append(r.want, endpoint.Parse(a).Key)
		r.state = append(r.state, 0)
		lines = append(lines, "parse "+hx(a), fmt.Sprintf("t2e %s %d %d %d 0 0 100 0 0 -", hx(host), s.port, c.Tmo[i], k))
	}
	// correspondence + the two origins agree (implementation and model)
	ans, err := model.Batch(lines)
	if err != nil {
		return err
	}
	keyOf := func(line string) string {
		for _, w := range strings.Fields(line) {
			if strings.HasPrefix(w, "key=") {
				return unhex(w[4:])
			}
		}
		return "?"
	}
	for i := range c.Kinds {
		regKey := endpoint.Tars2endpoint(r.epf[i]).Key
		if regKey != r.want[i] {
			r.violate("key-registry", fmt.Sprintf("the registry entry of %q gets key %q, the address string %q", r.addr[i], regKey, r.want[i]))
		}
		if ans[2*i] != common.NoModel {
			mk1, mk2 := keyOf(ans[2*i]), keyOf(ans[2*i+1])
			if mk1 != r.want[i] || mk2 != regKey {
				res.Diverge(common.Case{Stream: "mgr", Op: r.op, Model: fmt.Sprintf("parse key %q, registry key %q", mk1, mk2),
					Impl: fmt.Sprintf("parse key %q, registry key %q", r.want[i], regKey), Note: r.addr[i]})
			}
		}
	}
	if err := r.pushRegistry(); err != nil {
		return err
	}
	comm := tars.NewCommunicator(tars.Registrar(r.reg))
	rogger.SetLevel(rogger.OFF)
	vm, err := tars.VerifNewManager(comm, fmt.Sprintf("C18.Mgr.Obj%d", mgrSeq))
	if err != nil {
		return err
	}
	r.vm, r.sp = vm, vm.Servant()
	r.sp.TarsSetTimeout(25)
	r.checkKeys("install")
	for _, s := range c.Steps {
		r.step(s)
		if r.broken != "" {
			break
		}
	}
	cls := "mgr:ok"
	if r.broken != "" {
		cls = "mgr:inconclusive"
		res.Note("mgr case inconclusive: %s", r.broken)
	}
	key := fmt.Sprintf("mgr/%v/%v/%d", c.Kinds, c.Tmo, len(c.Steps))
	res.Count(key, cls, r.broken == "")
	for _, s := range c.Steps {
		res.Histogram["mgr-step:"+s.K]++
	}
	for _, k := range c.Kinds {
		res.Histogram["mgr-endpoint:"+kindWord[k]]++
	}
	res.TracesValidated++
	if verbose {
		fmt.Printf("mgr case: endpoints %q\nkeys (Parse of the address string): %q\ntrace: %s\nbroken: %q\n", r.addr, r.want, strings.Join(r.trace, "\n       "), r.broken)
	}
	// leave no live client behind: the adapters' transport clients are replaced by ones that never dial
	for _, k := range r.want {
		vm.FreshClient(k)
	}
	return nil
}
