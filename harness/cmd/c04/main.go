// C04 harness: schema evolution (unknown members skipped exactly, absent optionals → defaults also
// on reused targets, absent required members → error).
package main

import (
	"verifharness/codecrun"
	"verifharness/fwtypes"
)

func main() { codecrun.Launch("C04", fwtypes.Types) }
