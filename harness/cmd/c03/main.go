// C03 harness: generated struct codecs — round trip, wire conformance against an independent
// strict reference decoder, correspondence with the Lean schema model; over the framework's own
// protocol structs and over random IDL compiled by the working tree's tars2go.
package main

import (
	"verifharness/codecrun"
	"verifharness/fwtypes"
)

func main() { codecrun.Launch("C03", fwtypes.Types) }
