// C03 harness: generated struct codecs — round trip, wire conformance against an independent
// strict reference decoder, correspondence with the Lean schema model.
package main

import (
	"verifharness/codecrun"
	"verifharness/common"
	"verifharness/fwtypes"
)

func main() {
	o := common.ParseOpts()
	e, err := codecrun.NewEngine("C03", o, fwtypes.Types())
	if err != nil {
		r := common.NewResult("C03", o)
		r.Fatal(o.Out, err)
	}
	defer e.M.Close()
	n := 200
	if o.Thorough() {
		n = 5000
	}
	e.RunC03(n)
	e.Res.Rule = "per registered generated struct type: type-directed random values (boundary integers, random/NaN/±0/Inf floats, " +
		"strings 0..300 bytes incl. arbitrary bytes, nil/empty/large containers, optional members at their default with p=1/3); " +
		"non-trivial = distinct (type, encoded bytes) with a non-empty encoding"
	if err := e.Res.Write(o.Out); err != nil {
		panic(err)
	}
}
