// c20: correspondence harness and property oracle for C20 (rogger: FlushLogger writes every entry
// logged before it, once, in order, undivided).
//
// The real package github.com/TarsCloud/TarsGo/tars/util/rogger is driven in-process: recording
// LogWriters, goroutines logging numbered entries through WriteLog / Infof, FlushLogger at chosen
// points. Needs the verif hook of pending/C20-hook.patch (VerifReset: many flushes per process;
// verifYield between the two selects of flushLog: forced interleavings).
//
// Streams (all: history → property oracle; the visible history is also replayed through the Lean
// LTS with `admits`):
//
//	forced   the flusher is held between its two selects after it saw an empty queue; m entries are
//	         logged (their calls return); FlushLogger is called; the flusher is released once the
//	         flush request is pending. Both cases of the inner select are ready: the D4 schedule.
//	random   G goroutines × n entries, W writers, small or default queue capacity (blocking sends),
//	         slow writers, the flusher lingering at the yield point, flush after a random number of
//	         returned log calls. Small runs are replayed through the model, large ones (many
//	         goroutines) are checked by the oracle only.
//	timeout  a writer that blocks: FlushLogger returns through its timeout; nothing is promised,
//	         the history must still be a run of the model.
package main

import (
	"crypto/sha256"
	"encoding/json"
	"fmt"
	"math/rand"
	"os"
	"runtime"
	"strings"
	"sync"
	"sync/atomic"
	"time"

	"verifharness/common"

	"github.com/TarsCloud/TarsGo/tars/util/rogger"
)

const yieldPoint = "flushLog.beforeInnerSelect"

// Scenario is one replayable case.
type Scenario struct {
	Kind         string `json:"kind"` // forced | random | timeout | rollfile | dayfile | hourfile (real writers, realwriter.go)
	Seed         int64  `json:"seed"`
	Cap          int    `json:"cap"`        // capacity of the log queue
	Goroutines   int    `json:"goroutines"` // logging goroutines
	PerG         int    `json:"per_g"`      // entries per goroutine (random) / held entries in total (forced)
	Writers      int    `json:"writers"`
	Prefill      int    `json:"prefill"`                  // forced: entries logged and written before the flusher is held
	FlushAfter   int    `json:"flush_after"`              // random: FlushLogger is called once this many log calls have returned
	Linger       int    `json:"linger"`                   // random: Gosched rounds the flusher spends at the yield point
	SlowWrite    int    `json:"slow_write"`               // Gosched rounds inside every Write
	MaxLen       int    `json:"max_len"`                  // longest payload
	WaitFlush    int    `json:"wait_flush_ms"`            // forced: every Write of a held entry waits up to this long for FlushLogger to return
	Model        bool   `json:"model"`                    // replay the history through the Lean model
	Repeat       int    `json:"repeat"`                   // replay: how often the scenario is executed (schedules differ)
	Num          int    `json:"num,omitempty"`            // real writers: files kept
	SizeMB       int    `json:"size_mb,omitempty"`        // rollfile: size limit as given to SetFileRoller
	LineLen      int    `json:"line_len,omitempty"`       // real writers: longest payload of a line
	ForceHour    bool   `json:"force_hour,omitempty"`     // hourfile: gtime.CurrDateHour is changed half way
	DelayUS      int    `json:"delay_us,omitempty"`       // panicexit: the child's writer needs this long per entry
	FirstDelayMS int    `json:"first_delay_ms,omitempty"` // panicexit: and this long once, for its first entry
	PanicKind    string `json:"panic_kind,omitempty"`     // panicexit: nilmap | error | string | index | goroutine
}

func (sc Scenario) real() bool {
	return sc.Kind == "rollfile" || sc.Kind == "dayfile" || sc.Kind == "hourfile"
}

type event struct {
	Kind string // C R W F D T
	G    int
	W    int
	Data []byte
}

func (e event) token() string {
	switch e.Kind {
	case "C":
		return fmt.Sprintf("C.%d.%d.%s", e.G, e.W, common.Hex(e.Data))
	case "R":
		return fmt.Sprintf("R.%d.%d.%s", e.G, e.W, common.Hex(e.Data))
	case "W":
		return fmt.Sprintf("W.%d.%s", e.W, common.Hex(e.Data))
	}
	return e.Kind
}

type recorder struct {
	mu     sync.Mutex
	evs    []event
	closed bool
}

func (r *recorder) add(e event) int {
	r.mu.Lock()
	defer r.mu.Unlock()
	if r.closed {
		return -1
	}
	r.evs = append(r.evs, e)
	return len(r.evs) - 1
}

func (r *recorder) count(kind string) int {
	r.mu.Lock()
	defer r.mu.Unlock()
	n := 0
	for _, e := range r.evs {
		if e.Kind == kind {
			n++
		}
	}
	return n
}

// seal closes the history (events after FlushLogger's return are not part of the case).
func (r *recorder) seal() []event {
	r.mu.Lock()
	defer r.mu.Unlock()
	r.closed = true
	return r.evs
}

type recWriter struct {
	id   int
	rec  *recorder
	slow int
	gate chan struct{} // timeout stream: the first Write blocks until the gate is closed
	once sync.Once
	// forced stream: a Write waits (bounded) for FlushLogger's return. In a correct flusher the
	// return cannot come before the Write is over, so the wait always runs out; a flusher that
	// signals completion before it has written is caught red-handed.
	flushReturned chan struct{}
	waitFlush     time.Duration
}

func (w *recWriter) Write(v []byte) {
	w.rec.add(event{Kind: "W", W: w.id, Data: append([]byte(nil), v...)})
	if w.gate != nil {
		w.once.Do(func() { <-w.gate })
	}
	if w.waitFlush > 0 {
		select {
		case <-w.flushReturned:
		case <-time.After(w.waitFlush):
		}
	}
	for i := 0; i < w.slow; i++ {
		runtime.Gosched()
	}
}
func (w *recWriter) NeedPrefix() bool { return false }

// outcome of one execution
type outcome struct {
	evs        []event
	completed  bool
	flushTook  time.Duration
	timeout    time.Duration
	queueAtReq int
	hang       string
	elapsed    time.Duration
	extra      []finding // findings of the stream itself (jsonformat.go), added to the oracle's
}

const longTimeout = 60 * time.Second
const watchdog = 100 * time.Second

func payload(rng *rand.Rand, g, n, maxLen int) []byte {
	s := fmt.Sprintf("g%d#%d|", g, n)
	extra := 0
	if maxLen > 0 {
		switch rng.Intn(4) {
		case 0:
			extra = 0
		case 1:
			extra = rng.Intn(8)
		default:
			extra = rng.Intn(maxLen + 1)
		}
	}
	b := []byte(s)
	for i := 0; i < extra; i++ {
		b = append(b, byte('a'+rng.Intn(26)))
	}
	if rng.Intn(3) == 0 {
		b = append(b, '\n')
	}
	return b
}

func loggers(sc Scenario, rec *recorder, gate chan struct{}) []*rogger.Logger {
	lgs, _ := loggersW(sc, rec, gate)
	return lgs
}

func loggersW(sc Scenario, rec *recorder, gate chan struct{}) ([]*rogger.Logger, []*recWriter) {
	lgs := make([]*rogger.Logger, sc.Writers)
	ws := make([]*recWriter, sc.Writers)
	for i := range lgs {
		lgs[i] = rogger.GetLogger(fmt.Sprintf("c20-w%d", i))
		w := &recWriter{id: i, rec: rec, slow: sc.SlowWrite}
		if i == 0 {
			w.gate = gate
		}
		ws[i] = w
		lgs[i].SetWriter(w)
	}
	return lgs, ws
}

// logOne performs one logging call of goroutine g and records its call / return.
func logOne(rec *recorder, lg *rogger.Logger, g, w int, data []byte, viaWritef bool) {
	rec.add(event{Kind: "C", G: g, W: w, Data: data})
	if viaWritef {
		lg.Infof("%s", string(data)) // Writef → writeLine (no prefix: NeedPrefix() is false)
	} else {
		lg.WriteLog(append([]byte(nil), data...))
	}
	rec.add(event{Kind: "R", G: g, W: w, Data: data})
}

func flushAndRecord(rec *recorder) (completed bool, took time.Duration, hang string) {
	done := make(chan struct{})
	go func() {
		t0 := time.Now()
		rogger.FlushLogger()
		took = time.Since(t0)
		completed = rogger.VerifFlushCompleted()
		if completed {
			rec.add(event{Kind: "D"})
		} else {
			rec.add(event{Kind: "T"})
		}
		close(done)
	}()
	select {
	case <-done:
		return completed, took, ""
	case <-time.After(watchdog):
		return false, 0, "FlushLogger"
	}
}

// finish lets the logging goroutines end (the flusher may be gone: discard what they queue).
func finish(wg *sync.WaitGroup) string {
	done := make(chan struct{})
	go func() { wg.Wait(); close(done) }()
	deadline := time.After(watchdog)
	for {
		select {
		case <-done:
			return ""
		case <-deadline:
			return "logging-call"
		default:
			rogger.VerifDiscardQueued()
			runtime.Gosched()
		}
	}
}

func runForced(sc Scenario) outcome {
	rng := rand.New(rand.NewSource(sc.Seed))
	rec := &recorder{}
	var armed atomic.Bool
	arrived := make(chan struct{}, 1)
	release := make(chan struct{})
	yield := func(p string) {
		if p == yieldPoint && armed.CompareAndSwap(true, false) {
			arrived <- struct{}{}
			<-release
		}
	}
	if sc.Prefill == 0 {
		armed.Store(true)
	}
	t0 := time.Now()
	if !rogger.VerifReset(sc.Cap, longTimeout, yield, watchdog) {
		return outcome{hang: "flushLog"}
	}
	lgs, ws := loggersW(sc, rec, nil)
	n := make([]int, sc.Goroutines)
	next := func(i int) (int, int, []byte) {
		g := i % sc.Goroutines
		d := payload(rng, g, n[g], sc.MaxLen)
		n[g]++
		return g, g % sc.Writers, d
	}
	// Prefill: entries that are logged and written before the flusher is held. The flusher is armed
	// only when everything but the last of them has been written: it is then held, at the latest
	// after it has written the last one, with at most that one entry in the queue (so every
	// logging call below returns, whatever the capacity).
	prefillDone := make(chan struct{})
	go func() {
		defer close(prefillDone)
		for i := 0; i < sc.Prefill; i++ {
			if i == sc.Prefill-1 {
				for limit := time.Now().Add(20 * time.Second); rec.count("W") < sc.Prefill-1 && time.Now().Before(limit); {
					runtime.Gosched()
				}
				armed.Store(true)
			}
			g, w, d := next(i)
			logOne(rec, lgs[w], g, w, d, i%2 == 1)
		}
	}()
	select {
	case <-prefillDone:
	case <-time.After(watchdog):
		return outcome{hang: "logging-call"}
	}
	select {
	case <-arrived:
	case <-time.After(watchdog):
		return outcome{hang: "flushLog"}
	}
	// the flusher is between its two selects; these calls return (the entries fit into the queue:
	// the last prefill entry may still be in it) and the entries stay queued
	flushReturned := make(chan struct{})
	for _, w := range ws { // the flusher is held: it is not inside a Write
		w.flushReturned = flushReturned
		w.waitFlush = time.Duration(sc.WaitFlush) * time.Millisecond
	}
	m := sc.PerG
	if free := sc.Cap - rogger.VerifQueueLen(); m > free {
		m = free
	}
	var wg sync.WaitGroup
	per := make([][]int, sc.Goroutines)
	for i := 0; i < m; i++ {
		per[(sc.Prefill+i)%sc.Goroutines] = append(per[(sc.Prefill+i)%sc.Goroutines], i)
	}
	datas := make([][]byte, m)
	for i := 0; i < m; i++ {
		_, _, datas[i] = next(sc.Prefill + i)
	}
	for g := 0; g < sc.Goroutines; g++ {
		wg.Add(1)
		go func(g int) {
			defer wg.Done()
			for _, i := range per[g] {
				logOne(rec, lgs[g%sc.Writers], g, g%sc.Writers, datas[i], i%2 == 1)
			}
		}(g)
	}
	if h := finishNoDiscard(&wg); h != "" {
		return outcome{hang: h}
	}
	q := rogger.VerifQueueLen()
	rec.add(event{Kind: "F"})
	relDone := make(chan struct{})
	go func() {
		<-rogger.VerifFlushRequested() // syncCancel() has run: the flush request is pending
		close(release)
		close(relDone)
	}()
	completed, took, hang := flushAndRecord(rec)
	close(flushReturned)
	<-relDone
	return outcome{evs: rec.seal(), completed: completed, flushTook: took, timeout: longTimeout, queueAtReq: q, hang: hang, elapsed: time.Since(t0)}
}

func finishNoDiscard(wg *sync.WaitGroup) string {
	done := make(chan struct{})
	go func() { wg.Wait(); close(done) }()
	select {
	case <-done:
		return ""
	case <-time.After(watchdog):
		return "logging-call"
	}
}

func runRandom(sc Scenario) outcome {
	rec := &recorder{}
	yield := func(p string) {
		for i := 0; i < sc.Linger; i++ {
			runtime.Gosched()
		}
	}
	t0 := time.Now()
	if !rogger.VerifReset(sc.Cap, longTimeout, yield, watchdog) {
		return outcome{hang: "flushLog"}
	}
	lgs := loggers(sc, rec, nil)
	var stop atomic.Bool
	var returned atomic.Int64
	var wg sync.WaitGroup
	for g := 0; g < sc.Goroutines; g++ {
		wg.Add(1)
		go func(g int) {
			defer wg.Done()
			rng := rand.New(rand.NewSource(sc.Seed*1000003 + int64(g)))
			for n := 0; n < sc.PerG && !stop.Load(); n++ {
				logOne(rec, lgs[g%sc.Writers], g, g%sc.Writers, payload(rng, g, n, sc.MaxLen), rng.Intn(2) == 0)
				returned.Add(1)
				for k := rng.Intn(4); k > 0; k-- {
					runtime.Gosched()
				}
			}
		}(g)
	}
	deadline := time.Now().Add(watchdog)
	for returned.Load() < int64(sc.FlushAfter) {
		if time.Now().After(deadline) {
			return outcome{hang: "logging-call"}
		}
		runtime.Gosched()
	}
	q := rogger.VerifQueueLen()
	rec.add(event{Kind: "F"})
	completed, took, hang := flushAndRecord(rec)
	evs := rec.seal()
	stop.Store(true)
	if hang == "" {
		hang = finish(&wg)
	}
	return outcome{evs: evs, completed: completed, flushTook: took, timeout: longTimeout, queueAtReq: q, hang: hang, elapsed: time.Since(t0)}
}

func runTimeout(sc Scenario) outcome {
	rng := rand.New(rand.NewSource(sc.Seed))
	rec := &recorder{}
	t0 := time.Now()
	const shortTimeout = 30 * time.Millisecond
	if !rogger.VerifReset(sc.Cap, shortTimeout, nil, watchdog) {
		return outcome{hang: "flushLog"}
	}
	gate := make(chan struct{})
	lgs := loggers(sc, rec, gate)
	for i := 0; i < sc.PerG; i++ {
		g := i % sc.Goroutines
		logOne(rec, lgs[0], g, 0, payload(rng, g, i, sc.MaxLen), false)
	}
	q := rogger.VerifQueueLen()
	rec.add(event{Kind: "F"})
	completed, took, hang := flushAndRecord(rec) // the flusher is stuck in Write: only the timer can fire
	evs := rec.seal()
	close(gate)
	return outcome{evs: evs, completed: completed, flushTook: took, timeout: shortTimeout, queueAtReq: q, hang: hang, elapsed: time.Since(t0)}
}

func execute(sc Scenario) outcome {
	switch sc.Kind {
	case "forced":
		return runForced(sc)
	case "timeout":
		return runTimeout(sc)
	case "json":
		return runJSON(sc)
	}
	return runRandom(sc)
}

// ---- property oracle (on the recorded history of the implementation, independent of the model) ----

type finding struct{ class, what string }

type verdict struct {
	findings  []finding
	before    int // entries whose call returned before FlushLogger was entered
	writes    int
	lostCount int
}

func oracle(evs []event, completed bool) verdict {
	var v verdict
	type ent struct {
		g, w, idx      int
		callSeq        int
		retSeq         int
		writeSeqs      []int
		wrongWriterSeq int
	}
	byData := map[string]*ent{}
	var order []*ent
	inflight := map[int]*ent{}
	perG := map[int]int{}
	flushSeq, retFlushSeq := -1, -1
	for i, e := range evs {
		switch e.Kind {
		case "C":
			x := &ent{g: e.G, w: e.W, idx: perG[e.G], callSeq: i, retSeq: -1, wrongWriterSeq: -1}
			perG[e.G]++
			byData[string(e.Data)] = x
			inflight[e.G] = x
			order = append(order, x)
		case "R":
			if x := inflight[e.G]; x != nil {
				x.retSeq = i
				delete(inflight, e.G)
			}
		case "F":
			flushSeq = i
		case "D", "T":
			retFlushSeq = i
		}
	}
	lastWritten := map[int]int{}
	for g := range perG {
		lastWritten[g] = -1
	}
	for i, e := range evs {
		if e.Kind != "W" {
			continue
		}
		v.writes++
		x := byData[string(e.Data)]
		if x == nil {
			// not the whole value of any entry: a fragment / concatenation, or invented
			frag := false
			for d := range byData {
				if len(e.Data) > 0 && len(e.Data) < len(d) && strings.Contains(d, string(e.Data)) {
					frag = true
				}
				if len(e.Data) > len(d) && strings.HasPrefix(string(e.Data), d) {
					frag = true
				}
			}
			if frag {
				v.findings = append(v.findings, finding{"split-write", fmt.Sprintf("Write #%d carries %q, which is not the whole value of one entry", i, e.Data)})
			} else {
				v.findings = append(v.findings, finding{"invented-write", fmt.Sprintf("Write #%d carries %q, which was never logged", i, e.Data)})
			}
			continue
		}
		if x.callSeq > i {
			v.findings = append(v.findings, finding{"invented-write", fmt.Sprintf("Write #%d of %q precedes its logging call", i, e.Data)})
		}
		if e.W != x.w {
			v.findings = append(v.findings, finding{"wrong-writer", fmt.Sprintf("entry %q of writer %d was handed to writer %d", e.Data, x.w, e.W)})
		}
		x.writeSeqs = append(x.writeSeqs, i)
		if len(x.writeSeqs) == 2 {
			v.findings = append(v.findings, finding{"duplicate-write", fmt.Sprintf("entry %q was handed to its writer more than once", e.Data)})
		}
		if len(x.writeSeqs) == 1 {
			if x.idx != lastWritten[x.g]+1 {
				v.findings = append(v.findings, finding{"reordered", fmt.Sprintf("goroutine %d: entry #%d reached the writer after entry #%d", x.g, x.idx, lastWritten[x.g])})
			}
			if x.idx > lastWritten[x.g] {
				lastWritten[x.g] = x.idx
			}
		}
	}
	if flushSeq >= 0 {
		for _, x := range order {
			if x.retSeq >= 0 && x.retSeq < flushSeq {
				v.before++
				if completed && retFlushSeq >= 0 {
					ok := false
					for _, ws := range x.writeSeqs {
						if ws < retFlushSeq {
							ok = true
						}
					}
					if !ok {
						v.lostCount++
						if v.lostCount == 1 {
							v.findings = append(v.findings, finding{"lost-entry", fmt.Sprintf("goroutine %d entry #%d: its logging call returned before FlushLogger was called, FlushLogger returned within its timeout, the entry was not handed to its writer", x.g, x.idx)})
						}
					}
				}
			}
		}
	}
	return v
}

// ---- generator ----

func genScenarios(o *common.Opts, rng *rand.Rand) []Scenario {
	var scs []Scenario
	mul := 2
	if o.Thorough() {
		mul = 20
	}
	// forced: every small capacity × every occupancy, plus the default capacity
	for rep := 0; rep < 2*mul; rep++ {
		for _, cap := range []int{1, 2, 3, 5, 8} {
			for m := 1; m <= cap; m++ {
				g := 1 + rng.Intn(3)
				if g > m {
					g = m
				}
				scs = append(scs, Scenario{Kind: "forced", Seed: rng.Int63(), Cap: cap, Goroutines: g, PerG: m,
					Writers: 1 + rng.Intn(2), Prefill: rng.Intn(3), MaxLen: 40, Model: true})
			}
		}
		for _, m := range []int{1, 2, 7, 40} {
			scs = append(scs, Scenario{Kind: "forced", Seed: rng.Int63(), Cap: 10000, Goroutines: 1 + rng.Intn(4), PerG: m,
				Writers: 1 + rng.Intn(3), Prefill: rng.Intn(4), MaxLen: 300, Model: m <= 7})
		}
	}
	// forced, with writers that wait (bounded) for FlushLogger's return: completion signalled before
	// the writes are over is observed deterministically
	for rep := 0; rep < 6*mul; rep++ {
		for _, m := range []int{1, 2, 3} {
			scs = append(scs, Scenario{Kind: "forced", Seed: rng.Int63(), Cap: []int{3, 8, 10000}[rep%3], Goroutines: 1 + rng.Intn(2), PerG: m,
				Writers: 1 + rng.Intn(2), Prefill: rng.Intn(2), MaxLen: 40, WaitFlush: 25, Model: true})
		}
	}
	for i := range scs {
		if scs[i].Goroutines > scs[i].PerG {
			scs[i].Goroutines = scs[i].PerG
		}
	}
	// random, small: replayed through the model
	for i := 0; i < 150*mul; i++ {
		g := 1 + rng.Intn(6)
		per := 1 + rng.Intn(8)
		cap := []int{1, 1, 2, 3, 4, 16, 10000}[rng.Intn(7)]
		scs = append(scs, Scenario{Kind: "random", Seed: rng.Int63(), Cap: cap, Goroutines: g, PerG: per,
			Writers: 1 + rng.Intn(3), FlushAfter: rng.Intn(g*per + 1), Linger: []int{0, 0, 3, 20, 100}[rng.Intn(5)],
			SlowWrite: []int{0, 0, 2, 10}[rng.Intn(4)], MaxLen: []int{24, 24, 24, 600}[rng.Intn(4)], Model: true})
	}
	// random, many goroutines: oracle only
	for i := 0; i < 30*mul; i++ {
		g := 4 + rng.Intn(29)
		per := 5 + rng.Intn(60)
		cap := []int{1, 4, 64, 10000, 10000}[rng.Intn(5)]
		scs = append(scs, Scenario{Kind: "random", Seed: rng.Int63(), Cap: cap, Goroutines: g, PerG: per,
			Writers: 1 + rng.Intn(4), FlushAfter: rng.Intn(g*per + 1), Linger: []int{0, 5, 50}[rng.Intn(3)],
			SlowWrite: []int{0, 0, 3}[rng.Intn(3)], MaxLen: 400, Model: false})
	}
	scs = append(scs, genJSONScenarios(rng, o.Thorough())...)
	// timeout
	for i := 0; i < 3*mul; i++ {
		scs = append(scs, Scenario{Kind: "timeout", Seed: rng.Int63(), Cap: 8, Goroutines: 1 + rng.Intn(2), PerG: 1 + rng.Intn(4),
			Writers: 1, MaxLen: 10, Model: true})
	}
	return scs
}

// ---- main ----

type executed struct {
	sc  Scenario
	out outcome
	v   verdict
}

func tokens(evs []event) string {
	ts := make([]string, len(evs))
	for i, e := range evs {
		ts[i] = e.token()
	}
	return strings.Join(ts, " ")
}

func bucket(n int) string {
	switch {
	case n == 0:
		return "0"
	case n == 1:
		return "1"
	case n <= 5:
		return "2-5"
	case n <= 50:
		return "6-50"
	}
	return ">50"
}

// selfWatchdog: a run that exceeds its budget is a failure of the check itself; leave a goroutine
// dump behind so that it can be diagnosed.
func selfWatchdog(o *common.Opts, res *common.Result) {
	budget := 8 * time.Minute
	if o.Thorough() {
		budget = 50 * time.Minute
	}
	if d, err := time.ParseDuration(os.Getenv("C20_BUDGET")); err == nil && d > 0 {
		budget = d
	}
	go func() {
		time.Sleep(budget)
		buf := make([]byte, 1<<20)
		buf = buf[:runtime.Stack(buf, true)]
		name := fmt.Sprintf("/verif/out/c20-stuck-%d.txt", os.Getpid())
		os.WriteFile(name, buf, 0o644)
		res.Fatal(o.Out, fmt.Errorf("harness exceeded its budget of %v; goroutine dump in %s", budget, name))
	}()
}

func main() {
	if raw := os.Getenv(panicChildEnv); raw != "" {
		panicChild(raw) // child of the panic-exit stream (panicexit.go); does not return
	}
	// package tars (imported for CheckPanic) lowers the global level to ERROR in its init
	rogger.SetLevel(rogger.DEBUG)
	o := common.ParseOpts()
	res := common.NewResult("C20", o)
	res.Streams = []string{"logger"}
	selfWatchdog(o, res)
	rng := o.Rand()
	m, err := common.StartModel(o.Model, "logger")
	if err != nil {
		res.Fatal(o.Out, err)
	}
	defer m.Close()
	treeVariant, err := m.Ask("variant")
	if err != nil {
		res.Fatal(o.Out, err)
	}

	var scs []Scenario
	replay := o.Replay != ""
	if replay {
		var sc Scenario
		if err := common.ReadReplay(o.Replay, &sc); err != nil {
			res.Fatal(o.Out, err)
		}
		n := sc.Repeat
		if n < 1 {
			n = 1
		}
		for i := 0; i < n; i++ {
			scs = append(scs, sc)
		}
	} else {
		scs = genScenarios(o, rng)
		scs = append(scs, genRealScenarios(o, rng)...)
		scs = append(scs, genPanicScenarios(o, rng)...)
	}
	var realScs, panicScs []Scenario
	{
		var rest []Scenario
		for _, sc := range scs {
			if sc.real() {
				realScs = append(realScs, sc)
			} else if sc.Kind == "panicexit" {
				panicScs = append(panicScs, sc)
			} else {
				rest = append(rest, sc)
			}
		}
		scs = rest
	}

	runPanicStream(o, res, m, panicScs, replay)
	if hung := runRealStream(o, res, realScs, replay); hung {
		res.Note("aborted after a hang in the real-writer stream; %d scenarios not executed", len(scs))
		scs = nil
	}

	var runs []executed
	for _, sc := range scs {
		out := execute(sc)
		if out.hang != "" {
			sc.Repeat = 1
			res.Violate(common.Violation{Signature: "C20:hang:" + out.hang,
				What: "no progress within " + watchdog.String() + " in " + out.hang,
				Case: common.Case{Stream: "logger", Op: sc, Impl: "hang in " + out.hang}})
			res.Count("hang", sc.Kind+":hang", false)
			// goroutines of the code under test are stuck: nothing further can be run in this process
			res.Note("aborted after a hang; %d scenarios not executed", len(scs)-len(runs)-1)
			break
		}
		v := oracle(out.evs, out.completed)
		v.findings = append(append([]finding(nil), out.extra...), v.findings...)
		runs = append(runs, executed{sc: sc, out: out, v: v})
	}

	// model: every history through `admits` of the variant the tree is expected to be, and of both variants
	var lines []string
	var idx []int
	for i, r := range runs {
		if !r.sc.Model || len(r.out.evs) > 400 {
			continue
		}
		h := tokens(r.out.evs)
		lines = append(lines, fmt.Sprintf("admits repaired %d %s", r.sc.Cap, h), fmt.Sprintf("admits asFound %d %s", r.sc.Cap, h))
		idx = append(idx, i)
	}
	ans, err := m.Batch(lines)
	if err != nil {
		res.Fatal(o.Out, err)
	}
	modelAns := map[int][2]string{}
	for k, i := range idx {
		modelAns[i] = [2]string{ans[2*k], ans[2*k+1]}
	}

	lostRuns, forcedCompleted := 0, 0
	for i, r := range runs {
		sc := r.sc
		implRes := fmt.Sprintf("completed=%v returned-before-flush=%d writes=%d lost=%d findings=%d", r.out.completed, r.v.before, r.v.writes, r.v.lostCount, len(r.v.findings))
		outc := "completed"
		if !r.out.completed {
			outc = "timeout"
		}
		class := fmt.Sprintf("%s:%s:queue-at-flush=%s", sc.Kind, outc, bucket(r.out.queueAtReq))
		key := tokens(r.out.evs)
		sum := sha256.Sum256([]byte(key))
		res.Count(fmt.Sprintf("%x", sum[:12]), class, len(r.out.evs) > 2)
		if len(key) > 4000 {
			key = key[:4000] + " …"
		}
		res.Histogram["cap="+bucket(sc.Cap)]++
		if sc.Kind == "forced" && r.out.completed {
			forcedCompleted++
		}
		if r.v.lostCount > 0 {
			lostRuns++
			res.Histogram["lost-entry-runs:"+sc.Kind]++
		}
		ma, haveModel := modelAns[i]
		modelRes := ""
		if haveModel {
			modelRes = "repaired: " + ma[0] + " | asFound: " + ma[1]
		}
		if replay {
			fmt.Printf("run %d: impl: %s\n        history: %s\n        model: %s\n", i, implRes, key, modelRes)
			for _, f := range r.v.findings {
				fmt.Printf("        oracle: %s: %s\n", f.class, f.what)
			}
		}
		if i < 3 {
			res.Sample(map[string]interface{}{"scenario": sc, "history": key, "impl": implRes, "model": modelRes})
		}
		// oracle findings
		rep := sc
		if rep.Kind == "json" {
			rep.Repeat = 3
		} else if rep.Kind == "forced" {
			rep.Repeat = 40
		} else {
			rep.Repeat = 200
		}
		for _, f := range r.v.findings {
			sig := "C20:" + f.class + ":flushLog"
			if strings.Contains(f.class, ":") {
				sig = "C20:" + f.class // the finding names its own locus
			}
			res.Violate(common.Violation{Signature: sig, What: f.what,
				Case: common.Case{Stream: "logger", Op: rep, Model: modelRes, Impl: implRes + " history: " + key}})
		}
		if !r.out.completed && r.out.flushTook < r.out.timeout {
			res.Violate(common.Violation{Signature: "C20:early-return:FlushLogger",
				What: fmt.Sprintf("FlushLogger returned after %v without the completion signal and before its timeout of %v", r.out.flushTook, r.out.timeout),
				Case: common.Case{Stream: "logger", Op: rep, Model: modelRes, Impl: implRes + " history: " + key}})
		} else if !r.out.completed && sc.Kind != "timeout" {
			res.Violate(common.Violation{Signature: "C20:hang:FlushLogger", What: "FlushLogger did not complete within " + longTimeout.String() + " although all work was finite",
				Case: common.Case{Stream: "logger", Op: rep, Model: modelRes, Impl: implRes}})
		}
		// correspondence
		if !haveModel || ma[0] == common.NoModel {
			if sc.Model {
				res.Histogram["model:skipped"]++
			}
			continue
		}
		expect := ma[0]
		if treeVariant == "asFound" {
			expect = ma[1]
		}
		switch {
		case strings.HasPrefix(expect, "ok"):
			res.TracesValidated++
			if strings.HasPrefix(ma[0], "ok") {
				res.Histogram["history:admitted-by-repaired"]++
			} else {
				res.Histogram["history:admitted-by-asFound-only"]++
			}
			if f := strings.Fields(expect); len(f) > 1 {
				res.Histogram["model-search:"+f[1]]++
			}
			for _, pc := range pcsOf(expect) {
				res.Histogram["model-final-pc:"+pc]++
			}
			if strings.HasPrefix(ma[0], "ok") && r.out.completed && r.v.lostCount > 0 {
				// a history of the repaired model cannot lose an entry (C20_fixed): oracle and model disagree
				res.Diverge(common.Case{Stream: "logger", Op: rep, Model: modelRes, Impl: implRes + " history: " + key,
					Note: "the oracle reports a lost entry on a history the repaired model admits"})
			}
		case strings.HasPrefix(expect, "toobig"):
			res.Histogram["model:toobig"]++
			if res.Histogram["model:toobig"] <= 2 {
				res.Note("undecided by the model (%s): admits %s %d %s", expect, treeVariant, sc.Cap, key)
			}
		default:
			res.Diverge(common.Case{Stream: "logger", Op: rep, Model: modelRes, Impl: implRes + " history: " + key,
				Note: "the observed history is not a run of the " + treeVariant + " model"})
		}
	}
	res.Note("tree variant seen by the extractor: %s; executed %d scenarios; runs that lost an entry: %d; forced runs completed: %d", treeVariant, len(runs), lostRuns, forcedCompleted)
	res.Rule = "cases = one FlushLogger per scenario (forced D4 schedule for every capacity 1,2,3,5,8 × every occupancy, and the default capacity; " +
		"random: 1..32 goroutines × entries × writers × capacity × slow writer × flusher lingering between its selects, flush after a random number of returned calls; " +
		"timeout: blocked writer; real writers: RollFileWriter with two rotations at 1 MB / a rotation per write / a single file, DateWriter by day and by hour with a forced hour change, files read back; JSON format: bursts built by writeJson while the flusher is held, every Write decoded; panic exit: child processes log 1..2000 entries through writers of different speeds and panic in five ways under defer tars.CheckPanic()); observable = history of log-call/log-return/Write(writer,bytes)/FlushLogger call/return events; " +
		"non-trivial = distinct histories with at least one logging call"
	if err := res.Write(o.Out); err != nil {
		panic(err)
	}
	if replay {
		b, _ := json.Marshal(res.Histogram)
		fmt.Println("histogram:", string(b))
	}
}

func pcsOf(ans string) []string {
	for _, f := range strings.Fields(ans) {
		if strings.HasPrefix(f, "pcs=") {
			return strings.Split(strings.TrimPrefix(f, "pcs="), ",")
		}
	}
	return nil
}
