// JSON format stream of c20: rogger.SetFormat(rogger.Json) makes Writef build every entry with
// writeJson. Bursts of entries are logged (by one goroutine and by several) while the flusher is
// held between its two selects, so that every entry of the burst is still queued when the next one
// is built; then FlushLogger. The capturing writer copies what it is handed and decodes it: each
// Write must be one whole JSON object + newline with exactly the fields of rogger.JsonLog, the
// logger's prefix, the level the call used, a caller and a time, and the message of exactly one
// logged entry. The history with the decoded message as the entry's value goes through the same
// oracle (lost / duplicate / reordered / invented) and the same model replay as the text streams.
package main

import (
	"bytes"
	"encoding/json"
	"fmt"
	"math/rand"
	"strings"
	"sync"
	"sync/atomic"
	"time"

	"github.com/TarsCloud/TarsGo/tars/util/rogger"
)

const jsonPrefix = "c20|json"

type jsonRecWriter struct {
	id  int
	rec *recorder
	mu  sync.Mutex
	bad []finding
}

func (w *jsonRecWriter) NeedPrefix() bool { return false }

func (w *jsonRecWriter) Write(v []byte) {
	raw := append([]byte(nil), v...) // copy: the oracle must see what was handed over now
	msg, why := decodeJSONEntry(raw)
	if why != "" {
		w.mu.Lock()
		if len(w.bad) == 0 {
			w.bad = append(w.bad, finding{"corrupted-entry:writeJson", fmt.Sprintf("a Write in JSON format carries %.120q: %s", raw, why)})
		}
		w.mu.Unlock()
		w.rec.add(event{Kind: "W", W: w.id, Data: raw})
		return
	}
	w.rec.add(event{Kind: "W", W: w.id, Data: []byte(msg)})
}

// decodeJSONEntry returns the message of a well-formed entry, or why it is not one.
func decodeJSONEntry(raw []byte) (msg string, why string) {
	if len(raw) == 0 || raw[len(raw)-1] != '\n' || bytes.Count(raw, []byte("\n")) != 1 {
		return "", "not exactly one line ending in a newline"
	}
	var e rogger.JsonLog
	dec := json.NewDecoder(bytes.NewReader(raw))
	dec.DisallowUnknownFields()
	if err := dec.Decode(&e); err != nil {
		return "", "not a JSON object with the fields of JsonLog: " + err.Error()
	}
	if dec.More() {
		return "", "more than one JSON value"
	}
	if e.Pre != jsonPrefix {
		return "", fmt.Sprintf("pre is %q, the logger's prefix is %q", e.Pre, jsonPrefix)
	}
	if _, err := time.Parse("2006-01-02 15:04:05.000", e.Time); err != nil {
		return "", "time does not parse: " + e.Time
	}
	if e.Func == "" || e.File == "" {
		return "", "caller (func/file) missing"
	}
	// the message says which level its call used: g<g>#<n>|<LEVEL>|payload
	parts := strings.SplitN(e.Msg, "|", 3)
	if len(parts) != 3 || parts[1] != e.Level {
		return "", fmt.Sprintf("level %q does not belong to message %.60q", e.Level, e.Msg)
	}
	return e.Msg, ""
}

func runJSON(sc Scenario) outcome {
	rec := &recorder{}
	var armed atomic.Bool
	arrived := make(chan struct{}, 1)
	release := make(chan struct{})
	yield := func(p string) {
		if p == yieldPoint && armed.CompareAndSwap(true, false) {
			arrived <- struct{}{}
			<-release
		}
	}
	armed.Store(true)
	t0 := time.Now()
	if !rogger.VerifReset(sc.Cap, longTimeout, yield, watchdog) {
		return outcome{hang: "flushLog"}
	}
	rogger.SetFormat(rogger.Json)
	defer rogger.SetFormat(rogger.Text)
	lg := rogger.GetLogger("c20-json")
	w := &jsonRecWriter{id: 0, rec: rec}
	lg.SetWriter(w)
	lg.SetPrefix(jsonPrefix)
	select {
	case <-arrived:
	case <-time.After(watchdog):
		return outcome{hang: "flushLog"}
	}
	// the flusher is held: everything logged now stays queued until FlushLogger
	var wg sync.WaitGroup
	for g := 0; g < sc.Goroutines; g++ {
		wg.Add(1)
		go func(g int) {
			defer wg.Done()
			rng := rand.New(rand.NewSource(sc.Seed*1000003 + int64(g)))
			for n := 0; n < sc.PerG; n++ {
				level := []string{"DEBUG", "INFO", "WARN", "ERROR"}[rng.Intn(4)]
				pay := make([]byte, rng.Intn(sc.MaxLen+1))
				for i := range pay {
					pay[i] = "abcdefghijklmnopqrstuvwxyz <>&\"\\"[rng.Intn(32)]
				}
				msg := fmt.Sprintf("g%d#%d|%s|%s", g, n, level, pay)
				rec.add(event{Kind: "C", G: g, W: 0, Data: []byte(msg)})
				plain := rng.Intn(2) == 0
				switch {
				case level == "DEBUG" && plain:
					lg.Debug(msg)
				case level == "DEBUG":
					lg.Debugf("%s", msg)
				case level == "INFO" && plain:
					lg.Info(msg)
				case level == "INFO":
					lg.Infof("%s", msg)
				case level == "WARN" && plain:
					lg.Warn(msg)
				case level == "WARN":
					lg.Warnf("%s", msg)
				case plain:
					lg.Error(msg)
				default:
					lg.Errorf("%s", msg)
				}
				rec.add(event{Kind: "R", G: g, W: 0, Data: []byte(msg)})
			}
		}(g)
	}
	if h := finishNoDiscard(&wg); h != "" {
		close(release)
		return outcome{hang: h}
	}
	q := rogger.VerifQueueLen()
	rec.add(event{Kind: "F"})
	relDone := make(chan struct{})
	go func() {
		<-rogger.VerifFlushRequested()
		close(release)
		close(relDone)
	}()
	completed, took, hang := flushAndRecord(rec)
	<-relDone
	evs := rec.seal()
	w.mu.Lock()
	extra := append([]finding(nil), w.bad...)
	w.mu.Unlock()
	return outcome{evs: evs, completed: completed, flushTook: took, timeout: longTimeout, queueAtReq: q, hang: hang,
		elapsed: time.Since(t0), extra: extra}
}

func genJSONScenarios(rng *rand.Rand, thorough bool) []Scenario {
	var scs []Scenario
	add := func(g, per, maxLen int) {
		scs = append(scs, Scenario{Kind: "json", Seed: rng.Int63(), Cap: 10000, Goroutines: g, PerG: per, Writers: 1, MaxLen: maxLen, Model: true})
	}
	add(1, 2, 40)
	add(1, 20, 60)
	add(1, 40, 300)
	add(4, 10, 80)
	add(8, 25, 120)
	add(2, 3, 0)
	if thorough {
		for i := 0; i < 30; i++ {
			add(1+rng.Intn(8), 1+rng.Intn(40), []int{0, 10, 100, 1000}[rng.Intn(4)])
		}
	}
	return scs
}
