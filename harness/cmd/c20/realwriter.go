// Real-writer stream of c20: the entries handed to the writer must end up in the files.
//
// A Logger is set up the way Application does it (SetFileRoller / SetDayRoller / SetHourRoller),
// several goroutines log numbered, self-describing lines, FlushLogger is called, then ALL files of
// the writer are read back (rolled ones included, oldest first) and checked:
//   - every line whose logging call returned before FlushLogger was entered is present (the flush
//     completed): missing although the writer was handed it → lost-at-writer;
//   - no line twice (duplicated), every line whole (torn-line), each goroutine's lines in the
//     order it logged them, within and across files (reordered).
//
// The size-rolling writer is additionally compared file by file with the Lean model
// (Model/LogWriter.lean, stream `rollwriter`): a tee in front of the real writer records the exact
// sequence of Write calls; the model says which writes each file consists of.
package main

import (
	"bytes"
	"fmt"
	"math/rand"
	"os"
	"path/filepath"
	"regexp"
	"runtime"
	"sort"
	"strconv"
	"strings"
	"sync"
	"sync/atomic"
	"time"

	"verifharness/common"

	"github.com/TarsCloud/TarsGo/tars/util/gtime"
	"github.com/TarsCloud/TarsGo/tars/util/rogger"
)

// teeWriter records what the flusher hands to the real writer, then hands it on.
type teeWriter struct {
	inner rogger.LogWriter
	mu    sync.Mutex
	data  [][]byte
	now   []int64
}

func (t *teeWriter) Write(v []byte) {
	t.mu.Lock()
	t.data = append(t.data, append([]byte(nil), v...))
	t.now = append(t.now, gtime.CurrUnixTime)
	t.mu.Unlock()
	t.inner.Write(v)
}
func (t *teeWriter) NeedPrefix() bool { return t.inner.NeedPrefix() }

var realSeq atomic.Int64

var lineRe = regexp.MustCompile(`^(?:[^@]*\|)?@g(\d+)#(\d+):(\d+):([a-z]*)@$`)

type realEntry struct {
	g, n      int
	retBefore bool // its logging call returned before FlushLogger was entered
}

type realOutcome struct {
	files     []string // names, oldest first
	contents  [][]byte
	tee       *teeWriter
	entries   map[[2]int]*realEntry
	completed bool
	flushTook time.Duration
	hang      string
	writerTyp string
}

func realLine(rng *rand.Rand, g, n, lineLen int) string {
	l := lineLen/2 + rng.Intn(lineLen/2+1)
	b := make([]byte, l)
	for i := range b {
		b[i] = byte('a' + rng.Intn(26))
	}
	return fmt.Sprintf("@g%d#%d:%d:%s@", g, n, l, b)
}

// runReal executes one real-writer scenario in dir.
func runReal(sc Scenario, dir string) realOutcome {
	out := realOutcome{entries: map[[2]int]*realEntry{}}
	if !rogger.VerifReset(sc.Cap, longTimeout, nil, watchdog) {
		out.hang = "flushLog"
		return out
	}
	name := fmt.Sprintf("c20real%d", realSeq.Add(1))
	lg := rogger.GetLogger(name)
	switch sc.Kind {
	case "rollfile":
		out.writerTyp = "RollFileWriter"
		if err := lg.SetFileRoller(dir, sc.Num, sc.SizeMB); err != nil {
			out.hang = "SetFileRoller: " + err.Error()
			return out
		}
	case "dayfile":
		out.writerTyp = "DateWriter"
		lg.SetDayRoller(dir, sc.Num)
	default: // hourfile
		out.writerTyp = "DateWriter"
		lg.SetHourRoller(dir, sc.Num)
	}
	tee := &teeWriter{inner: lg.Writer()}
	lg.SetWriter(tee)
	out.tee = tee

	rec := &recorder{}
	var mu sync.Mutex
	var stop atomic.Bool
	var returned atomic.Int64
	var flushEntered atomic.Bool
	var wg sync.WaitGroup
	total := sc.Goroutines * sc.PerG
	for g := 0; g < sc.Goroutines; g++ {
		wg.Add(1)
		go func(g int) {
			defer wg.Done()
			rng := rand.New(rand.NewSource(sc.Seed*1000003 + int64(g)))
			for n := 0; n < sc.PerG && !stop.Load(); n++ {
				line := realLine(rng, g, n, sc.LineLen)
				e := &realEntry{g: g, n: n}
				mu.Lock()
				out.entries[[2]int{g, n}] = e
				mu.Unlock()
				if g%2 == 1 {
					lg.Infof("%s", line) // Writef: prefix and newline are added (NeedPrefix() is true)
				} else {
					lg.WriteLog([]byte(line + "\n"))
				}
				// order: the flag is read after the call returned, and set before FlushLogger is entered
				if !flushEntered.Load() {
					mu.Lock()
					e.retBefore = true
					mu.Unlock()
				}
				returned.Add(1)
				if sc.Linger > 0 && rng.Intn(sc.Linger) == 0 {
					runtime.Gosched()
				}
			}
		}(g)
	}
	after := sc.FlushAfter
	if after <= 0 || after > total {
		after = total
	}
	deadline := time.Now().Add(watchdog)
	half := false
	for returned.Load() < int64(after) {
		if time.Now().After(deadline) {
			out.hang = "logging-call"
			return out
		}
		if sc.Kind == "hourfile" && sc.ForceHour && !half && returned.Load() >= int64(after/2) {
			half = true
			gtime.CurrDateHour = "2099010100" // same length as the real value; the ticker puts the real hour back
		}
		runtime.Gosched()
	}
	// entries marked retBefore from here on would be wrong: close the window first
	flushEntered.Store(true)
	completed, took, hang := flushAndRecord(rec)
	out.completed = completed
	out.flushTook = took
	stop.Store(true)
	if hang == "" {
		hang = finish(&wg)
	}
	out.hang = hang
	if hang != "" {
		return out
	}
	// read everything back, oldest first
	switch sc.Kind {
	case "rollfile":
		slots := sc.Num
		if slots < 1 {
			slots = 1
		}
		for i := slots - 1; i >= 0; i-- {
			suffix := ""
			if i > 0 {
				suffix = strconv.Itoa(i)
			}
			p := filepath.Join(dir, name+suffix+".log")
			b, err := os.ReadFile(p)
			if err != nil {
				b = nil
			}
			out.files = append(out.files, fmt.Sprintf("f%d", i))
			out.contents = append(out.contents, b)
		}
	default:
		ms, _ := filepath.Glob(filepath.Join(dir, name+"_*.log"))
		sort.Strings(ms)
		for _, p := range ms {
			b, _ := os.ReadFile(p)
			out.files = append(out.files, filepath.Base(p))
			out.contents = append(out.contents, b)
		}
	}
	return out
}

// realOracle judges the files. orderAcross: the files are a sequence (roll order); otherwise the
// order of a goroutine's lines is only required within each file.
func realOracle(o realOutcome, orderAcross bool) (fs []finding, present map[[2]int]int) {
	present = map[[2]int]int{}
	locus := o.writerTyp
	last := map[int]int{}
	torn, dup, reord := 0, 0, 0
	for fi, b := range o.contents {
		if !orderAcross {
			last = map[int]int{}
		}
		if len(b) == 0 {
			continue
		}
		lines := strings.Split(string(b), "\n")
		if lines[len(lines)-1] == "" {
			lines = lines[:len(lines)-1]
		} else if torn++; torn == 1 {
			fs = append(fs, finding{"torn-line:" + locus, fmt.Sprintf("file %s does not end with a newline: last line %.60q", o.files[fi], lines[len(lines)-1])})
		}
		for _, l := range lines {
			m := lineRe.FindStringSubmatch(l)
			ok := m != nil
			var g, n int
			if ok {
				g, _ = strconv.Atoi(m[1])
				n, _ = strconv.Atoi(m[2])
				ln, _ := strconv.Atoi(m[3])
				ok = ln == len(m[4])
			}
			if !ok {
				if torn++; torn == 1 {
					fs = append(fs, finding{"torn-line:" + locus, fmt.Sprintf("file %s contains a line that is not one whole entry: %.80q", o.files[fi], l)})
				}
				continue
			}
			k := [2]int{g, n}
			present[k]++
			if present[k] == 2 {
				if dup++; dup == 1 {
					fs = append(fs, finding{"duplicated:" + locus, fmt.Sprintf("entry g%d#%d is in the files more than once", g, n)})
				}
			}
			if prev, seen := last[g]; seen && n <= prev && present[k] == 1 {
				if reord++; reord == 1 {
					fs = append(fs, finding{"reordered:" + locus, fmt.Sprintf("goroutine %d: entry #%d follows entry #%d in the files (%s)", g, n, prev, o.files[fi])})
				}
			}
			if prev, seen := last[g]; !seen || n > prev {
				last[g] = n
			}
		}
	}
	if o.completed {
		// which entries did the writer get? (the tee saw them)
		handed := map[[2]int]bool{}
		for _, d := range o.tee.data {
			if m := lineRe.FindSubmatch(bytes.TrimRight(d, "\n")); m != nil {
				g, _ := strconv.Atoi(string(m[1]))
				n, _ := strconv.Atoi(string(m[2]))
				handed[[2]int{g, n}] = true
			}
		}
		lostW, lostQ := 0, 0
		keys := make([][2]int, 0, len(o.entries))
		for k := range o.entries {
			keys = append(keys, k)
		}
		sort.Slice(keys, func(i, j int) bool {
			return keys[i][0] < keys[j][0] || keys[i][0] == keys[j][0] && keys[i][1] < keys[j][1]
		})
		var firstW, firstQ [2]int
		for _, k := range keys {
			if o.entries[k].retBefore && present[k] == 0 {
				if handed[k] {
					if lostW++; lostW == 1 {
						firstW = k
					}
				} else if lostQ++; lostQ == 1 {
					firstQ = k
				}
			}
		}
		if lostW > 0 {
			fs = append(fs, finding{"lost-at-writer:" + locus, fmt.Sprintf("%d entries whose logging call returned before FlushLogger was called were handed to the writer but are in none of its files after FlushLogger returned (first: g%d#%d)", lostW, firstW[0], firstW[1])})
		}
		if lostQ > 0 {
			fs = append(fs, finding{"lost-entry:flushLog", fmt.Sprintf("%d entries whose logging call returned before FlushLogger was called were never handed to the writer (first: g%d#%d)", lostQ, firstQ[0], firstQ[1])})
		}
	}
	return fs, present
}

// modelLine: the sequence of Write calls for the `rollwriter` stream.
func rollModelLine(sc Scenario, t *teeWriter) string {
	var b strings.Builder
	fmt.Fprintf(&b, "roll tree %d %d", sc.Num, int64(sc.SizeMB)*1024*1024)
	for i, d := range t.data {
		fmt.Fprintf(&b, " %d@%d", len(d), t.now[i])
	}
	return b.String()
}

// compareRoll: do the real files consist of exactly the writes the model says?
func compareRoll(ans string, o realOutcome) (ok bool, detail string) {
	want := map[string][]byte{}
	for _, f := range strings.Fields(ans) {
		kv := strings.SplitN(f, "=", 2)
		if len(kv) != 2 || !strings.HasPrefix(kv[0], "f") {
			continue
		}
		var buf []byte
		if kv[1] != "-" {
			for _, id := range strings.Split(kv[1], ",") {
				i, err := strconv.Atoi(id)
				if err != nil || i >= len(o.tee.data) {
					return false, "unparsable model answer " + f
				}
				buf = append(buf, o.tee.data[i]...)
			}
		}
		want[kv[0]] = buf
	}
	for i, name := range o.files {
		if !bytes.Equal(want[name], o.contents[i]) {
			return false, fmt.Sprintf("file %s: model %d bytes, implementation %d bytes", name, len(want[name]), len(o.contents[i]))
		}
	}
	return true, ""
}

func genRealScenarios(o *common.Opts, rng *rand.Rand) []Scenario {
	var scs []Scenario
	add := func(sc Scenario) {
		sc.Seed = rng.Int63()
		sc.Repeat = 1
		scs = append(scs, sc)
	}
	// two rotations at 1 MB with long lines; nothing is old enough to be discarded (volume < num × 1 MB)
	add(Scenario{Kind: "rollfile", Cap: 10000, Goroutines: 4, PerG: 200, Num: 10, SizeMB: 1, LineLen: 4000})
	add(Scenario{Kind: "rollfile", Cap: 64, Goroutines: 3, PerG: 330, Num: 3, SizeMB: 1, LineLen: 3600, Linger: 8})
	add(Scenario{Kind: "rollfile", Cap: 10000, Goroutines: 5, PerG: 150, Num: 10, SizeMB: 1, LineLen: 4000, FlushAfter: 600})
	// size 0: a rotation after every Write
	add(Scenario{Kind: "rollfile", Cap: 16, Goroutines: 3, PerG: 15, Num: 64, SizeMB: 0, LineLen: 60})
	// a single file that is never rotated (num = 1: closed and reopened at the limit)
	add(Scenario{Kind: "rollfile", Cap: 10000, Goroutines: 2, PerG: 200, Num: 1, SizeMB: 1, LineLen: 4000})
	add(Scenario{Kind: "dayfile", Cap: 10000, Goroutines: 4, PerG: 100, Num: 2, LineLen: 200})
	add(Scenario{Kind: "hourfile", Cap: 32, Goroutines: 4, PerG: 100, Num: 2, LineLen: 200, ForceHour: true})
	if o.Thorough() {
		for i := 0; i < 12; i++ {
			num := 2 + rng.Intn(9)
			g := 1 + rng.Intn(8)
			ll := 1000 + rng.Intn(7000)
			// volume between one and num-1 rotations, below num MB
			vol := (1 + rng.Intn(num-1)) * 1100 * 1024
			per := vol / (ll*3/4 + 16) / g
			if per < 1 {
				per = 1
			}
			for per > 1 && g*per*(ll+16) >= num*1024*1024 {
				per--
			}
			add(Scenario{Kind: "rollfile", Cap: []int{4, 64, 10000}[rng.Intn(3)], Goroutines: g, PerG: per, Num: num, SizeMB: 1,
				LineLen: ll, Linger: rng.Intn(10), FlushAfter: []int{0, 0, g * per / 2}[rng.Intn(3)]})
		}
		for i := 0; i < 6; i++ {
			add(Scenario{Kind: "rollfile", Cap: 16, Goroutines: 1 + rng.Intn(4), PerG: 5 + rng.Intn(10), Num: 64, SizeMB: 0, LineLen: 20 + rng.Intn(200)})
			add(Scenario{Kind: []string{"dayfile", "hourfile"}[i%2], Cap: 10000, Goroutines: 1 + rng.Intn(8), PerG: 50 + rng.Intn(200), Num: 1 + rng.Intn(3),
				LineLen: 50 + rng.Intn(500), ForceHour: i%4 == 1})
		}
	}
	return scs
}

// runRealStream executes the real-writer scenarios, judges them and compares with the model.
func runRealStream(o *common.Opts, res *common.Result, scs []Scenario, replay bool) (hung bool) {
	if len(scs) == 0 {
		return false
	}
	res.Streams = append(res.Streams, "rollwriter")
	mw, err := common.StartModel(o.Model, "rollwriter")
	if err != nil {
		res.Fatal(o.Out, err)
	}
	defer mw.Close()
	root, err := os.MkdirTemp("", "c20-logs-")
	if err != nil {
		res.Fatal(o.Out, err)
	}
	defer os.RemoveAll(root)
	for i, sc := range scs {
		dir := filepath.Join(root, fmt.Sprintf("s%d", i))
		if err := os.MkdirAll(dir, 0o755); err != nil {
			res.Fatal(o.Out, err)
		}
		out := runReal(sc, dir)
		if out.hang != "" {
			res.Violate(common.Violation{Signature: "C20:hang:" + strings.SplitN(out.hang, ":", 2)[0],
				What: "no progress within " + watchdog.String() + " in " + out.hang,
				Case: common.Case{Stream: "rollwriter", Op: sc, Impl: "hang in " + out.hang}})
			res.Count("hang", sc.Kind+":hang", false)
			os.RemoveAll(dir)
			return true
		}
		findings, present := realOracle(out, !(sc.Kind == "hourfile" && sc.ForceHour))
		nfiles, bytesTotal := 0, 0
		for _, b := range out.contents {
			if len(b) > 0 {
				nfiles++
			}
			bytesTotal += len(b)
		}
		before := 0
		for _, e := range out.entries {
			if e.retBefore {
				before++
			}
		}
		implRes := fmt.Sprintf("completed=%v entries=%d returned-before-flush=%d handed-to-writer=%d distinct-in-files=%d files=%d bytes=%d findings=%d",
			out.completed, len(out.entries), before, len(out.tee.data), len(present), nfiles, bytesTotal, len(findings))
		modelRes := ""
		if sc.Kind == "rollfile" {
			ans, err := mw.Ask(rollModelLine(sc, out.tee))
			if err != nil {
				res.Fatal(o.Out, err)
			}
			if ans != common.NoModel {
				ok, detail := compareRoll(ans, out)
				short := ans
				if len(short) > 300 {
					short = short[:300] + " …"
				}
				modelRes = short
				if ok {
					res.TracesValidated++
					res.Histogram["rollwriter:files-as-model"]++
				} else {
					res.Diverge(common.Case{Stream: "rollwriter", Op: sc, Model: short, Impl: implRes,
						Note: "the files of the real writer are not the ones the model of RollFileWriter.Write predicts: " + detail})
				}
			}
		}
		class := fmt.Sprintf("%s:files=%d", sc.Kind, nfiles)
		res.Count(fmt.Sprintf("real-%d-%d", sc.Seed, i), class, len(out.tee.data) > 0)
		if !out.completed && out.flushTook < longTimeout {
			res.Violate(common.Violation{Signature: "C20:early-return:FlushLogger",
				What: fmt.Sprintf("FlushLogger returned after %v without the completion signal and before its timeout of %v", out.flushTook, longTimeout),
				Case: common.Case{Stream: "rollwriter", Op: sc, Model: modelRes, Impl: implRes}})
		} else if !out.completed {
			res.Violate(common.Violation{Signature: "C20:hang:FlushLogger", What: "FlushLogger did not complete within " + longTimeout.String() + " although all work was finite",
				Case: common.Case{Stream: "rollwriter", Op: sc, Model: modelRes, Impl: implRes}})
		}
		for _, f := range findings {
			res.Violate(common.Violation{Signature: "C20:" + f.class, What: f.what,
				Case: common.Case{Stream: "rollwriter", Op: sc, Model: modelRes, Impl: implRes}})
		}
		if replay {
			fmt.Printf("real-writer run %d: impl: %s\n        model: %s\n", i, implRes, modelRes)
			for _, f := range findings {
				fmt.Printf("        oracle: %s: %s\n", f.class, f.what)
			}
		}
		if i < 2 {
			res.Sample(map[string]interface{}{"scenario": sc, "impl": implRes, "model": modelRes})
		}
		os.RemoveAll(dir)
	}
	return false
}
