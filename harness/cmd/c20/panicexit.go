// Panic-exit stream of c20: "the entries logged immediately before a panic-triggered exit are not
// lost". A child process (this binary again, through a link in a scratch directory because
// CheckPanic dumps `panic.<time>` next to os.Args[0]) logs N entries through a file-backed writer of
// a given speed, then panics under `defer tars.CheckPanic()`. The parent reads what reached the
// file: exit status must be CheckPanic's os.Exit(-1); every entry must be there exactly once, whole,
// in each goroutine's order — all of them when the backlog fits the flush timeout (N × per-entry
// delay well below waitFlushTimeout = 1 s), otherwise a gap-free prefix per goroutine.
package main

import (
	"bytes"
	"encoding/json"
	"errors"
	"fmt"
	"math/rand"
	"os"
	"os/exec"
	"path/filepath"
	"regexp"
	"strconv"
	"strings"
	"sync"
	"time"

	"verifharness/common"

	"github.com/TarsCloud/TarsGo/tars"
	"github.com/TarsCloud/TarsGo/tars/util/rogger"
)

const panicChildEnv = "C20_PANIC_CHILD"

type panicSpec struct {
	File         string `json:"file"`
	Goroutines   int    `json:"goroutines"`
	PerG         int    `json:"per_g"`
	DelayUS      int    `json:"delay_us"`       // the writer needs this long per entry
	FirstDelayMS int    `json:"first_delay_ms"` // and this long once, for its first entry
	PanicKind    string `json:"panic_kind"`     // nilmap | error | string | index | goroutine
}

// fileRecWriter: a writer of a given speed whose output the parent can read.
type fileRecWriter struct {
	f     *os.File
	delay time.Duration
	first time.Duration
	once  sync.Once
}

func (w *fileRecWriter) Write(v []byte) {
	w.once.Do(func() { time.Sleep(w.first) })
	if w.delay > 0 {
		time.Sleep(w.delay)
	}
	w.f.Write(v)
}
func (w *fileRecWriter) NeedPrefix() bool { return false }

// panicChild never returns.
func panicChild(raw string) {
	var sp panicSpec
	if err := json.Unmarshal([]byte(raw), &sp); err != nil {
		fmt.Fprintln(os.Stderr, "child: bad spec:", err)
		os.Exit(3)
	}
	rogger.SetLevel(rogger.DEBUG)
	f, err := os.OpenFile(sp.File, os.O_WRONLY|os.O_APPEND|os.O_CREATE, 0o644)
	if err != nil {
		fmt.Fprintln(os.Stderr, "child:", err)
		os.Exit(3)
	}
	lg := rogger.GetLogger("c20panic")
	lg.SetWriter(&fileRecWriter{f: f, delay: time.Duration(sp.DelayUS) * time.Microsecond, first: time.Duration(sp.FirstDelayMS) * time.Millisecond})
	var wg sync.WaitGroup
	for g := 0; g < sp.Goroutines; g++ {
		wg.Add(1)
		go func(g int) {
			defer wg.Done()
			for n := 0; n < sp.PerG; n++ {
				if n%2 == 0 {
					lg.WriteLog([]byte(fmt.Sprintf("@e%d#%d@\n", g, n)))
				} else {
					lg.Infof("@e%d#%d@\n", g, n)
				}
			}
		}(g)
	}
	wg.Wait()
	// every logging call has returned; tell the parent that the panic is next
	os.WriteFile(sp.File+".logged", []byte("all logging calls returned\n"), 0o644)
	boom := func() {
		defer tars.CheckPanic()
		switch sp.PanicKind {
		case "error":
			panic(errors.New("c20 child: deliberate error panic"))
		case "string":
			panic("c20 child: deliberate panic")
		case "index":
			var a []int
			_ = a[len(os.Args)+5]
		default: // nilmap
			var m map[string]int
			m["x"] = 1
		}
	}
	if sp.PanicKind == "goroutine" {
		sp.PanicKind = "nilmap"
		go boom()
		select {}
	}
	boom()
	os.Exit(4) // CheckPanic returned: it did not end the process
}

type panicOutcome struct {
	exit     int
	logged   bool
	dumped   bool
	data     []byte
	output   string
	took     time.Duration
	hangKill bool
}

func runPanicChild(sc Scenario, root string, idx int) (panicOutcome, error) {
	var out panicOutcome
	self, err := os.Executable()
	if err != nil {
		return out, err
	}
	dir := filepath.Join(root, fmt.Sprintf("p%d", idx))
	if err := os.MkdirAll(dir, 0o755); err != nil {
		return out, err
	}
	link := filepath.Join(dir, "c20child")
	if err := os.Symlink(self, link); err != nil {
		return out, err
	}
	sp := panicSpec{File: filepath.Join(dir, "written.log"), Goroutines: sc.Goroutines, PerG: sc.PerG, DelayUS: sc.DelayUS,
		FirstDelayMS: sc.FirstDelayMS, PanicKind: sc.PanicKind}
	raw, _ := json.Marshal(sp)
	cmd := exec.Command(link)
	cmd.Dir = dir
	cmd.Env = append(os.Environ(), panicChildEnv+"="+string(raw))
	var buf bytes.Buffer
	cmd.Stdout, cmd.Stderr = &buf, &buf
	t0 := time.Now()
	if err := cmd.Start(); err != nil {
		return out, err
	}
	done := make(chan error, 1)
	go func() { done <- cmd.Wait() }()
	select {
	case err = <-done:
	case <-time.After(60 * time.Second):
		cmd.Process.Kill()
		<-done
		out.hangKill = true
	}
	out.took = time.Since(t0)
	out.exit = cmd.ProcessState.ExitCode()
	out.output = buf.String()
	if len(out.output) > 600 {
		out.output = out.output[:600]
	}
	out.data, _ = os.ReadFile(sp.File)
	_, e1 := os.Stat(sp.File + ".logged")
	out.logged = e1 == nil
	ms, _ := filepath.Glob(filepath.Join(dir, "panic.*"))
	out.dumped = len(ms) > 0
	os.RemoveAll(dir)
	return out, nil
}

var panicLineRe = regexp.MustCompile(`^@e(\d+)#(\d+)@$`)

// fits: the backlog can be written well within the flush timeout of one second
func (sc Scenario) panicFits() bool {
	return sc.Goroutines*sc.PerG*sc.DelayUS/1000+sc.FirstDelayMS <= 200
}

func panicOracle(sc Scenario, o panicOutcome) (fs []finding, present int) {
	if o.hangKill {
		return []finding{{"hang:CheckPanic", "the child did not exit within 60 s after its panic"}}, 0
	}
	if !o.logged {
		return []finding{{"hang:logging-call", "the child ended before its logging calls had returned: " + o.output}}, 0
	}
	if o.exit != 255 {
		fs = append(fs, finding{"wrong-exit:CheckPanic", fmt.Sprintf("a panic under `defer tars.CheckPanic()` must end the process with os.Exit(-1) (status 255); status was %d", o.exit)})
	}
	next := make([]int, sc.Goroutines) // per goroutine: the entry expected next
	seen := map[[2]int]int{}
	torn, dup, gap := 0, 0, 0
	lines := strings.Split(string(o.data), "\n")
	if len(lines) > 0 && lines[len(lines)-1] == "" {
		lines = lines[:len(lines)-1]
	}
	for _, l := range lines {
		m := panicLineRe.FindStringSubmatch(l)
		if m == nil {
			if torn++; torn == 1 {
				fs = append(fs, finding{"torn-line:CheckPanic", fmt.Sprintf("the writer's file contains %.60q, which is not one whole entry", l)})
			}
			continue
		}
		g, _ := strconv.Atoi(m[1])
		n, _ := strconv.Atoi(m[2])
		k := [2]int{g, n}
		seen[k]++
		if seen[k] == 2 {
			if dup++; dup == 1 {
				fs = append(fs, finding{"duplicated:CheckPanic", fmt.Sprintf("entry e%d#%d reached the writer twice", g, n)})
			}
			continue
		}
		if g < 0 || g >= sc.Goroutines || n != next[g] {
			if gap++; gap == 1 {
				exp := -1
				if g >= 0 && g < sc.Goroutines {
					exp = next[g]
				}
				fs = append(fs, finding{"reordered:CheckPanic", fmt.Sprintf("goroutine %d: entry #%d reached the writer where #%d was due", g, n, exp)})
			}
		}
		if g >= 0 && g < sc.Goroutines && n >= next[g] {
			next[g] = n + 1
		}
	}
	present = len(seen)
	total := sc.Goroutines * sc.PerG
	if sc.panicFits() && present < total {
		first := ""
		for g := 0; g < sc.Goroutines && first == ""; g++ {
			if next[g] < sc.PerG {
				first = fmt.Sprintf("e%d#%d", g, next[g])
			}
		}
		fs = append(fs, finding{"lost-on-panic:CheckPanic", fmt.Sprintf("%d of %d entries whose logging calls had returned before the panic never reached the writer although the backlog (%d ms at the writer's speed) fits the flush timeout of 1 s (first missing: %s)",
			total-present, total, sc.Goroutines*sc.PerG*sc.DelayUS/1000+sc.FirstDelayMS, first)})
	}
	return fs, present
}

func genPanicScenarios(o *common.Opts, rng *rand.Rand) []Scenario {
	var scs []Scenario
	add := func(g, per, delayUS, firstMS int, kind string) {
		scs = append(scs, Scenario{Kind: "panicexit", Seed: rng.Int63(), Goroutines: g, PerG: per, DelayUS: delayUS, FirstDelayMS: firstMS, PanicKind: kind, Repeat: 1})
	}
	add(2, 25, 0, 100, "string")
	add(1, 50, 1000, 0, "error")
	add(1, 1, 1000, 0, "nilmap")
	add(3, 100, 200, 0, "index")
	add(1, 300, 0, 0, "goroutine")
	add(4, 500, 0, 0, "nilmap")
	add(1, 150, 1000, 0, "goroutine")
	add(4, 500, 200, 0, "error") // 400 ms of backlog: only a gap-free prefix is demanded
	if o.Thorough() {
		kinds := []string{"nilmap", "error", "string", "index", "goroutine"}
		for i := 0; i < 24; i++ {
			g := 1 + rng.Intn(4)
			n := []int{1, 50, 300, 2000}[rng.Intn(4)]
			per := (n + g - 1) / g
			add(g, per, []int{0, 0, 200, 500, 1000}[rng.Intn(5)], []int{0, 0, 50, 150}[rng.Intn(4)], kinds[rng.Intn(len(kinds))])
		}
	}
	return scs
}

// runPanicStream runs the children (a few at a time) and judges them.
func runPanicStream(o *common.Opts, res *common.Result, m *common.Model, scs []Scenario, replay bool) {
	if len(scs) == 0 {
		return
	}
	res.Streams = append(res.Streams, "panicexit")
	modelEffects, err := m.Ask("paniceffects")
	if err != nil {
		res.Fatal(o.Out, err)
	}
	root, err := os.MkdirTemp("", "c20-panic-")
	if err != nil {
		res.Fatal(o.Out, err)
	}
	defer os.RemoveAll(root)
	outs := make([]panicOutcome, len(scs))
	errs := make([]error, len(scs))
	sem := make(chan struct{}, 6)
	var wg sync.WaitGroup
	for i := range scs {
		wg.Add(1)
		go func(i int) {
			defer wg.Done()
			sem <- struct{}{}
			outs[i], errs[i] = runPanicChild(scs[i], root, i)
			<-sem
		}(i)
	}
	wg.Wait()
	for i, sc := range scs {
		if errs[i] != nil {
			res.Fatal(o.Out, fmt.Errorf("panic-exit child: %v", errs[i]))
		}
		out := outs[i]
		findings, present := panicOracle(sc, out)
		total := sc.Goroutines * sc.PerG
		implRes := fmt.Sprintf("exit=%d stack-dump=%v entries=%d reached-writer=%d backlog-fits-timeout=%v child-ran=%v", out.exit, out.dumped, total, present, sc.panicFits(), out.took.Round(time.Millisecond))
		class := "panicexit:" + sc.PanicKind
		if sc.panicFits() {
			class += ":fits"
		} else {
			class += ":prefix-only"
		}
		res.Count(fmt.Sprintf("panic-%d-%d", sc.Seed, i), class, true)
		for _, f := range findings {
			res.Violate(common.Violation{Signature: "C20:" + f.class, What: f.what,
				Case: common.Case{Stream: "panicexit", Op: sc, Model: modelEffects, Impl: implRes}})
		}
		// correspondence with Model/PanicExit.lean: what the recover branch of this tree does
		if modelEffects != common.NoModel && !out.hangKill && out.logged {
			wantDump := strings.Contains(modelEffects, "dump")
			wantExit := strings.HasSuffix(modelEffects, "exit")
			wantFlush := strings.Contains(modelEffects, "flush")
			ok := wantDump == out.dumped && wantExit == (out.exit == 255)
			if ok && sc.panicFits() && wantFlush != (present == total) && sc.DelayUS*total/1000+sc.FirstDelayMS >= 40 {
				// without a flush a backlog of ≥ 40 ms cannot have been written while the stack was dumped
				ok = false
			}
			if ok {
				res.TracesValidated++
				res.Histogram["panicexit:effects-as-model"]++
			} else {
				res.Diverge(common.Case{Stream: "panicexit", Op: sc, Model: modelEffects, Impl: implRes,
					Note: "the child did not do what the model of CheckPanic's recover branch says (stack dump / flush / exit status)"})
			}
		}
		if replay {
			fmt.Printf("panic-exit run %d: impl: %s\n        model: %s\n", i, implRes, modelEffects)
			for _, f := range findings {
				fmt.Printf("        oracle: %s: %s\n", f.class, f.what)
			}
		}
		if i < 1 {
			res.Sample(map[string]interface{}{"scenario": sc, "impl": implRes, "model": modelEffects})
		}
	}
}
