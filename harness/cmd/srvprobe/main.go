package main

import (
	"context"
	"encoding/binary"
	"fmt"
	"io"
	"net"
	"time"

	"github.com/TarsCloud/TarsGo/tars/protocol/codec"
	"github.com/TarsCloud/TarsGo/tars/protocol/res/requestf"

	"verifharness/srv"
)

type disp struct{}

func (disp) Dispatch(ctx context.Context, imp interface{}, req *requestf.RequestPacket, resp *requestf.ResponsePacket, withContext bool) error {
	resp.IVersion = req.IVersion
	resp.IRequestId = req.IRequestId
	resp.SBuffer = req.SBuffer
	return nil
}

func main() {
	port := srv.FreePort("127.0.0.1")
	cfg := &srv.Config{Adapters: []srv.Adapter{{Obj: "App.Server.Obj", Proto: "tcp", Host: "127.0.0.1", Port: port}, {Obj: "App.Server.UObj", Proto: "udp", Host: "127.0.0.1", Port: port}}}
	if err := srv.Start(cfg, disp{}, nil, false); err != nil {
		panic(err)
	}
	req := requestf.RequestPacket{IVersion: 1, IRequestId: 7, SServantName: "App.Server.Obj", SFuncName: "echo", SBuffer: []int8{1, 2, 3}, Context: map[string]string{}, Status: map[string]string{}}
	b := codec.NewBuffer()
	b.WriteSliceInt8(make([]int8, 4))
	req.WriteTo(b)
	bs := b.ToBytes()
	binary.BigEndian.PutUint32(bs, uint32(len(bs)))
	c, err := net.Dial("tcp", fmt.Sprintf("127.0.0.1:%d", port))
	if err != nil {
		panic(err)
	}
	c.Write(bs)
	c.SetReadDeadline(time.Now().Add(2 * time.Second))
	hdr := make([]byte, 4)
	io.ReadFull(c, hdr)
	n := binary.BigEndian.Uint32(hdr)
	body := make([]byte, n-4)
	io.ReadFull(c, body)
	var rsp requestf.ResponsePacket
	err = rsp.ReadFrom(codec.NewReader(body))
	fmt.Println("tcp:", err, rsp.IRequestId, rsp.SBuffer, rsp.IRet)
	u, _ := net.Dial("udp", fmt.Sprintf("127.0.0.1:%d", port))
	u.Write(bs)
	u.SetReadDeadline(time.Now().Add(2 * time.Second))
	buf := make([]byte, 65536)
	m, err := u.Read(buf)
	fmt.Println("udp:", m, err)
}
