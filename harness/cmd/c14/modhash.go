package main

// stream modhash: modhash.ModHash — "mod-hash sends code h to slot h mod N of the installed endpoint
// list (of the weighted cycle when static weights apply)".

import (
	"fmt"
	"math/rand"
	"strconv"
	"strings"

	"github.com/TarsCloud/TarsGo/tars/selector"
	"github.com/TarsCloud/TarsGo/tars/selector/modhash"
	"github.com/TarsCloud/TarsGo/tars/util/endpoint"

	"verifharness/common"
)

type mcase struct {
	Stream string   `json:"stream"`
	EW     bool     `json:"ew"`
	Static []bool   `json:"static"` // per endpoint: WeightType == EStaticWeight
	U      []epSpec `json:"u"`
	Hist   []hop    `json:"h"`
	Codes  []uint32 `json:"codes"`
	Note   string   `json:"note,omitempty"`
}

type hmsg struct {
	code uint32
	ty   selector.HashType
	is   bool
}

func (m hmsg) HashCode() uint32            { return m.code }
func (m hmsg) HashType() selector.HashType { return m.ty }
func (m hmsg) IsHash() bool                { return m.is }

func (c *mcase) ep(i int) endpoint.Endpoint {
	s := c.U[i]
	wt := int32(0)
	if c.Static[i] {
		wt = 1
	}
	e := endpoint.Endpoint{Host: s.Host, Port: s.Port, Timeout: 3000, Istcp: 1, Weight: s.W, WeightType: wt, Proto: "tcp"}
	e.Key = e.String()
	return e
}

func cycleStr(c []int) string {
	if len(c) == 0 {
		return "-"
	}
	s := make([]string, len(c))
	for i, x := range c {
		s[i] = strconv.Itoa(x)
	}
	return strings.Join(s, ",")
}

func (h *harness) runModhash(c *mcase) {
	c.Stream = "modhash"
	sel := modhash.New(c.EW)
	var list []int // the installed list prescribed by the property: insertion order
	inList := func(i int) bool { return contains(list, i) }
	ewn := 0
	if c.EW {
		ewn = 1
	}
	lines := []string{fmt.Sprintf("mhnew 1 %d", ewn)}
	var implOps, implSels []string
	panicked := ""
	func() {
		defer func() {
			if p := recover(); p != nil {
				panicked = fmt.Sprint(p)
			}
		}()
		for oi, o := range c.Hist {
			var err error
			wantOK := true
			switch o.Kind {
			case "refresh":
				list = nil
				eps := callerSlice(len(o.Eps))
				for i, x := range o.Eps {
					eps[i] = c.ep(x)
					if !inList(x) {
						list = append(list, x)
					}
				}
				sel.Refresh(eps)
				scribble(eps) // the selector must not share the caller's slice
			case "add":
				x := o.Eps[0]
				if inList(x) {
					wantOK = false
				} else {
					list = append(list, x)
				}
				err = sel.Add(c.ep(x))
			default:
				x := o.Eps[0]
				if !inList(x) {
					wantOK = false
				} else {
					var nl []int
					for _, y := range list {
						if y != x {
							nl = append(nl, y)
						}
					}
					list = nl
				}
				err = sel.Remove(c.ep(x))
			}
			r := "ok"
			if err != nil {
				r = "err"
			}
			implOps = append(implOps, r)
			if (err == nil) != wantOK {
				h.res.Violate(common.Violation{Signature: "C14:wrong-value:modhash." + o.Kind, What: "call result contradicts the set semantics",
					Case: common.Case{Stream: "modhash", Op: c, Note: fmt.Sprintf("op %d", oi)}})
			}
			// the weighted cycle of the prescribed list, by the real builder (C13's subject)
			var cycle []int
			if c.EW {
				eps := make([]endpoint.Endpoint, len(list))
				for i, x := range list {
					eps[i] = c.ep(x)
				}
				cycle = selector.BuildStaticWeightList(eps)
			}
			switch o.Kind {
			case "refresh":
				var sb strings.Builder
				fmt.Fprintf(&sb, "mhrefresh 1 %s", cycleStr(cycle))
				for _, i := range o.Eps {
					fmt.Fprintf(&sb, " %s:%d", hexHost(c.U[i].Host), c.U[i].W)
				}
				lines = append(lines, sb.String())
			default:
				lines = append(lines, fmt.Sprintf("mh%s 1 %s %s %d", o.Kind, cycleStr(cycle), hexHost(c.U[o.Eps[0]].Host), c.U[o.Eps[0]].W))
			}
			lines = append(lines, "mhsel 1 "+joinU32(c.Codes))
			var sb strings.Builder
			for ci, code := range c.Codes {
				e, err := sel.Select(hmsg{code: code, ty: selector.ModHash, is: true})
				got := "err"
				if err == nil {
					got = hexHost(e.Host) + ":" + strconv.Itoa(int(e.Weight))
				}
				if ci > 0 {
					sb.WriteByte(' ')
				}
				sb.WriteString(got)
				// oracle
				want := "err"
				if len(list) > 0 {
					var x int
					if len(cycle) > 0 {
						x = list[cycle[int(code%uint32(len(cycle)))]]
					} else {
						x = list[int(code%uint32(len(list)))]
					}
					want = hexHost(c.U[x].Host) + ":" + strconv.Itoa(int(c.U[x].W))
					if err == nil && e != c.ep(x) {
						got += "(fields differ)"
					}
				}
				if got != want {
					cc := *c
					cc.Hist = c.Hist[:oi+1]
					cc.Codes = []uint32{code}
					gh := "error"
					if err == nil {
						gh = fmt.Sprintf("%q", e.Host)
					}
					wh := "error"
					if len(list) > 0 {
						wh = fmt.Sprintf("%q", unhexHost(strings.Split(want, ":")[0]))
					}
					cc.Note = fmt.Sprintf("after op %d code %d: selected %s, slot rule gives %s (installed list %v, cycle length %d)", oi, code, gh, wh, list, len(cycle))
					sig, what := "C14:wrong-slot:modhash.Select", "mod-hash did not send the code to slot (code mod N) of the installed list / weighted cycle"
					if err == nil && isGarbage(e.Host) {
						sig, what = "C14:aliased-input:modhash.Refresh", "the selector shares the slice its caller passed to Refresh: overwriting that slice afterwards changed the routing"
					}
					h.res.Violate(common.Violation{Signature: sig, What: what,
						Case: common.Case{Stream: "modhash", Op: cc, Impl: got, Note: cc.Note}})
				}
				// determinism
				if e2, err2 := sel.Select(hmsg{code: code, ty: selector.ModHash, is: true}); (err2 == nil) != (err == nil) || e2 != e {
					h.res.Violate(common.Violation{Signature: "C14:nondeterministic:modhash.Select", What: "same code, unchanged list, different endpoint",
						Case: common.Case{Stream: "modhash", Op: c, Note: fmt.Sprintf("op %d code %d", oi, code)}})
				}
			}
			implSels = append(implSels, sb.String())
		}
	}()
	if panicked != "" {
		cc := *c
		cc.Hist = c.Hist[:len(implOps)]
		cc.Note = fmt.Sprintf("panic after op %d: %s", len(implOps)-1, panicked)
		h.res.Violate(common.Violation{Signature: "C14:panic:modhash.Select", What: "the mod-hash selector panicked: " + panicked,
			Case: common.Case{Stream: "modhash", Op: cc, Impl: panicked, Note: cc.Note}})
	}
	ans := h.ask(lines)
	li := 1
	for oi := range c.Hist {
		if oi >= len(implOps) || oi >= len(implSels) {
			break
		}
		if !h.noModel(ans[li]) && (ans[li] != implOps[oi] || ans[li+1] != implSels[oi]) {
			h.res.Diverge(common.Case{Stream: "modhash", Op: c, Model: trunc(ans[li] + " | " + ans[li+1]), Impl: trunc(implOps[oi] + " | " + implSels[oi]),
				Note: fmt.Sprintf("after op %d", oi)})
			break
		}
		li += 2
	}
	if h.verbose {
		for oi := range implSels {
			fmt.Printf("op %d: impl %s | %s\n       model %s | %s\n", oi, implOps[oi], trunc(implSels[oi]), ans[1+2*oi], trunc(ans[2+2*oi]))
		}
	}
	cls := "modhash:plain"
	if c.EW {
		cls = "modhash:weighted"
	}
	h.res.Count(fmt.Sprintf("mh|%v|%v|%v", c.U, c.Hist, c.EW), cls, len(list) >= 2)
	h.res.Evaluations += len(c.Codes)*len(c.Hist) - 1
	h.res.TracesValidated++
}

func (h *harness) streamModhash() {
	rng := h.rng
	n := 120
	if h.o.Thorough() {
		n = 2500
	}
	for i := 0; i < n; i++ {
		h.runModhash(genModhashCase(rng, i))
	}
}

func genModhashCase(rng *rand.Rand, salt int) *mcase {
	nU := 1 + rng.Intn(7)
	c := &mcase{Stream: "modhash", EW: rng.Intn(2) == 0}
	c.U = genUniverse(rng, nU, false, salt)
	allStatic := rng.Intn(4) != 0
	for i := range c.U {
		c.U[i].W = int32(1 + rng.Intn(100)) // positive: the zero-weight division is C13's finding D2
		if rng.Intn(5) == 0 {
			c.U[i].W = c.U[0].W
		}
		c.Static = append(c.Static, allStatic || rng.Intn(2) == 0)
	}
	all := make([]int, nU)
	for i := range all {
		all[i] = i
	}
	nOps := 1 + rng.Intn(10)
	for i := 0; i < nOps; i++ {
		switch rng.Intn(6) {
		case 0, 1:
			sub := perm(rng, all)[:rng.Intn(nU+1)]
			if len(sub) > 0 && rng.Intn(3) == 0 {
				sub = append(sub, sub[0])
			}
			c.Hist = append(c.Hist, hop{Kind: "refresh", Eps: sub})
		case 2, 3:
			c.Hist = append(c.Hist, hop{Kind: "add", Eps: []int{rng.Intn(nU)}})
		default:
			c.Hist = append(c.Hist, hop{Kind: "remove", Eps: []int{rng.Intn(nU)}})
		}
	}
	c.Codes = []uint32{0, 1, 2, 3, 4, 5, 6, 7, 0xFFFFFFFF, 0xFFFFFFFE, 0x80000000, 0x7FFFFFFF}
	for i := 0; i < 20; i++ {
		c.Codes = append(c.Codes, rng.Uint32())
	}
	for i := 0; i < 12; i++ {
		c.Codes = append(c.Codes, uint32(rng.Intn(300)))
	}
	return c
}
