package main

// stream alias: ownership of the caller's slice, for all four selectors (modhash, consistenthash,
// roundrobin, random).  The selector under test is handed slices with spare capacity that are
// scribbled over right after every Refresh (see scribble); a twin selector of the same kind gets
// private copies that nobody touches.  Routing must stay that of the installed set: every selection
// is a member of the set prescribed by the history (never a garbage endpoint); for the hash
// selectors it equals the twin's selection for the same code, for round robin (random start
// position) any N consecutive selections visit each of the N installed endpoints once.
// The Lean models hold the selector state as a value, so there is no model side to this stream.

import (
	"fmt"
	"math/rand"

	"github.com/TarsCloud/TarsGo/tars/selector"
	"github.com/TarsCloud/TarsGo/tars/selector/consistenthash"
	"github.com/TarsCloud/TarsGo/tars/selector/modhash"
	"github.com/TarsCloud/TarsGo/tars/selector/random"
	"github.com/TarsCloud/TarsGo/tars/selector/roundrobin"
	"github.com/TarsCloud/TarsGo/tars/util/endpoint"

	"verifharness/common"
)

type acase struct {
	Stream string   `json:"stream"`
	Sel    string   `json:"sel"` // modhash | consistenthash | roundrobin | random
	EW     bool     `json:"ew"`
	U      []epSpec `json:"u"`
	Hist   []hop    `json:"h"`
	Codes  []uint32 `json:"codes"`
	Note   string   `json:"note,omitempty"`
}

func newSel(kind string, ew bool) selector.Selector {
	switch kind {
	case "modhash":
		return modhash.New(ew)
	case "consistenthash":
		return consistenthash.New(ew, consistenthash.KetamaHash)
	case "roundrobin":
		return roundrobin.New(ew)
	default:
		return random.New(ew)
	}
}

func (c *acase) ep(i int) endpoint.Endpoint {
	s := c.U[i]
	wt := int32(0)
	if c.EW {
		wt = 1
	}
	e := endpoint.Endpoint{Host: s.Host, Port: s.Port, Timeout: 3000, Istcp: 1, Weight: s.W, WeightType: wt, Proto: "tcp"}
	e.Key = e.String()
	return e
}

func (h *harness) runAlias(c *acase) {
	c.Stream = "alias"
	s, twin := newSel(c.Sel, c.EW), newSel(c.Sel, c.EW)
	st := newSet()
	bad := func(oi int, sig, what, note string) {
		cc := *c
		cc.Hist = c.Hist[:oi+1]
		cc.Note = note
		h.res.Violate(common.Violation{Signature: sig, What: what, Case: common.Case{Stream: "alias", Op: cc, Note: note}})
	}
	panicked := ""
	func() {
		defer func() {
			if p := recover(); p != nil {
				panicked = fmt.Sprint(p)
			}
		}()
		for oi, o := range c.Hist {
			switch o.Kind {
			case "refresh":
				eps := callerSlice(len(o.Eps))
				priv := make([]endpoint.Endpoint, len(o.Eps))
				for i, x := range o.Eps {
					eps[i] = c.ep(x)
					priv[i] = c.ep(x)
				}
				s.Refresh(eps)
				twin.Refresh(priv)
				scribble(eps)
			case "add":
				e1, e2 := s.Add(c.ep(o.Eps[0])), twin.Add(c.ep(o.Eps[0]))
				if (e1 == nil) != (e2 == nil) {
					bad(oi, "C14:aliased-input:"+c.Sel+".Add", "Add answers differently after the caller's Refresh slice was overwritten", fmt.Sprintf("op %d: %v vs twin %v", oi, e1, e2))
				}
			default:
				e1, e2 := s.Remove(c.ep(o.Eps[0])), twin.Remove(c.ep(o.Eps[0]))
				if (e1 == nil) != (e2 == nil) {
					bad(oi, "C14:aliased-input:"+c.Sel+".Remove", "Remove answers differently after the caller's Refresh slice was overwritten", fmt.Sprintf("op %d: %v vs twin %v", oi, e1, e2))
				}
			}
			st.apply(o)
			var rrSeen []string // round robin starts at a random position: rotation instead of twin equality
			for ci, code := range c.Codes {
				msg := hmsg{code: code, ty: selector.ModHash, is: true}
				e, err := s.Select(msg)
				te, terr := twin.Select(msg)
				h.res.Evaluations++
				if err == nil {
					member := false
					for i := range st.in {
						if e == c.ep(i) {
							member = true
						}
					}
					if !member {
						sig := "C14:not-member:" + c.Sel + ".Select"
						what := "the selected endpoint is not one of the installed set"
						if isGarbage(e.Host) {
							sig, what = "C14:aliased-input:"+c.Sel+".Refresh", "the selector shares the slice its caller passed to Refresh: overwriting that slice afterwards changed what it selects"
						}
						bad(oi, sig, what, fmt.Sprintf("after op %d, selection %d (code %d): %q, installed hosts %v", oi, ci, code, e.Host, hostNamesA(c, st.members())))
						return
					}
				}
				if c.Sel == "roundrobin" && err == nil {
					rrSeen = append(rrSeen, e.Host)
				}
				if c.Sel != "random" && c.Sel != "roundrobin" && ((err == nil) != (terr == nil) || e != te) {
					bad(oi, "C14:aliased-input:"+c.Sel+".Refresh", "a selector whose Refresh input was overwritten afterwards routes differently from a twin that was given private copies",
						fmt.Sprintf("after op %d, selection %d (code %d): %q (err=%v) vs twin %q (err=%v)", oi, ci, code, e.Host, err != nil, te.Host, terr != nil))
					return
				}
				if (err == nil) != (len(st.in) > 0) && c.Sel != "consistenthash" { // a ring may be empty with members of non-positive weight
					bad(oi, "C14:wrong-value:"+c.Sel+".Select", "error result does not match emptiness of the installed set", fmt.Sprintf("after op %d: err=%v, %d installed", oi, err != nil, len(st.in)))
					return
				}
			}
			if n := len(st.in); c.Sel == "roundrobin" && !c.EW && n > 0 && len(rrSeen) >= n {
				distinct := map[string]bool{}
				for _, hst := range rrSeen[:n] {
					distinct[hst] = true
				}
				if len(distinct) != n {
					bad(oi, "C14:aliased-input:roundrobin.Refresh", "after the caller's Refresh slice was overwritten, N consecutive round-robin selections no longer visit each of the N installed endpoints once",
						fmt.Sprintf("after op %d: %v, installed %v", oi, rrSeen[:n], hostNamesA(c, st.members())))
					return
				}
			}
		}
	}()
	if panicked != "" {
		bad(len(c.Hist)-1, "C14:panic:"+c.Sel, "the selector panicked: "+panicked, panicked)
	}
	h.res.Count(fmt.Sprintf("alias|%s|%v|%v|%v", c.Sel, c.EW, c.U, c.Hist), "alias:"+c.Sel, true)
	h.res.TracesValidated++
}

func hostNamesA(c *acase, idx []int) []string {
	r := make([]string, len(idx))
	for i, x := range idx {
		r[i] = c.U[x].Host
	}
	return r
}

func (h *harness) streamAlias() {
	rng := h.rng
	n := 15
	if h.o.Thorough() {
		n = 300
	}
	for _, kind := range []string{"modhash", "consistenthash", "roundrobin", "random"} {
		for i := 0; i < n; i++ {
			h.runAlias(genAliasCase(rng, kind, i))
		}
	}
}

func genAliasCase(rng *rand.Rand, kind string, salt int) *acase {
	nU := 2 + rng.Intn(6)
	c := &acase{Stream: "alias", Sel: kind, EW: rng.Intn(3) == 0}
	c.U = genUniverse(rng, nU, false, salt)
	for i := range c.U {
		c.U[i].W = int32(1 + rng.Intn(100))
	}
	all := make([]int, nU)
	for i := range all {
		all[i] = i
	}
	// always starts with a Refresh of at least two endpoints; then a mix with more Refreshes
	first := perm(rng, all)[:2+rng.Intn(nU-1)]
	c.Hist = append(c.Hist, hop{Kind: "refresh", Eps: first})
	for i, nOps := 0, rng.Intn(8); i < nOps; i++ {
		switch rng.Intn(5) {
		case 0, 1:
			sub := perm(rng, all)[:1+rng.Intn(nU)]
			if rng.Intn(3) == 0 {
				sub = append(sub, sub[0])
			}
			c.Hist = append(c.Hist, hop{Kind: "refresh", Eps: sub})
		case 2:
			c.Hist = append(c.Hist, hop{Kind: "add", Eps: []int{rng.Intn(nU)}})
		default:
			c.Hist = append(c.Hist, hop{Kind: "remove", Eps: []int{rng.Intn(nU)}})
		}
	}
	c.Codes = []uint32{0, 1, 2, 3, 4, 5, 6, 7, 8, 0xFFFFFFFF}
	for i := 0; i < 6; i++ {
		c.Codes = append(c.Codes, rng.Uint32())
	}
	return c
}
