package main

// stream mgr: "a call made with a hash code in its context is routed by these rules", at the level
// of a registry-mode endpointManager with its health check (hooks of tars/verif_health.go, build
// tag verif: a manager that no background ticker touches, CheckStatus, ShiftTimes, FreshClient).
//
// World: echo servers on 127.0.0.1..127.0.0.n (the selectors key endpoints by host) that answer
// every two-way request at once and can be taken down (connection refused) and brought back; a
// registry stub.  A history is a list of steps
//
//	block i      server i goes down, calls fail (>= 5 in a row, > 5 s old), checkStatus takes it out
//	reinstate i  server i comes back, 30 s pass, checkStatus queues the probe, a call is answered,
//	             addAliveEp puts the endpoint back
//	refresh set  the registry now lists `set`; the manager refreshes (needs the accessor
//	             VerifManager.Refresh of pending/C14-hook-refresh.patch; skipped without it)
//
// After the installation and after every step, calls with mod-hash and consistent-hash codes in
// their context are made through the manager's ServantProxy (one-way; the chosen server is read
// from the call context) and must be routed
//   - exactly as by a FRESH manager that was handed the same active set (history independence), and
//   - mod-hash: to slot h mod N of the installed list = the active endpoints ordered by crc32 of
//     their key (of the weighted cycle over that list when static weights apply);
//     consistent hash: to the owner prescribed by the independent crypto/md5 ring.

import (
	"context"
	"encoding/binary"
	"fmt"
	"hash/crc32"
	"io"
	"math/rand"
	"net"
	"reflect"
	"sort"
	"strings"
	"sync"
	"time"

	"github.com/TarsCloud/TarsGo/tars"
	"github.com/TarsCloud/TarsGo/tars/protocol/codec"
	"github.com/TarsCloud/TarsGo/tars/protocol/res/endpointf"
	"github.com/TarsCloud/TarsGo/tars/protocol/res/requestf"
	"github.com/TarsCloud/TarsGo/tars/registry"
	"github.com/TarsCloud/TarsGo/tars/selector"
	"github.com/TarsCloud/TarsGo/tars/util/current"
	"github.com/TarsCloud/TarsGo/tars/util/endpoint"

	"verifharness/common"
)

type gstep struct {
	K   string  `json:"k"` // block | reinstate | refresh
	I   int     `json:"i,omitempty"`
	Set []int   `json:"set,omitempty"`
	W   []int32 `json:"w,omitempty"`  // refresh: Weight of every listed endpoint (parallel to Set)
	WT  []int32 `json:"wt,omitempty"` // refresh: WeightType (0 = ELoop, 1 = EStaticWeight) of every listed endpoint
}

type gcase struct {
	Stream string   `json:"stream"`
	N      int      `json:"n"`            // servers 127.0.0.1 .. 127.0.0.N
	W      []int32  `json:"w,omitempty"`  // Weight per endpoint at installation (static for all when WT is absent)
	WT     []int32  `json:"wt,omitempty"` // WeightType per endpoint at installation (0 = ELoop, 1 = EStaticWeight)
	Init   []int    `json:"init"`         // endpoints the registry lists at installation
	Steps  []gstep  `json:"steps"`
	Codes  []uint32 `json:"codes"`
	Note   string   `json:"note,omitempty"`
}

// ---- registry stub ----

type stubRegistry struct {
	mu  sync.Mutex
	eps []endpointf.EndpointF
}

func (s *stubRegistry) Registry(context.Context, *registry.ServantInstance) error   { return nil }
func (s *stubRegistry) Deregister(context.Context, *registry.ServantInstance) error { return nil }
func (s *stubRegistry) QueryServant(context.Context, string) ([]registry.Endpoint, []registry.Endpoint, error) {
	s.mu.Lock()
	defer s.mu.Unlock()
	return append([]endpointf.EndpointF{}, s.eps...), nil, nil
}
func (s *stubRegistry) QueryServantBySet(ctx context.Context, id, _ string) ([]registry.Endpoint, []registry.Endpoint, error) {
	return s.QueryServant(ctx, id)
}

// ---- echo servers ----

type echoSrv struct {
	host string
	port int
	mu   sync.Mutex
	ln   net.Listener
	cs   map[net.Conn]struct{}
}

func (s *echoSrv) up() error {
	var ln net.Listener
	var err error
	for try := 0; try < 40; try++ {
		ln, err = net.Listen("tcp", fmt.Sprintf("%s:%d", s.host, s.port))
		if err == nil {
			break
		}
		time.Sleep(5 * time.Millisecond)
	}
	if err != nil {
		return err
	}
	s.mu.Lock()
	s.ln = ln
	s.port = ln.Addr().(*net.TCPAddr).Port
	if s.cs == nil {
		s.cs = map[net.Conn]struct{}{}
	}
	s.mu.Unlock()
	go func() {
		for {
			c, err := ln.Accept()
			if err != nil {
				return
			}
			s.mu.Lock()
			if s.ln != ln {
				s.mu.Unlock()
				c.Close()
				return
			}
			s.cs[c] = struct{}{}
			s.mu.Unlock()
			go s.serve(c)
		}
	}()
	return nil
}

func (s *echoSrv) serve(c net.Conn) {
	defer func() {
		s.mu.Lock()
		delete(s.cs, c)
		s.mu.Unlock()
		c.Close()
	}()
	for {
		var hd [4]byte
		if _, err := io.ReadFull(c, hd[:]); err != nil {
			return
		}
		n := int(binary.BigEndian.Uint32(hd[:]))
		if n < 4 || n > 1<<20 {
			return
		}
		body := make([]byte, n-4)
		if _, err := io.ReadFull(c, body); err != nil {
			return
		}
		var req requestf.RequestPacket
		if err := req.ReadFrom(codec.NewReader(body)); err != nil {
			return
		}
		if req.CPacketType == 1 { // one-way
			continue
		}
		rsp := requestf.ResponsePacket{IVersion: 1, IRequestId: req.IRequestId}
		os := codec.NewBuffer()
		_ = os.WriteSliceInt8(make([]int8, 4))
		if err := rsp.WriteTo(os); err != nil {
			return
		}
		bs := os.ToBytes()
		binary.BigEndian.PutUint32(bs, uint32(len(bs)))
		if _, err := c.Write(bs); err != nil {
			return
		}
	}
}

func (s *echoSrv) down() {
	s.mu.Lock()
	if s.ln != nil {
		s.ln.Close()
		s.ln = nil
	}
	for c := range s.cs {
		c.Close()
	}
	s.cs = map[net.Conn]struct{}{}
	s.mu.Unlock()
}

// ---- the world of one case ----

type gworld struct {
	c     *gcase
	srv   []*echoSrv
	epf   []endpointf.EndpointF
	keys  []string
	idxOf map[string]int // key -> server index
	hostI map[string]int // host -> server index
	reg   *stubRegistry
	vm    *tars.VerifManager
	sp    *tars.ServantProxy
}

var mgrSerial int

func (w *gworld) close() {
	if w.vm != nil {
		for _, k := range w.keys {
			w.vm.FreshClient(k)
		}
	}
	for _, s := range w.srv {
		s.down()
	}
}

func newManagerFor(epfs []endpointf.EndpointF) (*tars.VerifManager, *stubRegistry, error) {
	mgrSerial++
	reg := &stubRegistry{eps: append([]endpointf.EndpointF{}, epfs...)}
	comm := tars.NewCommunicator(tars.Registrar(reg))
	vm, err := tars.VerifNewManager(comm, fmt.Sprintf("C14.M%d.Obj", mgrSerial))
	if err != nil {
		return nil, nil, err
	}
	vm.Servant().TarsSetTimeout(3000)
	return vm, reg, nil
}

// route makes one call with the given hash type/code in its context and reports the server the
// manager selected (one-way unless twoWay).
func route(sp *tars.ServantProxy, ty int, code uint32, twoWay bool) (host string, err error) {
	ctx := current.ContextWithClientCurrent(context.Background())
	current.SetClientHash(ctx, ty, code)
	var resp requestf.ResponsePacket
	ct := byte(1)
	if twoWay {
		ct = 0
	}
	err = sp.TarsInvoke(ctx, ct, "c14", []byte{1}, nil, nil, &resp)
	host, _ = current.GetServerIPFromContext(ctx)
	return host, err
}

func sortByCRC(keys []string) []string {
	out := append([]string{}, keys...)
	sort.SliceStable(out, func(i, j int) bool { return crc32.ChecksumIEEE([]byte(out[i])) < crc32.ChecksumIEEE([]byte(out[j])) })
	return out
}

func (h *harness) gviolate(c *gcase, upto int, sig, what, note string) {
	cc := *c
	if upto >= 0 && upto < len(c.Steps) {
		cc.Steps = c.Steps[:upto+1]
	} else if upto < 0 {
		cc.Steps = nil
	}
	cc.Note = note
	h.res.Violate(common.Violation{Signature: sig, What: what, Case: common.Case{Stream: "mgr", Op: cc, Note: note}})
}

var mgrRefreshNoted bool

func (h *harness) runMgr(c *gcase) {
	c.Stream = "mgr"
	w := &gworld{c: c, idxOf: map[string]int{}, hostI: map[string]int{}}
	defer w.close()
	for i := 0; i < c.N; i++ {
		s := &echoSrv{host: fmt.Sprintf("127.0.0.%d", i+1)}
		if err := s.up(); err != nil {
			w.srv = append(w.srv, s)
			h.res.Note("mgr skipped: cannot listen on %s: %v", s.host, err)
			h.res.Histogram["mgr:skipped-no-loopback-alias"]++
			return
		}
		w.srv = append(w.srv, s)
	}
	// Endpoint i of a case is the one of RANK i in the canonical (crc32 of the key) order of the
	// universe: the ports are assigned by the OS and differ from run to run, the structure of a
	// history ("block the second endpoint of the installed list") must not.
	sort.SliceStable(w.srv, func(a, b int) bool {
		ka := endpoint.Tars2endpoint(endpointf.EndpointF{Host: w.srv[a].host, Port: int32(w.srv[a].port), Timeout: 3000, Istcp: 1}).Key
		kb := endpoint.Tars2endpoint(endpointf.EndpointF{Host: w.srv[b].host, Port: int32(w.srv[b].port), Timeout: 3000, Istcp: 1}).Key
		return crc32.ChecksumIEEE([]byte(ka)) < crc32.ChecksumIEEE([]byte(kb))
	})
	for i, s := range w.srv {
		ef := endpointf.EndpointF{Host: s.host, Port: int32(s.port), Timeout: 3000, Istcp: 1}
		if len(c.W) == c.N {
			ef.Weight, ef.WeightType = c.W[i], 1
			if len(c.WT) == c.N {
				ef.WeightType = c.WT[i]
			}
		}
		w.epf = append(w.epf, ef)
		k := endpoint.Tars2endpoint(ef).Key
		w.keys = append(w.keys, k)
		w.idxOf[k] = i
		w.hostI[s.host] = i
	}
	var initF []endpointf.EndpointF
	for _, i := range c.Init {
		initF = append(initF, w.epf[i])
	}
	vm, reg, err := newManagerFor(initF)
	if err != nil {
		h.res.Fatal(h.o.Out, fmt.Errorf("mgr: VerifNewManager: %v", err))
	}
	w.vm, w.reg, w.sp = vm, reg, vm.Servant()

	// what the mod-hash selector's own list is if Refresh/Remove/Add are applied literally
	// (Refresh installs the crc32-sorted list, Remove deletes, Add appends)
	literal := sortByCRC(vm.Active())

	// The weight type in force (do static weights apply?) is decided by updateActiveEp from the
	// registry answer alone: the common WeightType of ALL listed endpoints, else ELoop.  The
	// harness tracks it from the answers it serves; the manager is held to it through routing.
	lastAnswer := hostSorted(initF)
	effWT := effectiveWeightType(lastAnswer)
	// An adapter remembers its endpoint as it was when the adapter was created.  An endpoint whose
	// Weight/WeightType the registry changed while it stayed listed, and that is then reinstated
	// by addAliveEp, comes back with the OLD weight (finding addAliveEp-stale-weight): deviations
	// while such an endpoint is active are attributed to that finding.
	reweighted := map[int]bool{}  // rank -> weight or type changed since it was first listed
	staleActive := map[int]bool{} // rank -> reinstated after such a change, no new answer since
	h.res.Histogram[fmt.Sprintf("mgr:answer:%s", answerKind(lastAnswer))]++

	check := func(step int, locus string) bool {
		if q := vm.ProbeQueueLen(); q != 0 {
			h.res.Histogram["mgr:probe-still-queued"]++
			return true
		}
		active := vm.Active()
		want := sortByCRC(active)
		n := len(want)
		sig := "C14:history-dependent:endpointManager." + locus
		if strings.Join(active, "|") != strings.Join(want, "|") {
			h.gviolate(c, step, sig, "the installed endpoint list (activeEp) is not in the canonical crc32 order a fresh client has",
				fmt.Sprintf("after step %d: %v", step, active))
			return false
		}
		if n == 0 {
			return true
		}
		// a fresh manager on the same active set (it computes the weight type from these endpoints
		// only: comparable when that is the type the full registry answer gives)
		var fr []endpointf.EndpointF
		for _, k := range active {
			fr = append(fr, w.epf[w.idxOf[k]])
		}
		freshComparable := effectiveWeightType(fr) == effWT
		if !freshComparable {
			h.res.Histogram["mgr:fresh-not-comparable(blocked endpoint decides the weight type)"]++
		}
		fresh, _, err := newManagerFor(fr)
		if err != nil {
			h.res.Fatal(h.o.Out, fmt.Errorf("mgr: fresh manager: %v", err))
		}
		defer func() {
			for _, k := range active {
				fresh.FreshClient(k)
			}
		}()
		// independent predictions
		rc := &rcase{EW: effWT == int32(endpoint.EStaticWeight), Alg: "k", repaired: h.repaired}
		members := make([]int, n)
		list := make([]endpoint.Endpoint, n)
		for i, k := range want {
			ef := w.epf[w.idxOf[k]]
			rc.U = append(rc.U, epSpec{Host: ef.Host, W: ef.Weight, Port: ef.Port})
			members[i] = i
			list[i] = endpoint.Tars2endpoint(ef)
		}
		ref := rc.buildRef(members, map[int]bool{}, map[int][]uint32{})
		var cycle []int
		if rc.EW {
			cycle = selector.BuildStaticWeightList(list)
		}
		slot := func(l []string, code uint32, cyc []int) string {
			if len(cyc) > 0 {
				return l[cyc[int(code%uint32(len(cyc)))]]
			}
			return l[int(code%uint32(len(l)))]
		}
		var litCycle []int
		if rc.EW && len(literal) == n {
			ll := make([]endpoint.Endpoint, n)
			for i, k := range literal {
				ll[i] = endpoint.Tars2endpoint(w.epf[w.idxOf[k]])
			}
			litCycle = selector.BuildStaticWeightList(ll)
		}
		for _, code := range c.Codes {
			for _, ty := range []int{int(tars.ModHash), int(tars.ConsistentHash)} {
				wantKey := ""
				tyName := "mod-hash"
				if ty == int(tars.ModHash) {
					wantKey = slot(want, code, cycle)
				} else {
					tyName = "consistent-hash"
					if exp := ref.explained(code); len(exp) > 0 {
						wantKey = want[exp[0]]
					} else {
						// static weights apply and no active endpoint has a positive weight: the ring is
						// empty, the manager falls back to a random endpoint
						h.res.Histogram["mgr:empty-ring-skipped"]++
						continue
					}
				}
				gotH, err := route(w.sp, ty, code, false)
				frH, ferr := route(fresh.Servant(), ty, code, false)
				h.res.Evaluations++
				if i, ok := w.hostI[gotH]; !ok || !contains2(active, w.keys[i]) {
					cc := *c
					cc.Codes = []uint32{code}
					h.gviolate(&cc, step, sig, "a call with a hash code in its context was routed to an endpoint that is not in the active set",
						fmt.Sprintf("after step %d, hash type %d code %d: routed to %q, active %v", step, ty, code, gotH, hostsOf(w, active)))
					return false
				}
				if err != nil || ferr != nil {
					h.gviolate(c, step, "C14:wrong-value:ServantProxy.doInvoke", "one-way call to a listening endpoint failed", fmt.Sprintf("after step %d: %v / fresh %v", step, err, ferr))
					return false
				}
				wantH := w.epf[w.idxOf[wantKey]].Host
				if !freshComparable {
					frH = wantH
				}
				if gotH == wantH && frH == wantH {
					continue
				}
				vsig := sig
				what := "a call with a hash code in its context is routed differently by a client with a history (endpoint blocked / reinstated / refreshed) than by a fresh client holding the same endpoint set"
				if frH != wantH {
					vsig, what = "C14:wrong-owner:endpointManager.updateActiveEp", "a fresh manager does not route the code by the rule of its hash type"
				} else if ty == int(tars.ModHash) && len(literal) == n && w.epf[w.idxOf[slot(literal, code, litCycle)]].Host == gotH {
					// the selector list is [.., reinstated endpoint appended] while activeEp was re-sorted
					vsig = "C14:history-dependent:endpointManager.addAliveEp-modhash-order"
					what = "after an endpoint was reinstated, addAliveEp re-sorts the installed list (activeEp) by crc32 but only appends to the mod-hash selector, so mod-hash routes code h to slot h mod N of another order than the installed list and than a fresh client with the same set"
				}
				if frH == wantH && len(staleActive) > 0 {
					vsig = "C14:history-dependent:endpointManager.addAliveEp-stale-weight"
					what = "an endpoint whose weight / weight type the registry changed while it was blocked is reinstated by addAliveEp with the weight its adapter remembers from before: ring and weighted cycle differ from those of a fresh client holding the same registry answer"
				}
				cc := *c
				cc.Codes = []uint32{code}
				h.gviolate(&cc, step, vsig, what,
					fmt.Sprintf("after step %d, %s code %d: routed to %s, fresh manager %s, rule %s (installed list %v, registry answer %s => weight type %d)",
						step, tyName, code, gotH, frH, wantH, hostsOf(w, want), showAnswer(lastAnswer), effWT))
				if strings.HasSuffix(vsig, "addAliveEp-modhash-order") {
					continue // keep going: the rest of the history may show something else
				}
				if strings.HasSuffix(vsig, "addAliveEp-stale-weight") {
					return true // everything routed by weight is off until the next registry change
				}
				return false
			}
		}
		// round robin (calls without a hash code): over one period every active endpoint is chosen
		// as often as the weighted cycle prescribes (once each when static weights do not apply)
		wantCnt := map[string]int{}
		period := n
		if len(cycle) > 0 {
			period = len(cycle)
			for _, idx := range cycle {
				wantCnt[list[idx].Host]++
			}
		} else {
			for _, e := range list {
				wantCnt[e.Host]++
			}
		}
		if period <= 1200 {
			gotCnt := map[string]int{}
			for i := 0; i < period; i++ {
				ctx := current.ContextWithClientCurrent(context.Background())
				var resp requestf.ResponsePacket
				_ = w.sp.TarsInvoke(ctx, 1, "c14", []byte{1}, nil, nil, &resp)
				ip, _ := current.GetServerIPFromContext(ctx)
				gotCnt[ip]++
				h.res.Evaluations++
			}
			if fmt.Sprint(gotCnt) != fmt.Sprint(wantCnt) {
				if len(staleActive) > 0 {
					h.gviolate(c, step, "C14:history-dependent:endpointManager.addAliveEp-stale-weight",
						"an endpoint whose weight / weight type the registry changed while it was blocked is reinstated by addAliveEp with the weight its adapter remembers from before: ring and weighted cycle differ from those of a fresh client holding the same registry answer",
						fmt.Sprintf("after step %d: %d calls without hash code: %v, prescribed %v", step, period, gotCnt, wantCnt))
					return true
				}
				h.gviolate(c, step, sig, "round robin over one period does not visit the active endpoints as often as the weighted cycle of a fresh client prescribes (the weight type in force differs from the one the registry answer gives, or a weight is stale)",
					fmt.Sprintf("after step %d: %d calls without hash code: %v, prescribed %v (registry answer %s => weight type %d)", step, period, gotCnt, wantCnt, showAnswer(lastAnswer), effWT))
				return false
			}
		}
		return true
	}

	h.res.Count(fmt.Sprintf("mgr|%d|%v|%v|%v|%v", c.N, c.W, c.WT, c.Init, c.Steps), "mgr:case", len(c.Steps) > 0)
	h.res.TracesValidated++
	if !check(-1, "updateActiveEp") {
		return
	}
	for si, st := range c.Steps {
		switch st.K {
		case "block":
			key := w.keys[st.I]
			if !contains2(vm.Active(), key) {
				h.res.Histogram["mgr:block-noop"]++
				continue
			}
			w.srv[st.I].down()
			vm.FreshClient(key)
			// two-way calls over many codes; the servers that are up answer, only the victim's calls fail
			for code := uint32(0); code < 3000 && vm.Health(key).LastFailCount < 5; code++ {
				route(w.sp, int(tars.ModHash), code, true)
				if code%3 == 0 {
					route(w.sp, int(tars.ConsistentHash), code*2654435761, true)
				}
			}
			vm.ShiftTimes(6)
			vm.CheckStatus()
			if vm.Health(key).Status || contains2(vm.Active(), key) {
				h.res.Histogram["mgr:block-ineffective"]++
				w.srv[st.I].up()
				vm.FreshClient(key)
			} else {
				h.res.Histogram["mgr:step-block"]++
				literal = without(literal, key)
			}
			if !check(si, "checkStatus") {
				return
			}
		case "reinstate":
			key := w.keys[st.I]
			hl := vm.Health(key)
			if !hl.Exists || hl.Status || contains2(vm.Active(), key) || !contains2(vm.Registry(), key) {
				h.res.Histogram["mgr:reinstate-noop"]++
				continue
			}
			if err := w.srv[st.I].up(); err != nil {
				h.res.Fatal(h.o.Out, fmt.Errorf("mgr: cannot bring %s back: %v", w.srv[st.I].host, err))
			}
			vm.FreshClient(key)
			vm.ShiftTimes(31)
			vm.CheckStatus()
			if vm.ProbeQueueLen() == 0 {
				h.res.Histogram["mgr:probe-not-queued"]++
				continue
			}
			route(w.sp, int(tars.ModHash), 0, true) // carries the probe; the answer reinstates the endpoint
			deadline := time.Now().Add(5 * time.Second)
			for !contains2(vm.Active(), key) && time.Now().Before(deadline) {
				time.Sleep(200 * time.Microsecond)
			}
			if !contains2(vm.Active(), key) {
				h.res.Histogram["mgr:reinstate-ineffective"]++
			} else {
				h.res.Histogram["mgr:step-reinstate"]++
				literal = append(literal, key)
				if reweighted[st.I] {
					staleActive[st.I] = true
					h.res.Histogram["mgr:reinstated-after-reweighting"]++
				}
			}
			if !check(si, "addAliveEp") {
				return
			}
		case "refresh":
			m := reflect.ValueOf(vm).MethodByName("Refresh")
			if !m.IsValid() {
				if !mgrRefreshNoted {
					mgrRefreshNoted = true
					h.res.Note("mgr: refresh steps skipped: VerifManager.Refresh (pending/C14-hook-refresh.patch) is not in the tree")
				}
				h.res.Histogram["mgr:refresh-skipped-no-hook"]++
				continue
			}
			var nf []endpointf.EndpointF
			wasListed := map[string]bool{}
			for _, e := range lastAnswer {
				wasListed[e.Host] = true
			}
			nowListed := map[int]bool{}
			for n, i := range st.Set {
				if len(st.W) == len(st.Set) && len(st.WT) == len(st.Set) {
					if wasListed[w.epf[i].Host] && (w.epf[i].Weight != st.W[n] || w.epf[i].WeightType != st.WT[n]) {
						reweighted[i] = true
					}
					w.epf[i].Weight, w.epf[i].WeightType = st.W[n], st.WT[n]
				}
				nowListed[i] = true
				nf = append(nf, w.epf[i])
			}
			for i := range w.srv {
				if !nowListed[i] {
					delete(reweighted, i) // forgotten by the manager: a later adapter starts afresh
				}
			}
			reg.mu.Lock()
			reg.eps = nf
			reg.mu.Unlock()
			// an endpoint that leaves the registry is forgotten by the manager; should it be listed
			// again later it is a new, healthy endpoint: its server has to be up
			for i := range w.srv {
				listed := false
				for _, j := range st.Set {
					listed = listed || i == j
				}
				w.srv[i].mu.Lock()
				isDown := w.srv[i].ln == nil
				w.srv[i].mu.Unlock()
				if !listed && isDown {
					if err := w.srv[i].up(); err != nil {
						h.res.Fatal(h.o.Out, fmt.Errorf("mgr: cannot bring %s back: %v", w.srv[i].host, err))
					}
				}
			}
			if out := m.Call(nil); len(out) == 1 && !out[0].IsNil() {
				h.res.Histogram["mgr:refresh-error"]++
			}
			// refreshEndpoints installs the answer iff it differs from the previous one (compared
			// after ordering by host) and is not empty
			if ans := hostSorted(nf); len(ans) > 0 && !reflect.DeepEqual(ans, lastAnswer) {
				lastAnswer = ans
				effWT = effectiveWeightType(ans)
				staleActive = map[int]bool{}     // the selectors are rebuilt from the answer
				literal = sortByCRC(vm.Active()) // new selectors were built from the sorted list
				h.res.Histogram[fmt.Sprintf("mgr:answer:%s", answerKind(ans))]++
			} else {
				h.res.Histogram["mgr:answer:unchanged"]++
			}
			h.res.Histogram["mgr:step-refresh"]++
			// servers of endpoints that left and came back must be reachable
			if !check(si, "refreshEndpoints") {
				return
			}
		}
	}
}

// effectiveWeightType: the weight type updateActiveEp must put in force for a registry answer,
// whatever was in force before (Lean: HashRoute.effectiveWeightType): the common WeightType of
// all listed endpoints, ELoop when they differ.
func effectiveWeightType(ans []endpointf.EndpointF) int32 {
	if len(ans) == 0 {
		return int32(endpoint.ELoop)
	}
	t := ans[0].WeightType
	for _, e := range ans {
		if e.WeightType != t {
			return int32(endpoint.ELoop)
		}
	}
	return t
}

func hostSorted(l []endpointf.EndpointF) []endpointf.EndpointF {
	out := append([]endpointf.EndpointF{}, l...)
	sort.SliceStable(out, func(i, j int) bool { return out[i].Host < out[j].Host })
	return out
}

func answerKind(ans []endpointf.EndpointF) string {
	st, lp := 0, 0
	for _, e := range ans {
		if e.WeightType == int32(endpoint.EStaticWeight) {
			st++
		} else {
			lp++
		}
	}
	switch {
	case lp == 0:
		return "all-static"
	case st == 0:
		return "all-loop"
	}
	return "mixed"
}

func showAnswer(ans []endpointf.EndpointF) string {
	var sb strings.Builder
	sb.WriteByte('[')
	for i, e := range ans {
		if i > 0 {
			sb.WriteByte(' ')
		}
		fmt.Fprintf(&sb, "%s(w=%d,type=%d)", e.Host, e.Weight, e.WeightType)
	}
	sb.WriteByte(']')
	return sb.String()
}

func hostsOf(w *gworld, keys []string) []string {
	r := make([]string, len(keys))
	for i, k := range keys {
		r[i] = w.epf[w.idxOf[k]].Host
	}
	return r
}

func contains2(l []string, x string) bool {
	for _, y := range l {
		if x == y {
			return true
		}
	}
	return false
}

func without(l []string, x string) []string {
	var r []string
	for _, y := range l {
		if y != x {
			r = append(r, y)
		}
	}
	return r
}

// genWeights: mode 0 = every endpoint has a static weight, 1 = mixed types, 2 = every endpoint in
// plain rotation; weights from the interesting values (0: no virtual node / extra pick, 1: one
// virtual node, 40, 100, 200) and random ones.
func genWeights(rng *rand.Rand, n int, mode int) (ws, wts []int32) {
	vals := []int32{0, 1, 40, 100, 200}
	for i := 0; i < n; i++ {
		w := vals[rng.Intn(len(vals))]
		if rng.Intn(3) == 0 {
			w = int32(1 + rng.Intn(120))
		}
		t := int32(0)
		switch mode {
		case 0:
			t = 1
		case 1:
			t = int32(rng.Intn(2))
		}
		ws, wts = append(ws, w), append(wts, t)
	}
	if mode == 1 && n >= 2 { // really mixed
		wts[0], wts[1] = 1, 0
	}
	if mode == 0 { // at least one positive weight, else the ring is empty
		ws[rng.Intn(n)] = vals[2+rng.Intn(3)]
	}
	return
}

func (h *harness) streamMgr() {
	rng := h.rng
	n := 10
	if h.o.Thorough() {
		n = 120
	}
	// the shape of the demonstration: four endpoints, a non-last one is blocked, then reinstated
	h.runMgr(&gcase{N: 4, Init: []int{0, 1, 2, 3}, Steps: []gstep{{K: "block", I: 0}, {K: "block", I: 1}, {K: "reinstate", I: 0}, {K: "reinstate", I: 1}},
		Codes: mgrCodes(rng, nil)})
	// weight types over refreshes: all-static -> mixed (a loop endpoint of weight 0) -> all-loop -> all-static
	h.runMgr(&gcase{N: 3, Init: []int{0, 1, 2}, W: []int32{40, 200, 100}, WT: []int32{1, 1, 1},
		Steps: []gstep{
			{K: "refresh", Set: []int{0, 1, 2}, W: []int32{40, 200, 0}, WT: []int32{1, 1, 0}},
			{K: "refresh", Set: []int{0, 1, 2}, W: []int32{40, 200, 0}, WT: []int32{0, 0, 0}},
			{K: "refresh", Set: []int{2, 1, 0}, W: []int32{1, 100, 40}, WT: []int32{1, 1, 1}},
			{K: "refresh", Set: []int{0, 1}, W: []int32{0, 200}, WT: []int32{1, 0}},
		},
		Codes: mgrCodes(rng, nil)})
	for i := 0; i < n; i++ {
		h.runMgr(genMgrCase(rng))
	}
}

func mgrCodes(rng *rand.Rand, pts []uint32) []uint32 {
	codes := []uint32{0, 1, 2, 3, 4, 5, 6, 7, 8, 9, 10, 11, 0xFFFFFFFF, 0xFFFFFFFE, 0x80000000}
	for i := 0; i < 6; i++ {
		codes = append(codes, rng.Uint32())
	}
	for i := 0; i < 6 && len(pts) > 0; i++ {
		codes = append(codes, pts[rng.Intn(len(pts))]+uint32(rng.Intn(3))-1)
	}
	return codes
}

func genMgrCase(rng *rand.Rand) *gcase {
	n := 3 + rng.Intn(5)
	c := &gcase{Stream: "mgr", N: n}
	// weights and weight types: the registry answers walk through all-static / mixed / all-loop
	mode := rng.Intn(3)
	c.W, c.WT = genWeights(rng, n, mode)
	all := make([]int, n)
	for i := range all {
		all[i] = i
	}
	c.Init = perm(rng, all)[:3+rng.Intn(n-2)]
	blocked := map[int]bool{}
	in := map[int]bool{}
	for _, i := range c.Init {
		in[i] = true
	}
	for s, ns := 0, 2+rng.Intn(6); s < ns; s++ {
		var cand []int
		switch rng.Intn(7) {
		case 0, 1, 2: // block an endpoint that is in and up, keeping at least two active
			for i := range all {
				if in[i] && !blocked[i] {
					cand = append(cand, i)
				}
			}
			if len(cand) > 2 {
				x := cand[rng.Intn(len(cand))]
				blocked[x] = true
				c.Steps = append(c.Steps, gstep{K: "block", I: x})
			}
		case 3, 4:
			for i := range all {
				if in[i] && blocked[i] {
					cand = append(cand, i)
				}
			}
			if len(cand) > 0 {
				x := cand[rng.Intn(len(cand))]
				delete(blocked, x)
				c.Steps = append(c.Steps, gstep{K: "reinstate", I: x})
			}
		default: // the registry changes (or repeats itself); blocked servers stay listed or leave
			set := perm(rng, all)[:2+rng.Intn(n-1)]
			// keep at least two reachable endpoints
			up := 0
			for _, i := range set {
				if !blocked[i] {
					up++
				}
			}
			if up < 2 {
				continue
			}
			in = map[int]bool{}
			for _, i := range set {
				in[i] = true
			}
			for i := range all {
				if !in[i] {
					delete(blocked, i)
				}
			}
			st := gstep{K: "refresh", Set: set}
			if rng.Intn(5) != 0 { // otherwise the weights of the listed endpoints stay as they are
				if rng.Intn(3) != 0 {
					mode = (mode + 1 + rng.Intn(2)) % 3
				}
				st.W, st.WT = genWeights(rng, len(set), mode)
			}
			c.Steps = append(c.Steps, st)
		}
	}
	var pts []uint32
	for i := 0; i < n; i++ {
		pts = append(pts, refPoints("k", fmt.Sprintf("127.0.0.%d", i+1), 25)...)
	}
	c.Codes = mgrCodes(rng, pts)
	return c
}
