package main

// stream ring: the consistent-hash selector.

import (
	"fmt"
	"math/rand"
	"sort"
	"strconv"
	"strings"

	"github.com/TarsCloud/TarsGo/tars/selector/consistenthash"
	"github.com/TarsCloud/TarsGo/tars/util/endpoint"

	"verifharness/common"
)

// epSpec is one endpoint of a universe.
type epSpec struct {
	Host string `json:"host"`
	W    int32  `json:"w"`
	Port int32  `json:"port"`
}

// hop is one selector call: Kind refresh|add|remove, Eps = indices into the universe.
// RW (reweighted stream only) overrides the weight passed with the call.
type hop struct {
	Kind string `json:"k"`
	Eps  []int  `json:"e"`
	RW   *int32 `json:"rw,omitempty"`
}

// rcase: a universe, a configuration and several histories that are meant to reach the same set.
type rcase struct {
	Stream string   `json:"stream"`
	Tag    string   `json:"tag"` // nocollision | collision | reweighted
	EW     bool     `json:"ew"`
	Alg    string   `json:"alg"` // k | d
	U      []epSpec `json:"u"`
	Hists  [][]hop  `json:"h"`
	Keys   []uint32 `json:"keys,omitempty"` // replay of a minimised case: probe only these
	Note   string   `json:"note,omitempty"`

	// repaired: the tree carries the collision fix (variant recorded by the extractor, told by the
	// model driver): a shared point belongs to the claimant with the least host and is never lost
	repaired bool
}

func (c *rcase) ep(i int, rw *int32) endpoint.Endpoint {
	s := c.U[i]
	w := s.W
	if rw != nil {
		w = *rw
	}
	wt := int32(0)
	if c.EW {
		wt = 1
	}
	e := endpoint.Endpoint{Host: s.Host, Port: s.Port, Timeout: 3000, Istcp: 1, Weight: w, WeightType: wt, Proto: "tcp"}
	e.Key = e.String()
	return e
}

// ---------------------------------------------------------------------------------------------
// set semantics of a history (what "the current endpoint set" means), computed here on host
// indices, independently of selector and model

type setState struct {
	in   map[int]bool
	ever map[int]bool
}

func newSet() *setState { return &setState{in: map[int]bool{}, ever: map[int]bool{}} }

func (s *setState) apply(o hop) (ok bool) {
	switch o.Kind {
	case "refresh":
		s.in = map[int]bool{}
		for _, i := range o.Eps {
			s.in[i] = true
			s.ever[i] = true
		}
		return true
	case "add":
		i := o.Eps[0]
		if s.in[i] {
			return false
		}
		s.in[i] = true
		s.ever[i] = true
		return true
	default:
		i := o.Eps[0]
		if !s.in[i] {
			return false
		}
		delete(s.in, i)
		return true
	}
}

func (s *setState) members() []int {
	var r []int
	for i := range s.in {
		r = append(r, i)
	}
	sort.Ints(r)
	return r
}

func setKey(m []int) string {
	var sb strings.Builder
	for _, i := range m {
		sb.WriteString(strconv.Itoa(i))
		sb.WriteByte(',')
	}
	return sb.String()
}

// ---------------------------------------------------------------------------------------------
// reference ring (crypto/md5 only)

type refRing struct {
	pts     []uint32         // sorted distinct points claimed by members
	claim   map[uint32][]int // point -> member claimants
	ghost   map[uint32]bool  // point also claimed by a host that was in the set earlier and is not now
	multi   bool             // some point has two member claimants or a ghost claimant
	hostPts map[int][]uint32
}

func (c *rcase) hostPoints(i int) []uint32 {
	return refPoints(c.Alg, c.U[i].Host, refVnodes(c.EW, c.U[i].W))
}

func (c *rcase) buildRef(members []int, ever map[int]bool, cache map[int][]uint32) *refRing {
	r := &refRing{claim: map[uint32][]int{}, ghost: map[uint32]bool{}, hostPts: cache}
	get := func(i int) []uint32 {
		if p, ok := cache[i]; ok {
			return p
		}
		p := c.hostPoints(i)
		cache[i] = p
		return p
	}
	inSet := map[int]bool{}
	for _, i := range members {
		inSet[i] = true
		seen := map[uint32]bool{}
		for _, p := range get(i) {
			if seen[p] {
				continue
			}
			seen[p] = true
			if len(r.claim[p]) == 0 {
				r.pts = append(r.pts, p)
			} else {
				r.multi = true
			}
			r.claim[p] = append(r.claim[p], i)
		}
	}
	for p := range r.claim {
		cl := r.claim[p]
		sort.Slice(cl, func(a, b int) bool { return c.U[cl[a]].Host < c.U[cl[b]].Host })
	}
	for i := range ever {
		if inSet[i] || c.repaired {
			continue
		}
		for _, p := range get(i) {
			if len(r.claim[p]) > 0 {
				r.ghost[p] = true
				r.multi = true
			}
		}
	}
	sort.Slice(r.pts, func(a, b int) bool { return r.pts[a] < r.pts[b] })
	return r
}

// explained returns the hosts that may be answered for key k.  Without collisions this is the
// single owner prescribed by the property (owner of the clockwise successor of k).  With a point
// claimed by several hosts: any member claimant of the successor point (least host first); and,
// for the code as found only, walking on clockwise over points that a Remove of a former member
// ("ghost" claimant) may have deleted, up to the first point that cannot have been deleted.
// nil = empty ring.
func (r *refRing) explained(k uint32) []int {
	n := len(r.pts)
	if n == 0 {
		return nil
	}
	idx := sort.Search(n, func(i int) bool { return r.pts[i] >= k })
	var out []int
	for step := 0; step < n; step++ {
		p := r.pts[(idx+step)%n]
		out = append(out, r.claim[p]...)
		if !r.ghost[p] {
			break
		}
	}
	return out
}

func contains(l []int, x int) bool {
	for _, y := range l {
		if x == y {
			return true
		}
	}
	return false
}

// ---------------------------------------------------------------------------------------------
// running one case

type lookup struct {
	found bool
	idx   int // universe index, -1 = endpoint not of the universe
	ep    endpoint.Endpoint
}

func (c *rcase) find(sel *consistenthash.ConsistentHash, k uint32) lookup {
	e, ok := sel.FindInt32(k)
	if !ok {
		return lookup{found: false, idx: -1}
	}
	for i := range c.U {
		if c.U[i].Host == e.Host {
			return lookup{found: true, idx: i, ep: e}
		}
	}
	return lookup{found: true, idx: -1, ep: e}
}

func (l lookup) canon() string {
	if !l.found {
		return "nf"
	}
	if l.ep.Host == "" && l.ep.Port == 0 && l.ep.Key == "" {
		return "zero"
	}
	return hexHost(l.ep.Host) + ":" + strconv.Itoa(int(l.ep.Weight))
}

// human-readable form for notes
func (l lookup) String() string {
	if !l.found {
		return "not-found"
	}
	return fmt.Sprintf("%q", l.ep.Host)
}

func (c *rcase) opLine(id int, o hop) string {
	switch o.Kind {
	case "refresh":
		var sb strings.Builder
		fmt.Fprintf(&sb, "refresh %d", id)
		for _, i := range o.Eps {
			fmt.Fprintf(&sb, " %s:%d", hexHost(c.U[i].Host), c.U[i].W)
		}
		return sb.String()
	default:
		w := c.U[o.Eps[0]].W
		if o.RW != nil {
			w = *o.RW
		}
		return fmt.Sprintf("%s %d %s %d", o.Kind, id, hexHost(c.U[o.Eps[0]].Host), w)
	}
}

func findLine(id int, keys []uint32) string {
	return "find " + strconv.Itoa(id) + " " + joinU32(keys)
}

func (c *rcase) algType() consistenthash.HashAlgorithmType {
	if c.Alg == "k" {
		return consistenthash.KetamaHash
	}
	return consistenthash.DefaultHash
}

// probeKeys: every ring point of the universe, +-1, the ends of the key space, random codes.
func (c *rcase) probeKeys(rng *rand.Rand, cache map[int][]uint32, nRandom int) []uint32 {
	seen := map[uint32]bool{}
	var keys []uint32
	add := func(k uint32) {
		if !seen[k] {
			seen[k] = true
			keys = append(keys, k)
		}
	}
	add(0)
	add(1)
	add(0xFFFFFFFF)
	add(0xFFFFFFFE)
	add(0x7FFFFFFF)
	add(0x80000000)
	for i := range c.U {
		p, ok := cache[i]
		if !ok {
			p = c.hostPoints(i)
			cache[i] = p
		}
		for _, x := range p {
			add(x)
			add(x - 1)
			add(x + 1)
		}
	}
	for i := 0; i < nRandom; i++ {
		add(rng.Uint32())
	}
	return keys
}

func (h *harness) violate(c *rcase, sig, what, note string, key uint32, hasKey bool) {
	cc := *c
	cc.Stream = "ring"
	if hasKey {
		cc.Keys = []uint32{key}
	}
	cc.Note = note
	h.res.Violate(common.Violation{Signature: sig, What: what, Case: common.Case{Stream: "ring", Op: cc, Note: note}})
}

// implOutcome of one history on the real selector.
type histRun struct {
	sel      *consistenthash.ConsistentHash
	opRes    []string   // ok | err | panic
	small    [][]lookup // lookups of the small key set after each op
	final    []lookup   // lookups of the full key set at the end
	members  []int
	ever     map[int]bool
	panicked string
}

// runRing executes a case on model and implementation, compares, and evaluates the oracle.
// quietOracle: used by the shrinker (no counting, no model).
func (h *harness) runRing(c *rcase, quiet bool) (violated bool) {
	c.Stream = "ring"
	cache := map[int][]uint32{}
	caseRng := rand.New(rand.NewSource(int64(len(c.U))*7919 + int64(len(c.Hists))))
	var keys []uint32
	if len(c.Keys) > 0 {
		keys = c.Keys
	} else {
		keys = c.probeKeys(caseRng, cache, 64)
	}
	small := keys
	if len(small) > 24 {
		small = make([]uint32, 0, 24)
		small = append(small, keys[:6]...)
		for len(small) < 24 {
			small = append(small, keys[caseRng.Intn(len(keys))])
		}
	}

	c.repaired = h.repaired
	strict := c.Tag != "reweighted" || c.repaired // the standard oracle applies

	// ---- implementation ----
	runs := make([]*histRun, len(c.Hists))
	for hi, hist := range c.Hists {
		r := &histRun{sel: consistenthash.New(c.EW, c.algType())}
		runs[hi] = r
		st := newSet()
		func() {
			defer func() {
				if p := recover(); p != nil {
					r.panicked = fmt.Sprint(p)
				}
			}()
			for _, o := range hist {
				before := make([]lookup, 0)
				if o.Kind != "refresh" {
					before = make([]lookup, len(keys))
					for i, k := range keys {
						before[i] = c.find(r.sel, k)
					}
				}
				var err error
				switch o.Kind {
				case "refresh":
					eps := callerSlice(len(o.Eps))
					for i, x := range o.Eps {
						eps[i] = c.ep(x, nil)
					}
					r.sel.Refresh(eps)
					scribble(eps) // the selector must not share the caller's slice
				case "add":
					err = r.sel.Add(c.ep(o.Eps[0], o.RW))
				case "remove":
					err = r.sel.Remove(c.ep(o.Eps[0], o.RW))
				}
				wantOK := st.apply(o)
				if err != nil {
					r.opRes = append(r.opRes, "err")
				} else {
					r.opRes = append(r.opRes, "ok")
				}
				if (err == nil) != wantOK {
					h.violate(c, "C14:wrong-value:consistenthash."+map[string]string{"add": "Add", "remove": "Remove", "refresh": "Refresh"}[o.Kind],
						fmt.Sprintf("history %d: %s of host %q returned error=%v but the set semantics says ok=%v", hi, o.Kind, c.U[o.Eps[0]].Host, err != nil, wantOK), "", 0, false)
					violated = true
				}
				sm := make([]lookup, len(small))
				for i, k := range small {
					sm[i] = c.find(r.sel, k)
				}
				r.small = append(r.small, sm)
				// minimal disruption, checked directly on the implementation for every probe key
				if o.Kind != "refresh" && err == nil && strict {
					x := o.Eps[0]
					collidesX := c.hostCollides(x, st.ever, cache)
					for i, k := range keys {
						after := c.find(r.sel, k)
						b := before[i]
						if o.Kind == "remove" {
							if b.found && b.idx != x && (!after.found || after.idx != b.idx) {
								sig, what := "C14:not-minimal:consistenthash.Remove", "Remove re-routed a key that was not mapped to the removed endpoint"
								if collidesX {
									sig, what = sigCollision, whatCollision
								}
								h.violate(c, sig, what, fmt.Sprintf("history %d: Remove(%q) moved key %d from %q to %s", hi, c.U[x].Host, k, b.ep.Host, after), k, true)
								violated = true
								break
							}
						} else {
							same := after.found == b.found && (!b.found || after.idx == b.idx)
							if !same && !(after.found && after.idx == x) {
								h.violate(c, "C14:not-minimal:consistenthash.Add", "Add moved a key onto an endpoint other than the new one",
									fmt.Sprintf("history %d: Add(%q) moved key %d from %s to %s", hi, c.U[x].Host, k, b, after), k, true)
								violated = true
								break
							}
						}
					}
				}
			}
			r.final = make([]lookup, len(keys))
			for i, k := range keys {
				r.final[i] = c.find(r.sel, k)
			}
			// determinism: ask again, in reverse order
			for i := len(keys) - 1; i >= 0; i-- {
				if again := c.find(r.sel, keys[i]); again.canon() != r.final[i].canon() {
					h.violate(c, "C14:nondeterministic:consistenthash.FindInt32", "the same key was routed differently by two lookups on an unchanged set",
						fmt.Sprintf("history %d key %d: %s then %s", hi, keys[i], r.final[i], again), keys[i], true)
					violated = true
					break
				}
			}
		}()
		r.members = st.members()
		r.ever = st.ever
		if r.panicked != "" {
			h.violate(c, "C14:panic:consistenthash", "the selector panicked", fmt.Sprintf("history %d: %s", hi, r.panicked), 0, false)
			violated = true
		}
	}

	// ---- oracle: lookup specification against the independent ring; agreement of instances ----
	comparable := strict
	for hi := 1; hi < len(runs); hi++ {
		if setKey(runs[hi].members) != setKey(runs[0].members) {
			comparable = false // a shrunk or hand-written case whose histories end in different sets
		}
	}
	for hi, r := range runs {
		if r.panicked != "" || !strict {
			continue
		}
		ref := c.buildRef(r.members, r.ever, cache)
		for i, k := range keys {
			got := r.final[i]
			exp := ref.explained(k)
			if exp == nil {
				if got.found {
					h.violate(c, "C14:wrong-owner:consistenthash.FindInt32", "lookup on a set without ring points found an endpoint",
						fmt.Sprintf("history %d key %d: got %s", hi, k, got), k, true)
					violated = true
					break
				}
				continue
			}
			if !got.found || got.idx < 0 || !contains(exp, got.idx) || got.ep != c.ep(got.idx, nil) {
				if c.Tag == "reweighted" && got.found && got.idx >= 0 && !contains(r.members, got.idx) {
					break // reported by oracleReweighted under its own signature
				}
				sig, what := "C14:wrong-owner:consistenthash.FindInt32", "lookup is not the owner of the least ring point >= key (else of the least point) of the current set"
				if got.found && isGarbage(got.ep.Host) {
					sig, what = "C14:aliased-input:consistenthash.Refresh", "the selector shares the slice its caller passed to Refresh: overwriting that slice afterwards changed the routing"
				}
				h.violate(c, sig, what,
					fmt.Sprintf("history %d key %d: got %s, prescribed %q", hi, k, got, c.U[exp[0]].Host), k, true)
				violated = true
				break
			}
		}
	}
	if comparable {
		for hi := 1; hi < len(runs); hi++ {
			if runs[hi].panicked != "" || runs[0].panicked != "" {
				continue
			}
			for i, k := range keys {
				a, b := runs[0].final[i], runs[hi].final[i]
				if a.canon() == b.canon() {
					continue
				}
				// both answers passed the specification check above, so a disagreement can only
				// stem from a point claimed by several hosts; anything else was already reported
				refA := c.buildRef(runs[0].members, runs[0].ever, cache)
				refB := c.buildRef(runs[hi].members, runs[hi].ever, cache)
				sig, what := "C14:history-dependent-route:consistenthash.ring", "two selectors holding the same endpoint set route a key differently"
				if len(refA.explained(k)) > 1 || len(refB.explained(k)) > 1 {
					sig, what = sigCollision, whatCollision
				}
				h.violate(c, sig, what, fmt.Sprintf("histories 0 and %d, same set %v, key %d: %s vs %s", hi, hostNames(c, runs[0].members), k, a, b), k, true)
				violated = true
				break
			}
		}
	}
	if c.Tag == "reweighted" {
		violated = h.oracleReweighted(c, runs, keys, cache) || violated
	}
	if quiet {
		return violated
	}

	// ---- model ----
	var lines []string
	for hi, hist := range c.Hists {
		id := hi + 1
		ew := 0
		if c.EW {
			ew = 1
		}
		lines = append(lines, fmt.Sprintf("new %d %d %s", id, ew, c.Alg))
		for _, o := range hist {
			lines = append(lines, c.opLine(id, o), findLine(id, small))
		}
		lines = append(lines, findLine(id, keys), fmt.Sprintf("size %d", id))
	}
	ans := h.ask(lines)
	li := 0
	diverged := false
	div := func(what, model, impl string) {
		if diverged || h.noModel(model) {
			return
		}
		diverged = true
		h.res.Diverge(common.Case{Stream: "ring", Op: c, Model: trunc(model), Impl: trunc(impl), Note: what})
	}
	for hi, hist := range c.Hists {
		r := runs[hi]
		li++ // new
		for oi := range hist {
			if r.panicked != "" && oi >= len(r.opRes) {
				div(fmt.Sprintf("history %d op %d: implementation panicked: %s", hi, oi, r.panicked), ans[li], "panic")
				li += 2
				continue
			}
			if ans[li] != r.opRes[oi] {
				div(fmt.Sprintf("history %d op %d result", hi, oi), ans[li], r.opRes[oi])
			}
			li++
			if m := canonJoin(r.small[oi]); ans[li] != m {
				div(fmt.Sprintf("history %d after op %d: lookups %s", hi, oi, firstDiff(ans[li], m, small)), ans[li], m)
			}
			li++
		}
		if r.panicked == "" {
			if m := canonJoin(r.final); ans[li] != m {
				div(fmt.Sprintf("history %d final lookups: %s", hi, firstDiff(ans[li], m, keys)), ans[li], m)
			}
		}
		li++
		if f := strings.Fields(ans[li]); len(f) == 3 && c.Tag != "reweighted" {
			if n, _ := strconv.Atoi(f[2]); n != len(r.members) {
				div(fmt.Sprintf("history %d: size of the set", hi), f[2], strconv.Itoa(len(r.members)))
			}
		}
		li++
		if h.verbose {
			fmt.Printf("history %d: set=%v ops=%v\n", hi, r.members, r.opRes)
			for i, k := range keys {
				if i < 40 {
					fmt.Printf("  key %d -> impl %s (%q)\n", k, r.final[i].canon(), r.final[i].ep.Host)
				}
			}
			fmt.Printf("  model final: %s\n", trunc(ans[li-2]))
		}
	}

	// ---- accounting ----
	for hi, r := range runs {
		cls := "ring:" + c.Tag + ":" + c.Alg
		if c.EW {
			cls += ":weighted"
		}
		h.res.Count(fmt.Sprintf("%s|%s|%d|%v", setKey(r.members), hostsKey(c), hi, c.Hists[hi]), cls, len(r.members) >= 2)
		h.res.Evaluations += len(keys) - 1
		h.res.TracesValidated++
		for _, o := range c.Hists[hi] {
			h.res.Histogram["ring-op:"+o.Kind]++
		}
		for _, x := range r.opRes {
			if x == "err" {
				h.res.Histogram["ring-op:failed-call"]++
			}
		}
	}
	h.res.Histogram["ring-keys-probed"] += len(keys) * len(runs)
	h.res.Histogram[fmt.Sprintf("ring-universe-size:%s", sizeClass(len(c.U)))]++
	if len(h.res.Samples) < 6 {
		h.res.Sample(map[string]interface{}{"stream": "ring", "tag": c.Tag, "hosts": len(c.U), "histories": len(c.Hists),
			"ops": len(c.Hists[0]), "keys": len(keys), "final_set": runs[0].members})
	}
	return violated
}

const sigCollision = "C14:history-dependent-route:consistenthash.collision"
const whatCollision = "two hosts share a 32-bit ring point: the later add overwrites the owner and Remove of either host deletes the point, so routing depends on the history that produced the set"

func hostNames(c *rcase, idx []int) []string {
	r := make([]string, len(idx))
	for i, x := range idx {
		r[i] = c.U[x].Host
	}
	return r
}

func sizeClass(n int) string {
	switch {
	case n <= 2:
		return "1-2"
	case n <= 8:
		return "3-8"
	case n <= 16:
		return "9-16"
	}
	return "17+"
}

func hostsKey(c *rcase) string {
	var sb strings.Builder
	for _, u := range c.U {
		sb.WriteString(u.Host)
		sb.WriteByte('/')
		sb.WriteString(strconv.Itoa(int(u.W)))
		sb.WriteByte(';')
	}
	if c.EW {
		sb.WriteString("ew")
	}
	sb.WriteString(c.Alg)
	return sb.String()
}

func canonJoin(l []lookup) string {
	var sb strings.Builder
	for i, x := range l {
		if i > 0 {
			sb.WriteByte(' ')
		}
		sb.WriteString(x.canon())
	}
	return sb.String()
}

func firstDiff(model, impl string, keys []uint32) string {
	a, b := strings.Fields(model), strings.Fields(impl)
	for i := 0; i < len(a) && i < len(b) && i < len(keys); i++ {
		if a[i] != b[i] {
			return fmt.Sprintf("key %d: model %s (%q) impl %s (%q)", keys[i], a[i], unhexHost(strings.Split(a[i], ":")[0]), b[i], unhexHost(strings.Split(b[i], ":")[0]))
		}
	}
	return fmt.Sprintf("lengths %d/%d", len(a), len(b))
}

// hostCollides: does host x share a point with another host that was ever in the set?
func (c *rcase) hostCollides(x int, ever map[int]bool, cache map[int][]uint32) bool {
	get := func(i int) []uint32 {
		if p, ok := cache[i]; ok {
			return p
		}
		p := c.hostPoints(i)
		cache[i] = p
		return p
	}
	mine := map[uint32]bool{}
	for _, p := range get(x) {
		mine[p] = true
	}
	for i := range ever {
		if i == x {
			continue
		}
		for _, p := range get(i) {
			if mine[p] {
				return true
			}
		}
	}
	return false
}

// universeCollides: any two hosts of the universe share a point
func (c *rcase) universeCollides() bool {
	owner := map[uint32]int{}
	for i := range c.U {
		for _, p := range c.hostPoints(i) {
			if o, ok := owner[p]; ok && o != i {
				return true
			}
			owner[p] = i
		}
	}
	return false
}

// ---------------------------------------------------------------------------------------------
// reweighted stream: Remove called with another weight than Add (outside the "endpoint universe"
// of the property; kept as its own class because the selector API allows it)

const sigReweighted = "C14:history-dependent-route:consistenthash.Remove-reweighted"

func (h *harness) oracleReweighted(c *rcase, runs []*histRun, keys []uint32, cache map[int][]uint32) bool {
	for hi, r := range runs {
		if r.panicked != "" {
			continue
		}
		in := map[int]bool{}
		for _, m := range r.members {
			in[m] = true
		}
		for i, k := range keys {
			got := r.final[i]
			if got.found && got.idx >= 0 && !in[got.idx] {
				h.violate(c, sigReweighted, "Remove computes the number of virtual nodes from the weight of its argument: removing an endpoint with another weight than it was added with leaves its ring points behind, and keys are routed to an endpoint that is not in the set",
					fmt.Sprintf("history %d key %d routed to %q which is not in the set %v", hi, k, got.ep.Host, r.members), k, true)
				return true
			}
		}
	}
	return false
}

// ---------------------------------------------------------------------------------------------
// generators

func genUniverse(rng *rand.Rand, n int, ew bool, salt int) []epSpec {
	seen := map[string]bool{}
	var u []epSpec
	for len(u) < n {
		hst := randHost(rng, salt)
		if seen[hst] {
			continue
		}
		seen[hst] = true
		w := int32(100)
		if ew {
			switch rng.Intn(10) {
			case 0:
				w = int32(rng.Intn(4)) // 0..3: zero or one virtual node
			case 1:
				w = -int32(rng.Intn(5)) // non-positive: in the set, no points
			case 2:
				w = int32(400 + rng.Intn(400))
			default:
				w = int32(4 + rng.Intn(120))
			}
		} else if rng.Intn(3) == 0 {
			w = int32(rng.Intn(200)) - 20 // ignored by the ring when weights do not apply
		}
		u = append(u, epSpec{Host: hst, W: w, Port: int32(10000 + len(u))})
	}
	return u
}

func perm(rng *rand.Rand, l []int) []int {
	r := append([]int{}, l...)
	rng.Shuffle(len(r), func(i, j int) { r[i], r[j] = r[j], r[i] })
	return r
}

// genHistory: a random walk of nOps calls, then a steering tail that reaches exactly `target`.
func genHistory(rng *rand.Rand, nU int, target []int, nOps int, style int) []hop {
	var hist []hop
	st := newSet()
	push := func(o hop) { st.apply(o); hist = append(hist, o) }
	all := make([]int, nU)
	for i := range all {
		all[i] = i
	}
	for i := 0; i < nOps; i++ {
		switch rng.Intn(8) {
		case 0: // refresh with a random sub-list, permuted, possibly with repetitions
			sub := perm(rng, all)[:rng.Intn(nU+1)]
			if len(sub) > 0 && rng.Intn(3) == 0 {
				sub = append(sub, sub[rng.Intn(len(sub))])
			}
			push(hop{Kind: "refresh", Eps: sub})
		case 1, 2, 3:
			push(hop{Kind: "add", Eps: []int{rng.Intn(nU)}})
		default:
			push(hop{Kind: "remove", Eps: []int{rng.Intn(nU)}})
		}
	}
	tgt := map[int]bool{}
	for _, t := range target {
		tgt[t] = true
	}
	switch style {
	case 0: // final refresh, random order
		push(hop{Kind: "refresh", Eps: perm(rng, target)})
	case 1: // individual adds/removes in random order
		var fix []hop
		for _, i := range all {
			if tgt[i] && !st.in[i] {
				fix = append(fix, hop{Kind: "add", Eps: []int{i}})
			}
			if !tgt[i] && st.in[i] {
				fix = append(fix, hop{Kind: "remove", Eps: []int{i}})
			}
		}
		rng.Shuffle(len(fix), func(i, j int) { fix[i], fix[j] = fix[j], fix[i] })
		for _, o := range fix {
			push(o)
		}
	default: // refresh with everything, then remove the surplus
		push(hop{Kind: "refresh", Eps: perm(rng, all)})
		for _, i := range perm(rng, all) {
			if !tgt[i] {
				push(hop{Kind: "remove", Eps: []int{i}})
			}
		}
	}
	return hist
}

func genRingCase(rng *rand.Rand, nU int, maxOps int, salt int) *rcase {
	c := &rcase{Stream: "ring", Alg: "k", Tag: "nocollision"}
	if rng.Intn(5) == 0 {
		c.Alg = "d"
	}
	c.EW = rng.Intn(3) == 0
	c.U = genUniverse(rng, nU, c.EW, salt)
	all := make([]int, nU)
	for i := range all {
		all[i] = i
	}
	target := perm(rng, all)[:rng.Intn(nU+1)]
	if rng.Intn(4) != 0 && len(target) < 2 && nU >= 2 {
		target = perm(rng, all)[:2+rng.Intn(nU-1)]
	}
	sort.Ints(target)
	nh := 2 + rng.Intn(2)
	for i := 0; i < nh; i++ {
		c.Hists = append(c.Hists, genHistory(rng, nU, target, rng.Intn(maxOps+1), (i+rng.Intn(2))%3))
	}
	// the canonical route: one Refresh in index order
	c.Hists = append(c.Hists, []hop{{Kind: "refresh", Eps: append([]int{}, target...)}})
	if c.universeCollides() {
		c.Tag = "collision"
	}
	return c
}

// known colliding pairs (Ketama, 100 replicas), each re-validated against crypto/md5 at start-up
var collisionPairs = [][3]string{
	{"10.0.0.160", "10.0.3.248", "1292016174"},
	{"10.0.0.143", "10.0.6.101", "614957995"},
	{"10.0.4.88", "10.0.6.151", "2681699477"},
	{"10.0.6.144", "10.0.6.157", "157481277"},
	{"10.0.2.166", "10.0.6.217", "2497067395"},
	{"10.0.2.236", "10.0.7.42", "3221642516"},
}

func genCollisionCase(rng *rand.Rand, pair [3]string, extra int, salt int) *rcase {
	c := &rcase{Stream: "ring", Alg: "k", Tag: "collision"}
	c.U = []epSpec{{Host: pair[0], W: 100, Port: 1}, {Host: pair[1], W: 100, Port: 2}}
	for _, e := range genUniverse(rng, extra, false, salt) {
		c.U = append(c.U, e)
	}
	n := len(c.U)
	all := make([]int, n)
	for i := range all {
		all[i] = i
	}
	switch rng.Intn(3) {
	case 0: // both colliding hosts stay: order of installation decides the owner
		target := all
		c.Hists = [][]hop{
			{{Kind: "refresh", Eps: append([]int{0, 1}, all[2:]...)}},
			{{Kind: "refresh", Eps: append([]int{1, 0}, all[2:]...)}},
			genHistory(rng, n, target, rng.Intn(6), 1),
		}
	case 1: // one of them is removed: the survivor loses the shared point
		target := all[1:]
		c.Hists = [][]hop{
			{{Kind: "refresh", Eps: all}, {Kind: "remove", Eps: []int{0}}},
			{{Kind: "refresh", Eps: target}},
			genHistory(rng, n, target, rng.Intn(6), 2),
		}
	default:
		target := perm(rng, all)[:1+rng.Intn(n)]
		sort.Ints(target)
		c.Hists = [][]hop{
			genHistory(rng, n, target, rng.Intn(8), 0),
			genHistory(rng, n, target, rng.Intn(8), 1),
			genHistory(rng, n, target, rng.Intn(8), 2),
		}
	}
	return c
}

func genReweightedCase(rng *rand.Rand, salt int) *rcase {
	c := &rcase{Stream: "ring", Alg: "k", Tag: "reweighted", EW: true}
	c.U = genUniverse(rng, 3, false, salt)
	for i := range c.U {
		c.U[i].W = int32(40 + rng.Intn(200))
	}
	small := int32(4 + rng.Intn(8))
	big := int32(400)
	c.Hists = [][]hop{
		{{Kind: "refresh", Eps: []int{0, 1, 2}}, {Kind: "remove", Eps: []int{0}, RW: &small}},
		{{Kind: "refresh", Eps: []int{1, 2}}, {Kind: "add", Eps: []int{0}}, {Kind: "remove", Eps: []int{0}, RW: &big}},
		{{Kind: "refresh", Eps: []int{1, 2}}},
	}
	return c
}

func (h *harness) validatePairs() {
	for _, p := range collisionPairs {
		want, _ := strconv.ParseUint(p[2], 10, 32)
		a, b := false, false
		for _, x := range refPoints("k", p[0], 25) {
			if uint64(x) == want {
				a = true
			}
		}
		for _, x := range refPoints("k", p[1], 25) {
			if uint64(x) == want {
				b = true
			}
		}
		if !a || !b {
			h.res.Fatal(h.o.Out, fmt.Errorf("collision pair %v does not collide under crypto/md5", p))
		}
	}
}

// quietRun evaluates the oracle of a case on the implementation only, into a scratch result.
func (h *harness) quietRun(x *rcase) []common.Violation {
	old := h.res
	h.res = common.NewResult(prop, h.o)
	h.runRing(x, true)
	v := h.res.Violations
	h.res = old
	return v
}

func hasSig(vs []common.Violation, sig string) *common.Violation {
	for i := range vs {
		if vs[i].Signature == sig {
			return &vs[i]
		}
	}
	return nil
}

// shrink: greedily drop calls (keeping all histories on the same final set) and whole histories
// while the oracle still reports the same signature
func (h *harness) shrinkRing(c *rcase, sig string) *rcase {
	fails := func(x *rcase) bool { return hasSig(h.quietRun(x), sig) != nil }
	cur := *c
	for pass := 0; pass < 3; pass++ {
		changed := false
		for hi := 0; hi < len(cur.Hists) && len(cur.Hists) > 2; hi++ {
			try := cur
			try.Hists = append(append([][]hop{}, cur.Hists[:hi]...), cur.Hists[hi+1:]...)
			if fails(&try) {
				cur = try
				hi--
				changed = true
			}
		}
		for hi := range cur.Hists {
			for oi := 0; oi < len(cur.Hists[hi]); oi++ {
				try := cur
				try.Hists = make([][]hop, len(cur.Hists))
				copy(try.Hists, cur.Hists)
				nh := append([]hop{}, cur.Hists[hi][:oi]...)
				nh = append(nh, cur.Hists[hi][oi+1:]...)
				try.Hists[hi] = nh
				if !sameFinalSets(&try) {
					continue
				}
				if fails(&try) {
					cur = try
					oi--
					changed = true
				}
			}
		}
		if !changed {
			break
		}
	}
	return &cur
}

func sameFinalSets(c *rcase) bool {
	var first string
	for hi, hist := range c.Hists {
		st := newSet()
		for _, o := range hist {
			st.apply(o)
		}
		k := setKey(st.members())
		if hi == 0 {
			first = k
		} else if k != first {
			return false
		}
	}
	return true
}

// runRingShrinking runs a case and replaces the case of every newly recorded violation by a
// shrunk one (same signature).
func (h *harness) runRingShrinking(c *rcase) {
	nv := len(h.res.Violations)
	h.runRing(c, false)
	for i := nv; i < len(h.res.Violations); i++ {
		sig := h.res.Violations[i].Signature
		small := h.shrinkRing(c, sig)
		if v := hasSig(h.quietRun(small), sig); v != nil {
			h.res.Violations[i].Case = v.Case
		}
	}
}

func (h *harness) streamRing() {
	h.validatePairs()
	rng := h.rng
	type plan struct{ n, hosts, ops int }
	plans := []plan{{40, 3, 6}, {40, 5, 10}, {30, 8, 14}, {6, 1, 4}, {6, 2, 5}}
	if h.o.Thorough() {
		plans = []plan{{300, 3, 8}, {300, 5, 12}, {200, 8, 20}, {60, 16, 30}, {20, 32, 40}, {8, 64, 40}, {40, 1, 4}, {40, 2, 6}}
	}
	salt := 0
	for _, p := range plans {
		for i := 0; i < p.n; i++ {
			salt++
			h.runRingShrinking(genRingCase(rng, p.hosts, p.ops, salt))
		}
	}
	// exhaustive small: every ordered pair/triple of Refresh orders and every single Remove/Add on 3 hosts
	h.exhaustiveSmall(rng)
	// tagged collision universes: the known pairs
	nc := 2
	if h.o.Thorough() {
		nc = 12
	}
	for _, pr := range collisionPairs {
		for i := 0; i < nc; i++ {
			salt++
			h.runRingShrinking(genCollisionCase(rng, pr, rng.Intn(4), salt))
		}
	}
	// Remove with another weight than Add
	for i := 0; i < 3; i++ {
		salt++
		h.runRing(genReweightedCase(rng, salt), false)
	}
}

// exhaustiveSmall: on three hosts, all permutations of Refresh (with and without a repeated
// entry) and all add/remove orders reaching each subset.
func (h *harness) exhaustiveSmall(rng *rand.Rand) {
	for _, ew := range []bool{false, true} {
		u := genUniverse(rng, 3, ew, 424242)
		perms := [][]int{{0, 1, 2}, {0, 2, 1}, {1, 0, 2}, {1, 2, 0}, {2, 0, 1}, {2, 1, 0}}
		c := &rcase{Stream: "ring", Alg: "k", Tag: "nocollision", EW: ew, U: u}
		for _, p := range perms {
			c.Hists = append(c.Hists, []hop{{Kind: "refresh", Eps: p}})
			c.Hists = append(c.Hists, []hop{{Kind: "add", Eps: []int{p[0]}}, {Kind: "add", Eps: []int{p[1]}}, {Kind: "add", Eps: []int{p[2]}}})
		}
		if c.universeCollides() {
			c.Tag = "collision"
		}
		h.runRingShrinking(c)
		for drop := 0; drop < 3; drop++ {
			c2 := &rcase{Stream: "ring", Alg: "k", Tag: c.Tag, EW: ew, U: u}
			var rest []int
			for i := 0; i < 3; i++ {
				if i != drop {
					rest = append(rest, i)
				}
			}
			for _, p := range perms {
				c2.Hists = append(c2.Hists, []hop{{Kind: "refresh", Eps: p}, {Kind: "remove", Eps: []int{drop}}})
			}
			c2.Hists = append(c2.Hists, []hop{{Kind: "refresh", Eps: rest}})
			c2.Hists = append(c2.Hists, []hop{{Kind: "refresh", Eps: []int{rest[1], rest[0]}}})
			c2.Hists = append(c2.Hists, []hop{{Kind: "add", Eps: []int{rest[1]}}, {Kind: "add", Eps: []int{drop}}, {Kind: "add", Eps: []int{rest[0]}}, {Kind: "remove", Eps: []int{drop}}, {Kind: "remove", Eps: []int{drop}}})
			h.runRingShrinking(c2)
		}
	}
}
