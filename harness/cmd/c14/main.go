// C14 harness: hash routing.
//
// Streams (all against the model driver `tm_conhash conhash`):
//
//	md5      Lean MD5 / Ketama points / hash helpers  vs  crypto/md5, KetamaHashAlg, DefaultHashAlg, tars.Hash*
//	ring     histories of Refresh/Add/Remove on REAL consistenthash.ConsistentHash instances, several
//	         histories per case reaching the same endpoint set by different routes; every op result
//	         and every probed key (all ring points, their +-1 neighbours, 0, 2^32-1, random codes)
//	         compared with the Lean ring; property oracle evaluated on the implementation alone
//	modhash  histories on REAL modhash.ModHash (plain and static-weight cycle)
//	ctx      a call made with a hash code in its context: real ServantProxy.TarsInvoke ->
//	         message -> real endpointManager.SelectAdapterProxy (direct proxies), plus end-to-end
//	         one-way calls over loopback listeners
//
// A replay file's "case" is one `rcase` (see ring.go), `mcase` (modhash.go) or `ccase` (ctx.go),
// discriminated by its "stream" member.
package main

import (
	"crypto/md5"
	"encoding/hex"
	"encoding/json"
	"fmt"
	"math/rand"
	"os"
	"strconv"
	"strings"

	"github.com/TarsCloud/TarsGo/tars"
	"github.com/TarsCloud/TarsGo/tars/selector/consistenthash"
	"github.com/TarsCloud/TarsGo/tars/util/endpoint"
	"github.com/TarsCloud/TarsGo/tars/util/rogger"

	"verifharness/common"
)

const prop = "C14"

func hexHost(h string) string {
	if h == "" {
		return "-"
	}
	return hex.EncodeToString([]byte(h))
}

func unhexHost(s string) string {
	if s == "-" {
		return ""
	}
	b, err := hex.DecodeString(s)
	if err != nil {
		return "?" + s
	}
	return string(b)
}

// ---------------------------------------------------------------------------------------------
// independent reference: Ketama / default points straight from crypto/md5 (no /repo code)

func refPoints(alg string, host string, vnodes int) []uint32 {
	var r []uint32
	for i := 0; i < vnodes; i++ {
		p := md5.Sum([]byte(host + "_" + strconv.Itoa(i)))
		w := func(k int) uint32 {
			return uint32(p[4*k+3])<<24 | uint32(p[4*k+2])<<16 | uint32(p[4*k+1])<<8 | uint32(p[4*k])
		}
		if alg == "k" {
			r = append(r, w(0), w(1), w(2), w(3))
		} else {
			r = append(r, w(0)^w(1)^w(2)^w(3))
		}
	}
	return r
}

// refVnodes: number of virtual hosts the property text describes ("weight/4 rounds", at least one
// for a positive weight, none otherwise); 100 replicas when weights do not apply.
func refVnodes(ew bool, w int32) int {
	n := 100
	if ew {
		n = int(w)
	}
	if n > 0 {
		n /= 4
		if n == 0 {
			n = 1
		}
	}
	if n < 0 {
		n = 0
	}
	return n
}

// ---------------------------------------------------------------------------------------------

type anyCase struct {
	Stream string `json:"stream"`
}

func main() {
	o := common.ParseOpts()
	res := common.NewResult(prop, o)
	res.Streams = []string{"md5", "ring", "modhash", "alias", "ctx", "mgr"}
	os.Args = os.Args[:1] // tars parses os.Args for its own -config flag on first use
	rogger.SetLevel(rogger.OFF)
	rng := o.Rand()
	m, err := common.StartModel(o.Model, "conhash")
	if err != nil {
		res.Fatal(o.Out, err)
	}
	defer m.Close()
	h := &harness{o: o, res: res, rng: rng, m: m}
	if v := h.ask([]string{"variant"}); v[0] == "repaired" {
		h.repaired = true
		res.Note("the tree carries the repaired consistent-hash ring (extractor: conHashRepaired = 1): collisions and re-weighted Remove are held to the full property")
	}

	if o.Replay != "" {
		var raw json.RawMessage
		if err := common.ReadReplay(o.Replay, &raw); err != nil {
			res.Fatal(o.Out, err)
		}
		var ac anyCase
		if err := json.Unmarshal(raw, &ac); err != nil {
			res.Fatal(o.Out, err)
		}
		h.verbose = true
		switch ac.Stream {
		case "ring":
			var c rcase
			if err := json.Unmarshal(raw, &c); err != nil {
				res.Fatal(o.Out, err)
			}
			h.runRing(&c, false)
		case "modhash":
			var c mcase
			if err := json.Unmarshal(raw, &c); err != nil {
				res.Fatal(o.Out, err)
			}
			h.runModhash(&c)
		case "ctx":
			var c ccase
			if err := json.Unmarshal(raw, &c); err != nil {
				res.Fatal(o.Out, err)
			}
			h.initCtx()
			h.runCtx(&c)
		case "alias":
			var c acase
			if err := json.Unmarshal(raw, &c); err != nil {
				res.Fatal(o.Out, err)
			}
			h.runAlias(&c)
		case "mgr":
			var c gcase
			if err := json.Unmarshal(raw, &c); err != nil {
				res.Fatal(o.Out, err)
			}
			h.runMgr(&c)
		case "md5":
			var c md5case
			if err := json.Unmarshal(raw, &c); err != nil {
				res.Fatal(o.Out, err)
			}
			h.runMD5([]md5case{c})
		default:
			res.Fatal(o.Out, fmt.Errorf("replay: unknown stream %q", ac.Stream))
		}
	} else {
		h.streamMD5()
		h.streamRing()
		h.streamModhash()
		h.streamAlias()
		h.streamCtx()
		h.streamMgr()
	}
	res.Rule = "ring: case = (universe of hosts/weights, enableWeight, hash algorithm, 2-4 Refresh/Add/Remove histories " +
		"reaching the same set by different routes incl. failing calls and permuted/duplicated Refresh lists); keys = every ring " +
		"point of the universe, its -1/+1 neighbours, 0, 2^32-1 and random codes; non-trivial = distinct (final set, history) with " +
		">= 2 hosts in the final set.  modhash: histories x codes, plain and static-weight cycle.  ctx: (context kind, hash type, " +
		"code) x direct-proxy managers.  alias: all four selectors, the caller's Refresh slice is overwritten after every call, " +
		"selections compared with a twin fed private copies.  mgr: registry-mode managers through install/block/reinstate/refresh " +
		"histories, hash-routed calls compared with a fresh manager on the same active set and with the slot / ring rule.  md5: random and boundary-length byte strings, virtual-host names, rune strings"
	if err := res.Write(o.Out); err != nil {
		panic(err)
	}
}

type harness struct {
	o       *common.Opts
	res     *common.Result
	rng     *rand.Rand
	m       *common.Model
	verbose bool
	// repaired: variant of consistenthash_new.go recorded for the tree (see rcase.repaired)
	repaired bool
	nextID   int
	ctxInit  bool
}

func (h *harness) ask(lines []string) []string {
	ans, err := h.m.Batch(lines)
	if err != nil {
		h.res.Fatal(h.o.Out, err)
	}
	return ans
}

func (h *harness) noModel(a string) bool { return a == common.NoModel }

// ---------------------------------------------------------------------------------------------
// stream md5

type md5case struct {
	Stream string   `json:"stream"`
	Kind   string   `json:"kind"` // md5 | pts | khash | hashfn
	Alg    string   `json:"alg,omitempty"`
	Hex    string   `json:"hex,omitempty"`
	N      int      `json:"n,omitempty"`
	Fn     string   `json:"fn,omitempty"`
	Runes  []uint32 `json:"runes,omitempty"`
}

func (c md5case) line() string {
	switch c.Kind {
	case "md5":
		return "md5 " + c.Hex
	case "pts":
		return fmt.Sprintf("pts %s %s %d", c.Alg, c.Hex, c.N)
	case "khash":
		return fmt.Sprintf("khash %s %s", c.Alg, c.Hex)
	default:
		s := "hashfn " + c.Fn
		for _, r := range c.Runes {
			s += " " + strconv.FormatUint(uint64(r), 10)
		}
		return s
	}
}

func hexBytes(b []byte) string {
	if len(b) == 0 {
		return "-"
	}
	return hex.EncodeToString(b)
}

func joinU32(v []uint32) string {
	var sb strings.Builder
	for i, x := range v {
		if i > 0 {
			sb.WriteByte(' ')
		}
		sb.WriteString(strconv.FormatUint(uint64(x), 10))
	}
	return sb.String()
}

func (c md5case) impl() string {
	switch c.Kind {
	case "md5":
		d := md5.Sum([]byte(unhexHost(c.Hex)))
		return hex.EncodeToString(d[:])
	case "pts":
		return joinU32(refPoints(c.Alg, unhexHost(c.Hex), c.N))
	case "khash":
		if c.Alg == "k" {
			return strconv.FormatUint(uint64(consistenthash.KetamaHashAlg{}.Hash(unhexHost(c.Hex))), 10)
		}
		return strconv.FormatUint(uint64(consistenthash.DefaultHashAlg{}.Hash(unhexHost(c.Hex))), 10)
	default:
		rs := make([]rune, len(c.Runes))
		for i, r := range c.Runes {
			rs[i] = rune(r)
		}
		s := string(rs)
		var v uint32
		switch c.Fn {
		case "s":
			v = tars.HashString(s)
		case "e":
			v = tars.Hash(s)
		case "n":
			v = tars.HashNew(s)
		default:
			v = tars.MagicStringHash(s)
		}
		return strconv.FormatUint(uint64(v), 10)
	}
}

func (h *harness) runMD5(cs []md5case) {
	lines := make([]string, len(cs))
	for i, c := range cs {
		lines[i] = c.line()
	}
	ans := h.ask(lines)
	for i, c := range cs {
		c.Stream = "md5"
		impl := c.impl()
		if h.verbose {
			fmt.Printf("model: %s\nimpl:  %s\n", ans[i], impl)
		}
		h.res.Count("md5/"+lines[i], "md5:"+c.Kind, true)
		h.res.TracesValidated++
		if i < 2 {
			h.res.Sample(map[string]string{"op": trunc(lines[i]), "impl": trunc(impl)})
		}
		if !h.noModel(ans[i]) && ans[i] != impl {
			h.res.Diverge(common.Case{Stream: "md5", Op: c, Model: trunc(ans[i]), Impl: trunc(impl)})
		}
		if c.Kind == "hashfn" && c.Fn == "n" && impl == "0" {
			h.res.Violate(common.Violation{Signature: "C14:wrong-value:HashNew", What: "HashNew returned 0",
				Case: common.Case{Stream: "md5", Op: c, Impl: impl}})
		}
	}
}

func (h *harness) streamMD5() {
	rng := h.rng
	var cs []md5case
	lens := []int{0, 1, 2, 3, 54, 55, 56, 57, 63, 64, 65, 119, 120, 121, 127, 128, 129, 200, 1000}
	n := 150
	if h.o.Thorough() {
		n = 3000
	}
	for i := 0; i < n; i++ {
		l := rng.Intn(140)
		if i < len(lens) {
			l = lens[i]
		}
		b := make([]byte, l)
		rng.Read(b)
		cs = append(cs, md5case{Kind: "md5", Hex: hexBytes(b)})
		if i%3 == 0 {
			alg := "k"
			if i%2 == 0 {
				alg = "d"
			}
			cs = append(cs, md5case{Kind: "khash", Alg: alg, Hex: hexBytes(b)})
		}
	}
	for i := 0; i < n/3; i++ {
		host := randHost(rng, i)
		alg := "k"
		if i%4 == 3 {
			alg = "d"
		}
		cs = append(cs, md5case{Kind: "pts", Alg: alg, Hex: hexHost(host), N: 1 + rng.Intn(30)})
	}
	// virtual-host indices with 1, 2, 3 and 4 digits
	cs = append(cs, md5case{Kind: "pts", Alg: "k", Hex: hexHost("10.0.0.160"), N: 25})
	cs = append(cs, md5case{Kind: "pts", Alg: "k", Hex: hexHost("10.0.3.248"), N: 25})
	cs = append(cs, md5case{Kind: "pts", Alg: "k", Hex: hexHost("big.example"), N: 1030})
	for i := 0; i < n; i++ {
		l := rng.Intn(24)
		rs := make([]uint32, l)
		for j := range rs {
			switch rng.Intn(6) {
			case 0:
				rs[j] = uint32(0x80 + rng.Intn(0x700))
			case 1:
				rs[j] = uint32(0x4e00 + rng.Intn(0x5000))
			case 2:
				rs[j] = uint32(0x10000 + rng.Intn(0xFFFFF))
			default:
				rs[j] = uint32(0x20 + rng.Intn(0x5f))
			}
		}
		cs = append(cs, md5case{Kind: "hashfn", Fn: []string{"s", "e", "n", "m"}[i%4], Runes: rs})
	}
	h.runMD5(cs)
}

func randHost(rng *rand.Rand, salt int) string {
	switch rng.Intn(12) {
	case 0:
		return fmt.Sprintf("svc-%d.ns%d.local", rng.Intn(100000), salt)
	case 1:
		return fmt.Sprintf("fd00::%x:%x", rng.Intn(65536), rng.Intn(65536))
	case 2:
		return fmt.Sprintf("192.168.%d.%d", rng.Intn(256), rng.Intn(256))
	case 3:
		return fmt.Sprintf("héte %d_%d", rng.Intn(1000), salt) // non-ASCII, a space, an underscore
	default:
		return fmt.Sprintf("10.%d.%d.%d", 1+rng.Intn(250), rng.Intn(256), rng.Intn(256))
	}
}

// ---------------------------------------------------------------------------------------------
// ownership of the caller's slice: a selector must keep its own copy of what Refresh was given.
// Every slice handed to a selector is built with spare capacity and scribbled over right after the
// call (all elements incl. the spare ones overwritten with garbage endpoints, then re-sliced and
// appended to); whatever the harness gets back from a selector is never modified.  Routing must
// stay that of the installed set.

const garbagePrefix = "garbage-"

func garbageEp(i int) endpoint.Endpoint {
	e := endpoint.Endpoint{Host: garbagePrefix + strconv.Itoa(i) + ".invalid", Port: int32(1 + i), Timeout: 1, Istcp: 1, Weight: 77, Proto: "tcp"}
	e.Key = e.String()
	return e
}

// callerSlice returns a slice of length n with spare capacity, as a caller that keeps appending has.
func callerSlice(n int) []endpoint.Endpoint {
	return make([]endpoint.Endpoint, n, n+3)
}

func scribble(eps []endpoint.Endpoint) {
	full := eps[:cap(eps)]
	for i := range full {
		full[i] = garbageEp(i)
	}
	eps = append(eps[:0], garbageEp(100))
	if len(full) > 1 {
		eps = append(eps[:1], full[1:]...) // the shape of `append(s[:i], s[i+1:]...)` in checkStatus
	}
	_ = eps
}

func isGarbage(host string) bool { return strings.HasPrefix(host, garbagePrefix) }

func trunc(s string) string {
	if len(s) > 300 {
		return s[:300] + "..."
	}
	return s
}

func die(f string, a ...interface{}) {
	fmt.Fprintf(os.Stderr, f+"\n", a...)
	os.Exit(3)
}
