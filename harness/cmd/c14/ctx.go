package main

// stream ctx: "a call made with a hash code in its context is routed by these rules".
//
// direct: real ServantProxy.TarsInvoke with a client filter that captures the message built from
// the context and asks the real endpointManager.SelectAdapterProxy (direct-proxy manager, no
// network); e2e: the same call really sent (one-way) to loopback listeners on 127.0.0.k, the
// chosen server observed through current.GetServerIPFromContext and the listeners' byte counters.

import (
	"context"
	"fmt"
	"math/rand"
	"net"
	"sort"
	"strconv"
	"strings"
	"sync/atomic"
	"time"

	"github.com/TarsCloud/TarsGo/tars"
	"github.com/TarsCloud/TarsGo/tars/protocol/res/requestf"
	"github.com/TarsCloud/TarsGo/tars/selector"
	"github.com/TarsCloud/TarsGo/tars/util/current"
	"github.com/TarsCloud/TarsGo/tars/util/endpoint"

	"verifharness/common"
)

type ccall struct {
	CC   bool   `json:"cc"`  // the context carries a ClientCurrent
	Set  bool   `json:"set"` // SetClientHash was called (once, with Ty/Code) — when Opts is empty
	Ty   int    `json:"ty"`
	Code uint32 `json:"code"`
	// Opts: the per-call options applied to the context, in this order (any subset, any order,
	// repetitions).  When present they replace Set/Ty/Code: the hash in force is the LAST hash option.
	Opts []copt `json:"opts,omitempty"`
}

// copt is one client-context option: hash = current.SetClientHash(ctx, Ty, Code), timeout =
// current.SetClientTimeout(ctx, Ms), ip / port = current.SetServerIPWithContext / SetServerPortWithContext
// (the other setters of ClientCurrent), dye = current.SetDyeingKey (lives in the server-side Current;
// read by TarsInvoke as well).
type copt struct {
	K    string `json:"k"`
	Ty   int    `json:"ty,omitempty"`
	Code uint32 `json:"code,omitempty"`
	Ms   int    `json:"ms,omitempty"`
	S    string `json:"s,omitempty"`
}

func (o copt) token() string {
	switch o.K {
	case "hash":
		return fmt.Sprintf("h:%d:%d", o.Ty, o.Code)
	case "timeout":
		return fmt.Sprintf("t:%d", o.Ms)
	case "ip":
		return "i"
	case "port":
		return "p"
	}
	return ""
}

type ccase struct {
	Stream string   `json:"stream"`
	Kind   string   `json:"kind"` // direct | e2e
	EW     bool     `json:"ew"`   // endpoints carry static weights (-w W -v 1)
	U      []epSpec `json:"u"`
	Order  []int    `json:"order"` // order of the endpoints in the object string
	Calls  []ccall  `json:"calls"`
	Note   string   `json:"note,omitempty"`
}

var (
	ctxComm    *tars.Communicator
	ctxMode    string // "" | direct | e2e
	ctxMsg     *tars.Message
	ctxHosts   []string // direct mode: hosts selected by the manager for the captured message
	ctxRepeat  int
	ctxObj     string
	ctxSerial  int
	ctxCheckAd bool
)

func (h *harness) initCtx() {
	if h.ctxInit {
		return
	}
	h.ctxInit = true
	ctxComm = tars.NewCommunicator()
	tars.RegisterClientFilter(func(ctx context.Context, msg *tars.Message, invoke tars.Invoke, timeout time.Duration) error {
		ctxMsg = msg
		switch ctxMode {
		case "direct":
			ctxHosts = ctxHosts[:0]
			mgr := tars.GetManager(ctxComm, ctxObj)
			for i := 0; i < ctxRepeat; i++ {
				adp, chk := mgr.SelectAdapterProxy(msg)
				if chk {
					ctxCheckAd = true
				}
				if adp == nil {
					ctxHosts = append(ctxHosts, "<nil>")
				} else {
					ctxHosts = append(ctxHosts, adp.GetPoint().Host)
				}
			}
			return nil
		default:
			return invoke(ctx, msg, timeout)
		}
	})
}

func (c *ccase) objString(ports []int32) string {
	ctxSerial++
	var sb strings.Builder
	fmt.Fprintf(&sb, "C14.S%d.Obj@", ctxSerial)
	for n, i := range c.Order {
		if n > 0 {
			sb.WriteByte(':')
		}
		p := c.U[i].Port
		if ports != nil {
			p = ports[i]
		}
		fmt.Fprintf(&sb, "tcp -h %s -p %d -t 3000", c.U[i].Host, p)
		if c.EW {
			fmt.Fprintf(&sb, " -w %d -v 1", c.U[i].W)
		}
	}
	return sb.String()
}

type listener struct {
	ln     net.Listener
	frames int64 // complete request frames received (4-byte big-endian total length, then the packet)
}

func startListeners(n int) ([]*listener, []int32, error) {
	var ls []*listener
	var ports []int32
	for k := 1; k <= n; k++ {
		ln, err := net.Listen("tcp", fmt.Sprintf("127.0.0.%d:0", k))
		if err != nil {
			for _, l := range ls {
				l.ln.Close()
			}
			return nil, nil, err
		}
		l := &listener{ln: ln}
		ls = append(ls, l)
		ports = append(ports, int32(ln.Addr().(*net.TCPAddr).Port))
		go func() {
			for {
				c, err := l.ln.Accept()
				if err != nil {
					return
				}
				go func() {
					var buf []byte
					b := make([]byte, 4096)
					for {
						n, err := c.Read(b)
						buf = append(buf, b[:n]...)
						for len(buf) >= 4 {
							fl := int(buf[0])<<24 | int(buf[1])<<16 | int(buf[2])<<8 | int(buf[3])
							if fl < 4 || len(buf) < fl {
								break
							}
							buf = buf[fl:]
							atomic.AddInt64(&l.frames, 1)
						}
						if err != nil {
							return
						}
					}
				}()
			}
		}()
	}
	return ls, ports, nil
}

func (h *harness) cviolate(c *ccase, sig, what, note string, call int) {
	cc := *c
	if call >= 0 {
		cc.Calls = []ccall{c.Calls[call]}
	}
	cc.Note = note
	h.res.Violate(common.Violation{Signature: sig, What: what, Case: common.Case{Stream: "ctx", Op: cc, Note: note}})
}

func (h *harness) runCtx(c *ccase) {
	c.Stream = "ctx"
	h.initCtx()
	var ls []*listener
	var ports []int32
	if c.Kind == "e2e" {
		var err error
		ls, ports, err = startListeners(len(c.U))
		if err != nil {
			h.res.Note("ctx/e2e skipped: cannot listen on 127.0.0.k: %v", err)
			h.res.Histogram["ctx:e2e-skipped"]++
			return
		}
		defer func() {
			for _, l := range ls {
				l.ln.Close()
			}
		}()
	}
	obj := c.objString(ports)
	ctxObj = obj
	sp := tars.NewServantProxy(ctxComm, obj)
	mgr := tars.GetManager(ctxComm, obj)
	active := mgr.GetAllEndpoint() // the manager's installed order (sorted by crc32 of the key)
	n := len(active)
	hostIdx := map[string]int{}
	for i, u := range c.U {
		hostIdx[u.Host] = i
	}
	if n != len(c.U) {
		h.cviolate(c, "C14:wrong-value:endpointManager.updateActiveEp", "the manager did not install every endpoint of the object string",
			fmt.Sprintf("%d of %d", n, len(c.U)), -1)
		return
	}
	// independent prediction: ring over the universe, list in the manager's order
	rc := &rcase{EW: c.EW, Alg: "k", U: make([]epSpec, len(c.U))}
	copy(rc.U, c.U)
	if !c.EW {
		for i := range rc.U {
			rc.U[i].W = -1 // endpoint.Parse default; irrelevant without weights
		}
	}
	members := make([]int, len(c.U))
	for i := range members {
		members[i] = i
	}
	ref := rc.buildRef(members, map[int]bool{}, map[int][]uint32{})
	list := make([]endpoint.Endpoint, n)
	for i, e := range active {
		list[i] = *e
	}
	var cycle []int
	if c.EW {
		cycle = selector.BuildStaticWeightList(list)
	}

	// model set-up: ring 1 and mod-hash 1 refreshed with the manager's list
	ewn := 0
	if c.EW {
		ewn = 1
	}
	var sbR, sbM strings.Builder
	sbR.WriteString("refresh 1")
	fmt.Fprintf(&sbM, "mhrefresh 1 %s", cycleStr(cycle))
	for _, e := range list {
		fmt.Fprintf(&sbR, " %s:%d", hexHost(e.Host), e.Weight)
		fmt.Fprintf(&sbM, " %s:%d", hexHost(e.Host), e.Weight)
	}
	lines := []string{fmt.Sprintf("new 1 %d k", ewn), sbR.String(), fmt.Sprintf("mhnew 1 %d", ewn), sbM.String()}
	type obs struct {
		msg   string
		route string
	}
	var impl []obs

	for ci, call := range c.Calls {
		ctx := context.Background()
		if call.CC {
			ctx = current.ContextWithClientCurrent(ctx)
		}
		modelLine := fmt.Sprintf("route %d %d %d %d", b2i(call.CC), b2i(call.Set), call.Ty, call.Code)
		if len(call.Opts) > 0 {
			// any subset and order of the per-call options; the hash in force is the last one set
			call.Set = false
			modelLine = fmt.Sprintf("routeops %d", b2i(call.CC))
			lastMs, hasMs, lastSetter := 0, false, ""
			for _, o := range call.Opts {
				switch o.K {
				case "hash":
					current.SetClientHash(ctx, o.Ty, o.Code)
					call.Set, call.Ty, call.Code = true, o.Ty, o.Code
					lastSetter = ""
				case "timeout":
					current.SetClientTimeout(ctx, o.Ms)
					lastMs, hasMs = o.Ms, true
					lastSetter = "SetClientTimeout"
				case "ip":
					current.SetServerIPWithContext(ctx, o.S)
					lastSetter = "SetServerIPWithContext"
				case "port":
					current.SetServerPortWithContext(ctx, o.S)
					lastSetter = "SetServerPortWithContext"
				case "dye":
					ctx = current.ContextWithTarsCurrent(ctx)
					current.SetDyeingKey(ctx, o.S)
					lastSetter = "SetDyeingKey"
				}
				if t := o.token(); t != "" {
					modelLine += " " + t
				}
				// the context itself, after every option
				if ok, ty, code, is := current.GetClientHash(ctx); call.CC && (!ok || is != call.Set || (is && (ty != call.Ty || code != call.Code))) {
					locus := "current." + lastSetter
					if lastSetter == "" {
						locus = "current.SetClientHash"
					}
					h.cviolate(c, "C14:ctx-hash-lost:"+locus, "a hash code set in the call context is no longer reported by GetClientHash after another per-call option was set",
						fmt.Sprintf("call %+v after option %+v: GetClientHash = (ok=%v type=%d code=%d isHash=%v), set was type=%d code=%d", call.Opts, o, ok, ty, code, is, call.Ty, call.Code), ci)
					break
				}
				if ok, ms, is := current.GetClientTimeout(ctx); call.CC && (!ok || is != hasMs || (is && ms != lastMs)) {
					h.cviolate(c, "C14:wrong-value:current."+map[bool]string{true: lastSetter, false: "SetClientHash"}[lastSetter != ""], "a per-call timeout set in the call context is no longer reported by GetClientTimeout after another option was set",
						fmt.Sprintf("call %+v after option %+v: GetClientTimeout = (ok=%v ms=%d isTimeout=%v)", call.Opts, o, ok, ms, is), ci)
					break
				}
			}
		} else if call.Set {
			ok := current.SetClientHash(ctx, call.Ty, call.Code)
			if ok != call.CC {
				h.cviolate(c, "C14:wrong-value:current.SetClientHash", "SetClientHash result", fmt.Sprint(ok), ci)
			}
		}
		isHash := call.CC && call.Set
		strat := "roundrobin"
		if isHash && call.Ty == int(tars.ConsistentHash) {
			strat = "conhash"
		} else if isHash && call.Ty == int(tars.ModHash) {
			strat = "modhash"
		}
		ctxMode = c.Kind
		ctxMsg = nil
		ctxRepeat = 2
		if strat == "roundrobin" {
			ctxRepeat = n
		}
		var before []int64
		var totalBefore int64
		for _, l := range ls {
			f := atomic.LoadInt64(&l.frames)
			before = append(before, f)
			totalBefore += f
		}
		var resp requestf.ResponsePacket
		err := sp.TarsInvoke(ctx, 1, "c14", []byte{1, 2, 3, byte(ci)}, nil, nil, &resp)
		ctxMode = ""
		if ctxMsg == nil {
			h.cviolate(c, "C14:wrong-value:TarsInvoke", "the client filter was not called", fmt.Sprint(err), ci)
			return
		}
		// 1. the message built from the context
		wantTy, wantCode := 0, uint32(0)
		if isHash {
			wantTy, wantCode = call.Ty, call.Code
		}
		mobs := fmt.Sprintf("%d %d %d", b2i(ctxMsg.IsHash()), int(ctxMsg.HashType()), ctxMsg.HashCode())
		if ctxMsg.IsHash() != isHash || int(ctxMsg.HashType()) != wantTy || ctxMsg.HashCode() != wantCode {
			h.cviolate(c, "C14:ctx-hash-lost:ServantProxy.TarsInvoke", "the hash code/type set in the call context did not reach the message",
				fmt.Sprintf("call %+v: message isHash=%v type=%d code=%d", call, ctxMsg.IsHash(), int(ctxMsg.HashType()), ctxMsg.HashCode()), ci)
		}
		// 2. the endpoint the call was routed to
		var hosts []string
		if c.Kind == "direct" {
			hosts = append(hosts, ctxHosts...)
		} else {
			ip, _ := current.GetServerIPFromContext(ctx)
			if err != nil {
				h.cviolate(c, "C14:wrong-value:ServantProxy.doInvoke", "one-way call to a listening endpoint failed", err.Error(), ci)
				return
			}
			// which listener received the request frame?
			deadline := time.Now().Add(10 * time.Second)
			total := func() (t int64) {
				for _, l := range ls {
					t += atomic.LoadInt64(&l.frames)
				}
				return
			}
			for total() == totalBefore && time.Now().Before(deadline) {
				time.Sleep(100 * time.Microsecond)
			}
			recv := ""
			for j, l := range ls {
				if atomic.LoadInt64(&l.frames) != before[j] {
					if recv != "" {
						recv += "+"
					}
					recv += c.U[j].Host
				}
			}
			if recv == "" {
				h.res.Fatal(h.o.Out, fmt.Errorf("ctx/e2e: no loopback listener received the one-way request within 10s"))
			}
			hosts = []string{recv}
			if call.CC && ip != recv {
				h.cviolate(c, "C14:wrong-owner:ServantProxy.doInvoke", "the request did not arrive at the endpoint reported as selected",
					fmt.Sprintf("call %+v: context says %q, request arrived at %q", call, ip, recv), ci)
			}
		}
		want := ""
		switch strat {
		case "conhash":
			exp := ref.explained(call.Code)
			if len(exp) > 0 {
				want = c.U[exp[0]].Host
			}
		case "modhash":
			if len(cycle) > 0 {
				want = list[cycle[int(call.Code%uint32(len(cycle)))]].Host
			} else {
				want = list[int(call.Code%uint32(n))].Host
			}
		}
		robs := ""
		switch strat {
		case "conhash", "modhash":
			for _, hst := range hosts {
				if hst != want {
					h.cviolate(c, "C14:wrong-strategy:endpointManager.SelectAdapterProxy",
						"a call with a hash code in its context was not routed by the rule of its hash type",
						fmt.Sprintf("call %+v (%s): routed to %q, rule gives %q", call, strat, hst, want), ci)
					break
				}
			}
			robs = "sel " + hosts[0]
		default:
			// round robin: n consecutive selections visit every endpoint once (plain); members only (weighted)
			seen := map[string]int{}
			for _, hst := range hosts {
				seen[hst]++
				if _, ok := hostIdx[hst]; !ok {
					h.cviolate(c, "C14:not-member:endpointManager.SelectAdapterProxy", "selected endpoint is not in the set", hst, ci)
				}
			}
			if c.Kind == "direct" && !c.EW && n >= 2 && len(seen) != n {
				h.cviolate(c, "C14:wrong-strategy:endpointManager.SelectAdapterProxy",
					"a call without a (known) hash type was not routed by round robin",
					fmt.Sprintf("call %+v: %d consecutive selections visited %d of %d endpoints: %v", call, len(hosts), len(seen), n, hosts), ci)
			}
			robs = "sel " + hosts[0]
		}
		impl = append(impl, obs{msg: mobs + " " + strat, route: robs})
		rrArg := "err"
		if i, ok := hostIdx[hosts[0]]; ok {
			w := c.U[i].W
			if !c.EW {
				w = -1
			}
			rrArg = fmt.Sprintf("%s:%d", hexHost(hosts[0]), w)
		}
		lines = append(lines,
			modelLine,
			fmt.Sprintf("sap 1 %d 0 0 %d %d %d 1 1 %s", n, b2i(ctxMsg.IsHash()), int(ctxMsg.HashType()), ctxMsg.HashCode(), rrArg))
		h.res.Count(fmt.Sprintf("ctx|%s|%v|%d|%v", c.Kind, call, n, c.EW), "ctx:"+c.Kind+":"+strat, true)
		if len(call.Opts) > 0 {
			h.res.Histogram["ctx:options:"+optShape(call.Opts)]++
		}
		h.res.TracesValidated++
	}
	if ctxCheckAd {
		h.cviolate(c, "C14:wrong-value:endpointManager.SelectAdapterProxy", "a direct-proxy manager returned a check adapter", "", -1)
	}
	ans := h.ask(lines)
	for ci := range impl {
		a, b := ans[4+2*ci], ans[5+2*ci]
		if h.noModel(a) {
			break
		}
		mroute := b
		if f := strings.Fields(b); len(f) == 2 && f[0] == "sel" {
			mroute = "sel " + unhexHost(strings.Split(f[1], ":")[0])
		}
		if a != impl[ci].msg || mroute != impl[ci].route {
			h.res.Diverge(common.Case{Stream: "ctx", Op: c, Model: a + " | " + mroute, Impl: impl[ci].msg + " | " + impl[ci].route,
				Note: fmt.Sprintf("call %d %+v", ci, c.Calls[ci])})
			break
		}
		if h.verbose {
			fmt.Printf("call %+v\n  model: %s | %s\n  impl:  %s | %s\n", c.Calls[ci], a, mroute, impl[ci].msg, impl[ci].route)
		}
	}
}

func b2i(b bool) int {
	if b {
		return 1
	}
	return 0
}

func genCalls(rng *rand.Rand, n int, keyPts []uint32) []ccall {
	var calls []ccall
	for i := 0; i < n; i++ {
		cl := ccall{CC: rng.Intn(8) != 0, Set: rng.Intn(6) != 0}
		switch rng.Intn(8) {
		case 0:
			cl.Ty = 2 + rng.Intn(5)
		case 1:
			cl.Ty = -1 - rng.Intn(3)
		case 2, 3, 4:
			cl.Ty = 1
		default:
			cl.Ty = 0
		}
		switch rng.Intn(4) {
		case 0:
			if len(keyPts) > 0 {
				cl.Code = keyPts[rng.Intn(len(keyPts))] + uint32(rng.Intn(3)) - 1
			}
		case 1:
			cl.Code = uint32(rng.Intn(64))
		default:
			cl.Code = rng.Uint32()
		}
		// two thirds of the calls build their context from several options in a random order
		if rng.Intn(3) != 0 {
			var opts []copt
			if cl.Set {
				opts = append(opts, copt{K: "hash", Ty: cl.Ty, Code: cl.Code})
				if rng.Intn(5) == 0 { // set twice: the last one counts
					opts = append(opts, copt{K: "hash", Ty: rng.Intn(3), Code: rng.Uint32()})
				}
			}
			for _, k := range []string{"timeout", "ip", "port", "dye", "timeout"} {
				if rng.Intn(2) == 0 {
					opts = append(opts, copt{K: k, Ms: 1000 + rng.Intn(9000), S: fmt.Sprintf("v%d", rng.Intn(100))})
				}
			}
			rng.Shuffle(len(opts), func(i, j int) { opts[i], opts[j] = opts[j], opts[i] })
			if len(opts) > 0 {
				cl.Opts = opts
			}
		}
		calls = append(calls, cl)
	}
	// the orders that matter most, always present: hash then timeout, timeout then hash
	code := uint32(12345)
	if len(keyPts) > 0 {
		code = keyPts[0]
	}
	var fixed []ccall
	for _, ty := range []int{0, 1} {
		fixed = append(fixed,
			ccall{CC: true, Opts: []copt{{K: "hash", Ty: ty, Code: code}, {K: "timeout", Ms: 5000}}},
			ccall{CC: true, Opts: []copt{{K: "timeout", Ms: 5000}, {K: "hash", Ty: ty, Code: code}}},
			ccall{CC: true, Opts: []copt{{K: "hash", Ty: ty, Code: code}, {K: "ip", S: "x"}, {K: "port", S: "1"}, {K: "dye", S: "k"}}})
	}
	return append(fixed, calls...) // the minimal shapes first: they make the smallest replays
}

func optShape(opts []copt) string {
	s := ""
	for _, o := range opts {
		s += o.K[:1]
	}
	if len(s) > 4 {
		s = s[:4] + "+"
	}
	return s
}

func plainHost(rng *rand.Rand, salt int) string {
	switch rng.Intn(4) {
	case 0:
		return fmt.Sprintf("svc-%d.ns%d.local", rng.Intn(100000), salt)
	default:
		return fmt.Sprintf("10.%d.%d.%d", 1+rng.Intn(250), rng.Intn(256), rng.Intn(256))
	}
}

func (h *harness) streamCtx() {
	rng := h.rng
	nd, ne := 25, 6
	if h.o.Thorough() {
		nd, ne = 400, 40
	}
	for i := 0; i < nd+ne; i++ {
		c := &ccase{Stream: "ctx", Kind: "direct", EW: rng.Intn(3) == 0}
		if i >= nd {
			c.Kind = "e2e"
		}
		n := 1 + rng.Intn(8)
		seen := map[string]bool{}
		for len(c.U) < n {
			hst := plainHost(rng, i)
			if c.Kind == "e2e" {
				hst = fmt.Sprintf("127.0.0.%d", len(c.U)+1)
			}
			if seen[hst] {
				continue
			}
			seen[hst] = true
			w := int32(100)
			if c.EW {
				w = int32(4 + rng.Intn(97))
			}
			c.U = append(c.U, epSpec{Host: hst, W: w, Port: int32(20000 + len(c.U))})
		}
		rc := &rcase{EW: c.EW, Alg: "k", U: c.U}
		if rc.universeCollides() {
			continue // collisions are the ring stream's subject
		}
		all := make([]int, n)
		for j := range all {
			all[j] = j
		}
		c.Order = perm(rng, all)
		var pts []uint32
		for j := range c.U {
			pts = append(pts, rc.hostPoints(j)...)
		}
		sort.Slice(pts, func(a, b int) bool { return pts[a] < pts[b] })
		c.Calls = genCalls(rng, 24, pts)
		h.runCtx(c)
	}
	_ = strconv.Itoa
}
