// C10, stream "generated-dispatch": the dispatchers tars2go emits, compiled from the working tree and
// served by a real TarsGo application, answer TARS-, TUP- and JSON-versioned requests with exactly the
// implementation's results. Everything lives in package gendisp (shared with the generated child).
package main

import "verifharness/gendisp"

func main() { gendisp.Launch() }
