package main

import (
	"encoding/binary"
	"fmt"
	"math/rand"
	"strings"
)

// tcase is one scripted run of a receive loop (also the JSON `case` of a replay file).
type tcase struct {
	Kind   string     `json:"kind"`            // "conn" | "req" | "iso" (several connections on one server; chunks = good1, good2, illegal) | "reconn" (connection histories of one client / one server)
	Side   string     `json:"side,omitempty"`  // conn: "server" | "client"
	Mode   string     `json:"mode,omitempty"`  // conn: server "pool1"|"go"|"rt", client "plain"|"rt"
	MaxLen int64      `json:"max_len"`         // value given to protocol.SetMaxPackageLength
	Chunks []string   `json:"chunks"`          // conn: the reads to provoke, in order; req: one buffer
	Want   []string   `json:"want,omitempty"`  // conn: the sent packet list up to the first illegal one (oracle)
	Closed bool       `json:"closed"`          // conn: an illegal length prefix was sent completely
	Conns  [][]string `json:"conns,omitempty"` // reconn: the reads of every connection of ONE client / ONE server, in order
	Ends   []string   `json:"ends,omitempty"`  // reconn: how the peer ends each connection: "fin" | "rst"
	Gen    string     `json:"gen"`             // generator class
	Chk    string     `json:"chunking"`        // chunking class

	parent *tcase // reconn: the history this connection belongs to (what a replay re-executes)
	suffix string // reconn: locus suffix of a connection that follows a reconnect
}

func (c *tcase) modelLine() string {
	if c.Kind == "req" {
		return fmt.Sprintf("req %d %s", c.MaxLen, c.Chunks[0])
	}
	s := "s"
	if c.Side == "client" {
		s = "c"
	}
	if c.Kind == "reconn" {
		line := fmt.Sprintf("session %s %d", s, c.MaxLen)
		for k, conn := range c.Conns {
			if k > 0 {
				line += " |"
			}
			for _, ch := range conn {
				line += " " + ch
			}
		}
		return line
	}
	line := fmt.Sprintf("feed %s %d", s, c.MaxLen)
	for _, ch := range c.Chunks {
		line += " " + ch
	}
	return line
}

func frameOf(body []byte) []byte {
	out := make([]byte, 4, 4+len(body))
	binary.BigEndian.PutUint32(out, uint32(len(body)+4))
	return append(out, body...)
}

// item of a generated stream: a legal framed packet or an illegal header followed by garbage
type item struct {
	bytes   []byte
	illegal bool
}

type gen struct {
	rng      *rand.Rand
	thorough bool
	cases    []tcase
	pktSeq   int
}

// body returns a packet body; small bodies are random, large ones a repeated marker byte so that
// the compact notation stays small. Every body differs from its neighbours (sequence byte).
func (g *gen) body(n int) []byte {
	g.pktSeq++
	b := make([]byte, n)
	if n <= 64 {
		g.rng.Read(b)
		if n > 0 {
			b[0] = byte(g.pktSeq)
		}
		return b
	}
	m := byte(g.pktSeq%250 + 1)
	for i := range b {
		b[i] = m
	}
	g.rng.Read(b[:8])
	g.rng.Read(b[n-8:])
	return b
}

func (g *gen) illegalHeader(maxLen int64) []byte {
	var v uint32
	cands := []uint32{0, 1, 2, 3}
	if maxLen < 4 {
		cands = append(cands, 4, 5, 8, 100)
	}
	if maxLen >= 3 && maxLen+1 <= 0xffffffff {
		cands = append(cands, uint32(maxLen+1), uint32(maxLen+1))
	}
	if maxLen >= 3 && maxLen+2 <= 0xffffffff {
		cands = append(cands, uint32(maxLen+2))
	}
	if maxLen < 0x7fffffff {
		cands = append(cands, 0x80000000, 0xffffffff, 0x7fffffff, 0xfffffffc)
	}
	if maxLen < 0x10000 {
		cands = append(cands, 0x00010000, 0x01000000, 0x04000000)
	}
	v = cands[g.rng.Intn(len(cands))]
	h := make([]byte, 4)
	binary.BigEndian.PutUint32(h, v)
	return h
}

func cat(items []item) []byte {
	var s []byte
	for _, it := range items {
		s = append(s, it.bytes...)
	}
	return s
}

// boundaries of the items inside the stream
func bounds(items []item) []int {
	var b []int
	p := 0
	for _, it := range items {
		p += len(it.bytes)
		b = append(b, p)
	}
	return b
}

// partition cuts stream at the given sorted cut points (0 < cut < len)
func cutAt(stream []byte, cuts []int) [][]byte {
	var out [][]byte
	prev := 0
	for _, c := range cuts {
		if c <= prev || c >= len(stream) {
			continue
		}
		out = append(out, stream[prev:c])
		prev = c
	}
	return append(out, stream[prev:])
}

type chunking struct {
	name   string
	chunks [][]byte
}

// chunkings of one stream: whole, per item, single bytes, inside every header, coalesced pairs,
// random partitions, with empty reads mixed in (the model must ignore them; on TCP they are not sent).
func (g *gen) chunkings(stream []byte, items []item, nrand int) []chunking {
	var out []chunking
	if len(stream) == 0 {
		return []chunking{{"empty", [][]byte{{}}}}
	}
	bs := bounds(items)
	out = append(out, chunking{"whole", [][]byte{stream}})
	out = append(out, chunking{"per-item", cutAt(stream, bs)})
	if len(stream) <= 1500 {
		var one [][]byte
		for i := range stream {
			one = append(one, stream[i:i+1])
		}
		out = append(out, chunking{"bytes", one})
	}
	// split inside the header of every item at offsets 1, 2, 3 (one chunking per offset), and one
	// that isolates every header byte
	for off := 1; off <= 3; off++ {
		var cuts []int
		start := 0
		for _, e := range bs {
			cuts = append(cuts, start+off)
			start = e
		}
		out = append(out, chunking{fmt.Sprintf("hdr+%d", off), cutAt(stream, sortedUnique(cuts))})
	}
	{
		var cuts []int
		start := 0
		for _, e := range bs {
			cuts = append(cuts, start+1, start+2, start+3, start+4)
			start = e
		}
		out = append(out, chunking{"hdr-bytes", cutAt(stream, sortedUnique(cuts))})
	}
	// body split one byte before the end of every item, and one byte into the next item
	{
		var cuts []int
		for _, e := range bs {
			cuts = append(cuts, e-1)
		}
		out = append(out, chunking{"tail-1", cutAt(stream, sortedUnique(cuts))})
		cuts = nil
		for _, e := range bs {
			cuts = append(cuts, e+1)
		}
		out = append(out, chunking{"next+1", cutAt(stream, sortedUnique(cuts))})
	}
	// every item in two reads, the second of which spills 1..3 bytes into the next item's header
	{
		var cuts []int
		start := 0
		for _, e := range bs {
			if e-start >= 2 {
				cuts = append(cuts, start+1+g.rng.Intn(e-start-1))
			}
			cuts = append(cuts, e+1+g.rng.Intn(3))
			start = e
		}
		out = append(out, chunking{"mid+spill", cutAt(stream, sortedUnique(cuts))})
	}
	// coalesced pairs / triples of items
	for _, k := range []int{2, 3} {
		var cuts []int
		for i, e := range bs {
			if (i+1)%k == 0 {
				cuts = append(cuts, e)
			}
		}
		out = append(out, chunking{fmt.Sprintf("coalesce%d", k), cutAt(stream, cuts)})
	}
	for r := 0; r < nrand; r++ {
		n := 1 + g.rng.Intn(8)
		if g.rng.Intn(3) == 0 {
			n = 1 + g.rng.Intn(40)
		}
		var cuts []int
		for i := 0; i < n; i++ {
			cuts = append(cuts, 1+g.rng.Intn(len(stream)))
		}
		ch := cutAt(stream, sortedUnique(cuts))
		if g.rng.Intn(4) == 0 { // empty reads
			k := g.rng.Intn(len(ch) + 1)
			ch = append(ch[:k:k], append([][]byte{{}}, ch[k:]...)...)
		}
		out = append(out, chunking{"random", ch})
	}
	return out
}

// sub keeps the whole-stream and single-byte chunkings and n random others
func (g *gen) sub(chs []chunking, n int) []chunking {
	var out, rest []chunking
	for _, c := range chs {
		if c.name == "whole" || c.name == "bytes" {
			out = append(out, c)
		} else {
			rest = append(rest, c)
		}
	}
	g.rng.Shuffle(len(rest), func(i, j int) { rest[i], rest[j] = rest[j], rest[i] })
	if n > len(rest) {
		n = len(rest)
	}
	return append(out, rest[:n]...)
}

func sortedUnique(xs []int) []int {
	m := map[int]bool{}
	for _, x := range xs {
		m[x] = true
	}
	out := make([]int, 0, len(m))
	for x := range m {
		out = append(out, x)
	}
	for i := 1; i < len(out); i++ {
		for j := i; j > 0 && out[j] < out[j-1]; j-- {
			out[j], out[j-1] = out[j-1], out[j]
		}
	}
	return out
}

var serverModes = []string{"pool1", "pool1", "go", "rt"}
var clientModes = []string{"plain", "plain", "plain", "rt"}

func (g *gen) emit(genName string, maxLen int64, items []item, chs []chunking, sides []string) {
	var want []string
	closed := false
	for _, it := range items {
		if it.illegal {
			closed = true
			break
		}
		want = append(want, compact(it.bytes))
	}
	for _, ch := range chs {
		cs := make([]string, len(ch.chunks))
		for i, c := range ch.chunks {
			cs[i] = compact(c)
		}
		for _, side := range sides {
			mode := serverModes[g.rng.Intn(len(serverModes))]
			if side == "client" {
				mode = clientModes[g.rng.Intn(len(clientModes))]
			}
			g.cases = append(g.cases, tcase{Kind: "conn", Side: side, Mode: mode, MaxLen: maxLen, Chunks: cs,
				Want: want, Closed: closed, Gen: genName, Chk: ch.name})
		}
	}
}

// legalSizes: framed lengths (header included) that are legal for maxLen, boundary-dense
func legalSizes(maxLen int64, cap int) []int {
	var out []int
	add := func(n int64) {
		if n >= 4 && n <= maxLen && n <= int64(cap) {
			for _, x := range out {
				if x == int(n) {
					return
				}
			}
			out = append(out, int(n))
		}
	}
	for _, n := range []int64{4, 5, 6, 7, 8, 9, 12, 20, 33, 100, 255, 256, 257, 1000, 4092, 4095, 4096, 4097, 4100, 8192, 9000} {
		add(n)
	}
	add(maxLen)
	add(maxLen - 1)
	add(maxLen - 2)
	add(maxLen - 3)
	add(maxLen - 4)
	return out
}

var bothSides = []string{"server", "client"}

func (g *gen) one(sides []string) []string {
	return []string{sides[g.rng.Intn(len(sides))]}
}

// genFor produces the connection cases of one maximum-length setting.
func (g *gen) genFor(maxLen int64, scale int) {
	cap := 9000
	sizes := legalSizes(maxLen, cap)
	sentinel := item{bytes: []byte{0, 0, 0, 4}}
	pick := func() item { return item{bytes: frameOf(g.body(sizes[g.rng.Intn(len(sizes))] - 4))} }
	small := func() item {
		var ss []int
		for _, s := range sizes {
			if s <= 40 {
				ss = append(ss, s)
			}
		}
		if len(ss) == 0 {
			ss = sizes
		}
		return item{bytes: frameOf(g.body(ss[g.rng.Intn(len(ss))] - 4))}
	}

	if len(sizes) == 0 {
		// no legal packet exists (maxLen < 4): every complete header is a protocol error
		for _, hv := range []uint32{0, 3, 4, 5, 8, 0xffffffff} {
			h := make([]byte, 4)
			binary.BigEndian.PutUint32(h, hv)
			items := []item{{bytes: append(h, g.body(int(hv%7))...), illegal: true}}
			g.emit("no-legal-size", maxLen, items, g.chunkings(cat(items), items, 1), bothSides)
		}
		// an incomplete header is never an error
		items := []item{{bytes: []byte{0, 0, 0}}}
		g.cases = append(g.cases, tcase{Kind: "conn", Side: "server", Mode: "pool1", MaxLen: maxLen, Chunks: []string{"00", "0000"}, Gen: "no-legal-size", Chk: "partial"})
		g.cases = append(g.cases, tcase{Kind: "conn", Side: "client", Mode: "plain", MaxLen: maxLen, Chunks: []string{"000000"}, Gen: "no-legal-size", Chk: "partial"})
		_ = items
		return
	}

	// 1. exact fit and neighbours, alone and embedded
	for _, n := range sizes {
		boundary := n <= 5 || int64(n) >= maxLen-1
		if !boundary && g.rng.Intn(4) != 0 {
			continue
		}
		p := item{bytes: frameOf(g.body(n - 4))}
		gname := "size"
		if int64(n) == maxLen {
			gname = "exact-max"
		}
		items := []item{p, sentinel}
		chs := g.chunkings(cat(items), items, 1)
		if !boundary {
			chs = g.sub(chs, 4)
		}
		g.emit(gname, maxLen, items, chs, bothSides)
		items = []item{small(), p, small(), sentinel}
		g.emit(gname, maxLen, items, g.sub(g.chunkings(cat(items), items, 1), 4), g.one(bothSides))
	}

	// 2. sequences of legal packets
	for r := 0; r < 3*scale; r++ {
		k := 1 + g.rng.Intn(6)
		var items []item
		for i := 0; i < k; i++ {
			if g.rng.Intn(3) == 0 {
				items = append(items, pick())
			} else {
				items = append(items, small())
			}
		}
		items = append(items, sentinel)
		g.emit("frames", maxLen, items, g.chunkings(cat(items), items, 2), g.one(bothSides))
	}
	// many minimal packets in one read (coalescing)
	{
		var items []item
		n := 40 + g.rng.Intn(60)
		for i := 0; i < n; i++ {
			items = append(items, small())
		}
		items = append(items, sentinel)
		chs := g.chunkings(cat(items), items, 2)
		g.emit("many-small", maxLen, items, chs[:2], bothSides)
		g.emit("many-small", maxLen, items, chs[len(chs)-2:], bothSides)
	}

	// 3. an illegal length at every position of a sequence
	for r := 0; r < scale; r++ {
		k := 1 + g.rng.Intn(4)
		var legal []item
		for i := 0; i < k; i++ {
			legal = append(legal, small())
		}
		for pos := 0; pos <= k; pos++ {
			h := g.illegalHeader(maxLen)
			v := int64(binary.BigEndian.Uint32(h))
			// what follows the illegal header: for an oversize length up to the cap, a complete body
			// of that size plus further well-formed packets (they must NOT be delivered)
			tail := g.body(g.rng.Intn(9))
			if v > maxLen && v-4 <= 3000 {
				tail = g.body(int(v - 4))
			}
			bad := item{bytes: append(append([]byte{}, h...), tail...), illegal: true}
			items := append(append(append([]item{}, legal[:pos]...), bad), legal[pos:]...)
			chs := g.chunkings(cat(items), items, 1)
			g.emit("illegal@"+posName(pos, k), maxLen, items, chs, g.one(bothSides))
		}
	}
	// the boundary itself: maxLen accepted, maxLen+1 rejected, with a complete body
	if maxLen+1 <= 3000 {
		h := make([]byte, 4)
		binary.BigEndian.PutUint32(h, uint32(maxLen+1))
		bad := item{bytes: append(h, g.body(int(maxLen+1-4))...), illegal: true}
		items := []item{small(), bad, sentinel}
		g.emit("max+1", maxLen, items, g.chunkings(cat(items), items, 1), bothSides)
		items = []item{bad}
		g.emit("max+1", maxLen, items, g.chunkings(cat(items), items, 0), bothSides)
	} else if maxLen+1 <= 0xffffffff {
		h := make([]byte, 4)
		binary.BigEndian.PutUint32(h, uint32(maxLen+1))
		bad := item{bytes: append(h, g.body(5)...), illegal: true}
		items := []item{small(), bad, sentinel}
		g.emit("max+1", maxLen, items, g.chunkings(cat(items), items, 1), bothSides)
	}

	// 4. a truncated last packet: delivered packets stop before it, the connection stays open
	for r := 0; r < scale; r++ {
		items := []item{small(), pick()}
		last := pick().bytes
		cut := g.rng.Intn(len(last))
		stream := append(cat(items), last[:cut]...)
		all := append(append([]item{}, items...), item{bytes: last[:cut]})
		chs := g.chunkings(stream, all, 1)
		var want []string
		for _, it := range items {
			want = append(want, compact(it.bytes))
		}
		for _, ch := range chs {
			cs := make([]string, len(ch.chunks))
			for i, c := range ch.chunks {
				cs[i] = compact(c)
			}
			side := bothSides[g.rng.Intn(2)]
			mode := "pool1"
			if side == "client" {
				mode = "plain"
			}
			g.cases = append(g.cases, tcase{Kind: "conn", Side: side, Mode: mode, MaxLen: maxLen, Chunks: cs, Want: want,
				Gen: "truncated", Chk: ch.name})
		}
	}
}

// genReconn: connection histories of ONE TarsClient (and of one TarsServer): every connection but
// the last is cut by the peer (FIN or RST) at an arbitrary offset INSIDE a packet - after 1..3
// header bytes, right after the header, in the middle of the body, one byte before its end - or
// after a protocol error; the next connection carries a fresh packet sequence under an arbitrary
// chunking. Nothing of an earlier connection may show up in a later one.
func (g *gen) genReconn(maxLen int64, nClient, nServer int) {
	sizes := legalSizes(maxLen, 300)
	if len(sizes) == 0 {
		return
	}
	pkt := func() []byte { return frameOf(g.body(sizes[g.rng.Intn(len(sizes))] - 4)) }
	for r := 0; r < nClient+nServer; r++ {
		side, mode := "client", clientModes[g.rng.Intn(len(clientModes))]
		if r >= nClient {
			side, mode = "server", "pool1"
		}
		nconn := 2
		if g.rng.Intn(3) == 0 {
			nconn = 3
		}
		var conns [][]string
		var ends []string
		chk := ""
		for k := 0; k < nconn; k++ {
			var items []item
			for i := g.rng.Intn(3); i > 0; i-- {
				items = append(items, item{bytes: pkt()})
			}
			end := "fin"
			if k < nconn-1 {
				if g.rng.Intn(2) == 0 {
					end = "rst"
				}
				// the partial packet: prefer long ones so that a body cut exists
				last := pkt()
				for try := 0; try < 3 && len(last) < 8; try++ {
					last = pkt()
				}
				var cut int
				isErr := false
				switch c := g.rng.Intn(8); {
				case c <= 2:
					cut = 1 + c // inside the header
					chk += fmt.Sprintf("hdr%d", cut)
				case c == 3:
					cut = 4
					chk += "hdr4"
				case c == 4:
					cut = len(last) - 1
					chk += "tail-1"
				case c == 5 && maxLen+1 <= 0xffffffff: // a protocol error ends the connection
					h := g.illegalHeader(maxLen)
					last = append(append([]byte{}, h...), g.body(g.rng.Intn(6))...)
					cut = len(last)
					isErr = true
					chk += "error"
				default:
					cut = 1 + g.rng.Intn(len(last)-1)
					chk += "mid"
				}
				if cut > len(last) {
					cut = len(last)
				}
				if cut == len(last) && !isErr { // 4-byte packet cut at 4: keep it partial
					cut = len(last) - 1
				}
				items = append(items, item{bytes: last[:cut]})
				chk += "/" + end + " "
			} else {
				items = append(items, item{bytes: pkt()}, item{bytes: []byte{0, 0, 0, 4}})
			}
			stream := cat(items)
			chs := g.chunkings(stream, items, 2)
			ch := chs[g.rng.Intn(len(chs))]
			cs := make([]string, len(ch.chunks))
			for i, c := range ch.chunks {
				cs[i] = compact(c)
			}
			conns = append(conns, cs)
			ends = append(ends, end)
		}
		g.cases = append(g.cases, tcase{Kind: "reconn", Side: side, Mode: mode, MaxLen: maxLen, Conns: conns, Ends: ends,
			Gen: "reconnect", Chk: strings.TrimSpace(chk)})
	}
}

// genSpill: a larger packet that spans several reads, whose LAST read also carries exactly the
// first 1, 2 or 3 bytes of the next packet's length prefix, followed by smaller packets that
// together are shorter than the large one (a loop that remembers "the head packet needs L bytes"
// across the packet boundary would withhold them). Both sides; the rest of the stream arrives
// whole, per packet, or byte by byte.
func (g *gen) genSpill(maxLen int64) {
	sizes := legalSizes(maxLen, 9000)
	if len(sizes) == 0 {
		return
	}
	var bigs []int
	for _, n := range sizes {
		if n >= 6 {
			bigs = append(bigs, n)
		}
	}
	if len(bigs) == 0 {
		return
	}
	for k := 1; k <= 3; k++ {
		L := bigs[g.rng.Intn(len(bigs))]
		if g.rng.Intn(2) == 0 {
			L = bigs[len(bigs)-1]
			for _, n := range bigs {
				if n > L {
					L = n
				}
			}
		}
		big := item{bytes: frameOf(g.body(L - 4))}
		items := []item{big}
		if g.rng.Intn(3) == 0 { // a packet before it, so that the large one does not start the connection
			items = []item{{bytes: []byte{0, 0, 0, 4}}, big}
		}
		start := len(cat(items)) - L
		budget := L - 4 - 1 // followers incl. sentinel stay shorter than the large packet
		for budget >= 4 && g.rng.Intn(4) != 0 {
			var cand []int
			for _, n := range sizes {
				if n <= budget && n <= 64 {
					cand = append(cand, n)
				}
			}
			if len(cand) == 0 {
				break
			}
			n := cand[g.rng.Intn(len(cand))]
			items = append(items, item{bytes: frameOf(g.body(n - 4))})
			budget -= n
		}
		items = append(items, item{bytes: []byte{0, 0, 0, 4}})
		stream := cat(items)
		endBig := start + L
		// the large packet in 2..4 reads (cuts inside its header and body)
		var cuts []int
		for i, n := 0, 1+g.rng.Intn(3); i < n; i++ {
			cuts = append(cuts, start+1+g.rng.Intn(L-1))
		}
		cuts = append(cuts, endBig+k)
		for _, style := range []string{"rest-whole", "rest-per-item", "rest-bytes"} {
			cs := append([]int{}, cuts...)
			switch style {
			case "rest-per-item":
				for _, e := range bounds(items) {
					if e > endBig+k {
						cs = append(cs, e)
					}
				}
			case "rest-bytes":
				for e := endBig + k + 1; e < len(stream) && e < endBig+k+200; e++ {
					cs = append(cs, e)
				}
			}
			ch := chunking{fmt.Sprintf("spill+%d/%s", k, style), cutAt(stream, sortedUnique(cs))}
			g.emit("spill-into-next-header", maxLen, items, []chunking{ch}, bothSides)
		}
	}
}

func posName(pos, k int) string {
	switch {
	case pos == 0:
		return "first"
	case pos == k:
		return "last"
	}
	return "middle"
}

// genMalformed: streams of arbitrary bytes biased towards plausible headers; the oracle is the
// reference splitter (no generator knowledge).
func (g *gen) genMalformed(maxLen int64, n int) {
	for r := 0; r < n; r++ {
		ln := 1 + g.rng.Intn(60)
		s := make([]byte, ln)
		for i := range s {
			switch g.rng.Intn(4) {
			case 0:
				s[i] = byte(g.rng.Intn(256))
			case 1:
				s[i] = byte(g.rng.Intn(12))
			default:
				s[i] = 0
			}
		}
		items := []item{{bytes: s}}
		chs := g.chunkings(s, items, 2)
		ch := chs[g.rng.Intn(len(chs))]
		cs := make([]string, len(ch.chunks))
		for i, c := range ch.chunks {
			cs[i] = compact(c)
		}
		side := bothSides[g.rng.Intn(2)]
		mode := "pool1"
		if side == "client" {
			mode = "plain"
		}
		g.cases = append(g.cases, tcase{Kind: "conn", Side: side, Mode: mode, MaxLen: maxLen, Chunks: cs, Gen: "random-bytes", Chk: ch.name})
	}
}

// genReq: direct calls of protocol.TarsRequest around every decision boundary.
func (g *gen) genReq(maxLen int64) {
	hv := map[uint32]bool{0: true, 1: true, 3: true, 4: true, 5: true, 6: true, 8: true, 9: true, 0x100: true, 0xffff: true, 0x10000: true,
		0x7fffffff: true, 0x80000000: true, 0xffffffff: true}
	for d := int64(-2); d <= 2; d++ {
		if v := maxLen + d; v >= 0 && v <= 0xffffffff {
			hv[uint32(v)] = true
		}
	}
	for i := 0; i < 6; i++ {
		hv[g.rng.Uint32()>>uint(g.rng.Intn(32))] = true
	}
	for v := range hv {
		h := make([]byte, 4)
		binary.BigEndian.PutUint32(h, v)
		lens := map[int]bool{0: true, 1: true, 2: true, 3: true, 4: true, 5: true, 8: true, 9: true}
		if v <= 70000 {
			for d := -1; d <= 1; d++ {
				if n := int(v) + d; n >= 0 {
					lens[n] = true
				}
			}
		}
		for n := range lens {
			buf := make([]byte, n)
			for i := range buf {
				buf[i] = 0xee
			}
			copy(buf, h)
			g.cases = append(g.cases, tcase{Kind: "req", MaxLen: maxLen, Chunks: []string{compact(buf)}, Gen: "req"})
		}
	}
}

const defaultMax = 10485760

func genCases(rng *rand.Rand, thorough bool) []tcase {
	g := &gen{rng: rng, thorough: thorough}
	scale := 1
	if thorough {
		scale = 4
	}
	// maximum-length settings: nothing legal (negative, 0, 3), the smallest (4, 5), small ones,
	// around the read buffer size (4096), larger than a read, the default, beyond 32 bits
	settings := []int64{-1, 0, 3, 4, 5, 6, 7, 8, 9, 13, 64, 100, 1000, 4095, 4096, 4097, 4100, 8192, 9000, 65536, defaultMax, 0x7fffffff, 0xffffffff, 0x100000005}
	for i := 0; i < 2*scale; i++ {
		settings = append(settings, int64(10+rng.Intn(3000)))
	}
	budget := 110 // server cases per setting (each costs the 500 ms close ticker of tcpHandler.recv)
	if thorough {
		budget = 420
	}
	for _, m := range settings {
		from := len(g.cases)
		g.genFor(m, scale)
		g.genMalformed(m, 6*scale)
		g.cases = append(g.cases[:from], thin(rng, g.cases[from:], budget)...)
		g.genReq(m)
		g.genReconn(m, 8*scale, 2*scale)
		for i := 0; i < scale; i++ {
			g.genSpill(m)
		}
		if m >= 5 {
			n1 := 4 + rng.Intn(int(min64(m, 60))-3)
			n2 := 4 + rng.Intn(int(min64(m, 60))-3)
			mode := []string{"pool1", "go"}[rng.Intn(2)]
			g.cases = append(g.cases, tcase{Kind: "iso", Side: "server", Mode: mode, MaxLen: m, Gen: "isolation",
				Chunks: []string{compact(frameOf(g.body(n1 - 4))), compact(frameOf(g.body(n2 - 4))), compact(append(g.illegalHeader(m), 9, 9))}})
		}
	}
	// larger streams: a 64 KiB packet through 4 KiB reads (quick), the default maximum exactly (thorough)
	big := func(maxLen int64, n int, name string) {
		p := item{bytes: frameOf(g.body(n - 4))}
		items := []item{{bytes: frameOf(g.body(3))}, p, {bytes: []byte{0, 0, 0, 4}}}
		stream := cat(items)
		step := 1 << 20
		if n <= 1<<17 {
			step = 1 << 14
		}
		var cuts []int
		for c := 3; c < len(stream); c += step {
			cuts = append(cuts, c)
		}
		chs := []chunking{{"whole", [][]byte{stream}}, {"big-steps", cutAt(stream, cuts)}}
		g.emit(name, maxLen, items, chs, bothSides)
	}
	big(65536, 65536, "exact-max-64k")
	big(defaultMax, 70000, "default-70k")
	if thorough {
		big(defaultMax, defaultMax, "exact-max-default")
		h := make([]byte, 4)
		binary.BigEndian.PutUint32(h, defaultMax+1)
		bad := item{bytes: append(h, 1, 2, 3), illegal: true}
		items := []item{{bytes: frameOf(g.body(defaultMax - 5))}, bad}
		stream := cat(items)
		var cuts []int
		for c := 2; c < len(stream); c += 1 << 20 {
			cuts = append(cuts, c)
		}
		g.emit("default-max+1", defaultMax, items, []chunking{{"big-steps", cutAt(stream, cuts)}}, bothSides)
	}
	return g.cases
}

// thin keeps at most budget server cases: first one of every (generator, chunking) pair, then
// random ones; client cases are all kept.
func thin(rng *rand.Rand, cs []tcase, budget int) []tcase {
	var idx []int
	for i, c := range cs {
		if c.Side == "server" {
			idx = append(idx, i)
		}
	}
	if len(idx) <= budget {
		return cs
	}
	rng.Shuffle(len(idx), func(i, j int) { idx[i], idx[j] = idx[j], idx[i] })
	keep := map[int]bool{}
	seen := map[string]bool{}
	for _, i := range idx {
		k := cs[i].Gen + "/" + cs[i].Chk
		if !seen[k] && len(keep) < budget {
			seen[k] = true
			keep[i] = true
		}
	}
	for _, i := range idx {
		if len(keep) >= budget {
			break
		}
		keep[i] = true
	}
	var out []tcase
	for i, c := range cs {
		if c.Side != "server" || keep[i] {
			out = append(out, c)
		}
	}
	return out
}

func min64(a, b int64) int64 {
	if a < b {
		return a
	}
	return b
}
