package main

import (
	"encoding/hex"
	"fmt"
	"strconv"
	"strings"
)

// Compact byte notation shared with the Lean driver (Driver/Frame.lean): "-" (empty) or
// comma-separated parts, each `hex` or `hex*count`.

func parseBytes(s string) ([]byte, error) {
	if s == "-" || s == "" {
		return nil, nil
	}
	var out []byte
	for _, part := range strings.Split(s, ",") {
		h, cnt := part, 1
		if i := strings.IndexByte(part, '*'); i >= 0 {
			h = part[:i]
			n, err := strconv.Atoi(part[i+1:])
			if err != nil || n < 0 {
				return nil, fmt.Errorf("bad repeat in %q", part)
			}
			cnt = n
		}
		b, err := hex.DecodeString(h)
		if err != nil {
			return nil, fmt.Errorf("bad hex in %q", part)
		}
		for i := 0; i < cnt; i++ {
			out = append(out, b...)
		}
	}
	return out, nil
}

func mustBytes(s string) []byte {
	b, err := parseBytes(s)
	if err != nil {
		panic(err)
	}
	return b
}

// compact renders bytes, run-length encoding runs of one byte value of 24 or more.
func compact(b []byte) string {
	if len(b) == 0 {
		return "-"
	}
	var parts []string
	lit := 0
	i := 0
	flush := func(to int) {
		if to > lit {
			parts = append(parts, hex.EncodeToString(b[lit:to]))
		}
	}
	for i < len(b) {
		j := i
		for j < len(b) && b[j] == b[i] {
			j++
		}
		if j-i >= 24 {
			flush(i)
			parts = append(parts, fmt.Sprintf("%02x*%d", b[i], j-i))
			lit = j
		}
		i = j
	}
	flush(len(b))
	return strings.Join(parts, ",")
}

// fnv1a32 is the packet hash the model driver prints.
func fnv1a32(b []byte) uint32 {
	h := uint32(2166136261)
	for _, c := range b {
		h = (h ^ uint32(c)) * 16777619
	}
	return h
}

func summary(b []byte) string { return fmt.Sprintf("%d:%d", len(b), fnv1a32(b)) }

func commaSep(xs []string) string {
	if len(xs) == 0 {
		return "-"
	}
	return strings.Join(xs, ",")
}
