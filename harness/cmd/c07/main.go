// C07 harness: stream framing. Runs the REAL server receive loop (transport.tcpHandler.recv, via
// transport.NewTarsServer over loopback TCP) and the REAL client receive loop
// (transport.connection.recv, via transport.NewTarsClient against a scripted TCP peer) on scripted
// chunkings of generated streams, records exactly which packets reach Invoke / Recv and whether the
// connection was closed, and compares (a) with the Lean model (`tm_frame`, stream "frame") and
// (b) with the property oracle: the sent packet list. No hook in /repo is used: the protocol
// object we hand to the transport layer sees every ParsePackage(currBuffer) call, which reveals
// how much the loop has read, so the writer can wait for each chunk to be consumed before it sends
// the next one (exact chunk control, no sleeps).
//
// The cases are executed in a child process: a panic inside a receive goroutine of the code under
// test kills the process; the supervisor then finds the culprit among the cases in flight (journal)
// by re-running them one by one, and reports it as a violation with a replay.
package main

import (
	"bytes"
	"encoding/json"
	"fmt"
	"net"
	"os"
	"os/exec"
	"path/filepath"
	"sort"
	"strconv"
	"strings"
	"sync"
	"sync/atomic"
	"time"

	"github.com/TarsCloud/TarsGo/tars/protocol"
	"github.com/TarsCloud/TarsGo/tars/transport"
	"github.com/TarsCloud/TarsGo/tars/util/rogger"

	"verifharness/common"
)

const rule = "cases = (side server|client, maxPackageLength, stream, partition of the stream into reads); streams: legal packet " +
	"sequences with boundary sizes (4, 5, max-1, max), an illegal length (<4, max+1, huge) at every position with complete " +
	"bodies and further packets after it, truncated packets, random bytes; partitions: whole, per packet, single bytes, inside " +
	"every header at offsets 1..3, every header byte isolated, one byte before/after every packet end, coalesced pairs/triples, " +
	"random (with empty reads); max-length settings <4, 4, 5, small, around the 4096-byte read buffer, 65536, default, >2^32; " +
	"a larger packet in several reads whose last read carries exactly 1..3 bytes of the next length prefix, followed by smaller packets shorter than it; " +
	"connection histories of ONE TarsClient / ONE TarsServer (2-3 connections; the peer ends each but the last by FIN or RST inside a packet: after 1..4 header bytes, mid-body, one byte before the end, or after a protocol error; the client reconnects on its next Send) with the per-connection oracle that nothing is carried over; " +
	"plus direct TarsRequest calls around every decision boundary; non-trivial = distinct (side, maxLen, stream, partition) " +
	"with at least one delivered packet or a protocol error"

func main() {
	o := common.ParseOpts()
	if strings.HasPrefix(o.Extra, "child:") {
		childMain(o, strings.TrimPrefix(o.Extra, "child:"))
		return
	}
	supervise(o)
}

// ------------------------------------------------------------------------------------------
// supervisor
// ------------------------------------------------------------------------------------------

func runChild(o *common.Opts, dir, out string, verbose bool) (exit int, stderr string) {
	args := []string{"-tier", o.Tier, "-seed", strconv.FormatInt(o.Seed, 10), "-model", o.Model, "-out", out, "-extra", "child:" + dir}
	cmd := exec.Command(os.Args[0], args...)
	cmd.Env = os.Environ()
	if verbose {
		cmd.Env = append(cmd.Env, "C07_VERBOSE=1")
	}
	var eb bytes.Buffer
	cmd.Stdout = os.Stdout
	cmd.Stderr = &eb
	err := cmd.Run()
	stderr = eb.String()
	if err == nil {
		return 0, stderr
	}
	if ee, ok := err.(*exec.ExitError); ok {
		return ee.ExitCode(), stderr
	}
	return -1, stderr + "\n" + err.Error()
}

func writeCases(dir string, cs []tcase) error {
	b, err := json.Marshal(cs)
	if err != nil {
		return err
	}
	return os.WriteFile(filepath.Join(dir, "cases.json"), b, 0o644)
}

func supervise(o *common.Opts) {
	res := common.NewResult("C07", o)
	res.Streams = []string{"frame"}
	res.Rule = rule
	var cases []tcase
	if o.Replay != "" {
		var c tcase
		if err := common.ReadReplay(o.Replay, &c); err != nil {
			res.Fatal(o.Out, err)
		}
		cases = []tcase{c}
	} else {
		cases = genCases(o.Rand(), o.Thorough())
	}
	dir, err := os.MkdirTemp("", "c07-")
	if err != nil {
		res.Fatal(o.Out, err)
	}
	defer os.RemoveAll(dir)
	if err := writeCases(dir, cases); err != nil {
		os.RemoveAll(dir)
		res.Fatal(o.Out, err)
	}
	exit, stderr := runChild(o, dir, o.Out, o.Replay != "")
	if exit == 0 {
		return
	}
	os.Stderr.WriteString(tail(stderr, 6000))
	if exit == 3 { // the child reported a harness error itself
		os.RemoveAll(dir)
		os.Exit(3)
	}
	// the child died: a panic in a goroutine of the code under test. Find the case.
	started, done := readJournal(dir)
	var inflight []int
	for i := range started {
		if !done[i] {
			inflight = append(inflight, i)
		}
	}
	sort.Ints(inflight)
	fmt.Fprintf(os.Stderr, "c07: child exited with %d; %d cases done, %d in flight; isolating\n", exit, len(done), len(inflight))
	type culprit struct {
		idx    int
		stderr string
	}
	var mu sync.Mutex
	var culprits []culprit
	sem := make(chan struct{}, 8)
	var wg sync.WaitGroup
	for _, idx := range inflight {
		wg.Add(1)
		sem <- struct{}{}
		go func(idx int) {
			defer wg.Done()
			defer func() { <-sem }()
			mu.Lock()
			enough := len(culprits) >= 3
			mu.Unlock()
			if enough {
				return
			}
			sub, err := os.MkdirTemp(dir, "iso-")
			if err != nil {
				return
			}
			if writeCases(sub, []tcase{cases[idx]}) != nil {
				return
			}
			ex, se := runChild(o, sub, filepath.Join(sub, "res.json"), false)
			if ex != 0 && ex != 3 && (strings.Contains(se, "panic:") || strings.Contains(se, "fatal error:")) {
				mu.Lock()
				culprits = append(culprits, culprit{idx, se})
				mu.Unlock()
			}
		}(idx)
	}
	wg.Wait()
	for i := 0; i < len(done); i++ {
		res.Count(strconv.Itoa(i), "completed-before-crash", false)
	}
	if len(culprits) == 0 {
		os.RemoveAll(dir)
		res.Fatal(o.Out, fmt.Errorf("child process died (exit %d) and no case in flight reproduces it alone: %s", exit, tail(stderr, 1500)))
	}
	sort.Slice(culprits, func(i, j int) bool { return culprits[i].idx < culprits[j].idx })
	for _, cu := range culprits {
		c := cases[cu.idx]
		class, locus := classifyPanic(cu.stderr, &c)
		res.Count("crash/"+strconv.Itoa(cu.idx), "crash", true)
		res.Violate(common.Violation{Signature: "C07:" + class + ":" + locus,
			What: "the receive path panics on this stream/partition (the process dies): " + firstLine(cu.stderr),
			Case: common.Case{Stream: "frame", Op: c, Impl: "panic: " + firstLine(cu.stderr)}})
	}
	res.Note("run aborted after a crash of the code under test; %d of %d cases had completed", len(done), len(cases))
	if err := res.Write(o.Out); err != nil {
		panic(err)
	}
}

func tail(s string, n int) string {
	if len(s) > n {
		return s[len(s)-n:]
	}
	return s
}

func firstLine(stderr string) string {
	for _, l := range strings.Split(stderr, "\n") {
		if strings.HasPrefix(l, "panic:") || strings.HasPrefix(l, "fatal error:") {
			if len(l) > 160 {
				l = l[:160]
			}
			return l
		}
	}
	return "process died"
}

func classifyPanic(stderr string, c *tcase) (class, locus string) {
	class = "panic"
	switch {
	case strings.Contains(stderr, "slice bounds out of range"):
		class = "panic-slice-bounds"
	case strings.Contains(stderr, "index out of range"):
		class = "panic-index"
	case strings.Contains(stderr, "makeslice"):
		class = "panic-makeslice"
	case strings.Contains(stderr, "fatal error:"):
		class = "fatal"
	}
	locus = locusOf(c)
	if strings.Contains(stderr, "protocol.TarsRequest") {
		locus = "TarsRequest"
	}
	return
}

// opOf: what is written into a replay file for a connection case
func opOf(c *tcase) *tcase {
	if c.parent != nil {
		return c.parent
	}
	return c
}

func locusOf(c *tcase) string {
	if c.Kind == "req" {
		return "TarsRequest"
	}
	if c.Side == "client" {
		return "connection.recv"
	}
	return "tcpHandler.recv"
}

func readJournal(dir string) (started, done map[int]bool) {
	started, done = map[int]bool{}, map[int]bool{}
	b, _ := os.ReadFile(filepath.Join(dir, "journal"))
	for _, l := range strings.Split(string(b), "\n") {
		f := strings.Fields(l)
		if len(f) != 2 {
			continue
		}
		i, err := strconv.Atoi(f[1])
		if err != nil {
			continue
		}
		if f[0] == "S" {
			started[i] = true
		} else if f[0] == "D" {
			done[i] = true
		}
	}
	return
}

// ------------------------------------------------------------------------------------------
// child: executes the cases against the real code
// ------------------------------------------------------------------------------------------

type journal struct {
	mu sync.Mutex
	f  *os.File
}

func (j *journal) log(tag string, i int) {
	j.mu.Lock()
	fmt.Fprintf(j.f, "%s %d\n", tag, i)
	j.mu.Unlock()
}

var gOut string

func childMain(o *common.Opts, dir string) {
	gOut = o.Out
	go func(parent int) { // do not outlive the supervisor (vcheck kills only that on a timeout)
		for {
			time.Sleep(500 * time.Millisecond)
			if os.Getppid() != parent {
				os.Exit(4)
			}
		}
	}(os.Getppid())
	verbose := os.Getenv("C07_VERBOSE") != ""
	res := common.NewResult("C07", o)
	res.Streams = []string{"frame"}
	res.Rule = rule
	rogger.SetLevel(rogger.OFF)
	b, err := os.ReadFile(filepath.Join(dir, "cases.json"))
	if err != nil {
		res.Fatal(o.Out, err)
	}
	var cases []tcase
	if err := json.Unmarshal(b, &cases); err != nil {
		res.Fatal(o.Out, err)
	}
	jf, err := os.OpenFile(filepath.Join(dir, "journal"), os.O_CREATE|os.O_WRONLY|os.O_APPEND, 0o644)
	if err != nil {
		res.Fatal(o.Out, err)
	}
	jr := &journal{f: jf}

	m, err := common.StartModel(o.Model, "frame")
	if err != nil {
		res.Fatal(o.Out, err)
	}
	defer m.Close()

	// decode the chunks once
	chunks := make([][][]byte, len(cases))
	totals := make([]int, len(cases))
	for i, c := range cases {
		for _, s := range c.Chunks {
			bs, err := parseBytes(s)
			if err != nil {
				res.Fatal(o.Out, fmt.Errorf("case %d: %v", i, err))
			}
			chunks[i] = append(chunks[i], bs)
			totals[i] += len(bs)
		}
	}

	connChunks := map[int][][][]byte{}
	for i, c := range cases {
		if c.Kind != "reconn" {
			continue
		}
		if len(c.Ends) != len(c.Conns) || len(c.Conns) == 0 {
			res.Fatal(o.Out, fmt.Errorf("case %d: reconn needs one end per connection", i))
		}
		for _, conn := range c.Conns {
			var cs [][]byte
			for _, s := range conn {
				bs, err := parseBytes(s)
				if err != nil {
					res.Fatal(o.Out, fmt.Errorf("case %d: %v", i, err))
				}
				cs = append(cs, bs)
			}
			connChunks[i] = append(connChunks[i], cs)
		}
	}
	sessOuts := make([][]outcome, len(cases))

	// groups by maximum length (a package-level variable of package protocol: one value at a time)
	var order []int64
	groups := map[int64][]int{}
	nServer := map[string]int{}
	for i, c := range cases {
		if _, ok := groups[c.MaxLen]; !ok {
			order = append(order, c.MaxLen)
		}
		groups[c.MaxLen] = append(groups[c.MaxLen], i)
	}
	maxPar := map[string]int{}
	for _, idxs := range groups {
		cnt := map[string]int{}
		for _, i := range idxs {
			if cases[i].Kind == "conn" || cases[i].Kind == "reconn" {
				k := cases[i].Side + "/" + cases[i].Mode
				cnt[k]++
			}
		}
		for k, v := range cnt {
			if v > maxPar[k] {
				maxPar[k] = v
			}
		}
	}
	_ = nServer
	// worker pools
	srvPool := map[string]chan *server{}
	for _, mode := range []string{"pool1", "go", "rt"} {
		n := maxPar["server/"+mode]
		if n > 56 {
			n = 56
		}
		if n == 0 {
			continue
		}
		srvPool[mode] = make(chan *server, n)
		for k := 0; k < n; k++ {
			s, err := startServer(mode)
			if err != nil {
				res.Fatal(o.Out, fmt.Errorf("cannot start a TarsServer: %v", err))
			}
			srvPool[mode] <- s
		}
	}
	nCli := maxPar["client/plain"] + maxPar["client/rt"]
	if nCli > 48 {
		nCli = 48
	}
	lnPool := make(chan net.Listener, nCli+1)
	for k := 0; k < nCli+1; k++ {
		ln, err := net.Listen("tcp", "127.0.0.1:0")
		if err != nil {
			res.Fatal(o.Out, err)
		}
		lnPool <- ln
	}

	outs := make([]outcome, len(cases))
	reqAns := make([]string, len(cases))
	ran := make([]bool, len(cases))
	var stalls int32
	for _, ml := range order {
		protocol.SetMaxPackageLength(int(ml))
		var wg sync.WaitGroup
		for _, i := range groups[ml] {
			c := &cases[i]
			if c.Kind == "req" {
				jr.log("S", i)
				reqAns[i] = implReq(chunks[i][0])
				ran[i] = true
				jr.log("D", i)
				continue
			}
			if c.Kind == "iso" {
				if atomic.LoadInt32(&stalls) >= 2 {
					continue
				}
				wg.Add(1)
				go func(i int, c *tcase) {
					defer wg.Done()
					jr.log("S", i)
					mi := int32(1)
					if c.Mode == "go" {
						mi = 0
					}
					problem, err := runIsolation(mi, chunks[i][0], chunks[i][1], chunks[i][2])
					if err != nil {
						outs[i].Err = err.Error()
					}
					reqAns[i] = problem
					if problem != "" {
						atomic.AddInt32(&stalls, 1)
					}
					ran[i] = true
					jr.log("D", i)
				}(i, c)
				continue
			}
			if c.Kind == "reconn" {
				if atomic.LoadInt32(&stalls) >= 6 {
					continue
				}
				wg.Add(1)
				go func(i int, c *tcase) {
					defer wg.Done()
					if c.Side == "server" {
						pool, ok := srvPool[c.Mode]
						if !ok {
							sessOuts[i] = []outcome{{Err: "unknown server mode " + c.Mode}}
							ran[i] = true
							return
						}
						s := <-pool
						jr.log("S", i)
						sessOuts[i] = runServerSession(s, connChunks[i], c.Ends)
						jr.log("D", i)
						pool <- s
					} else {
						jr.log("S", i)
						sessOuts[i] = runClientSession(nil, c.Mode, connChunks[i], c.Ends)
						jr.log("D", i)
					}
					ran[i] = true
					for _, so := range sessOuts[i] {
						if so.Runaway || so.CloseTimeout {
							atomic.AddInt32(&stalls, 1)
						}
					}
				}(i, c)
				continue
			}
			if atomic.LoadInt32(&stalls) >= 6 {
				continue // the code under test hangs: enough evidence, do not wait for every case
			}
			wg.Add(1)
			go func(i int, c *tcase) {
				defer wg.Done()
				if c.Side == "server" {
					pool, ok := srvPool[c.Mode]
					if !ok {
						outs[i].Err = "unknown server mode " + c.Mode
						ran[i] = true
						return
					}
					s := <-pool
					jr.log("S", i)
					outs[i] = runServerCase(s, chunks[i], totals[i])
					jr.log("D", i)
					pool <- s
				} else {
					ln := <-lnPool
					jr.log("S", i)
					outs[i] = runClientCase(ln, c.Mode, chunks[i], totals[i])
					jr.log("D", i)
					lnPool <- ln
				}
				ran[i] = true
				if outs[i].Runaway || outs[i].CloseTimeout {
					atomic.AddInt32(&stalls, 1)
				}
			}(i, c)
		}
		wg.Wait()
	}
	protocol.SetMaxPackageLength(defaultMax)

	// the model on the same cases; where the reads actually seen by the loop differ from the
	// scripted chunks (a chunk larger than the 4 KiB read buffer, or the OS split/merged a
	// segment), additionally on the reads actually seen
	var lines []string
	var lineOf []int
	extra := map[int]int{}
	for i := range cases {
		if !ran[i] {
			continue
		}
		if cases[i].Kind == "iso" {
			checkIso(&cases[i], outs[i].Err, reqAns[i], res, verbose)
			continue
		}
		lineOf = append(lineOf, i)
		lines = append(lines, cases[i].modelLine())
	}
	nMain := len(lines)
	for i := range cases {
		c := &cases[i]
		if !ran[i] || c.Kind != "conn" || totals[i] > 70000 || len(outs[i].Reads) > 3000 {
			continue
		}
		if obsReads := splitByReads(chunks[i], outs[i].Reads); obsReads != nil {
			cc := *c
			cc.Chunks = obsReads
			extra[i] = len(lines)
			lines = append(lines, cc.modelLine())
		}
	}
	ans, err := m.Batch(lines)
	if err != nil {
		res.Fatal(o.Out, fmt.Errorf("model driver: %v", err))
	}
	for k := 0; k < nMain; k++ {
		i := lineOf[k]
		extraAns := ""
		if e, ok := extra[i]; ok {
			extraAns = ans[e]
		}
		if cases[i].Kind == "req" {
			checkReq(&cases[i], chunks[i][0], reqAns[i], ans[k], res, verbose)
		} else if cases[i].Kind == "reconn" {
			checkSession(&cases[i], connChunks[i], sessOuts[i], ans[k], res, verbose)
		} else {
			checkConn(&cases[i], chunks[i], &outs[i], ans[k], extraAns, res, verbose)
		}
	}
	skipped := 0
	for i := range cases {
		if !ran[i] {
			skipped++
		}
	}
	if skipped > 0 {
		res.Note("%d cases skipped after %d runs that hit a time-out (hang, or a connection that was not closed)", skipped, stalls)
	}
	if err := res.Write(o.Out); err != nil {
		panic(err)
	}
}

// splitByReads re-partitions the scripted stream by the read sizes the loop actually saw; nil when
// they coincide with the scripted chunks (ignoring empty ones) or do not add up.
func splitByReads(chunks [][]byte, reads []int) []string {
	var stream []byte
	var sizes []int
	for _, c := range chunks {
		stream = append(stream, c...)
		if len(c) > 0 {
			sizes = append(sizes, len(c))
		}
	}
	// after a protocol error the remaining chunks are not sent: a prefix is "as scripted"
	if len(reads) <= len(sizes) {
		same := true
		for k, r := range reads {
			if sizes[k] != r {
				same = false
				break
			}
		}
		if same {
			return nil
		}
	}
	sum := 0
	for _, r := range reads {
		sum += r
	}
	if sum > len(stream) || len(reads) == 0 {
		return nil
	}
	var out []string
	p := 0
	for _, r := range reads {
		out = append(out, compact(stream[p:p+r]))
		p += r
	}
	return out
}

// ---- direct TarsRequest ----

func implReq(buf []byte) (ans string) {
	defer func() {
		if r := recover(); r != nil {
			ans = "panic"
		}
	}()
	n, st := protocol.TarsRequest(buf)
	n1, st1 := realServerProto.ParsePackage(buf)
	n2, st2 := realClientProto.ParsePackage(buf)
	if n1 != n || st1 != st || n2 != n || st2 != st {
		return fmt.Sprintf("wrappers-differ %d %d / %d %d / %d %d", n, st, n1, st1, n2, st2)
	}
	return fmt.Sprintf("ret %d %d", n, st)
}

// refReq: the specification of the length-prefix check, written independently of the model.
func refReq(maxLen int64, buf []byte) string {
	if len(buf) < 4 {
		return fmt.Sprintf("ret 0 %d", transport.PackageLess)
	}
	l := int64(buf[0])<<24 | int64(buf[1])<<16 | int64(buf[2])<<8 | int64(buf[3])
	if l < 4 || l > maxLen {
		return fmt.Sprintf("ret 0 %d", transport.PackageError)
	}
	if int64(len(buf)) < l {
		return fmt.Sprintf("ret 0 %d", transport.PackageLess)
	}
	return fmt.Sprintf("ret %d %d", l, transport.PackageFull)
}

func checkReq(c *tcase, buf []byte, impl, model string, res *common.Result, verbose bool) {
	want := refReq(c.MaxLen, buf)
	if verbose {
		fmt.Printf("model:  %s\nimpl:   %s\noracle: %s\n", model, impl, want)
	}
	key := fmt.Sprintf("req/%d/%s", c.MaxLen, c.Chunks[0])
	if len(key) > 100 {
		key = key[:100]
	}
	res.Count(key, "req:"+strings.Fields(want)[2], len(buf) >= 4)
	if model != common.NoModel && model != impl {
		res.Diverge(common.Case{Stream: "frame", Op: c, Model: model, Impl: impl})
	}
	if impl != want {
		class := "wrong-value"
		if impl == "panic" {
			class = "panic"
		}
		res.Violate(common.Violation{Signature: "C07:" + class + ":TarsRequest", What: "TarsRequest answers " + impl + ", the length-prefix rule demands " + want,
			Case: common.Case{Stream: "frame", Op: c, Model: model, Impl: impl, Note: "expected " + want}})
	}
}

// ---- connection histories ----

// checkSession: every connection of the history is checked like a single connection - against the
// model's answer for that connection (the model starts every connection with `reconnect`) and
// against the oracle: exactly the complete packets sent on THAT connection, nothing carried over.
func checkSession(c *tcase, conns [][][]byte, outs []outcome, model string, res *common.Result, verbose bool) {
	var parts []string
	if model == common.NoModel {
		for range conns {
			parts = append(parts, common.NoModel)
		}
	} else {
		parts = strings.Split(model, " | ")
	}
	if len(parts) != len(conns) {
		res.Diverge(common.Case{Stream: "frame", Op: c, Model: trunc(model), Impl: fmt.Sprintf("%d connections", len(conns))})
		return
	}
	if verbose {
		fmt.Printf("history of one %s: %d connections, ended by the peer with %v\n", c.Side, len(conns), c.Ends)
	}
	for k := range conns {
		if k >= len(outs) || (outs[k].Status == "" && outs[k].Err == "") {
			break // not run: an earlier connection hung
		}
		cc := tcase{Kind: "conn", Side: c.Side, Mode: c.Mode, MaxLen: c.MaxLen, Chunks: c.Conns[k],
			Gen: "reconnect", Chk: fmt.Sprintf("conn%d-after-%s", k+1, prevEnd(c, k)), parent: c}
		if k > 0 {
			cc.suffix = "/reconnect"
		}
		checkConn(&cc, conns[k], &outs[k], parts[k], "", res, verbose)
	}
}

func prevEnd(c *tcase, k int) string {
	if k == 0 {
		return "start"
	}
	return c.Ends[k-1]
}

// ---- isolation ----

func checkIso(c *tcase, err, problem string, res *common.Result, verbose bool) {
	if err != "" {
		res.Fatal(gOut, fmt.Errorf("isolation case could not be run: %s", err))
	}
	if verbose {
		fmt.Printf("impl: %q (empty = three connections on one server, one sends an illegal length, the others keep working)\n", problem)
	}
	res.Count(fmt.Sprintf("iso/%d/%s", c.MaxLen, strings.Join(c.Chunks, " ")), "isolation:"+c.Mode, true)
	res.TracesValidated++
	if problem != "" {
		class := "wrong-close"
		if strings.Contains(problem, "was not closed") {
			class = "not-closed"
		}
		res.Violate(common.Violation{Signature: "C07:" + class + ":tcpHandler.recv/other-connection", What: problem,
			Case: common.Case{Stream: "frame", Op: c, Impl: problem}})
	}
}

// ---- connections ----

// refSplit: the specification of the framing, written independently of the model: the packets a
// receiver must hand over, whether an illegal length prefix was seen, and the bytes left.
func refSplit(stream []byte, maxLen int64) (pkts [][]byte, closed bool, rest []byte) {
	for {
		if len(stream) < 4 {
			return pkts, false, stream
		}
		l := int64(stream[0])<<24 | int64(stream[1])<<16 | int64(stream[2])<<8 | int64(stream[3])
		if l < 4 || l > maxLen {
			return pkts, true, stream
		}
		if int64(len(stream)) < l {
			return pkts, false, stream
		}
		pkts = append(pkts, stream[:l])
		stream = stream[l:]
	}
}

func sums(ps [][]byte) []string {
	out := make([]string, len(ps))
	for i, p := range ps {
		out[i] = summary(p)
	}
	return out
}

func sameSeq(a, b [][]byte) bool {
	if len(a) != len(b) {
		return false
	}
	for i := range a {
		if !bytes.Equal(a[i], b[i]) {
			return false
		}
	}
	return true
}

func sortedCopy(a [][]byte) [][]byte {
	c := append([][]byte(nil), a...)
	sort.SliceStable(c, func(i, j int) bool { return bytes.Compare(c[i], c[j]) < 0 })
	return c
}

func sameMultiset(a, b [][]byte) bool { return sameSeq(sortedCopy(a), sortedCopy(b)) }

func ordered(c *tcase) bool { return c.Side == "server" && (c.Mode == "pool1" || c.Mode == "rt") }

func checkConn(c *tcase, chunks [][]byte, out *outcome, model, modelObserved string, res *common.Result, verbose bool) {
	var stream []byte
	for _, ch := range chunks {
		stream = append(stream, ch...)
	}
	locus := locusOf(c) + c.suffix
	if out.Err != "" {
		res.Fatal(gOut, fmt.Errorf("case could not be run: %s", out.Err))
	}
	// oracle: the sent packet list
	want, wantClosed, _ := refSplit(stream, c.MaxLen)
	if c.Gen != "random-bytes" && c.Gen != "" && (c.Want != nil || c.Closed) {
		var gw [][]byte
		for _, w := range c.Want {
			gw = append(gw, mustBytes(w))
		}
		if !sameSeq(gw, want) || wantClosed != c.Closed {
			res.Fatal(gOut, fmt.Errorf("harness self-check: reference splitter and generator disagree on %s", c.modelLine()))
		}
	}

	// canonical implementation result
	deliv := out.Delivered
	if !ordered(c) {
		// Recv / unpooled Invoke run in their own goroutines: arrival order is not defined; the
		// order in which the loop extracted the packets is (fullSeq)
		if sameMultiset(deliv, out.FullSeq) {
			deliv = out.FullSeq
		} else {
			deliv = sortedCopy(deliv)
		}
	}
	impl := fmt.Sprintf("st=%s buf=%s trace=%s pk=%s", out.Status, summary(out.Buf), commaSep(out.Trace), commaSep(sums(deliv)))
	implFinal := fmt.Sprintf("st=%s buf=%s pk=%s", out.Status, summary(out.Buf), commaSep(sums(deliv)))
	if verbose {
		fmt.Printf("case:   %s\nmodel:  %s\nimpl:   %s\noracle: closed=%v pk=%s\nreads seen by the loop: %v\nclosed by the side under test: %v\n",
			trunc(c.modelLine()), model, impl, wantClosed, commaSep(sums(want)), out.Reads, out.ClosedByIt)
		if out.Stalled != "" || len(out.Anomalies) > 0 {
			fmt.Printf("stalled: %q anomalies: %v\n", out.Stalled, out.Anomalies)
		}
	}

	key := fmt.Sprintf("%s/%d/%d/%s", c.Side, c.MaxLen, fnv1a32(stream), strings.Join(c.Chunks, " "))
	if len(key) > 160 {
		key = fmt.Sprintf("%s/%d/%d/%d/%d", c.Side, c.MaxLen, fnv1a32(stream), len(c.Chunks), fnv1a32([]byte(strings.Join(c.Chunks, " "))))
	}
	res.Count(key, "conn:"+c.Side+":"+c.Gen, len(want) > 0 || wantClosed)
	res.Histogram["chunking:"+c.Chk]++
	res.Histogram[fmt.Sprintf("mode:%s/%s", c.Side, c.Mode)]++
	if modelObserved == "" {
		res.Histogram["reads:as-scripted"]++
	} else {
		res.Histogram["reads:differ-from-script"]++
		fits := true
		for _, ch := range chunks {
			if len(ch) > 4096 {
				fits = false
			}
		}
		if fits {
			res.Histogram["reads:differ-though-chunks-fit-the-read-buffer"]++
			if res.Histogram["reads:differ-though-chunks-fit-the-read-buffer"] <= 3 {
				res.Note("reads seen %v for scripted %s", out.Reads, trunc(c.modelLine()))
			}
		}
	}
	res.Sample(map[string]string{"op": trunc(c.modelLine()), "impl": trunc(impl)})
	res.TracesValidated++

	// correspondence
	if out.Stalled != "" {
		if model != common.NoModel && dropTrace(model) != implFinal {
			res.Diverge(common.Case{Stream: "frame", Op: opOf(c), Model: trunc(dropTrace(model)), Impl: trunc(implFinal),
				Note: "exact chunk control was lost (" + out.Stalled + "): final results compared"})
		}
	} else if model != common.NoModel && model != impl {
		res.Diverge(common.Case{Stream: "frame", Op: opOf(c), Model: trunc(model), Impl: trunc(impl)})
	}
	if modelObserved != "" && modelObserved != common.NoModel && dropTrace(modelObserved) != implFinal {
		res.Diverge(common.Case{Stream: "frame", Op: opOf(c), Model: trunc(dropTrace(modelObserved)), Impl: trunc(implFinal),
			Note: fmt.Sprintf("model fed with the reads the loop actually saw: %v", out.Reads)})
	}

	// oracle on the implementation
	viol := func(class, what string) {
		res.Violate(common.Violation{Signature: "C07:" + class + ":" + locus, What: what,
			Case: common.Case{Stream: "frame", Op: opOf(c), Model: trunc(model), Impl: trunc(impl),
				Note: fmt.Sprintf("sent packets %s; illegal length sent: %v; closed by the side under test: %v; stalled: %q; anomalies: %v",
					trunc(commaSep(sums(want))), wantClosed, out.ClosedByIt, out.Stalled, out.Anomalies)}})
	}
	if out.Runaway {
		viol("hang", "the receive loop spins without consuming input")
		return
	}
	got := out.Delivered
	for _, p := range got {
		if int64(len(p)) > c.MaxLen {
			viol("oversize-accepted", fmt.Sprintf("a packet of %d bytes was handed over with maximum length %d", len(p), c.MaxLen))
			return
		}
		if len(p) < 4 {
			viol("undersize-accepted", fmt.Sprintf("a packet of %d bytes was handed over", len(p)))
			return
		}
	}
	if !wantClosed && out.Status == "c" {
		viol("wrong-close", "a legal length prefix was answered with PackageError: the connection is closed although every length prefix sent was legal")
		return
	}
	if !sameMultiset(got, want) {
		gs, ws := sortedCopy(got), sortedCopy(want)
		inWant := func(p []byte) int {
			n := 0
			for _, w := range ws {
				if bytes.Equal(w, p) {
					n++
				}
			}
			return n
		}
		inGot := func(p []byte) int {
			n := 0
			for _, g := range gs {
				if bytes.Equal(g, p) {
					n++
				}
			}
			return n
		}
		class, what := "packet-lost", "a sent packet was not handed over"
		for _, g := range gs {
			if inWant(g) == 0 {
				class, what = "packet-corrupted", "a packet that was never sent was handed over (bytes lost, duplicated or carried into a neighbour)"
				break
			}
			if inGot(g) > inWant(g) {
				class, what = "packet-duplicated", "a packet was handed over more often than it was sent"
				break
			}
		}
		viol(class, what)
		return
	}
	if ordered(c) && !sameSeq(got, want) {
		viol("packet-reordered", "packets reached Invoke in another order than sent (single worker)")
		return
	}
	if !sameSeq(out.FullSeq, want) {
		viol("packet-reordered", "the loop extracted the packets in another order than sent")
		return
	}
	if wantClosed && !out.ClosedByIt {
		viol("not-closed", "an illegal length prefix did not close the connection")
		return
	}
	if !wantClosed && (out.ClosedByIt || out.Status == "c") {
		viol("wrong-close", "the connection was closed although every length prefix sent was legal")
		return
	}
	if out.Stalled != "" {
		// every sent packet arrived, in order, once; only the exact chunk control was lost
		res.Histogram["chunk-control-lost"]++
	}
}

func dropTrace(s string) string {
	f := strings.Fields(s)
	var keep []string
	for _, x := range f {
		if !strings.HasPrefix(x, "trace=") {
			keep = append(keep, x)
		}
	}
	return strings.Join(keep, " ")
}

func trunc(s string) string {
	if len(s) > 300 {
		return s[:300] + "..."
	}
	return s
}
