package main

import (
	"bytes"
	"context"
	"fmt"
	"net"
	"runtime"
	"sync"
	"time"

	"github.com/TarsCloud/TarsGo/tars"
	"github.com/TarsCloud/TarsGo/tars/protocol"
	"github.com/TarsCloud/TarsGo/tars/protocol/res/basef"
	"github.com/TarsCloud/TarsGo/tars/transport"
	"github.com/TarsCloud/TarsGo/tars/util/current"
)

// ---------------------------------------------------------------------------------------------
// Observation of one connection's receive loop. The loops under test are the real
// tcpHandler.recv / connection.recv; the only thing we supply is the protocol object they call:
// ParsePackage (forwarded to the real tars ParsePackage wrappers, and observed), Invoke / Recv
// (recorded), DoClose (recorded). Because the loop calls ParsePackage(currBuffer) after every
// successful Read, the observer knows exactly how many bytes the loop has read and whether its
// inner loop has come to rest: this is what lets the writer control the chunking exactly, without
// any hook in /repo and without sleeping.
// ---------------------------------------------------------------------------------------------

type obs struct {
	mu sync.Mutex
	ch chan struct{} // poked on every event

	streamLen int // total bytes this case may send (runaway guard)
	lastEvent time.Time

	seen      int   // bytes the loop has read so far (extracted + len(currBuffer))
	extracted int   // sum of pkgLen of all PackageFull answers
	reads     []int // sizes of the successful Reads as seen through ParsePackage
	parses    int
	fullSeq   [][]byte // copy of buff[:pkgLen] at every PackageFull answer, in order
	quiescent bool     // the inner loop will stop after the last answer
	errored   bool     // PackageError was answered
	lastBuf   []byte   // copy of the buffer at the last quiescent answer
	anomalies []string

	delivered [][]byte // slices exactly as handed to Invoke / Recv (NOT copied: aliasing must show)
	closed    bool     // server: DoClose was called
	runaway   bool
}

func newObs(streamLen int) *obs {
	return &obs{ch: make(chan struct{}, 1), streamLen: streamLen, quiescent: true}
}

func (o *obs) poke() {
	select {
	case o.ch <- struct{}{}:
	default:
	}
}

// onParse is called with the real answer of ParsePackage(buff).
func (o *obs) onParse(buff []byte, n, status int) {
	o.mu.Lock()
	o.lastEvent = time.Now()
	o.parses++
	if o.parses > 8*o.streamLen+64 {
		// the real loop is spinning (e.g. a zero-length "full" packet): park it for good
		o.runaway = true
		o.mu.Unlock()
		o.poke()
		select {}
	}
	total := o.extracted + len(buff)
	if total > o.seen {
		o.reads = append(o.reads, total-o.seen)
		o.seen = total
	} else if total < o.seen && len(o.anomalies) < 4 {
		o.anomalies = append(o.anomalies, fmt.Sprintf("buffer shrank: extracted=%d len=%d seen=%d", o.extracted, len(buff), o.seen))
	}
	switch status {
	case transport.PackageFull:
		if n >= 0 && n <= len(buff) {
			o.fullSeq = append(o.fullSeq, append([]byte(nil), buff[:n]...))
			o.extracted += n
			o.quiescent = n == len(buff)
			if o.quiescent {
				o.lastBuf = nil
			}
		} else {
			o.anomalies = append(o.anomalies, fmt.Sprintf("PackageFull with pkgLen=%d len=%d", n, len(buff)))
			o.quiescent = true
		}
	case transport.PackageLess:
		o.quiescent = true
		o.lastBuf = append([]byte(nil), buff...)
	default:
		o.errored = true
		o.quiescent = true
		o.lastBuf = append([]byte(nil), buff...)
	}
	o.mu.Unlock()
	o.poke()
}

func (o *obs) onDeliver(pkg []byte) {
	o.mu.Lock()
	o.lastEvent = time.Now()
	o.delivered = append(o.delivered, pkg)
	o.mu.Unlock()
	o.poke()
}

func (o *obs) onClose() {
	o.mu.Lock()
	o.closed = true
	o.mu.Unlock()
	o.poke()
}

// wait blocks until cond (evaluated under the lock) holds or the timeout expires.
func (o *obs) wait(d time.Duration, cond func() bool) bool {
	deadline := time.NewTimer(d)
	defer deadline.Stop()
	for {
		o.mu.Lock()
		ok := cond()
		o.mu.Unlock()
		if ok {
			return true
		}
		select {
		case <-o.ch:
		case <-deadline.C:
			o.mu.Lock()
			ok = cond()
			o.mu.Unlock()
			return ok
		}
	}
}

// ---------------------------------------------------------------------------------------------
// protocol objects handed to the real transport layer
// ---------------------------------------------------------------------------------------------

// realServerParse is the server side ParsePackage of the tars protocol (tars/tarsprotocol.go).
var realServerProto = &tars.Protocol{}

// realClientParse is what AdapterProxy.ParsePackage forwards to (servantProxy.proto is a
// protocol.TarsProtocol unless the user installs another one).
var realClientProto = &protocol.TarsProtocol{}

// srvProto IS a *tars.Protocol as far as the transport layer can tell: the real protocol object is
// embedded, so every optional interface the receive loop may probe for on its protocol (type
// assertion) is answered by the real tars.Protocol; only the five ServerProtocol methods are
// overridden (ParsePackage forwards to the real one).
type srvProto struct {
	*tars.Protocol
	mu   sync.Mutex
	cur  *obs
	port string // client port of the current case's connection
}

func (s *srvProto) get() *obs {
	s.mu.Lock()
	defer s.mu.Unlock()
	return s.cur
}

func (s *srvProto) match(ctx context.Context) *obs {
	p, _ := current.GetClientPortFromContext(ctx)
	s.mu.Lock()
	defer s.mu.Unlock()
	if s.cur != nil && p == s.port {
		return s.cur
	}
	return nil
}

func (s *srvProto) ParsePackage(buff []byte) (int, int) {
	n, st := realServerProto.ParsePackage(buff)
	if o := s.get(); o != nil {
		o.onParse(buff, n, st)
	}
	return n, st
}

func (s *srvProto) Invoke(ctx context.Context, pkg []byte) []byte {
	current.SetPacketTypeFromContext(ctx, basef.TARSONEWAY) // no response is written
	if o := s.match(ctx); o != nil {
		o.onDeliver(pkg)
	}
	return nil
}

func (s *srvProto) InvokeTimeout(pkg []byte) []byte { return nil }
func (s *srvProto) GetCloseMsg() []byte             { return nil }
func (s *srvProto) DoClose(ctx context.Context) {
	if o := s.match(ctx); o != nil {
		o.onClose()
	}
}

// cliProto is the protocol object of ONE TarsClient; the observer is exchanged for every
// connection of that client (reconnect histories).
type cliProto struct {
	mu sync.Mutex
	o  *obs
}

func (c *cliProto) get() *obs {
	c.mu.Lock()
	defer c.mu.Unlock()
	return c.o
}
func (c *cliProto) set(o *obs) {
	c.mu.Lock()
	c.o = o
	c.mu.Unlock()
}

func (c *cliProto) ParsePackage(buff []byte) (int, int) {
	n, st := realClientProto.ParsePackage(buff)
	c.get().onParse(buff, n, st)
	return n, st
}
func (c *cliProto) Recv(pkg []byte) { c.get().onDeliver(pkg) }

// ---------------------------------------------------------------------------------------------
// servers (real transport.TarsServer, one connection at a time each)
// ---------------------------------------------------------------------------------------------

type server struct {
	mode  string
	addr  string
	proto *srvProto
	srv   *transport.TarsServer
}

func freeAddr() string {
	l, err := net.Listen("tcp", "127.0.0.1:0")
	if err != nil {
		panic(err)
	}
	a := l.Addr().String()
	l.Close()
	return a
}

func startServer(mode string) (*server, error) {
	var lastErr error
	for try := 0; try < 8; try++ {
		p := &srvProto{Protocol: realServerProto}
		conf := &transport.TarsServerConf{
			Proto: "tcp", Address: freeAddr(), IdleTimeout: time.Hour, QueueCap: 4096,
			TCPReadBuffer: 128 * 1024, TCPWriteBuffer: 128 * 1024, TCPNoDelay: true,
		}
		switch mode {
		case "pool1": // one worker: Invoke order = delivery order
			conf.MaxInvoke = 1
		case "go": // one goroutine per packet
		case "rt": // read deadline that fires between chunks
			conf.MaxInvoke = 1
			conf.ReadTimeout = 25 * time.Millisecond
		}
		s := transport.NewTarsServer(p, conf)
		if err := s.Listen(); err != nil {
			lastErr = err
			continue
		}
		go s.Serve()
		return &server{mode: mode, addr: conf.Address, proto: p, srv: s}, nil
	}
	return nil, lastErr
}

// outcome is everything observed of one case.
type outcome struct {
	Trace        []string // per scripted chunk: "<packets so far><o|c>"
	Status       string   // o | c
	Buf          []byte
	FullSeq      [][]byte
	Delivered    [][]byte
	Reads        []int
	ClosedByIt   bool // the side under test closed the connection by itself
	Stalled      string
	CloseTimeout bool // waited the full close time-out in vain
	Runaway      bool
	Anomalies    []string
	Err          string // harness-level trouble (dial failed, ...)
}

const (
	syncTimeout = 12 * time.Second
	// softSync: how long the writer waits for the loop to show that it consumed a chunk before it
	// gives up exact chunk control for the rest of the connection (normally microseconds)
	softSync      = 2 * time.Second
	settleTimeout = 4 * time.Second
	closeTimeout  = 20 * time.Second
)

// drive writes the chunks to w, waiting after each until the loop under test has consumed it.
func drive(o *obs, w net.Conn, chunks [][]byte, pauses bool, out *outcome) {
	written := 0
	stopped := false
	pausesLeft := 3
	for i, c := range chunks {
		if !stopped && len(c) > 0 {
			if pauses && pausesLeft > 0 && i > 0 && i%2 == 1 {
				pausesLeft--
				time.Sleep(40 * time.Millisecond) // let the read deadline fire (not a synchronisation)
			}
			if _, err := w.Write(c); err != nil {
				out.Anomalies = append(out.Anomalies, fmt.Sprintf("write chunk %d: %v", i, err))
				stopped = true
			} else {
				written += len(c)
				ok := true
				if out.Stalled == "" { // (once exact control is lost, just keep writing)
					ok = o.wait(softSync, func() bool {
						return o.runaway || o.errored || (o.seen >= written && o.quiescent)
					})
				}
				if !ok && out.Stalled == "" {
					// the loop did not show (through ParsePackage) that it consumed the chunk. That
					// alone is no violation (a loop may legitimately not parse while it knows the
					// head packet is incomplete): go on without exact chunk control; the packets
					// handed over in the end decide.
					o.mu.Lock()
					out.Stalled = fmt.Sprintf("chunk %d: written=%d seen=%d quiescent=%v parses=%d", i, written, o.seen, o.quiescent, o.parses)
					o.mu.Unlock()
				}
			}
		}
		o.mu.Lock()
		st := "o"
		if o.errored {
			st = "c"
			stopped = true
		}
		if o.runaway {
			stopped = true
		}
		out.Trace = append(out.Trace, fmt.Sprintf("%d%s", len(o.fullSeq), st))
		o.mu.Unlock()
	}
	if out.Stalled != "" {
		// give the loop time to work off everything that was written
		// (until it shows so, or has been silent for a while)
		t0 := time.Now()
		for time.Since(t0) < settleTimeout {
			if o.wait(100*time.Millisecond, func() bool { return o.runaway || o.errored || (o.seen >= written && o.quiescent) }) {
				break
			}
			o.mu.Lock()
			quiet := time.Since(o.lastEvent)
			o.mu.Unlock()
			if quiet > 800*time.Millisecond && time.Since(t0) > 800*time.Millisecond {
				break
			}
		}
	}
}

func finish(o *obs, out *outcome) {
	o.mu.Lock()
	defer o.mu.Unlock()
	out.Status = "o"
	if o.errored {
		out.Status = "c"
	}
	out.Buf = o.lastBuf
	out.FullSeq = o.fullSeq
	out.Delivered = append([][]byte(nil), o.delivered...)
	out.Reads = append([]int(nil), o.reads...)
	out.Runaway = o.runaway
	out.Anomalies = append(out.Anomalies, o.anomalies...)
}

// peerReader consumes whatever the side under test writes and reports when it closed the connection.
func peerReader(c net.Conn) chan struct{} {
	done := make(chan struct{})
	go func() {
		buf := make([]byte, 4096)
		for {
			if _, err := c.Read(buf); err != nil {
				close(done)
				return
			}
		}
	}()
	return done
}

func isDone(ch chan struct{}) bool {
	select {
	case <-ch:
		return true
	default:
		return false
	}
}

func waitDone(ch chan struct{}, d time.Duration) bool {
	select {
	case <-ch:
		return true
	case <-time.After(d):
		return false
	}
}

// runServerCase: the harness is the TCP client of a real TarsServer.
func runServerCase(s *server, chunks [][]byte, total int) (out outcome) {
	return runServerConn(s, chunks, total, "fin")
}

// runServerSession: several connections, one after the other, to the SAME TarsServer (same
// tcpHandler); each ends as scripted ("fin": half-close, "rst": reset), possibly inside a packet.
func runServerSession(s *server, conns [][][]byte, ends []string) []outcome {
	outs := make([]outcome, len(conns))
	for k, chunks := range conns {
		total := 0
		for _, c := range chunks {
			total += len(c)
		}
		outs[k] = runServerConn(s, chunks, total, ends[k])
		if outs[k].Err != "" || outs[k].Runaway {
			break
		}
	}
	return outs
}

func runServerConn(s *server, chunks [][]byte, total int, end string) (out outcome) {
	o := newObs(total)
	conn, err := net.DialTimeout("tcp", s.addr, 5*time.Second)
	if err != nil {
		out.Err = "dial: " + err.Error()
		return
	}
	defer conn.Close()
	_, port, _ := net.SplitHostPort(conn.LocalAddr().String())
	s.proto.mu.Lock()
	s.proto.cur, s.proto.port = o, port
	s.proto.mu.Unlock()
	eof := peerReader(conn)

	drive(o, conn, chunks, s.mode == "rt", &out)

	o.mu.Lock()
	errored, runaway := o.errored, o.runaway
	o.mu.Unlock()
	switch {
	case runaway:
		// the receive goroutine is parked inside ParsePackage: nothing more will happen
	case errored:
		// the server must close the connection by itself
		out.ClosedByIt = o.wait(closeTimeout, func() bool { return o.closed }) && waitDone(eof, closeTimeout)
		out.CloseTimeout = !out.ClosedByIt
	default:
		o.mu.Lock()
		out.ClosedByIt = o.closed || isDone(eof)
		o.mu.Unlock()
		// end of stream: the loop sees EOF (or a reset), waits for its handlers, closes, calls DoClose
		if end == "rst" {
			conn.(*net.TCPConn).SetLinger(0)
			conn.Close()
		} else {
			conn.(*net.TCPConn).CloseWrite()
		}
		if !o.wait(closeTimeout, func() bool { return o.closed }) {
			out.Anomalies = append(out.Anomalies, "DoClose not observed after EOF")
			out.CloseTimeout = true
		}
	}
	// DoClose comes after numInvoke dropped to 0: every handler has run. Recv/Invoke are final.
	finish(o, &out)
	s.proto.mu.Lock()
	s.proto.cur = nil
	s.proto.mu.Unlock()
	return
}

// runClientCase: the harness is the TCP server a real TarsClient connects to.
func runClientCase(ln net.Listener, mode string, chunks [][]byte, total int) (out outcome) {
	return runClientSession(ln, mode, [][][]byte{chunks}, []string{"fin"})[0]
}

// runClientSession: ONE TarsClient, several connections one after the other. The scripted peer
// ends each connection as told ("fin": half-close, then the client closes; "rst": reset),
// wherever the scripted chunks end - possibly inside a packet. The client reconnects on the next
// Send (connection.ReConnect starts a new connection.recv).
func runClientSession(ln net.Listener, mode string, conns [][][]byte, ends []string) []outcome {
	outs := make([]outcome, len(conns))
	conf := &transport.TarsClientConf{Proto: "tcp", QueueLen: 16, IdleTimeout: time.Hour,
		WriteTimeout: 5 * time.Second, DialTimeout: 5 * time.Second}
	if mode == "rt" {
		conf.ReadTimeout = 25 * time.Millisecond
	}
	if ln == nil {
		// a history gets its own listener: a connection the client may open on its own account
		// (retry of its old sender) must not be mistaken for the next case's connection
		l, err := net.Listen("tcp", "127.0.0.1:0")
		if err != nil {
			outs[0].Err = "listen: " + err.Error()
			return outs
		}
		defer l.Close()
		ln = l
	}
	proto := &cliProto{}
	cl := transport.NewTarsClient(ln.Addr().String(), proto, conf)
	defer cl.Close()
	for k, chunks := range conns {
		total := 0
		for _, c := range chunks {
			total += len(c)
		}
		out := &outs[k]
		o := newObs(total)
		proto.set(o)
		// (re)connect: Send dials when the client knows its connection is gone. After a reset the
		// old sender may still swallow one request: keep asking until a new connection arrives.
		var conn net.Conn
		deadline := time.Now().Add(15 * time.Second)
		for conn == nil {
			if err := cl.Send([]byte{0, 0, 0, 4}); err != nil {
				out.Err = "client send: " + err.Error()
				return outs
			}
			wait := 10 * time.Second
			if k > 0 {
				wait = 300 * time.Millisecond
			}
			ln.(*net.TCPListener).SetDeadline(time.Now().Add(wait))
			c, err := ln.Accept()
			if err == nil {
				conn = c
			} else if time.Now().After(deadline) || k == 0 {
				out.Err = "accept: " + err.Error()
				return outs
			}
		}
		eof := peerReader(conn)

		drive(o, conn, chunks, mode == "rt", out)

		o.mu.Lock()
		errored, runaway := o.errored, o.runaway
		o.mu.Unlock()
		switch {
		case runaway:
		case errored:
			out.ClosedByIt = waitDone(eof, closeTimeout)
			out.CloseTimeout = !out.ClosedByIt
		case ends[k] == "rst":
			out.ClosedByIt = isDone(eof)
			conn.(*net.TCPConn).SetLinger(0)
		default:
			out.ClosedByIt = isDone(eof)
			conn.(*net.TCPConn).CloseWrite()
			if !waitDone(eof, closeTimeout) {
				out.Anomalies = append(out.Anomalies, "client did not close after EOF")
				out.CloseTimeout = true
			}
		}
		conn.Close()
		// the loop has returned (it closed the connection); every PackageFull answer started exactly
		// one `go Recv(pkg)`: wait for those goroutines, then give stray ones a chance to show up.
		if !runaway {
			o.wait(syncTimeout, func() bool { return len(o.delivered) >= len(o.fullSeq) })
		}
		for i := 0; i < 20; i++ {
			runtime.Gosched()
		}
		finish(o, out)
		if runaway || out.CloseTimeout {
			break
		}
	}
	return outs
}

// ---------------------------------------------------------------------------------------------
// "closes that connection only": several connections on ONE server; one of them sends an illegal
// length; the others must keep working.
// ---------------------------------------------------------------------------------------------

type isoProto struct {
	*tars.Protocol
	mu     sync.Mutex
	ch     chan struct{}
	got    map[string][][]byte // client port -> packets handed to Invoke
	closed map[string]bool
}

func (p *isoProto) poke() {
	select {
	case p.ch <- struct{}{}:
	default:
	}
}
func (p *isoProto) ParsePackage(buff []byte) (int, int) { return realServerProto.ParsePackage(buff) }
func (p *isoProto) Invoke(ctx context.Context, pkg []byte) []byte {
	current.SetPacketTypeFromContext(ctx, basef.TARSONEWAY)
	port, _ := current.GetClientPortFromContext(ctx)
	p.mu.Lock()
	p.got[port] = append(p.got[port], pkg)
	p.mu.Unlock()
	p.poke()
	return nil
}
func (p *isoProto) InvokeTimeout(pkg []byte) []byte { return nil }
func (p *isoProto) GetCloseMsg() []byte             { return nil }
func (p *isoProto) DoClose(ctx context.Context) {
	port, _ := current.GetClientPortFromContext(ctx)
	p.mu.Lock()
	p.closed[port] = true
	p.mu.Unlock()
	p.poke()
}
func (p *isoProto) wait(d time.Duration, cond func() bool) bool {
	t := time.NewTimer(d)
	defer t.Stop()
	for {
		p.mu.Lock()
		ok := cond()
		p.mu.Unlock()
		if ok {
			return true
		}
		select {
		case <-p.ch:
		case <-t.C:
			p.mu.Lock()
			ok = cond()
			p.mu.Unlock()
			return ok
		}
	}
}

// runIsolation returns "" when the property holds, else a description. bad is the illegal header.
func runIsolation(maxInvoke int32, good1, good2, bad []byte) (problem string, err error) {
	p := &isoProto{Protocol: realServerProto, ch: make(chan struct{}, 1), got: map[string][][]byte{}, closed: map[string]bool{}}
	var srv *transport.TarsServer
	var addr string
	for try := 0; ; try++ {
		conf := &transport.TarsServerConf{Proto: "tcp", Address: freeAddr(), IdleTimeout: time.Hour, QueueCap: 64,
			MaxInvoke: maxInvoke, TCPReadBuffer: 128 * 1024, TCPWriteBuffer: 128 * 1024, TCPNoDelay: true}
		srv = transport.NewTarsServer(p, conf)
		if e := srv.Listen(); e != nil {
			if try > 8 {
				return "", e
			}
			continue
		}
		addr = conf.Address
		break
	}
	go srv.Serve()
	dial := func() (net.Conn, string, chan struct{}, error) {
		c, e := net.DialTimeout("tcp", addr, 5*time.Second)
		if e != nil {
			return nil, "", nil, e
		}
		_, port, _ := net.SplitHostPort(c.LocalAddr().String())
		return c, port, peerReader(c), nil
	}
	a, pa, eofA, e := dial()
	if e != nil {
		return "", e
	}
	defer a.Close()
	b, pb, eofB, e := dial()
	if e != nil {
		return "", e
	}
	defer b.Close()
	c, pc, eofC, e := dial()
	if e != nil {
		return "", e
	}
	defer c.Close()
	count := func(port string) func() bool {
		return func() bool { return len(p.got[port]) >= 1 }
	}
	a.Write(good1)
	c.Write(good1[:2]) // C has half a header buffered while B misbehaves
	if !p.wait(syncTimeout, count(pa)) {
		return "first packet of the well-behaved connection was not delivered", nil
	}
	b.Write(bad)
	if !p.wait(closeTimeout, func() bool { return p.closed[pb] }) || !waitDone(eofB, closeTimeout) {
		return "the connection that sent the illegal length was not closed", nil
	}
	// the others go on
	a.Write(good2)
	c.Write(good1[2:])
	if !p.wait(syncTimeout, func() bool { return len(p.got[pa]) >= 2 && len(p.got[pc]) >= 1 }) {
		return "after another connection's protocol error, packets of the well-behaved connections are no longer delivered", nil
	}
	p.mu.Lock()
	okA := bytes.Equal(p.got[pa][0], good1) && bytes.Equal(p.got[pa][1], good2) && len(p.got[pa]) == 2
	okC := bytes.Equal(p.got[pc][0], good1) && len(p.got[pc]) == 1
	nb := len(p.got[pb])
	closedOthers := p.closed[pa] || p.closed[pc]
	p.mu.Unlock()
	if !okA || !okC || nb != 0 {
		return "packets of the well-behaved connections are wrong after another connection's protocol error", nil
	}
	if closedOthers || isDone(eofA) || isDone(eofC) {
		return "a well-behaved connection was closed by another connection's protocol error", nil
	}
	return "", nil
}
