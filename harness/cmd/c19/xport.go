// C19, transport-level stream: how tcpHandler / udpHandler submit request handlers to the pool.
//
// A real transport.TarsServer (stub protocol with gated Invoke) over loopback TCP and UDP, with a
// worker pool (MaxInvoke 1..4, several QueueCap), bursts larger than the pool (so handlers are
// queued), then
//
//	plain   : the gate opens, a second ungated wave follows; every parsed request's handler must run
//	          exactly once, at most MaxInvoke at a time; a clean Shutdown must make Serve return;
//	backlog : Shutdown is started while the backlog exists, one more packet/datagram arrives after
//	          the server was marked closed, then the gate opens: every handler that was submitted
//	          must still run exactly once, Serve must return after they drained, and no handler
//	          may start after Serve returned (the pool is released by then).
//
// "Submitted" is observed without looking into the package: the stub's ParsePackage returns
// PackageFull exactly once per request in the goroutine that submits the handler right afterwards.
// Nothing is asserted about timing; "must eventually" uses the generous hang timeout.
// The C/S/E history (C = parsed, about to be submitted) also goes through the pool LTS (admits).
package main

import (
	"context"
	"encoding/binary"
	"fmt"
	"math/rand"
	"net"
	"strconv"
	"sync"
	"sync/atomic"
	"time"

	"github.com/TarsCloud/TarsGo/tars/protocol/res/basef"
	"github.com/TarsCloud/TarsGo/tars/transport"
	"github.com/TarsCloud/TarsGo/tars/util/current"

	"verifharness/common"
)

const xpktLen = 12 // 4 byte big-endian total length, 4 byte request id, 4 byte flags (1 = wait at the gate)

type xproto struct {
	rec     *recorder
	gate    chan struct{}
	runs    []int32
	parsed  []int32
	running int64
	high    int64
	spin    []int
}

func (p *xproto) Invoke(ctx context.Context, pkg []byte) []byte {
	id := int(binary.BigEndian.Uint32(pkg[4:]))
	flags := binary.BigEndian.Uint32(pkg[8:])
	current.SetPacketTypeFromContext(ctx, basef.TARSONEWAY) // no response
	if id < 0 || id >= len(p.runs) {
		return nil
	}
	p.rec.add(evS, id)
	atomic.AddInt32(&p.runs[id], 1)
	r := atomic.AddInt64(&p.running, 1)
	for {
		h := atomic.LoadInt64(&p.high)
		if r <= h || atomic.CompareAndSwapInt64(&p.high, h, r) {
			break
		}
	}
	if flags&1 != 0 {
		<-p.gate
	}
	work(p.spin[id])
	atomic.AddInt64(&p.running, -1)
	p.rec.add(evE, id)
	return nil
}

func (p *xproto) ParsePackage(b []byte) (int, int) {
	if len(b) < 4 {
		return 0, transport.PackageLess
	}
	l := int(binary.BigEndian.Uint32(b))
	if l != xpktLen {
		return 0, transport.PackageError
	}
	if len(b) < l {
		return 0, transport.PackageLess
	}
	id := int(binary.BigEndian.Uint32(b[4:]))
	if id >= 0 && id < len(p.parsed) {
		p.rec.add(evC, id)
		atomic.AddInt32(&p.parsed[id], 1)
	}
	return l, transport.PackageFull
}

func (p *xproto) InvokeTimeout(pkg []byte) []byte { return nil }
func (p *xproto) GetCloseMsg() []byte             { return []byte{0, 0, 0, 4} }
func (p *xproto) DoClose(ctx context.Context)     {}

func xpacket(id int, gated bool) []byte {
	b := make([]byte, xpktLen)
	binary.BigEndian.PutUint32(b, xpktLen)
	binary.BigEndian.PutUint32(b[4:], uint32(id))
	if gated {
		binary.BigEndian.PutUint32(b[8:], 1)
	}
	return b
}

func freePort(proto string) (string, error) {
	if proto == "udp" {
		c, err := net.ListenUDP("udp4", &net.UDPAddr{IP: net.IPv4(127, 0, 0, 1)})
		if err != nil {
			return "", err
		}
		a := c.LocalAddr().String()
		c.Close()
		return a, nil
	}
	l, err := net.Listen("tcp4", "127.0.0.1:0")
	if err != nil {
		return "", err
	}
	a := l.Addr().String()
	l.Close()
	return a, nil
}

type xoutcome struct {
	history []string
	viols   []viol
	high    int64
	aborted string // harness-side problem (port, lost datagram): no verdict
	parsed  int
	late    int // late packets that were still read
}

// runXport executes one transport scenario. to = "must eventually" timeout.
func runXport(sc scenario, to time.Duration) (out xoutcome) {
	rng := rand.New(rand.NewSource(sc.Seed))
	wave2 := 0
	if sc.Mode == "plain" {
		wave2 = sc.Per
	}
	total := sc.Burst + sc.Late + wave2
	p := &xproto{rec: newRecorder(3*total + 8), gate: make(chan struct{}), runs: make([]int32, total), parsed: make([]int32, total), spin: make([]int, total)}
	for i := range p.spin {
		p.spin[i] = durCode(sc.Dur, rng)
	}
	locus := sc.Proto + "Handler"
	add := func(class, what string) { out.viols = append(out.viols, viol{class, locus, what}) }
	defer func() {
		// The goroutine that parses a request submits its handler before it parses its next request
		// (one receiver per udp socket / tcp connection), so "submit returned" (R) of its previous
		// request is known to lie before each C; making it explicit keeps the model search small.
		nc := sc.Conns
		if nc < 1 || sc.Proto == "udp" {
			nc = 1
		}
		lastC := map[int]string{}
		for _, t := range p.rec.snapshot() {
			if t[0] == 'C' {
				id, _ := strconv.Atoi(t[1:])
				if prev, ok := lastC[id%nc]; ok {
					out.history = append(out.history, "R"+prev)
				}
				lastC[id%nc] = t[1:]
			}
			out.history = append(out.history, t)
		}
		out.high = atomic.LoadInt64(&p.high)
		for i := range p.parsed {
			if atomic.LoadInt32(&p.parsed[i]) > 0 {
				out.parsed++
			}
		}
	}()

	var srv *transport.TarsServer
	var addr string
	for try := 0; ; try++ {
		a, err := freePort(sc.Proto)
		if err != nil {
			out.aborted = "no free port: " + err.Error()
			return
		}
		conf := &transport.TarsServerConf{Proto: sc.Proto, Address: a, MaxInvoke: int32(sc.N), QueueCap: sc.Q,
			AcceptTimeout: 200 * time.Millisecond, IdleTimeout: time.Hour, TCPNoDelay: true,
			TCPReadBuffer: 64 * 1024, TCPWriteBuffer: 64 * 1024}
		s := transport.NewTarsServer(p, conf)
		if err := s.Listen(); err != nil {
			if try < 8 {
				continue
			}
			out.aborted = "listen: " + err.Error()
			return
		}
		srv, addr = s, a
		break
	}
	served := make(chan struct{})
	var servedAt int64 = -1
	go func() {
		srv.Serve()
		atomic.StoreInt64(&servedAt, int64(p.rec.len()))
		close(served)
	}()

	nconn := sc.Conns
	if nconn < 1 || sc.Proto == "udp" {
		nconn = 1
	}
	conns := make([]net.Conn, nconn)
	for i := range conns {
		var c net.Conn
		var err error
		if sc.Proto == "udp" {
			c, err = net.Dial("udp4", addr)
		} else {
			c, err = net.DialTimeout("tcp4", addr, 5*time.Second)
		}
		if err != nil {
			out.aborted = "dial: " + err.Error()
			return
		}
		conns[i] = c
		defer c.Close()
	}
	nParsed := func() int { return countKind(p.rec, evC) }
	// send ids [from, to) and wait until the server has parsed them (i.e. is submitting / has submitted them)
	send := func(from, upto int, gated bool, wait time.Duration) bool {
		if sc.Proto == "udp" {
			for id := from; id < upto; id++ {
				before := nParsed()
				if _, err := conns[0].Write(xpacket(id, gated)); err != nil {
					return false
				}
				if !waitFor(func() bool { return nParsed() > before }, wait) {
					return false
				}
			}
			return true
		}
		before := nParsed()
		bufs := make([][]byte, nconn)
		for id := from; id < upto; id++ {
			bufs[id%nconn] = append(bufs[id%nconn], xpacket(id, gated)...)
		}
		for i, b := range bufs {
			if len(b) > 0 {
				if _, err := conns[i].Write(b); err != nil {
					return false
				}
			}
		}
		return waitFor(func() bool { return nParsed() >= before+(upto-from) }, wait)
	}
	allRan := func() bool {
		for i := range p.parsed {
			if atomic.LoadInt32(&p.parsed[i]) > 0 && atomic.LoadInt32(&p.runs[i]) == 0 {
				return false
			}
		}
		return atomic.LoadInt64(&p.running) == 0
	}
	lost := func() (n int) {
		for i := range p.parsed {
			if atomic.LoadInt32(&p.parsed[i]) > 0 && atomic.LoadInt32(&p.runs[i]) == 0 {
				n++
			}
		}
		return
	}
	closed, cancelClosed := context.WithCancel(context.Background())
	cancelClosed()
	shutCtx, cancel := context.WithTimeout(context.Background(), to+10*time.Second)
	defer cancel()

	// 1. the burst: N handlers run into the gate, one is held by the dispatcher, the others are queued
	if !send(0, sc.Burst, true, 10*time.Second) {
		out.aborted = fmt.Sprintf("only %d of %d burst requests reached the server", nParsed(), sc.Burst)
		close(p.gate)
		return
	}

	if sc.Mode == "plain" {
		close(p.gate)
		if !waitFor(allRan, to) {
			add("job-lost", fmt.Sprintf("%d of %d handlers submitted to the pool were never executed (plain operation, no shutdown)", lost(), nParsed()))
			return
		}
		// second wave: ungated, more than the pool holds at once (the receiver may have to wait for room)
		if !send(sc.Burst, sc.Burst+wave2, false, to) {
			add("job-lost", fmt.Sprintf("the receiver stopped submitting: %d of %d requests parsed", nParsed(), sc.Burst+wave2))
			return
		}
		if !waitFor(allRan, to) {
			add("job-lost", fmt.Sprintf("%d of %d handlers submitted to the pool were never executed (plain operation, no shutdown)", lost(), nParsed()))
			return
		}
		srv.Shutdown(closed) // marks the server closed, returns at once
		go srv.Shutdown(shutCtx)
	} else {
		// 2. shutdown with the backlog in place; 3. one more request after the server was marked closed
		srv.Shutdown(closed)
		if sc.Late > 0 {
			before := nParsed()
			send(sc.Burst, sc.Burst+sc.Late, true, 300*time.Millisecond) // may or may not be read any more
			out.late = nParsed() - before
		}
		go srv.Shutdown(shutCtx)
		// 4. let the handlers run
		close(p.gate)
		if !waitFor(allRan, to) {
			add("job-lost", fmt.Sprintf("%d of %d handlers submitted to the pool before/while the server shut down were never executed (MaxInvoke %d, QueueCap %d)",
				lost(), nParsed(), sc.N, sc.Q))
			to = 3 * time.Second
		}
	}
	if !waitCh(served, to) {
		add("serve-hangs", fmt.Sprintf("Serve did not return after Shutdown although every request was sent long ago (%d of %d submitted handlers executed)",
			nParsed()-lost(), nParsed()))
		return
	}
	// nothing may start once Serve has returned: let the log settle, then look
	last := -1
	waitFor(func() bool {
		l := p.rec.len()
		same := l == last
		last = l
		if !same {
			time.Sleep(2 * time.Millisecond)
		}
		return same
	}, 200*time.Millisecond)
	h := p.rec.snapshot()
	if at := int(atomic.LoadInt64(&servedAt)); at >= 0 {
		for i := at; i < len(h); i++ {
			if h[i][0] == 'S' {
				add("start-after-release", fmt.Sprintf("handler %s started after Serve had returned", h[i][1:]))
				break
			}
		}
		running := 0
		for i := 0; i < at && i < len(h); i++ {
			switch h[i][0] {
			case 'S':
				running++
			case 'E':
				running--
			}
		}
		if running != 0 {
			add("release-early", fmt.Sprintf("Serve returned while %d handler(s) were still running", running))
		}
	}
	for i := range p.runs {
		if c, want := atomic.LoadInt32(&p.runs[i]), atomic.LoadInt32(&p.parsed[i]); c > want {
			add("wrong-count", fmt.Sprintf("handler of request %d executed %d times, submitted %d time(s)", i, c, want))
			break
		}
	}
	if hw := atomic.LoadInt64(&p.high); hw > int64(sc.N) {
		add("parallelism-exceeded", fmt.Sprintf("%d handlers ran at the same time, MaxInvoke is %d", hw, sc.N))
	}
	return
}

func genXport(o *common.Opts, rng *rand.Rand) []scenario {
	var scs []scenario
	qs := []int{0, 1, 3, 8, 16}
	reps := 2
	if o.Thorough() {
		reps = 8
	}
	for r := 0; r < reps; r++ {
		for _, proto := range []string{"udp", "tcp"} {
			for n := 1; n <= 4; n++ {
				for _, mode := range []string{"plain", "backlog"} {
					q := qs[rng.Intn(len(qs))]
					if mode == "backlog" && rng.Intn(3) > 0 {
						q = 8 + 8*rng.Intn(2) // a real backlog in most shutdown scenarios
					}
					sc := scenario{Kind: "xport", Proto: proto, Mode: mode, N: n, Q: q, Burst: n + 1 + q, Conns: 1 + rng.Intn(3),
						Dur: []string{"zero", "yield", "spin"}[rng.Intn(3)], Seed: rng.Int63n(1 << 40)}
					if mode == "plain" {
						sc.Per = n + 2 + q + rng.Intn(6)
						if q >= 8 && sc.Conns > 2 {
							sc.Conns = 2 // three receivers racing into a long queue make the model search explode
						}
					} else {
						sc.Late = 1
						if q >= 16 && sc.Conns > 2 {
							sc.Conns = 2
						}
					}
					scs = append(scs, sc)
				}
			}
		}
	}
	return scs
}

// runXportAll runs the transport scenarios concurrently (each has its own server and sockets).
func runXportAll(scs []scenario, to time.Duration) []xoutcome {
	outs := make([]xoutcome, len(scs))
	sem := make(chan struct{}, 16)
	var wg sync.WaitGroup
	for i := range scs {
		wg.Add(1)
		sem <- struct{}{}
		go func(i int) {
			defer wg.Done()
			defer func() { <-sem }()
			outs[i] = runXport(scs[i], to)
		}(i)
	}
	wg.Wait()
	return outs
}
