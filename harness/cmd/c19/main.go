// C19 harness: goroutine pool tars/util/gpool.
//
// Drives the REAL gpool.Pool with instrumented job closures under many configurations
// (workers x queue capacity x submitters x durations x GOMAXPROCS x release mode) and
//
//   - records the history of visible events with one global sequence (C<j> submit called,
//     R<j> submit returned, S<j> job started, E<j> job ended, RC Release called, RR Release
//     returned) and asks the Lean model whether its transition system has an execution with
//     exactly this history (stream "pool", op `admits`): correspondence;
//   - evaluates the property oracle directly on the implementation: every job exactly once,
//     running high-water mark <= N, submitters are not blocked while the queue has room (gate
//     scenarios, no timing assumptions: only "must eventually happen" with a generous timeout),
//     Release returns, returns only when no job is running, nothing starts afterwards, all pool
//     goroutines are gone afterwards, only jobs still sitting in the queue may stay unexecuted;
//   - checks that the model has teeth: property-violating mutants of real histories must be
//     rejected by `admits`.
package main

import (
	"encoding/json"
	"fmt"
	"math/rand"
	"os"
	"runtime"
	"sort"
	"strconv"
	"strings"
	"sync"
	"sync/atomic"
	"time"

	"github.com/TarsCloud/TarsGo/tars/util/gpool"
	"github.com/TarsCloud/TarsGo/tars/util/rogger"

	"verifharness/common"
)

const (
	evC = iota + 1
	evR
	evS
	evE
	evRC
	evRR
)

// hangTimeout is how long "must eventually happen" may take before it is reported as a hang.
var hangTimeout = 20 * time.Second

const admitsBudget = 400000

// scenario is one configuration; it is also the `case` of a replay file.
type scenario struct {
	Kind     string   `json:"kind"` // drain | release | fill | fillrel | newpool | xport (transport level, see xport.go)
	N        int      `json:"n"`
	Q        int      `json:"q"`
	Subs     int      `json:"subs"`               // submitter goroutines
	Per      int      `json:"per"`                // jobs per submitter
	Dur      string   `json:"dur"`                // zero | yield | spin | sleep | mixed
	Procs    int      `json:"procs"`              // GOMAXPROCS
	RelAfter int      `json:"rel_after"`          // release: call Release after this many submit returns
	Extra    int      `json:"extra"`              // fill: submitters beyond capacity
	Seed     int64    `json:"seed"`               // durations
	Reps     int      `json:"reps,omitempty"`     // replay: repetitions against the implementation
	History  []string `json:"history,omitempty"`  // the observed history (violations / divergences)
	Mutation string   `json:"mutation,omitempty"` // mutant-history cases
	// xport only
	Proto string `json:"proto,omitempty"` // tcp | udp
	Mode  string `json:"mode,omitempty"`  // plain | backlog
	Burst int    `json:"burst,omitempty"` // gated requests sent before the gate opens / the shutdown starts
	Late  int    `json:"late,omitempty"`  // requests sent after the server was marked closed
	Conns int    `json:"conns,omitempty"` // tcp connections
}

func (sc scenario) String() string {
	if sc.Kind == "xport" {
		return fmt.Sprintf("xport %s %s n=%d q=%d burst=%d late=%d wave2=%d conns=%d dur=%s seed=%d", sc.Proto, sc.Mode, sc.N, sc.Q,
			sc.Burst, sc.Late, sc.Per, sc.Conns, sc.Dur, sc.Seed)
	}
	return fmt.Sprintf("%s n=%d q=%d subs=%d per=%d dur=%s procs=%d rel=%d extra=%d seed=%d", sc.Kind, sc.N, sc.Q,
		sc.Subs, sc.Per, sc.Dur, sc.Procs, sc.RelAfter, sc.Extra, sc.Seed)
}

// recorder is the global event log: the slot index is the global sequence number.
type recorder struct {
	ev []int64
	n  int64
}

func newRecorder(capacity int) *recorder { return &recorder{ev: make([]int64, capacity)} }

func (r *recorder) add(kind, job int) int64 {
	i := atomic.AddInt64(&r.n, 1) - 1
	if int(i) < len(r.ev) {
		atomic.StoreInt64(&r.ev[i], int64(kind)<<40|int64(job+1))
	}
	return i
}

func (r *recorder) len() int { return int(atomic.LoadInt64(&r.n)) }

func tok(kind, job int) string {
	switch kind {
	case evC:
		return "C" + strconv.Itoa(job)
	case evR:
		return "R" + strconv.Itoa(job)
	case evS:
		return "S" + strconv.Itoa(job)
	case evE:
		return "E" + strconv.Itoa(job)
	case evRC:
		return "RC"
	case evRR:
		return "RR"
	}
	return "?"
}

// snapshot returns the history; slots allocated but not yet written (a goroutine between the
// fetch-add and the store) are waited for briefly.
func (r *recorder) snapshot() []string {
	n := r.len()
	if n > len(r.ev) {
		n = len(r.ev)
	}
	out := make([]string, 0, n)
	for i := 0; i < n; i++ {
		var v int64
		for k := 0; k < 1000000; k++ {
			if v = atomic.LoadInt64(&r.ev[i]); v != 0 {
				break
			}
			runtime.Gosched()
		}
		out = append(out, tok(int(v>>40), int(v&(1<<40-1))-1))
	}
	return out
}

type viol struct {
	class, locus, what string
}

type outcome struct {
	history []string
	viols   []viol
	highWat int64
	jobs    int
}

// env is the instrumentation shared by the jobs of one scenario run.
type env struct {
	rec     *recorder
	cnt     []int32 // executions per job
	running int64
	high    int64
	done    int64 // finished job bodies
	doneCh  chan struct{}
	want    int64
	gates   []chan struct{} // per job; nil = ungated
	durs    []int           // per job duration code
}

func (e *env) job(j int) gpool.Job {
	return func() {
		e.rec.add(evS, j)
		atomic.AddInt32(&e.cnt[j], 1)
		r := atomic.AddInt64(&e.running, 1)
		for {
			h := atomic.LoadInt64(&e.high)
			if r <= h || atomic.CompareAndSwapInt64(&e.high, h, r) {
				break
			}
		}
		if e.gates != nil && e.gates[j] != nil {
			<-e.gates[j]
		}
		work(e.durs[j])
		atomic.AddInt64(&e.running, -1)
		e.rec.add(evE, j)
		if atomic.AddInt64(&e.done, 1) == atomic.LoadInt64(&e.want) {
			close(e.doneCh)
		}
	}
}

var sink uint64

// work: 0 = nothing, 1 = yield, 2..99 = spin, >= 100 = sleep that many microseconds
func work(code int) {
	switch {
	case code == 0:
	case code == 1:
		runtime.Gosched()
	case code < 100:
		var x uint64
		for i := 0; i < code*200; i++ {
			x = x*6364136223846793005 + 1442695040888963407
		}
		atomic.AddUint64(&sink, x)
	default:
		time.Sleep(time.Duration(code) * time.Microsecond)
	}
}

func durCode(kind string, rng *rand.Rand) int {
	switch kind {
	case "zero":
		return 0
	case "yield":
		return 1
	case "spin":
		return 2 + rng.Intn(60)
	case "sleep":
		return 100 + rng.Intn(400)
	}
	// mixed
	switch rng.Intn(5) {
	case 0:
		return 0
	case 1:
		return 1
	case 2:
		return 2 + rng.Intn(60)
	case 3:
		return 100 + rng.Intn(200)
	}
	return 0
}

// waitFor polls cond without spawning goroutines.
func waitFor(cond func() bool, d time.Duration) bool {
	deadline := time.Now().Add(d)
	for i := 0; ; i++ {
		if cond() {
			return true
		}
		if time.Now().After(deadline) {
			return false
		}
		if i < 200 {
			runtime.Gosched()
		} else {
			time.Sleep(200 * time.Microsecond)
		}
	}
}

func waitCh(ch <-chan struct{}, d time.Duration) bool {
	select {
	case <-ch:
		return true
	case <-time.After(d):
		return false
	}
}

func countKind(r *recorder, kind int) int {
	n := r.len()
	if n > len(r.ev) {
		n = len(r.ev)
	}
	c := 0
	for i := 0; i < n; i++ {
		if int(atomic.LoadInt64(&r.ev[i])>>40) == kind {
			c++
		}
	}
	return c
}

// settle waits until the number of goroutines is base+pending (pending = submitters that are
// blocked for good) and the log does not grow any more.
func settle(base int, rec *recorder, d time.Duration) (ok bool, goroutines, pending int) {
	stable := 0
	lastLen := -1
	okAll := waitFor(func() bool {
		pending = countKind(rec, evC) - countKind(rec, evR)
		goroutines = runtime.NumGoroutine()
		l := rec.len()
		if goroutines <= base+pending && l == lastLen {
			stable++
		} else {
			stable = 0
		}
		lastLen = l
		if stable >= 3 {
			return true
		}
		time.Sleep(300 * time.Microsecond)
		return false
	}, d)
	return okAll, goroutines, pending
}

// runScenario executes one scenario against the real pool.
func runScenario(sc scenario) (out outcome) {
	if sc.Procs > 0 {
		runtime.GOMAXPROCS(sc.Procs)
	}
	rng := rand.New(rand.NewSource(sc.Seed))
	total := sc.Subs * sc.Per
	if sc.Kind == "fill" || sc.Kind == "fillrel" {
		total = sc.N + 1 + sc.Q + sc.Extra
	}
	out.jobs = total
	e := &env{rec: newRecorder(4*total + 16), cnt: make([]int32, total), doneCh: make(chan struct{}), want: int64(total),
		durs: make([]int, total)}
	for j := range e.durs {
		e.durs[j] = durCode(sc.Dur, rng)
	}
	add := func(class, locus, what string) { out.viols = append(out.viols, viol{class, locus, what}) }
	defer func() {
		out.history = e.rec.snapshot()
		out.highWat = atomic.LoadInt64(&e.high)
	}()

	// let goroutines of the previous scenario disappear, then take the baseline
	prev := -1
	waitFor(func() bool {
		g := runtime.NumGoroutine()
		same := g == prev
		prev = g
		if !same {
			time.Sleep(200 * time.Microsecond)
		}
		return same
	}, time.Second)
	base := runtime.NumGoroutine()

	var pool *gpool.Pool
	func() {
		defer func() {
			if r := recover(); r != nil {
				add("panic", "NewPool", fmt.Sprintf("NewPool(%d, %d) panicked: %v", sc.N, sc.Q, r))
			}
		}()
		pool = gpool.NewPool(sc.N, sc.Q)
	}()
	if pool == nil {
		return
	}

	var relDone chan struct{}
	var runningAtReturn int64 = -1
	release := func() {
		relDone = make(chan struct{})
		go func() {
			e.rec.add(evRC, -1)
			pool.Release()
			runningAtReturn = atomic.LoadInt64(&e.running)
			e.rec.add(evRR, -1)
			close(relDone)
		}()
	}
	submit := func(j int) {
		e.rec.add(evC, j)
		pool.JobQueue <- e.job(j)
		e.rec.add(evR, j)
	}

	released := false
	switch sc.Kind {
	case "drain", "release":
		var returned int64
		trigger := make(chan struct{})
		var wg sync.WaitGroup
		subsDone := make(chan struct{})
		for s := 0; s < sc.Subs; s++ {
			wg.Add(1)
			go func(s int) {
				defer wg.Done()
				for k := 0; k < sc.Per; k++ {
					submit(s*sc.Per + k)
					if atomic.AddInt64(&returned, 1) == int64(sc.RelAfter) {
						close(trigger)
					}
				}
			}(s)
		}
		if sc.Kind == "drain" {
			go func() { wg.Wait(); close(subsDone) }()
			if !waitCh(subsDone, hangTimeout) {
				add("hang", "submit", "a submitter is still blocked although the pool was not released and jobs keep finishing")
				return
			}
			if total > 0 && !waitCh(e.doneCh, hangTimeout) {
				add("hang", "job-not-run", fmt.Sprintf("%d of %d submitted jobs never finished on an unreleased pool", total-int(atomic.LoadInt64(&e.done)), total))
				return
			}
		} else {
			if sc.RelAfter <= 0 {
				close(trigger)
			}
			if !waitCh(trigger, hangTimeout) {
				add("hang", "submit", "submitters blocked before Release was called")
				return
			}
			release()
			released = true
		}
	case "fill", "fillrel":
		e.gates = make([]chan struct{}, total)
		for j := range e.gates {
			e.gates[j] = make(chan struct{})
		}
		capacity := sc.N + 1 + sc.Q
		// phase 1: one submitter, `capacity` jobs, nobody finishes: every submit must return
		first := make(chan struct{})
		go func() {
			for j := 0; j < capacity; j++ {
				submit(j)
			}
			close(first)
		}()
		if !waitCh(first, hangTimeout) {
			add("hang", "submit-blocked-queue-not-full", fmt.Sprintf("only %d of %d submissions returned although %d workers + dispatcher + queue(%d) have room",
				countKind(e.rec, evR), capacity, sc.N, sc.Q))
			return
		}
		if !waitFor(func() bool { return countKind(e.rec, evS) >= sc.N }, hangTimeout) {
			add("hang", "job-not-started", fmt.Sprintf("only %d of %d workers started a job although %d jobs are pending", countKind(e.rec, evS), sc.N, capacity))
			return
		}
		// phase 2: submitters beyond the capacity (they block; not asserted here, the model does)
		for x := 0; x < sc.Extra; x++ {
			go func(j int) { submit(j) }(capacity + x)
		}
		if sc.Kind == "fillrel" {
			release()
			released = true
			for j := range e.gates {
				close(e.gates[j])
			}
		} else {
			// phase 3: every finished job makes room for exactly one more submission
			opened := 0
			for x := 0; x < sc.Extra; x++ {
				// open the gate of some job that has started (one will: a worker is free or running)
				// (a random one: the freed worker need not be the one that registered first)
				found := waitFor(func() bool {
					var cand []int
					for _, t := range e.rec.snapshot() {
						if t[0] != 'S' {
							continue
						}
						j, _ := strconv.Atoi(t[1:])
						select {
						case <-e.gates[j]:
							continue
						default:
						}
						cand = append(cand, j)
					}
					if len(cand) == 0 {
						return false
					}
					close(e.gates[cand[rng.Intn(len(cand))]])
					opened++
					return true
				}, hangTimeout)
				if !found {
					add("hang", "job-not-started", "a worker became free but no pending job was started")
					return
				}
				want := capacity + opened
				if !waitFor(func() bool { return countKind(e.rec, evR) >= want }, hangTimeout) {
					add("hang", "submit-stays-blocked-after-room", fmt.Sprintf("%d jobs finished but only %d submissions returned (expected %d)", opened, countKind(e.rec, evR), want))
					return
				}
			}
			for j := range e.gates {
				select {
				case <-e.gates[j]:
				default:
					close(e.gates[j])
				}
			}
			if !waitCh(e.doneCh, hangTimeout) {
				add("hang", "job-not-run", fmt.Sprintf("%d of %d submitted jobs never finished on an unreleased pool", total-int(atomic.LoadInt64(&e.done)), total))
				return
			}
		}
	}

	if !released {
		// the pool is idle now: every job exactly once
		for j, c := range e.cnt {
			if c := atomic.LoadInt32(&e.cnt[j]); c != 1 {
				add("wrong-count", "job", fmt.Sprintf("job %d executed %d times on an unreleased pool", j, c))
				break
			}
			_ = c
		}
		release()
	}
	if !waitCh(relDone, hangTimeout) {
		add("hang", "Release", "Release did not return although every job body returned")
		return
	}
	if runningAtReturn != 0 {
		add("release-early", "Release", fmt.Sprintf("%d job(s) still running when Release returned", runningAtReturn))
	}
	ok, g, pending := settle(base, e.rec, 5*time.Second)
	if !ok && g > base+pending {
		add("leak", "worker", fmt.Sprintf("%d goroutine(s) of the pool still alive after Release returned (baseline %d, blocked submitters %d, now %d)", g-base-pending, base, pending, g))
	}
	return
}

// histOracle evaluates the property on a history (independent of the Lean model).
// quiescent: the history is complete (nothing will happen any more).
func histOracle(h []string, n, q int, quiescent bool) []viol {
	var vs []viol
	add := func(class, locus, what string) { vs = append(vs, viol{class, locus, what}) }
	called, returned, started, ended := map[int]int{}, map[int]int{}, map[int]int{}, map[int]int{}
	running, high := 0, 0
	relCalled, relReturned := false, false
	for i, t := range h {
		if t == "RC" {
			relCalled = true
			continue
		}
		if t == "RR" {
			relReturned = true
			if running != 0 {
				add("release-early", "Release", fmt.Sprintf("history[%d]: Release returned with %d job(s) running", i, running))
			}
			continue
		}
		j, _ := strconv.Atoi(t[1:])
		switch t[0] {
		case 'C':
			called[j]++
		case 'R':
			returned[j]++
		case 'S':
			started[j]++
			if started[j] > 1 {
				add("wrong-count", "job", fmt.Sprintf("history[%d]: job %d started a second time", i, j))
			}
			if called[j] == 0 {
				add("wrong-count", "job", fmt.Sprintf("history[%d]: job %d started before it was submitted", i, j))
			}
			if relReturned {
				add("start-after-release", "Release", fmt.Sprintf("history[%d]: job %d started after Release returned", i, j))
			}
			running++
			if running > high {
				high = running
			}
		case 'E':
			ended[j]++
			running--
		}
	}
	if high > n {
		add("parallelism-exceeded", "worker", fmt.Sprintf("%d jobs ran at the same time, pool size %d", high, n))
	}
	if quiescent {
		lost := 0
		for j := range returned {
			if started[j] == 0 {
				lost++
			}
		}
		if !relCalled && lost > 0 {
			add("job-lost", "dispatch", fmt.Sprintf("%d submitted job(s) never executed on an unreleased pool", lost))
		}
		if relCalled && lost > q {
			add("job-lost", "dispatch", fmt.Sprintf("%d jobs whose submission returned were never executed; only the %d still in the queue at the stop may be dropped", lost, q))
		}
		for j := range started {
			if ended[j] == 0 {
				add("hang", "job", fmt.Sprintf("job %d started but never ended", j))
			}
		}
	}
	return vs
}

// mutants derives property-violating histories from a real one.
func mutants(h []string, n int, rng *rand.Rand) map[string][]string {
	out := map[string][]string{}
	idx := func(tokn string) int {
		for i, t := range h {
			if t == tokn {
				return i
			}
		}
		return -1
	}
	var startedJobs []int
	for _, t := range h {
		if t[0] == 'S' {
			j, _ := strconv.Atoi(t[1:])
			if idx("E"+t[1:]) >= 0 {
				startedJobs = append(startedJobs, j)
			}
		}
	}
	if len(startedJobs) == 0 {
		return out
	}
	j := startedJobs[rng.Intn(len(startedJobs))]
	sj, ej := "S"+strconv.Itoa(j), "E"+strconv.Itoa(j)
	rc := idx("RC")
	// 1. job executed twice: a second S/E pair right after the first E
	{
		e := idx(ej)
		m := append([]string{}, h[:e+1]...)
		m = append(m, sj, ej)
		m = append(m, h[e+1:]...)
		out["twice"] = m
	}
	// 2. job started after Release returned
	if rr := idx("RR"); rr >= 0 {
		m := []string{}
		for _, t := range h {
			if t != sj && t != ej {
				m = append(m, t)
			}
		}
		m = append(m, sj, ej)
		out["start-after-release"] = m
		// 3. Release returns while the job is running
		m2 := []string{}
		for _, t := range h {
			if t == "RR" {
				continue
			}
			m2 = append(m2, t)
			if t == sj {
				m2 = append(m2, "RR")
			}
		}
		if rc >= 0 && rc < idx(sj) {
			out["release-early"] = m2
		}
	}
	// 4. more than n at the same time: delay every E to the end of the history (before RC)
	if len(startedJobs) > n {
		m, ends := []string{}, []string{}
		cut := len(h)
		if rc >= 0 {
			cut = rc
		}
		for i, t := range h {
			if i == cut {
				m = append(m, ends...)
				ends = nil
			}
			if t[0] == 'E' && i < cut {
				ends = append(ends, t)
				continue
			}
			m = append(m, t)
		}
		m = append(m, ends...)
		out["parallelism"] = m
	}
	// 5. a dispatched job is lost: with Release returned, more never-started jobs than the queue holds
	if rc >= 0 && idx("RR") >= 0 && idx(ej) < rc {
		m := []string{}
		for _, t := range h {
			if t != sj && t != ej {
				m = append(m, t)
			}
		}
		out["lost"] = m
	}
	return out
}

// coverage names the interesting situations a history went through (evidence only).
func coverage(h []string, n, q int) []string {
	var out []string
	running, high, unstarted := 0, 0, 0
	ret, started := map[string]bool{}, map[string]bool{}
	rc, rr := false, false
	for _, t := range h {
		switch {
		case t == "RC":
			rc = true
			if running > 0 {
				out = append(out, "release-called-while-jobs-running")
			}
			if unstarted > 0 {
				out = append(out, "release-called-with-jobs-pending")
			}
		case t == "RR":
			rr = true
		case t[0] == 'R':
			ret[t[1:]] = true
			if !started[t[1:]] {
				unstarted++
			}
			if rc {
				out = append(out, "submit-returned-after-release-call")
			}
		case t[0] == 'S':
			started[t[1:]] = true
			if ret[t[1:]] {
				unstarted--
			} else {
				out = append(out, "job-started-before-submit-returned")
			}
			running++
			if running > high {
				high = running
			}
			if rc {
				out = append(out, "job-started-after-release-call")
			}
		case t[0] == 'E':
			running--
		}
	}
	if high == n {
		out = append(out, "all-workers-busy")
	}
	calls, dropped := 0, 0
	for _, t := range h {
		if t[0] == 'C' {
			calls++
			if ret[t[1:]] && !started[t[1:]] {
				dropped++
			}
		}
	}
	if rr && dropped > 0 {
		out = append(out, "queued-jobs-dropped-by-release")
	}
	if rr && dropped == q && q > 0 {
		out = append(out, "full-queue-dropped-by-release")
	}
	if rr && calls > len(ret) {
		out = append(out, "submitter-left-blocked-by-release")
	}
	seen := map[string]bool{}
	var uniq []string
	for _, c := range out {
		if !seen[c] {
			seen[c] = true
			uniq = append(uniq, c)
		}
	}
	return uniq
}

func histKey(h []string) string { return strings.Join(h, " ") }

type pending struct {
	sc      scenario
	history []string
	expect  string // "ok" | "reject"
	stream  string
	cross   bool
}

func classOf(sc scenario) string {
	qc := "q0"
	if sc.Q == 1 {
		qc = "q1"
	} else if sc.Q > 1 {
		qc = "q2+"
	}
	nc := "n1"
	if sc.N == 2 {
		nc = "n2"
	} else if sc.N > 2 {
		nc = "n3+"
	}
	return sc.Kind + "/" + nc + "/" + qc + "/" + sc.Dur
}

func genScenarios(o *common.Opts, rng *rand.Rand) []scenario {
	var scs []scenario
	ns := []int{1, 2, 3, 4}
	qs := []int{0, 1, 2, 4}
	durs := []string{"zero", "yield", "spin", "sleep", "mixed"}
	procs := []int{1, 2, 4, 0}
	seed := func() int64 { return rng.Int63n(1 << 40) }
	reps, maxSubs, maxPer := 4, 4, 6
	if o.Thorough() {
		ns = []int{1, 2, 3, 4, 6}
		qs = []int{0, 1, 2, 3, 5}
		reps, maxSubs, maxPer = 40, 5, 8
	}
	for r := 0; r < reps; r++ {
		// drain: sizes x caps, random submitters/durations
		for _, n := range ns {
			for _, q := range qs {
				subs := 1 + rng.Intn(maxSubs)
				per := 1 + rng.Intn(maxPer)
				scs = append(scs, scenario{Kind: "drain", N: n, Q: q, Subs: subs, Per: per, Dur: durs[rng.Intn(len(durs))],
					Procs: procs[rng.Intn(len(procs))], RelAfter: -1, Seed: seed()})
				total := subs * per
				scs = append(scs, scenario{Kind: "release", N: n, Q: q, Subs: subs, Per: per, Dur: durs[rng.Intn(len(durs))],
					Procs: procs[rng.Intn(len(procs))], RelAfter: rng.Intn(total + 1), Seed: seed()})
				scs = append(scs, scenario{Kind: "fill", N: n, Q: q, Extra: 1 + rng.Intn(3), Dur: durs[rng.Intn(3)],
					Procs: procs[rng.Intn(len(procs))], RelAfter: -1, Seed: seed()})
				scs = append(scs, scenario{Kind: "fillrel", N: n, Q: q, Extra: rng.Intn(3), Dur: durs[rng.Intn(3)],
					Procs: procs[rng.Intn(len(procs))], RelAfter: -1, Seed: seed()})
			}
		}
		// every duration class and every GOMAXPROCS at least once per kind
		for _, d := range durs {
			for _, p := range procs {
				n, q := ns[rng.Intn(len(ns))], qs[rng.Intn(len(qs))]
				scs = append(scs, scenario{Kind: "drain", N: n, Q: q, Subs: 1 + rng.Intn(5), Per: 1 + rng.Intn(5), Dur: d, Procs: p, RelAfter: -1, Seed: seed()})
				subs, per := 1+rng.Intn(5), 1+rng.Intn(5)
				scs = append(scs, scenario{Kind: "release", N: n, Q: q, Subs: subs, Per: per, Dur: d, Procs: p, RelAfter: rng.Intn(subs*per + 1), Seed: seed()})
			}
		}
		// larger pools, few submitters (keeps the history ambiguity small)
		for _, n := range []int{8, 16} {
			scs = append(scs, scenario{Kind: "drain", N: n, Q: rng.Intn(3), Subs: 2, Per: 6 + rng.Intn(6), Dur: "mixed", Procs: 0, RelAfter: -1, Seed: seed()})
			scs = append(scs, scenario{Kind: "fill", N: n, Q: rng.Intn(3), Extra: 1, Dur: "zero", Procs: 0, RelAfter: -1, Seed: seed()})
		}
		// empty pool released at once; single job
		scs = append(scs, scenario{Kind: "drain", N: ns[rng.Intn(len(ns))], Q: qs[rng.Intn(len(qs))], Subs: 0, Per: 0, Dur: "zero", RelAfter: -1, Seed: seed()})
		scs = append(scs, scenario{Kind: "release", N: ns[rng.Intn(len(ns))], Q: qs[rng.Intn(len(qs))], Subs: 1, Per: 1, Dur: "zero", RelAfter: 0, Seed: seed()})
	}
	return scs
}

func main() {
	o := common.ParseOpts()
	res := common.NewResult("C19", o)
	res.Streams = []string{"pool"}
	rng := o.Rand()
	m, err := common.StartModel(o.Model, "pool")
	if err != nil {
		res.Fatal(o.Out, err)
	}
	defer m.Close()
	if s := os.Getenv("C19_HANG_TIMEOUT_S"); s != "" {
		if v, err := strconv.Atoi(s); err == nil && v > 0 {
			hangTimeout = time.Duration(v) * time.Second
		}
	}
	defaultProcs := runtime.GOMAXPROCS(0)

	var scs []scenario
	replay := o.Replay != ""
	if replay {
		var c scenario
		if err := common.ReadReplay(o.Replay, &c); err != nil {
			res.Fatal(o.Out, err)
		}
		if c.Kind == "" {
			res.Fatal(o.Out, fmt.Errorf("replay file has no scenario"))
		}
		reps := c.Reps
		if reps <= 0 {
			reps = 50
		}
		if c.Kind == "newpool" {
			reps = 1
		}
		if c.Kind == "xport" && c.Reps <= 0 {
			reps = 12
		}
		if len(c.History) > 0 {
			// the recorded history first: model verdict + history oracle (printed only: the verdict of a
			// replay comes from re-executing the scenario against the current tree below)
			ans, err := m.Ask(fmt.Sprintf("admits %d %d %d %s", c.N, c.Q, admitsBudget, strings.Join(c.History, " ")))
			if err != nil {
				res.Fatal(o.Out, err)
			}
			fmt.Printf("recorded history (%d events): model: %s\n", len(c.History), ans)
			for _, v := range histOracle(c.History, c.N, c.Q, c.Mutation == "") {
				fmt.Printf("recorded history: oracle: %s:%s %s\n", v.class, v.locus, v.what)
			}
			if c.Mutation != "" {
				if !strings.HasPrefix(ans, "reject") {
					res.Diverge(common.Case{Stream: "pool-mutant", Op: c, Model: ans, Impl: "property-violating history", Note: c.Mutation})
				}
				reps = 0
			}
		}
		for i := 0; i < reps; i++ {
			x := c
			x.History = nil
			scs = append(scs, x)
		}
	} else {
		scs = genScenarios(o, rng)
		if o.Extra == "xport-only" { // development aid: the transport stream alone (same PRNG position)
			scs = nil
		}
		scs = append(scs, genXport(o, rng)...)
		// NewPool with negative sizes
		for _, a := range [][2]int{{-1, 1}, {1, -1}, {-3, -3}, {0, 0}, {2, 0}} {
			scs = append(scs, scenario{Kind: "newpool", N: a[0], Q: a[1]})
		}
	}

	var pend []pending
	var xs []scenario
	hangs, bad := 0, 0
	t0 := time.Now()
	for _, sc := range scs {
		if sc.Kind == "xport" {
			xs = append(xs, sc) // run afterwards (concurrently; the pool scenarios count goroutines)
			continue
		}
		if sc.Kind == "newpool" {
			impl := func() (r string) {
				defer func() {
					if recover() != nil {
						r = "panic"
					}
				}()
				p := gpool.NewPool(sc.N, sc.Q)
				r = fmt.Sprintf("ok %d %d", cap(p.WorkerQueue), cap(p.JobQueue))
				if sc.N > 0 {
					p.Release()
				}
				return
			}()
			ans, err := m.Ask(fmt.Sprintf("newpool %d %d", sc.N, sc.Q))
			if err != nil {
				res.Fatal(o.Out, err)
			}
			res.Count(sc.String(), "newpool", true)
			if ans != common.NoModel && ans != impl {
				res.Diverge(common.Case{Stream: "pool", Op: sc, Model: ans, Impl: impl})
			}
			if replay {
				fmt.Printf("%s: model=%s impl=%s\n", sc, ans, impl)
			}
			continue
		}
		if hangs >= 3 || bad >= 5 {
			res.Note("stopped early after %d violating scenarios (%d hangs): %s and the following scenarios were not run", bad, hangs, sc)
			break
		}
		out := runScenario(sc)
		runtime.GOMAXPROCS(defaultProcs)
		quiescent := true
		for _, v := range out.viols {
			if v.class == "hang" {
				quiescent = false
			}
		}
		if !quiescent {
			// goroutines of this pool are stuck for good; do not spend 20 s on every later scenario
			hangs++
			if hangTimeout > 3*time.Second {
				hangTimeout = 3 * time.Second
			}
		}
		vs := append([]viol{}, out.viols...)
		vs = append(vs, histOracle(out.history, sc.N, sc.Q, quiescent)...)
		if out.highWat > int64(sc.N) {
			vs = append(vs, viol{"parallelism-exceeded", "worker", fmt.Sprintf("running high-water mark %d, pool size %d", out.highWat, sc.N)})
		}
		if len(vs) > 0 && !replay {
			bad++
		}
		withHist := sc
		withHist.History = out.history
		for _, v := range vs {
			res.Violate(common.Violation{Signature: "C19:" + v.class + ":" + v.locus, What: v.what,
				Case: common.Case{Stream: "pool", Op: withHist, Impl: histKey(out.history), Note: v.what}})
			if replay {
				fmt.Printf("%s: VIOLATION %s:%s %s\n", sc, v.class, v.locus, v.what)
			}
		}
		res.Count(sc.String()+"|"+histKey(out.history), classOf(sc), len(out.history) > 2)
		for _, c := range coverage(out.history, sc.N, sc.Q) {
			res.Histogram["covered/"+c]++
		}
		res.TracesValidated++
		if len(res.Samples) < 8 {
			res.Sample(map[string]interface{}{"scenario": sc.String(), "events": len(out.history), "high_water": out.highWat})
		}
		pend = append(pend, pending{sc: withHist, history: out.history, expect: "ok", stream: "pool", cross: len(out.history) <= 40 && sc.N <= 3})
		// teeth: mutants of clean histories
		if len(vs) == 0 {
			mrng := rand.New(rand.NewSource(sc.Seed ^ 0x5eed))
			ms := mutants(out.history, sc.N, mrng)
			names := make([]string, 0, len(ms))
			for k := range ms {
				names = append(names, k)
			}
			sort.Strings(names)
			for _, k := range names {
				mh := ms[k]
				if len(histOracle(mh, sc.N, sc.Q, true)) == 0 {
					continue // not a violating history after all
				}
				x := sc
				x.History = mh
				x.Mutation = k
				pend = append(pend, pending{sc: x, history: mh, expect: "reject", stream: "pool-mutant"})
			}
		}
	}
	implTime := time.Since(t0)

	// transport-level stream
	tx := time.Now()
	if len(xs) > 0 {
		res.Streams = append(res.Streams, "pool-transport")
		rogger.SetLevel(rogger.OFF)
		for i, out := range runXportAll(xs, hangTimeout) {
			sc := xs[i]
			withHist := sc
			withHist.History = out.history
			if out.aborted != "" {
				res.Histogram["xport-aborted"]++
				res.Note("transport scenario without verdict (%s): %s", out.aborted, sc)
				continue
			}
			for _, v := range out.viols {
				res.Violate(common.Violation{Signature: "C19:" + v.class + ":" + v.locus, What: v.what,
					Case: common.Case{Stream: "pool-transport", Op: withHist, Impl: histKey(out.history), Note: v.what}})
				if replay {
					fmt.Printf("%s: VIOLATION %s:%s %s\n", sc, v.class, v.locus, v.what)
				}
			}
			res.Count(sc.String()+"|"+histKey(out.history), "xport/"+sc.Proto+"/"+sc.Mode+"/n"+strconv.Itoa(sc.N), out.parsed > 0)
			res.TracesValidated++
			if out.high == int64(sc.N) {
				res.Histogram["covered/xport-all-workers-busy"]++
			}
			if sc.Mode == "backlog" {
				if sc.Q > 0 {
					res.Histogram["covered/xport-shutdown-with-queued-handlers"]++
				}
				if out.late > 0 {
					res.Histogram["covered/xport-request-read-after-server-closed/"+sc.Proto]++
				}
			}
			if len(out.viols) == 0 {
				pend = append(pend, pending{sc: withHist, history: out.history, expect: "ok", stream: "pool-transport"})
			}
		}
	}
	xportTime := time.Since(tx)

	// correspondence: all histories through the model in one batch
	t1 := time.Now()
	var lines []string
	for _, p := range pend {
		budget := admitsBudget
		if p.stream == "pool-transport" {
			budget = admitsBudget / 8 // `budget` = inconclusive, counted in the histogram
		}
		lines = append(lines, fmt.Sprintf("admits %d %d %d %s", p.sc.N, p.sc.Q, budget, strings.Join(p.history, " ")))
		if p.cross {
			lines = append(lines, fmt.Sprintf("admits0 %d %d %d %s", p.sc.N, p.sc.Q, admitsBudget, strings.Join(p.history, " ")))
		}
	}
	ans, err := m.Batch(lines)
	if err != nil {
		res.Fatal(o.Out, err)
	}
	k := 0
	maxStates := 0
	for _, p := range pend {
		a := ans[k]
		k++
		a0 := ""
		if p.cross {
			a0 = ans[k]
			k++
		}
		if a == common.NoModel {
			continue
		}
		verdict := strings.SplitN(a, " ", 2)[0]
		if p.stream == "pool-mutant" {
			res.Count("mutant|"+p.sc.Mutation+"|"+histKey(p.history), "mutant-history/"+p.sc.Mutation+"/"+verdict, true)
		} else {
			res.Histogram["admits/"+verdict]++
		}
		if verdict == "ok" {
			f := strings.Fields(a)
			if len(f) >= 2 {
				if v, _ := strconv.Atoi(f[1]); v > maxStates {
					maxStates = v
				}
			}
		}
		if replay || o.Extra == "xport-only" {
			fmt.Printf("[%s %s] %s: %d events, model: %s (expected %s)\n", p.stream, p.sc.Mutation, p.sc, len(p.history), a, p.expect)
		}
		if verdict == "budget" {
			continue // inconclusive, counted in the histogram
		}
		if verdict != p.expect {
			note := "the model has no execution with the observed history"
			if p.expect == "reject" {
				note = "the model admits a history that violates the property (mutation " + p.sc.Mutation + ")"
			}
			res.Diverge(common.Case{Stream: p.stream, Op: p.sc, Model: a, Impl: histKey(p.history), Note: note})
		}
		if p.cross && a0 != common.NoModel {
			v0 := strings.SplitN(a0, " ", 2)[0]
			res.Histogram["admits0-crosscheck/"+v0]++
			if v0 != "budget" && v0 != verdict {
				res.Diverge(common.Case{Stream: "pool-canon", Op: p.sc, Model: a + " / without symmetry reduction: " + a0, Impl: histKey(p.history),
					Note: "admits with and without the symmetry reduction disagree"})
			}
		}
	}
	res.Note("implementation runs: pool %.1fs, transport %.1fs (%d scenarios, concurrent); model (admits) time: %.1fs; largest state set of an admitted history: %d",
		implTime.Seconds(), xportTime.Seconds(), len(xs), time.Since(t1).Seconds(), maxStates)
	res.Rule = "cases = (scenario kind drain|release|fill|fillrel, workers N, queue capacity Q, submitters, jobs, duration class incl. zero, " +
		"GOMAXPROCS, release point) executed on the real gpool; each observed history of visible events goes through the Lean LTS (admits); " +
		"property-violating mutants of the observed histories must be rejected; transport stream: real transport.TarsServer (TCP and UDP, MaxInvoke 1..4, " +
		"QueueCap 0..16) with a gated stub protocol, bursts larger than the pool, plain operation and shutdown with a backlog plus a late request; " +
		"non-trivial = distinct (scenario, history) with at least one job"
	if err := res.Write(o.Out); err != nil {
		panic(err)
	}
	if replay {
		b, _ := json.Marshal(res.Histogram)
		fmt.Println("histogram:", string(b))
	}
}
