// C09 harness: "every call terminates by its deadline and leaves nothing behind".
//
// The REAL client runs in child processes (package callsim) against fake servers that stay silent,
// answer late or slowly, close the connection before or after the request, send garbage, refuse or
// black-hole the connection, or never read. Measured per call: wall-clock time against the effective
// deadline (context deadline > per-call timeout > configured timeout) + DialTimeout + 700 ms slack;
// after every wave of calls: queueLen, invokeNum and the size of the pending-reply tables through the
// verif export (must be 0); after a late reply: a further call must get its own answer.
//
// Streams:
//
//	deadline  the deadline of the context doInvoke waits on in the model, for the dispatch path of the
//	          scenario (`deadline … <path>`: direct / single filter / middleware / pre+post) = the
//	          effective deadline the property names, and a silent peer makes the real call return not
//	          before it; the grid dispatch path x deadline source x {silent, late} peer is covered in
//	          full in every run
//	bound     measured return time ≤ the model's bound (`budget`: max(deadline, lockAt + DialTimeout +
//	          WriteTimeout if the send queue was full)) + slack — a larger time is a divergence (the
//	          model promises too much); the ORACLE compares with the property's bound
//	          (deadline + DialTimeout + slack) and reports a violation beyond it
//	admits    recorded histories (incl. the counters after each wave) of the fault scenarios with at
//	          most 2 concurrent callers must be traces of the LTS Tars.Route.step
package main

import (
	"encoding/json"
	"fmt"
	"os"
	"sort"
	"strings"

	"verifharness/callsim"
	"verifharness/common"
)

const slackMs = 700

type caseOp struct {
	Scenario *callsim.Scenario `json:"scenario"`
}

func locus(class string) string {
	switch {
	case strings.HasPrefix(class, "d18"):
		return "TarsClient.Send.sendQueue-full"
	case strings.HasPrefix(class, "blackhole-conc"):
		return "connection.ReConnect.connLock"
	}
	return "doInvoke." + class
}

func scenarios(o *common.Opts) []*callsim.Scenario {
	rng := o.Rand()
	var scs []*callsim.Scenario
	add := func(sc *callsim.Scenario) {
		sc.Seed = rng.Int63()
		if sc.CapMs == 0 {
			sc.CapMs = 12000
		}
		scs = append(scs, sc)
	}
	kinds := []string{"proxy", "percall", "ctx"}
	concs := []int{1, 2, 4}
	touts := []int{300}
	if o.Thorough() {
		concs = []int{1, 2, 3, 4, 8, 16}
		touts = []int{150, 300, 600}
	}
	type mode struct {
		name   string
		server func(eff int) callsim.ServerSpec
		second bool // a second wave: one normal call that must succeed
		mustOK bool
	}
	// the second wave's request has ordinal ≥ conc on its server: it is echoed (no rule covers it)
	modes := []mode{
		{"silent", func(eff int) callsim.ServerSpec {
			return callsim.ServerSpec{Kind: "normal", Rules: []callsim.Rule{{From: 0, To: 63, Mode: "silent"}}}
		}, false, false},
		{"late", func(eff int) callsim.ServerSpec {
			return callsim.ServerSpec{Kind: "normal", Rules: []callsim.Rule{{From: 0, To: 7, Mode: "delay", DelayMs: eff + 250}}}
		}, true, false},
		{"slow", func(eff int) callsim.ServerSpec {
			return callsim.ServerSpec{Kind: "normal", Rules: []callsim.Rule{{From: 0, To: 63, Mode: "delay", DelayMs: eff / 5}}}
		}, false, true},
		{"closeAfter", func(eff int) callsim.ServerSpec {
			return callsim.ServerSpec{Kind: "normal", Rules: []callsim.Rule{{From: 0, To: 0, Mode: "closeAfter"}}}
		}, true, false},
		{"closeOnAccept", func(eff int) callsim.ServerSpec { return callsim.ServerSpec{Kind: "closeOnAccept"} }, false, false},
		{"garbageFrame", func(eff int) callsim.ServerSpec {
			return callsim.ServerSpec{Kind: "normal", Rules: []callsim.Rule{{From: 0, To: 0, Mode: "garbageFrame"}, {From: 1, To: 7, Mode: "silent"}}}
		}, true, false},
		{"garbageBody", func(eff int) callsim.ServerSpec {
			return callsim.ServerSpec{Kind: "normal", Rules: []callsim.Rule{{From: 0, To: 7, Mode: "garbageBody"}}}
		}, true, false},
		{"refuse", func(eff int) callsim.ServerSpec { return callsim.ServerSpec{Kind: "refuse"} }, false, false},
		{"blackhole", func(eff int) callsim.ServerSpec { return callsim.ServerSpec{Kind: "blackhole"} }, false, false},
	}
	n := 0
	for _, md := range modes {
		for ci, conc := range concs {
			for ti, tout := range touts {
				if md.name == "blackhole" && conc > 1 {
					continue // concurrent callers behind the dial lock: separate scenario below
				}
				kind := kinds[(n+ci+ti)%3]
				n++
				eff := tout
				cl := callsim.ClientConf{WriteTimeoutMs: -1, DialTimeoutMs: 400, ProxyTimeoutMs: 300}
				if kind == "proxy" {
					cl.ProxyTimeoutMs = tout
				} else if kind == "ctx" {
					cl.ProxyTimeoutMs = 5000 // the context deadline must win over the configured timeout
				} else {
					cl.ProxyTimeoutMs = 4000 // the per-call timeout must win over the configured timeout
				}
				var calls []callsim.CallSpec
				for c := 0; c < conc; c++ {
					cs := callsim.CallSpec{Wave: 0, Timeout: kind, TimeoutMs: tout, MustOK: md.mustOK}
					calls = append(calls, cs)
				}
				gap := 0
				if md.second && conc <= 4 { // 5 failures in a row would mark the endpoint inactive (C15)
					// after a late reply / a garbage body the connection is healthy: the next call must get its own
					// answer. After a close the next call may run into C11's finding D14 (the old sender goroutine
					// steals the request): it only has to return in time and leave nothing behind.
					healthyConn := md.name == "late" || md.name == "garbageBody"
					calls = append(calls, callsim.CallSpec{Wave: 1, Timeout: "ctx", TimeoutMs: 1500, MustOK: healthyConn})
					gap = 450
				}
				srv := md.server(eff)
				if md.name == "late" || md.name == "garbageBody" {
					// exactly the first wave is delayed / answered with garbage
					srv.Rules[0].To = conc - 1
				}
				if md.name == "closeAfter" && conc > 1 {
					srv.Rules = append(srv.Rules, callsim.Rule{From: 1, To: conc - 1, Mode: "silent"})
				}
				if md.name == "garbageFrame" {
					srv.Rules[1].To = conc - 1
				}
				add(&callsim.Scenario{Name: fmt.Sprintf("%s-c%d-%s-%d", md.name, conc, kind, tout), Class: md.name, Client: cl,
					Servers: []callsim.ServerSpec{srv}, Calls: calls, GapMs: gap, Record: conc <= 2})
			}
		}
	}
	// dispatch path of TarsInvoke (no filter / legacy single filter / middleware chain / pre+post filters,
	// all pass-through) x deadline source (configured, per-call, caller's context) against a peer that
	// never answers and one that answers far too late: the effective deadline must hold on every path
	{
		pconcs := []int{1}
		if o.Thorough() {
			pconcs = []int{1, 2, 4}
		}
		for pi, path := range callsim.FilterPaths {
			for ki, kind := range kinds {
				for _, conc := range pconcs {
					for _, peer := range []string{"silent", "late"} {
						tout := 300
						cl := callsim.ClientConf{WriteTimeoutMs: -1, DialTimeoutMs: 400, ProxyTimeoutMs: tout}
						if kind == "ctx" {
							cl.ProxyTimeoutMs = 5000
						} else if kind == "percall" {
							cl.ProxyTimeoutMs = 4000
						}
						var calls []callsim.CallSpec
						n := conc
						if !o.Thorough() && (pi+ki)%2 == 1 {
							n = 2
						}
						for c := 0; c < n; c++ {
							calls = append(calls, callsim.CallSpec{Wave: 0, Timeout: kind, TimeoutMs: tout})
						}
						pname := path
						if pname == "" {
							pname = "direct"
						}
						sc := &callsim.Scenario{Name: fmt.Sprintf("path-%s-%s-%s-c%d", pname, kind, peer, n), Class: "path-" + peer, Client: cl,
							Filter: path, Calls: calls, Record: n <= 2}
						if peer == "silent" {
							sc.Servers = []callsim.ServerSpec{{Kind: "normal", Rules: []callsim.Rule{{From: 0, To: 63, Mode: "silent"}}}}
							sc.CapMs = 4500
						} else {
							// the answer comes after deadline + DialTimeout + slack: a call that is still waiting
							// then is late beyond doubt; afterwards (the late replies have arrived and must have been
							// discarded) one more call has to get its own answer
							late := tout + 400 + slackMs + 400
							sc.Servers = []callsim.ServerSpec{{Kind: "normal", Rules: []callsim.Rule{{From: 0, To: n - 1, Mode: "delay", DelayMs: late}}}}
							sc.Calls = append(sc.Calls, callsim.CallSpec{Wave: 1, Timeout: "ctx", TimeoutMs: 1500, MustOK: true})
							sc.GapMs = late - tout + 150
							sc.CapMs = 8000
						}
						add(sc)
					}
				}
			}
		}
	}
	// several ServantProxy objects for the same object on one Communicator: they share the endpoint manager
	// and its adapters (pending-reply tables, connections) but each has its own queueLen. Calls of the
	// proxies overlap on the shared adapter in both orders (a slow / never answered call of one proxy
	// overlapped by a quick call of another); every proxy's counter must be back at 0 after each wave and a
	// burst of ObjQueueMax concurrent calls on every proxy must be admitted afterwards.
	for _, np := range []int{2, 3} {
		for _, withBurst := range []bool{true, false} {
			if np == 3 && !withBurst && !o.Thorough() {
				continue
			}
			const qmax = 3
			cl := callsim.ClientConf{ObjQueueMax: qmax, WriteTimeoutMs: -1, DialTimeoutMs: 400, ProxyTimeoutMs: 300}
			var calls []callsim.CallSpec
			var rules []callsim.Rule
			ord := 0
			addCall := func(wave, delay, proxy int, mode string, serverDelay int, mustOK bool) {
				calls = append(calls, callsim.CallSpec{Wave: wave, DelayMs: delay, Proxy: proxy, Timeout: "proxy", MustOK: mustOK})
				if mode != "echo" {
					rules = append(rules, callsim.Rule{From: ord, To: ord, Mode: mode, DelayMs: serverDelay})
				}
				ord++
			}
			wave := 0
			for first := 0; first < np; first++ {
				// proxy `first` waits for a slow reply while the others call and return
				addCall(wave, 0, first, "delay", 220, true)
				for k := 1; k < np; k++ {
					addCall(wave, 60*k, (first+k)%np, "echo", 0, true)
				}
				wave++
				// proxy `first` runs into its timeout while the others call and return
				addCall(wave, 0, first, "silent", 0, false)
				for k := 1; k < np; k++ {
					addCall(wave, 60*k, (first+k)%np, "echo", 0, true)
				}
				wave++
			}
			name := fmt.Sprintf("proxies-%d", np)
			if withBurst {
				for pr := 0; pr < np; pr++ {
					for k := 0; k < qmax; k++ {
						calls = append(calls, callsim.CallSpec{Wave: wave, Proxy: pr, Timeout: "proxy", MustOK: true})
					}
				}
				rules = append(rules, callsim.Rule{From: ord, To: ord + np*qmax - 1, Mode: "delay", DelayMs: 120})
				name += "-burst"
			}
			add(&callsim.Scenario{Name: name, Class: "shared-adapter", Client: cl, Proxies: np,
				Servers: []callsim.ServerSpec{{Kind: "normal", Rules: rules}}, Calls: calls, GapMs: 40, Record: !withBurst && np == 2})
		}
	}
	// the server aborts the shared connection (RST) or garbles it while other requests are in flight
	{
		// forced interleaving (verif yield points of the transport client): the receiver goroutine of the
		// reset connection is held before its connection.close until the sender goroutine has closed the
		// connection after a failed write and another caller's ReConnect has installed a new one; its
		// close then runs on an already replaced connection. Afterwards a plain call must succeed.
		cl := callsim.ClientConf{WriteTimeoutMs: -1, DialTimeoutMs: 400, ProxyTimeoutMs: 300}
		calls := []callsim.CallSpec{
			{Wave: 0, Timeout: "proxy", MustOK: true},
			{Wave: 1, Timeout: "proxy", Trigger: "reset"},
			{Wave: 2, Timeout: "proxy"},
			{Wave: 2, Timeout: "proxy", DelayMs: 60, MustOK: true},
			{Wave: 3, Timeout: "proxy", MustOK: true},
			{Wave: 3, Timeout: "proxy", DelayMs: 20, MustOK: true},
		}
		add(&callsim.Scenario{Name: "stale-close-forced", Class: "stale-close", Client: cl, Force: "stale-close",
			Servers: []callsim.ServerSpec{{Kind: "normal"}}, Calls: calls, GapMs: 100, CapMs: 5000})
		// storm: per round 8 concurrent callers on one proxy keep 16 KiB requests flowing while a ninth makes the
		// server reset / garble the connection; after the last round a plain call must succeed
		rounds := 10
		storms := 1
		if o.Thorough() {
			rounds = 40
			storms = 3
		}
		for st := 0; st < storms; st++ {
			cl := callsim.ClientConf{WriteTimeoutMs: -1, DialTimeoutMs: 400, ProxyTimeoutMs: 150}
			var calls []callsim.CallSpec
			for c := 0; c < 4; c++ {
				calls = append(calls, callsim.CallSpec{Wave: 0, Timeout: "proxy", MustOK: true})
			}
			for rd := 1; rd <= rounds; rd++ {
				// 8 callers keep requests (16 KiB, one-way and two-way alternating) flowing for 40 ms; after
				// 10-25 ms a ninth caller sends the request that makes the server reset / garble the connection
				for c := 0; c < 8; c++ {
					calls = append(calls, callsim.CallSpec{Wave: rd, Timeout: kinds[(rd+c)%3], TimeoutMs: 150, PayloadLen: 16 << 10,
						LoopMs: 40, LoopMax: 120, LoopGapUs: 200})
				}
				trig := callsim.CallSpec{Wave: rd, Timeout: "proxy", DelayMs: 10 + rng.Intn(15), Trigger: "reset"}
				if (rd+st)%5 == 4 {
					trig.Trigger = "garbage"
				}
				calls = append(calls, trig)
			}
			calls = append(calls, callsim.CallSpec{Wave: rounds + 1, Timeout: "ctx", TimeoutMs: 1500, MustOK: true})
			add(&callsim.Scenario{Name: fmt.Sprintf("reset-under-load-%d", st), Class: "reset-under-load", Client: cl,
				Servers: []callsim.ServerSpec{{Kind: "normal"}}, Calls: calls, GapMs: 20, CapMs: 6000 + 400*rounds})
		}
	}
	// keep-alive: doKeepAlive takes and releases a queueLen slot of the proxy on every tick. With a small
	// ObjQueueMax and calls that keep the queue full over several ticks, the proxy's counter must be back at 0
	// after the calls (also a few ticks later) and a burst of ObjQueueMax calls must be admitted.
	// (the keep-alive-interval path runs only for registry-managed endpoint managers — checkEpStatus skips
	// direct proxies — and calls the same doKeepAlive; it is not exercised here)
	for _, ka := range []string{"push"} {
		const qmax = 2
		cl := callsim.ClientConf{ObjQueueMax: qmax, WriteTimeoutMs: -1, DialTimeoutMs: 400, ProxyTimeoutMs: 2500}
		hold := 400
		if ka == "push" {
			cl.PushCallback, cl.IdleTimeoutMs = true, 80 // autoKeepAlive ticks every 40 ms
		} else {
			cl.KeepAliveIntervalMs = 1000 // checkStatus (every second) calls doKeepAlive
			hold = 1500
		}
		calls := []callsim.CallSpec{{Wave: 0, Timeout: "proxy", MustOK: true}}
		for c := 0; c < qmax+2; c++ { // qmax+1 are admitted (queueLen = qmax+1 > ObjQueueMax), one is refused
			calls = append(calls, callsim.CallSpec{Wave: 1, Timeout: "proxy", DelayMs: 2 * c})
		}
		for c := 0; c < qmax; c++ {
			calls = append(calls, callsim.CallSpec{Wave: 2, Timeout: "proxy", MustOK: true})
		}
		add(&callsim.Scenario{Name: "keepalive-" + ka, Class: "keepalive", Client: cl,
			// the keep-alive pings are requests too, so ordinal rules would shift: the calls of wave 1 (caller
			// tags 1..qmax+2) are recognised by their tag and answered after `hold` ms
			Servers: []callsim.ServerSpec{{Kind: "normal", HoldFromTag: 1, HoldToTag: qmax + 2, HoldMs: hold}}, Calls: calls, GapMs: 130, CapMs: 9000})
	}
	// boundary values of the deadline dimension: effective timeout 0, 1 ms, negative; a context that has
	// already expired when the call is made; a context deadline later than the configured timeout (the context
	// wins although it is later); each for the source that can carry it, on the direct path and on one filter
	// path, against a peer that never answers and one that answers far too late. A timeout of 0 (or below) means
	// context.WithTimeout(ctx, 0): the call has to come back at once with a timeout, not wait for ever.
	{
		type bval struct {
			name     string
			kind     string
			tout     int // per-call / context timeout
			proxy    int // configured timeout
			proxySet bool
		}
		bvals := []bval{
			{"cfg0", "proxy", 0, 0, true}, {"percall0", "percall", 0, 300, false},
			{"cfg1", "proxy", 0, 1, false}, {"percall1", "percall", 1, 300, false},
			{"cfgneg", "proxy", 0, -5, true}, {"percallneg", "percall", -5, 300, false},
			{"ctxexpired0", "ctx", 0, 300, false}, {"ctxexpiredneg", "ctx", -50, 300, false},
			{"ctxlater", "ctx", 600, 300, false},
		}
		for bi, bv := range bvals {
			for pi2, path := range []string{"", callsim.FilterPaths[1+bi%3]} {
				for _, peer := range []string{"silent", "late"} {
					if !o.Thorough() && peer == "late" && (bi+pi2)%2 == 1 {
						continue // quick tier: the late peer for every value on alternating paths
					}
					cl := callsim.ClientConf{WriteTimeoutMs: -1, DialTimeoutMs: 400, ProxyTimeoutMs: bv.proxy, ProxyTimeoutSet: bv.proxySet}
					eff := bv.proxy
					if bv.kind != "proxy" {
						eff = bv.tout
					}
					if eff < 0 {
						eff = 0
					}
					pname := path
					if pname == "" {
						pname = "direct"
					}
					sc := &callsim.Scenario{Name: fmt.Sprintf("edge-%s-%s-%s", bv.name, pname, peer), Class: "edge-" + peer, Client: cl, Filter: path,
						Calls: []callsim.CallSpec{{Wave: 0, Timeout: bv.kind, TimeoutMs: bv.tout}}, Record: true}
					if peer == "silent" {
						sc.Servers = []callsim.ServerSpec{{Kind: "normal", Rules: []callsim.Rule{{From: 0, To: 63, Mode: "silent"}}}}
						sc.CapMs = 4000
					} else {
						late := eff + 400 + slackMs + 400
						sc.Servers = []callsim.ServerSpec{{Kind: "normal", Rules: []callsim.Rule{{From: 0, To: 0, Mode: "delay", DelayMs: late}}}}
						sc.Calls = append(sc.Calls, callsim.CallSpec{Wave: 1, Timeout: "ctx", TimeoutMs: 1500, MustOK: true})
						sc.GapMs = late - eff + 150
						sc.CapMs = 8000
					}
					add(sc)
				}
			}
		}
		// very large timeouts (MaxInt32 ms) must not overflow into "already expired": a slow answer is awaited
		for hi, kind := range []string{"proxy", "percall"} {
			cl := callsim.ClientConf{WriteTimeoutMs: -1, DialTimeoutMs: 400, ProxyTimeoutMs: 300}
			cs := callsim.CallSpec{Wave: 0, Timeout: kind, TimeoutMs: 1<<31 - 1, MustOK: true}
			if kind == "proxy" {
				cl.ProxyTimeoutMs = 1<<31 - 1
			}
			add(&callsim.Scenario{Name: "edge-huge-" + kind, Class: "edge-huge", Client: cl, Filter: callsim.FilterPaths[hi*2],
				Servers: []callsim.ServerSpec{{Kind: "normal", Rules: []callsim.Rule{{From: 0, To: 0, Mode: "delay", DelayMs: 250}}}},
				Calls:   []callsim.CallSpec{cs}, Record: true})
		}
	}
	// transport kinds: ssl endpoints (the client trusts a run-time self-signed certificate through the ordinary
	// client configuration <ca>) whose peer misbehaves DURING connection establishment — TCP accepted but never a
	// ServerHello, bytes that are not TLS, closed after the ClientHello, a handshake that starts only long after
	// the dial timeout — and udp endpoints. Connection establishment, handshake included, is bounded by DialTimeout;
	// afterwards a call on a fresh connection must succeed.
	{
		mk := func(name string, srv callsim.ServerSpec, conc int, mustOK bool, second bool) {
			cl := callsim.ClientConf{WriteTimeoutMs: -1, DialTimeoutMs: 400, ProxyTimeoutMs: 300}
			var calls []callsim.CallSpec
			for c := 0; c < conc; c++ {
				calls = append(calls, callsim.CallSpec{Wave: 0, Timeout: kinds[c%3], TimeoutMs: 300, MustOK: mustOK})
			}
			if second {
				calls = append(calls, callsim.CallSpec{Wave: 1, Timeout: "ctx", TimeoutMs: 1500, MustOK: true})
			}
			add(&callsim.Scenario{Name: name, Class: name, Client: cl, Servers: []callsim.ServerSpec{srv}, Calls: calls,
				GapMs: 100, CapMs: 5000, Record: true})
		}
		mk("tls-good", callsim.ServerSpec{Kind: "normal", Transport: "ssl"}, 2, true, true)
		for mi, mode := range []string{"silent", "garbage", "close", "slow"} {
			conc := 1 + mi%2
			if o.Thorough() {
				conc = 2
			}
			cname := map[string]string{"silent": "stall", "garbage": "garbage", "close": "close", "slow": "slow"}[mode]
			mk("tls-handshake-"+cname, callsim.ServerSpec{Kind: "normal", Transport: "ssl", BadConns: conc, BadMode: mode, SlowMs: 1900}, conc, false, true)
			if o.Thorough() {
				mk("tls-handshake-"+cname, callsim.ServerSpec{Kind: "normal", Transport: "ssl", BadConns: 1, BadMode: mode, SlowMs: 1900}, 1, false, true)
			}
		}
		mk("udp-echo", callsim.ServerSpec{Kind: "udp"}, 2, true, true)
		mk("udp-mute", callsim.ServerSpec{Kind: "udp", Rules: []callsim.Rule{{From: 0, To: 0, Mode: "silent"}}}, 1, false, true)
	}
	// callers queue up behind the dial lock of an endpoint that does not answer the dial
	{
		cl := callsim.ClientConf{WriteTimeoutMs: -1, DialTimeoutMs: 500, ProxyTimeoutMs: 200}
		var calls []callsim.CallSpec
		for c := 0; c < 5; c++ {
			calls = append(calls, callsim.CallSpec{Wave: 0, Timeout: "proxy"})
		}
		add(&callsim.Scenario{Name: "blackhole-conc-5", Class: "blackhole-conc", Client: cl,
			Servers: []callsim.ServerSpec{{Kind: "blackhole"}}, Calls: calls})
	}
	// D18: the peer never reads, the send queue holds one request; the first request (20 MB) blocks the
	// sender goroutine in conn.Write, the second fills the queue, the third sits in TarsClient.Send
	for _, wt := range []int{2500, 0} {
		cl := callsim.ClientConf{QueueLen: 1, WriteTimeoutMs: wt, DialTimeoutMs: 400, ProxyTimeoutMs: 200}
		calls := []callsim.CallSpec{
			{Wave: 0, Timeout: "proxy", PayloadLen: 20 << 20},
			{Wave: 0, Timeout: "proxy", DelayMs: 1000},
			{Wave: 0, Timeout: "proxy", DelayMs: 1200},
		}
		capMs := 12000
		name := "d18-wt2500"
		if wt == 0 {
			capMs = 3800 // the third call never returns: the child is stopped
			name = "d18-wt0"
		}
		add(&callsim.Scenario{Name: name, Class: name, Client: cl, Servers: []callsim.ServerSpec{{Kind: "noread"}}, Calls: calls, CapMs: capMs})
	}
	// ObjQueueMax gate: more concurrent callers than the proxy admits; some fail at once, nothing leaks
	{
		cl := callsim.ClientConf{ObjQueueMax: 2, WriteTimeoutMs: -1, DialTimeoutMs: 400, ProxyTimeoutMs: 1500}
		var calls []callsim.CallSpec
		for c := 0; c < 8; c++ {
			calls = append(calls, callsim.CallSpec{Wave: 0, Timeout: "proxy", DelayMs: c})
		}
		calls = append(calls, callsim.CallSpec{Wave: 1, Timeout: "proxy", MustOK: true})
		add(&callsim.Scenario{Name: "objqueue-gate", Class: "objqueue-gate", Client: cl,
			Servers: []callsim.ServerSpec{{Kind: "normal", Rules: []callsim.Rule{{From: 0, To: 7, Mode: "delay", DelayMs: 200}}}}, Calls: calls, GapMs: 100})
	}
	// healthy mix with one-way calls over two adapters
	hn := 2
	if o.Thorough() {
		hn = 10
	}
	for k := 0; k < hn; k++ {
		cl := callsim.ClientConf{WriteTimeoutMs: -1, DialTimeoutMs: 400, ProxyTimeoutMs: 5000}
		var calls []callsim.CallSpec
		nc := 2 + 6*(k%2)
		for w := 0; w < 2; w++ {
			for c := 0; c < nc; c++ {
				cs := callsim.CallSpec{Wave: w, Timeout: kinds[(k+c)%3], TimeoutMs: 5000, MustOK: true}
				if (c+w+k)%4 == 3 {
					cs.Oneway, cs.MustOK = true, false
				}
				calls = append(calls, cs)
			}
		}
		add(&callsim.Scenario{Name: fmt.Sprintf("healthy-%d", k), Class: "healthy", Client: cl,
			Servers: []callsim.ServerSpec{{Kind: "normal"}, {Kind: "normal"}}, Calls: calls, GapMs: 50, Record: nc <= 2})
	}
	return scs
}

type pendingLine struct {
	line  string
	check func(ans string)
}

func optNum(on bool, v int) string {
	if on {
		return fmt.Sprint(v)
	}
	return "-"
}

func main() {
	o := common.ParseOpts()
	if callsim.ChildMain(o.Extra) {
		return
	}
	res := common.NewResult("C09", o)
	res.Streams = []string{"deadline", "bound", "admits"}
	dir, err := os.MkdirTemp("", "c09-")
	if err != nil {
		res.Fatal(o.Out, err)
	}
	defer os.RemoveAll(dir)
	m, err := common.StartModel(o.Model, "call")
	if err != nil {
		res.Fatal(o.Out, err)
	}
	defer m.Close()

	var scs []*callsim.Scenario
	if o.Replay != "" {
		var op caseOp
		if err := common.ReadReplay(o.Replay, &op); err != nil || op.Scenario == nil {
			res.Fatal(o.Out, fmt.Errorf("replay file has no scenario: %v", err))
		}
		scs = []*callsim.Scenario{op.Scenario}
	} else {
		scs = scenarios(o)
	}
	results, errs := callsim.SpawnAll(dir, scs, 8)

	var lines []pendingLine
	ask := func(line string, check func(string)) { lines = append(lines, pendingLine{line, check}) }
	for i, sc := range scs {
		sc := sc
		if errs[i] != nil {
			res.Fatal(o.Out, errs[i])
		}
		r := results[i]
		if r.Error != "" {
			res.Fatal(o.Out, fmt.Errorf("scenario %s: %s", sc.Name, r.Error))
		}
		op := caseOp{Scenario: sc}
		if o.Replay != "" {
			b, _ := json.MarshalIndent(r, "", " ")
			fmt.Println("impl result:", string(b))
		}
		if sc.Class == "keepalive" {
			pings := 0
			for _, q := range r.Reqs {
				if q.Type == 1 && q.Tag < 0 {
					pings++
				}
			}
			if pings == 0 {
				res.Fatal(o.Out, fmt.Errorf("scenario %s: no keep-alive ping reached the server: the keep-alive path was not exercised", sc.Name))
			}
			res.Histogram["keepalive-pings-seen"] += pings
		}
		if sc.Force != "" {
			if r.ForceHeld == 0 {
				res.Fatal(o.Out, fmt.Errorf("scenario %s: no goroutine reached the forced yield point (%s)", sc.Name, sc.Force))
			}
			if r.ForceDone == 0 {
				res.Note("scenario %s: the forced interleaving (%s) was not reached within the time limit", sc.Name, sc.Force)
				res.Histogram["forced-interleaving-missed"]++
			} else {
				res.Histogram["forced-interleaving-reached"]++
			}
		}
		if sc.Filter != "" && sc.Filter != "none" {
			if r.FilterHit == 0 && len(r.Calls) > 0 {
				res.Fatal(o.Out, fmt.Errorf("scenario %s: the installed client filter (%s) was never invoked", sc.Name, sc.Filter))
			}
			res.Histogram["filter-path:"+sc.Filter]++
		} else {
			res.Histogram["filter-path:direct"]++
		}
		viol := func(sig, what string, impl interface{}) {
			b, _ := json.Marshal(impl)
			res.Violate(common.Violation{Signature: sig, What: what, Case: common.Case{Stream: sc.Class, Op: op, Impl: string(b)}})
		}
		dial := sc.Client.DialTimeoutMs
		wt := sc.Client.WriteTimeoutMs
		if wt < 0 {
			wt = 3000
		}
		// order of return (the k-th caller to get the dial lock of a black-holed endpoint waited k dials)
		order := make([]int, len(r.Calls))
		for k := range order {
			order[k] = k
		}
		sort.Slice(order, func(a, b int) bool { return r.Calls[order[a]].EndUs < r.Calls[order[b]].EndUs })
		rank := map[int]int{}
		for k, ci := range order {
			rank[ci] = k
		}
		byTag := map[int]callsim.ReqSeen{}
		for _, q := range r.Reqs {
			byTag[q.Tag] = q
		}
		okN, errN, hangN := 0, 0, 0
		for ci, c := range r.Calls {
			spec := sc.Calls[c.Spec]
			// a timeout <= 0 and a context that has already expired give a deadline that is not after the
			// start of the call: the Nat-valued model clock represents it by "expires at once" (0)
			clamp := func(x int) int {
				if x < 0 {
					return 0
				}
				return x
			}
			eff := clamp(callsim.EffectiveTimeoutMs(sc, spec))
			elapsed := (c.EndUs - c.StartUs) / 1000
			if !c.Returned {
				hangN++
				elapsed = r.WallMs - c.StartUs/1000
			} else if c.Outcome == "ok" {
				okN++
			} else {
				errN++
			}
			// ---- oracle ----
			limit := int64(eff + dial + slackMs)
			if !c.Returned || elapsed > limit {
				what := fmt.Sprintf("caller %d (effective deadline %d ms, DialTimeout %d ms) returned after %d ms", c.I, eff, dial, elapsed)
				if !c.Returned {
					what = fmt.Sprintf("caller %d (effective deadline %d ms, DialTimeout %d ms) had not returned after %d ms when the scenario was stopped", c.I, eff, dial, elapsed)
				}
				viol("C09:deadline-exceeded:"+locus(sc.Class), what, c)
			}
			if c.Outcome == "ok" && !c.Oneway {
				q, ok := byTag[c.I]
				if !ok || q.ID != c.RespID || c.RespTag != c.I || !c.RespForm {
					viol("C09:late-reply-effect:doInvoke", fmt.Sprintf("caller %d received a response that is not the answer to its own request (id %d, payload of caller %d)", c.I, c.RespID, c.RespTag), c)
				}
			}
			if c.Returned && c.Outcome != "ok" && spec.MustOK {
				viol("C09:unexpected-error:"+sc.Class, fmt.Sprintf("caller %d failed (%s) although the peer answered it well before its deadline", c.I, c.ErrText), c)
			}
			// ---- deadline stream ----
			px := 3000
			if sc.Client.ProxyTimeoutMs > 0 || sc.Client.ProxyTimeoutSet {
				px = clamp(sc.Client.ProxyTimeoutMs)
			}
			pathName := map[string]string{"": "direct", "none": "direct", "single": "single", "middleware": "middleware", "prepost": "prepost"}[sc.Filter]
			ask(fmt.Sprintf("deadline %d %s %s 0 %s", px, optNum(spec.Timeout == "ctx", clamp(spec.TimeoutMs)), optNum(spec.Timeout == "percall", clamp(spec.TimeoutMs)), pathName), func(ans string) {
				if ans != fmt.Sprint(eff) {
					res.Diverge(common.Case{Stream: "deadline", Op: op, Model: ans, Impl: fmt.Sprint(eff), Note: "effective deadline of the model differs from the one the property names"})
				}
			})
			if strings.HasSuffix(sc.Class, "silent") && c.Returned {
				if elapsed < int64(eff)-15 {
					res.Diverge(common.Case{Stream: "deadline", Op: op, Model: fmt.Sprint(eff), Impl: fmt.Sprint(elapsed), Note: "a call to a silent peer returned before the effective deadline of the model"})
				}
				res.Histogram["silent-returned-at-deadline"]++
			}
			// ---- bound stream ----
			if c.Returned {
				lockAt, blocked := 0, 0
				if sc.Class == "blackhole-conc" {
					lockAt = rank[ci] * dial
				}
				if strings.HasPrefix(sc.Class, "d18") && ci == len(r.Calls)-1 {
					blocked = 1
				}
				ask(fmt.Sprintf("budget %d %d 0 %d %d %d", dial, wt, eff, lockAt, blocked), func(ans string) {
					var budget, pb int64
					fmt.Sscanf(ans, "%d %d", &budget, &pb)
					if o.Replay != "" {
						fmt.Printf("caller %d: elapsed %d ms, model budget %d, property bound %d (+%d slack)\n", c.I, elapsed, budget, pb, slackMs)
					}
					if elapsed > budget+slackMs {
						res.Diverge(common.Case{Stream: "bound", Op: op, Model: ans, Impl: fmt.Sprint(elapsed), Note: fmt.Sprintf("caller %d returned later than the model's bound + slack", c.I)})
					}
					if pb != int64(eff+dial) {
						res.Diverge(common.Case{Stream: "bound", Op: op, Model: ans, Impl: fmt.Sprint(eff + dial), Note: "property bound of the model differs from deadline + DialTimeout"})
					}
				})
			}
		}
		for _, k := range r.Counters {
			if r.Capped {
				continue
			}
			qls := k.QueueLens
			if len(qls) == 0 {
				qls = []int32{k.QueueLen}
			}
			for pk, q := range qls {
				if q != 0 {
					viol("C09:leak:queueLen", fmt.Sprintf("after all callers of wave %d returned: queueLen of ServantProxy #%d is %d (all proxies: %v)", k.AfterWave, pk, q, qls), k)
				}
			}
			if k.Pending != 0 {
				viol("C09:leak:resp-table", fmt.Sprintf("after all callers of wave %d returned: %d entries left in the pending-reply tables", k.AfterWave, k.Pending), k)
			}
			if k.InvokeNum != 0 {
				viol("C09:leak:invokeNum", fmt.Sprintf("after all callers of wave %d returned: invokeNum=%d", k.AfterWave, k.InvokeNum), k)
			}
			res.Histogram["counters-read"]++
		}
		res.Count(fmt.Sprintf("%s/%d/%d/%d", sc.Name, okN, errN, hangN), sc.Class, true)
		res.Histogram["calls-ok"] += okN
		res.Histogram["calls-err"] += errN
		res.Histogram["calls-not-returned"] += hangN
		if i%6 == 0 {
			var el []int64
			for _, c := range r.Calls {
				el = append(el, (c.EndUs-c.StartUs)/1000)
			}
			res.Sample(map[string]interface{}{"scenario": sc.Name, "elapsed_ms": el, "ok": okN, "err": errN, "counters": r.Counters})
		}
		if sc.Record && !r.Capped {
			line := fmt.Sprintf("admits %d %d %d %d %d 400000 %s", len(sc.Servers), 100000, 10000, wt, r.MsgIDInit, strings.Join(r.Events, " "))
			ask(line, func(ans string) {
				res.TracesValidated++
				if o.Replay != "" {
					fmt.Println("history:", strings.Join(r.Events, " "), "\nmodel:", ans)
				}
				switch {
				case strings.HasPrefix(ans, "ok"):
					res.Histogram["admits-ok"]++
				case strings.HasPrefix(ans, "budget"):
					res.Histogram["admits-budget"]++
					res.Note("history of %s exceeded the state budget (%s): not decided", sc.Name, ans)
				default:
					res.Diverge(common.Case{Stream: "admits", Op: op, Model: ans, Impl: strings.Join(r.Events, " "), Note: "the observed history (with the counters after each wave) is not a trace of the model"})
				}
			})
		}
	}
	var ls []string
	for _, l := range lines {
		ls = append(ls, l.line)
	}
	ans, err := m.Batch(ls)
	if err != nil {
		res.Fatal(o.Out, err)
	}
	for i, a := range ans {
		if a == common.NoModel {
			continue
		}
		lines[i].check(a)
	}
	res.Rule = "real client in child processes against fake servers: silent / late / slow / close after request / close on accept / garbage frame / garbage body / refuse / black hole / never reading, " +
		"x timeout source (configured, per-call, context) x 1-8 concurrent callers; dispatch path (no filter, single client filter, middleware chain, pre+post filters) x timeout source x {silent, far too late} in full; ssl endpoints whose peer stalls / garbles / closes / delays the TLS handshake, and udp endpoints; boundary deadlines (timeout 0 / 1 ms / negative / MaxInt32 ms, expired context, context later than the configured timeout) x source x path x {silent, late};  wall clock vs effective deadline + DialTimeout + 700 ms; counters through the verif export after every wave; " +
		"server resets / garbles the shared connection under 8 concurrent callers (storm) and the forced interleaving 'close of an already replaced connection' (verif yield points), each followed by plain calls; 2-3 ServantProxy objects sharing one adapter with overlapping calls (per-proxy queueLen, burst of ObjQueueMax calls per proxy afterwards); a further call after a late reply; histories with <= 2 concurrent callers replayed through the LTS; non-trivial = every scenario"
	if err := res.Write(o.Out); err != nil {
		panic(err)
	}
}
