// C10 harness: "the server answers each well-formed request exactly once with matching identity".
//
// REAL TarsGo applications (one per child process, the framework keeps its application in
// package-level state) are started for the configuration matrix {pool 0, pool N} x {handletimeout 0, T}
// with a TCP and a UDP adapter and a counting test dispatcher. The parent is a raw scripted client:
// hand-built RequestPackets of all versions / packet types / ids / timeouts / function names,
// pipelined on one and many connections and sockets. Every packet the server writes is decoded with
// the real ReadFrom (ResponsePacket or, for TUP, RequestPacket) and attributed to a request by its id.
//
//	correspondence: per request, (dispatcher invoked?, packets written) must be one of the admissible
//	                outcomes of the Lean model `serveOne` (driver tm_srvinvoke) for the variant the
//	                extractor read from the tree;
//	oracle:         computed here, without the model: exactly one answer per two-way request, none per
//	                one-way request, id/version/packet type echoed, encoding by version, ping not
//	                invoked, error mapping, queue-timeout code without execution, timeout error for an
//	                over-long handler.
//
// Timing: nothing is asserted on tight timing. A request counts as "expired in the queue" only behind
// blockers that occupy every pool worker for >= 300 ms while its own iTimeout is 30 ms, and the oracle
// reports an execution-after-timeout only when the dispatcher itself measured (start - receive) >=
// iTimeout + 200 ms. "Over-long" = the dispatcher sleeps 4 x the handle timeout. For fast requests under
// a handle timeout the model's tie outcomes (handler finished exactly at the deadline) are accepted too.
package main

import (
	"bytes"
	"context"
	"crypto/sha256"
	"encoding/binary"
	"encoding/hex"
	"encoding/json"
	"errors"
	"fmt"
	"io"
	"math"
	"math/rand"
	"net"
	"os"
	"os/exec"
	"path/filepath"
	"sort"
	"strconv"
	"strings"
	"sync"
	"time"

	"github.com/TarsCloud/TarsGo/tars"
	"github.com/TarsCloud/TarsGo/tars/protocol/codec"
	"github.com/TarsCloud/TarsGo/tars/protocol/res/requestf"
	"github.com/TarsCloud/TarsGo/tars/util/current"

	"verifharness/common"
	"verifharness/srv"
)

const (
	handleT     = 300  // ms, the handle timeout of the "T" configurations
	overLongMs  = 1200 // 4 x handleT
	blockerMs   = 900
	victimTO    = 30  // iTimeout of a request that must expire in the queue
	expirySlack = 200 // ms
	timeoutDesc = "server invoke timeout"
	resCode     = "STATUS_RESULT_CODE"
	resDesc     = "STATUS_RESULT_DESC"
)

// ---------------------------------------------------------------------------------------------
// the test dispatcher (child) and its description (parent -> model)

// behaviour maps a function name to what the test dispatcher does; the same function feeds the model.
func behaviour(fn string) (kind string, code int32, msg string, ms int) {
	switch {
	case fn == "ok" || fn == "raw" || fn == "setpt":
		return fn, 0, "", 0
	case strings.HasPrefix(fn, "sleep:"):
		if n, err := strconv.Atoi(fn[6:]); err == nil && n >= 0 {
			return "ok", 0, "", n
		}
	case strings.HasPrefix(fn, "err:"):
		p := strings.SplitN(fn, ":", 3)
		if len(p) == 3 {
			if c, err := strconv.ParseInt(p[1], 10, 32); err == nil {
				return "err", int32(c), p[2], 0
			}
		}
	case strings.HasPrefix(fn, "plainerr:"):
		return "plainerr", 0, fn[9:], 0
	}
	return "plainerr", 0, "func mismatch", 0 // tars2go's `default:` branch; also what tars_ping would get
}

type invRecord struct {
	ID      int32  `json:"id"`
	Func    string `json:"func"`
	RecvTs  int64  `json:"recv"`
	StartTs int64  `json:"start"`
}

type disp struct {
	mu   sync.Mutex
	recs []invRecord
}

func (d *disp) Dispatch(ctx context.Context, imp interface{}, req *requestf.RequestPacket, resp *requestf.ResponsePacket, withContext bool) error {
	recv, _ := current.GetRecvPkgTsFromContext(ctx)
	d.mu.Lock()
	d.recs = append(d.recs, invRecord{ID: req.IRequestId, Func: req.SFuncName, RecvTs: recv, StartTs: time.Now().UnixNano() / 1e6})
	d.mu.Unlock()
	kind, code, msg, ms := behaviour(req.SFuncName)
	if ms > 0 {
		time.Sleep(time.Duration(ms) * time.Millisecond)
	}
	switch kind {
	case "ok", "setpt":
		// the assignment tars2go emits on the success path
		*resp = requestf.ResponsePacket{
			IVersion:     req.IVersion,
			CPacketType:  0,
			IRequestId:   req.IRequestId,
			IMessageType: 0,
			IRet:         0,
			SBuffer:      req.SBuffer,
			Status:       req.Status,
			SResultDesc:  "",
			Context:      req.Context,
		}
		if kind == "setpt" {
			resp.CPacketType = 1
			resp.IMessageType = 7
		}
		return nil
	case "raw":
		return nil
	case "err":
		return &tars.Error{Code: code, Message: msg}
	default:
		return errors.New(msg)
	}
}

func childMain(spec string) {
	var tcp, udp, stats, pool, ht int
	var dir string
	p := strings.Split(spec, ":")
	if len(p) != 7 {
		fmt.Println("bad child spec", spec)
		os.Exit(9)
	}
	tcp, _ = strconv.Atoi(p[1])
	udp, _ = strconv.Atoi(p[2])
	stats, _ = strconv.Atoi(p[3])
	pool, _ = strconv.Atoi(p[4])
	ht, _ = strconv.Atoi(p[5])
	dir = p[6]
	d := &disp{}
	ln, err := net.Listen("tcp", fmt.Sprintf("127.0.0.1:%d", stats))
	if err != nil {
		fmt.Println("stats listen:", err)
		os.Exit(9)
	}
	go func() {
		for {
			c, err := ln.Accept()
			if err != nil {
				return
			}
			d.mu.Lock()
			b, _ := json.Marshal(d.recs)
			d.mu.Unlock()
			c.SetWriteDeadline(time.Now().Add(5 * time.Second))
			c.Write(b)
			c.Close()
		}
	}()
	cfg := &srv.Config{
		Adapters: []srv.Adapter{
			{Obj: "App.Server.Obj", Proto: "tcp", Host: "127.0.0.1", Port: tcp},
			{Obj: "App.Server.UObj", Proto: "udp", Host: "127.0.0.1", Port: udp}},
		HandleTimeout: ht, MaxRoutine: pool, QueueCap: 4096, Dir: dir,
	}
	if err := srv.Start(cfg, d, nil, true); err != nil {
		fmt.Println("child server start failed:", err)
		os.Exit(9)
	}
	fmt.Println("child-ready")
	select {}
}

// ---------------------------------------------------------------------------------------------
// requests, packets, canonical text (the same text the Lean driver prints)

type reqSpec struct {
	Ver     int16             `json:"ver"`
	PType   int8              `json:"ptype"`
	MType   int32             `json:"mtype"`
	ID      int32             `json:"id"`
	Servant string            `json:"servant"`
	Func    string            `json:"func"`
	Buf     string            `json:"buf"` // hex
	Timeout int32             `json:"timeout"`
	Ctx     map[string]string `json:"ctx"`
	Status  map[string]string `json:"status"`
}

// bufText: payloads travel to the model (which only echoes them) in full up to 4 KiB, as a digest beyond
func bufText(b []byte) string {
	if len(b) > 4096 {
		d := sha256.Sum256(b)
		return hex.EncodeToString(d[:]) + fmt.Sprintf("%08x", len(b))
	}
	return hx(b)
}

func hx(b []byte) string {
	if len(b) == 0 {
		return "-"
	}
	return hex.EncodeToString(b)
}

func unhx(s string) []byte {
	if s == "-" || s == "" {
		return nil
	}
	b, _ := hex.DecodeString(s)
	return b
}

func mapText(m map[string]string) string {
	if len(m) == 0 {
		return "-"
	}
	var ks []string
	for k := range m {
		ks = append(ks, k)
	}
	// by hex of the key (what the Lean driver does); hex preserves the byte order of the keys
	sort.Strings(ks)
	var es []string
	for _, k := range ks {
		es = append(es, hx([]byte(k))+":"+hx([]byte(m[k])))
	}
	return strings.Join(es, ",")
}

func i8(b []byte) []int8 {
	r := make([]int8, len(b))
	for i, x := range b {
		r[i] = int8(x)
	}
	return r
}

func u8(b []int8) []byte {
	r := make([]byte, len(b))
	for i, x := range b {
		r[i] = byte(x)
	}
	return r
}

func (r *reqSpec) encode() []byte {
	p := requestf.RequestPacket{IVersion: r.Ver, CPacketType: r.PType, IMessageType: r.MType, IRequestId: r.ID,
		SServantName: r.Servant, SFuncName: r.Func, SBuffer: i8(unhx(r.Buf)), ITimeout: r.Timeout, Context: r.Ctx, Status: r.Status}
	if p.Context == nil {
		p.Context = map[string]string{}
	}
	if p.Status == nil {
		p.Status = map[string]string{}
	}
	b := codec.NewBuffer()
	p.WriteTo(b)
	body := b.ToBytes()
	out := make([]byte, 4, 4+len(body))
	binary.BigEndian.PutUint32(out, uint32(4+len(body)))
	return append(out, body...)
}

// packet is one decoded answer.
type packet struct {
	kind string // rsp | req | bad
	rsp  requestf.ResponsePacket
	req  requestf.RequestPacket
	raw  []byte
}

func decodePacket(body []byte) packet {
	var rsp requestf.ResponsePacket
	var req requestf.RequestPacket
	e1 := rsp.ReadFrom(codec.NewReader(body))
	e2 := req.ReadFrom(codec.NewReader(body))
	switch {
	case e1 == nil && e2 != nil:
		return packet{kind: "rsp", rsp: rsp, raw: body}
	case e2 == nil && e1 != nil:
		return packet{kind: "req", req: req, raw: body}
	}
	return packet{kind: "bad", raw: body}
}

func (p *packet) id() int32 {
	if p.kind == "rsp" {
		return p.rsp.IRequestId
	}
	return p.req.IRequestId
}

func (p *packet) text() string {
	switch p.kind {
	case "rsp":
		r := p.rsp
		return fmt.Sprintf("rsp %d %d %d %d %d %s %s %s %s", r.IVersion, r.CPacketType, r.IRequestId, r.IMessageType, r.IRet,
			bufText(u8(r.SBuffer)), mapText(r.Status), hx([]byte(r.SResultDesc)), mapText(r.Context))
	case "req":
		r := p.req
		return fmt.Sprintf("req %d %d %d %d %s %s %s %d %s %s", r.IVersion, r.CPacketType, r.IMessageType, r.IRequestId,
			hx([]byte(r.SServantName)), hx([]byte(r.SFuncName)), bufText(u8(r.SBuffer)), r.ITimeout, mapText(r.Context), mapText(r.Status))
	}
	return "bad " + hx(p.raw)
}

// ---------------------------------------------------------------------------------------------
// child process management

type child struct {
	cmd             *exec.Cmd
	out             *bytes.Buffer
	done            chan struct{}
	tcp, udp, stats int
	pool, ht        int
	dir             string
}

// startChild: the ports are picked with FreePort and bound by the child a moment later; another process
// of this machine may take one in between, then the start is repeated with new ports
func startChild(scratch string, pool, ht int) (c *child, err error) {
	for attempt := 0; attempt < 4; attempt++ {
		c, err = startChildOnce(scratch, pool, ht)
		if err == nil || !strings.Contains(err.Error(), "address already in use") {
			return c, err
		}
	}
	return c, err
}

func startChildOnce(scratch string, pool, ht int) (*child, error) {
	self, err := os.Executable()
	if err != nil {
		return nil, err
	}
	dir, err := os.MkdirTemp(scratch, fmt.Sprintf("srv-p%d-h%d-", pool, ht))
	if err != nil {
		return nil, err
	}
	// CheckPanic dumps `panic.<time>` next to os.Args[0]: run the child through a link in its own dir
	link := filepath.Join(dir, "c10child")
	if err := os.Symlink(self, link); err != nil {
		link = self
	}
	c := &child{tcp: srv.FreePort("127.0.0.1"), udp: srv.FreePort("127.0.0.1"), stats: srv.FreePort("127.0.0.1"), pool: pool, ht: ht, dir: dir,
		out: &bytes.Buffer{}, done: make(chan struct{})}
	c.cmd = exec.Command(link, "-extra", fmt.Sprintf("child:%d:%d:%d:%d:%d:%s", c.tcp, c.udp, c.stats, pool, ht, dir))
	c.cmd.Dir = dir
	c.cmd.Stdout = c.out
	c.cmd.Stderr = c.out
	if err := c.cmd.Start(); err != nil {
		return nil, err
	}
	go func() { c.cmd.Wait(); close(c.done) }()
	deadline := time.Now().Add(30 * time.Second)
	for {
		if c.exited() {
			return nil, fmt.Errorf("server child exited during start: %s", c.out.String())
		}
		if conn, err := net.DialTimeout("tcp", fmt.Sprintf("127.0.0.1:%d", c.tcp), 200*time.Millisecond); err == nil {
			conn.Close()
			if _, err := c.fetchStats(); err == nil {
				return c, nil
			}
		}
		if time.Now().After(deadline) {
			c.kill()
			return nil, fmt.Errorf("server child did not start: %s", c.out.String())
		}
		time.Sleep(30 * time.Millisecond)
	}
}

func (c *child) exited() bool {
	select {
	case <-c.done:
		return true
	default:
		return false
	}
}

func (c *child) kill() {
	if !c.exited() {
		c.cmd.Process.Kill()
		<-c.done
	}
}

func (c *child) fetchStats() ([]invRecord, error) {
	conn, err := net.DialTimeout("tcp", fmt.Sprintf("127.0.0.1:%d", c.stats), time.Second)
	if err != nil {
		return nil, err
	}
	defer conn.Close()
	conn.SetReadDeadline(time.Now().Add(5 * time.Second))
	b, err := io.ReadAll(conn)
	if err != nil {
		return nil, err
	}
	var recs []invRecord
	if err := json.Unmarshal(b, &recs); err != nil {
		return nil, err
	}
	return recs, nil
}

// ---------------------------------------------------------------------------------------------
// raw clients

type endpoint struct {
	transport string
	tcp       net.Conn
	udp       *net.UDPConn
	mu        sync.Mutex
	got       []packet
	readErr   error
}

func dialEndpoint(transport string, port int) (*endpoint, error) {
	e := &endpoint{transport: transport}
	if transport == "tcp" {
		c, err := net.DialTimeout("tcp", fmt.Sprintf("127.0.0.1:%d", port), 3*time.Second)
		if err != nil {
			return nil, err
		}
		e.tcp = c
		go e.readTCP()
		return e, nil
	}
	ra := &net.UDPAddr{IP: net.IPv4(127, 0, 0, 1), Port: port}
	c, err := net.DialUDP("udp", nil, ra)
	if err != nil {
		return nil, err
	}
	c.SetReadBuffer(4 << 20)
	e.udp = c
	go e.readUDP()
	return e, nil
}

func (e *endpoint) add(p packet) {
	e.mu.Lock()
	e.got = append(e.got, p)
	e.mu.Unlock()
}

func (e *endpoint) readTCP() {
	for {
		hdr := make([]byte, 4)
		if _, err := io.ReadFull(e.tcp, hdr); err != nil {
			e.mu.Lock()
			e.readErr = err
			e.mu.Unlock()
			return
		}
		l := int(binary.BigEndian.Uint32(hdr))
		if l < 4 || l > 32<<20 {
			e.add(packet{kind: "bad", raw: hdr})
			return
		}
		body := make([]byte, l-4)
		if _, err := io.ReadFull(e.tcp, body); err != nil {
			e.mu.Lock()
			e.readErr = err
			e.mu.Unlock()
			return
		}
		e.add(decodePacket(body))
	}
}

func (e *endpoint) readUDP() {
	buf := make([]byte, 65536)
	for {
		n, err := e.udp.Read(buf)
		if err != nil {
			e.mu.Lock()
			e.readErr = err
			e.mu.Unlock()
			return
		}
		d := append([]byte(nil), buf[:n]...)
		if n < 4 || int(binary.BigEndian.Uint32(d)) != n {
			e.add(packet{kind: "bad", raw: d})
			continue
		}
		e.add(decodePacket(d[4:]))
	}
}

// broken: the read side ended (the server closed the connection): nothing more will arrive
func (e *endpoint) broken() bool {
	e.mu.Lock()
	defer e.mu.Unlock()
	return e.readErr != nil
}

func (e *endpoint) snapshot() []packet {
	e.mu.Lock()
	defer e.mu.Unlock()
	return append([]packet(nil), e.got...)
}

func (e *endpoint) close() {
	if e.tcp != nil {
		e.tcp.Close()
	}
	if e.udp != nil {
		e.udp.Close()
	}
}

// ---------------------------------------------------------------------------------------------
// cases

// caseOp is what a replay file holds: one request in its scenario and configuration.
type caseOp struct {
	Pool      int     `json:"pool"`
	HT        int     `json:"handletimeout"`
	Transport string  `json:"transport"`
	Scenario  string  `json:"scenario"` // plain | victim (behind blockers, own timeout elapses) | overlong | edge (iTimeout 1 ms: may or may not expire)
	Req       reqSpec `json:"req"`
	// Seg: the request travelled on a connection whose byte stream was written in segments (segGroup);
	// the connection is regenerated from these numbers on replay
	Seg *segRef `json:"segmented_connection,omitempty"`
}

type segRef struct {
	Seed int64  `json:"seed"`
	Tier string `json:"tier"`
	Conn int    `json:"conn"`
	Kind string `json:"kind"`
}

type tcase struct {
	op      caseOp
	ep      int // endpoint index within its group
	packets []packet
	inv     []invRecord
}

func (t *tcase) twoWay() bool { return t.op.Req.PType == 0 }

// rop: the case as it is reported (a body that the replay regenerates anyway is not copied into
// every report)
func (t *tcase) rop() caseOp {
	op := t.op
	if op.Seg != nil && len(op.Req.Buf) > 1024 {
		op.Req.Buf = fmt.Sprintf("(%d bytes, regenerated on replay)", len(op.Req.Buf)/2)
	}
	return op
}

// expiring: the request's own timeout is meant to (victim) or may (edge) elapse before it is dequeued
func (t *tcase) expiring() bool { return t.op.Scenario == "victim" || t.op.Scenario == "edge" }

// path names the code path the request is meant to take (oracle locus).
func (t *tcase) path() string {
	switch t.op.Scenario {
	case "victim":
		return "queue-timeout"
	case "overlong":
		return "Protocol.InvokeTimeout"
	}
	return "Protocol.Invoke"
}

func (t *tcase) implText() string {
	inv := len(t.inv)
	parts := []string{fmt.Sprintf("inv=%d", inv), fmt.Sprintf("n=%d", len(t.packets))}
	for i := range t.packets {
		parts = append(parts, t.packets[i].text())
	}
	return strings.Join(parts, " ")
}

func (t *tcase) modelLine(sub int, dur int) string {
	r := t.op.Req
	kind, code, msg, _ := behaviour(r.Func)
	udp := 0
	if t.op.Transport == "udp" {
		udp = 1
	}
	return fmt.Sprintf("serve tree %d %d %d %d %d %d %d %s %s %s %d %s %s %d %s %d %s %d",
		t.op.Pool, t.op.HT, udp, r.Ver, r.PType, r.MType, r.ID, hx([]byte(r.Servant)), hx([]byte(r.Func)), bufText(unhx(r.Buf)), r.Timeout,
		mapText(r.Ctx), mapText(r.Status), sub, kind, code, hx([]byte(msg)), dur)
}

// ---------------------------------------------------------------------------------------------
// generators

type gen struct {
	rng     *rand.Rand
	nextID  int32
	special []int32
}

func newGen(rng *rand.Rand) *gen {
	return &gen{rng: rng, nextID: 100, special: []int32{0, -1, 1, math.MinInt32, math.MaxInt32, -77}}
}

func (g *gen) id() int32 {
	if len(g.special) > 0 && g.rng.Intn(4) == 0 {
		v := g.special[0]
		g.special = g.special[1:]
		return v
	}
	g.nextID += int32(1 + g.rng.Intn(1000))
	if g.rng.Intn(3) == 0 {
		return -g.nextID
	}
	return g.nextID
}

func (g *gen) str(max int) string {
	const al = "abcXYZ019_-. :/=\x01\x7f\xc3\xa9"
	n := g.rng.Intn(max + 1)
	b := make([]byte, n)
	for i := range b {
		b[i] = al[g.rng.Intn(len(al))]
	}
	return string(b)
}

func (g *gen) smap() map[string]string {
	m := map[string]string{}
	switch g.rng.Intn(4) {
	case 0, 1:
		return m
	}
	for i := g.rng.Intn(3) + 1; i > 0; i-- {
		m["k"+g.str(5)] = g.str(8)
	}
	return m
}

func (g *gen) version() int16 {
	switch g.rng.Intn(10) {
	case 0, 1, 2, 3:
		return 1
	case 4, 5, 6:
		return 3
	case 7, 8:
		return 5
	}
	return []int16{2, 4, 0, 7, -3}[g.rng.Intn(5)] // versions the code does not know are answered like TARS
}

var errCodes = []int32{77, 1, -1, -3, -6, -99, 5, 100000, math.MinInt32, math.MaxInt32, 0}

func (g *gen) fastFunc() string {
	switch g.rng.Intn(12) {
	case 0, 1, 2:
		return "ok"
	case 3:
		return "raw"
	case 4:
		return "setpt"
	case 5, 6:
		return fmt.Sprintf("err:%d:%s", errCodes[g.rng.Intn(len(errCodes))], "e"+g.str(12))
	case 7:
		return "plainerr:" + "p" + g.str(12)
	case 8, 9:
		return "tars_ping"
	case 10:
		return "nosuchfunc" + g.str(4)
	}
	return "sleep:" + strconv.Itoa(g.rng.Intn(30))
}

func (g *gen) request(fn string, ptype int8, timeout int32) reqSpec {
	buf := make([]byte, g.rng.Intn(40))
	g.rng.Read(buf)
	return reqSpec{Ver: g.version(), PType: ptype, MType: []int32{0, 0, 1, 0x10, 0x80}[g.rng.Intn(5)], ID: g.id(), Servant: "App.Server.Obj",
		Func: fn, Buf: hx(buf), Timeout: timeout, Ctx: g.smap(), Status: g.smap()}
}

func (g *gen) ptype() int8 {
	if g.rng.Intn(3) == 0 {
		return 1
	}
	return 0
}

// timeout of a request that is not meant to expire: none, negative (= none), or far beyond anything
// the run can make a request wait in a pool queue (over-long handlers occupy workers for seconds)
func (g *gen) timeout() int32 {
	return []int32{0, 0, 600000, 86400000, -5, math.MaxInt32}[g.rng.Intn(6)]
}

// group: requests per endpoint, sent in order, each endpoint pipelined.
// segPlan: how the byte stream of one TCP endpoint is written: a segment ends at every cut (offset
// into the stream), followed by a pause, so that the server reads the segments separately
type segPlan struct {
	cuts   []int
	pauses []int // ms, parallel to cuts
}

type group struct {
	segs  map[int]*segPlan
	name  string
	eps   []string // transport of endpoint i
	cases []*tcase // in send order per endpoint (ep index inside)
}

func (gr *group) addEp(tr string) int {
	gr.eps = append(gr.eps, tr)
	return len(gr.eps) - 1
}

func (gr *group) add(ep int, pool, ht int, scenario string, r reqSpec) *tcase {
	t := &tcase{op: caseOp{Pool: pool, HT: ht, Transport: gr.eps[ep], Scenario: scenario, Req: r}, ep: ep}
	gr.cases = append(gr.cases, t)
	return t
}

// queueGroup: on every transport, blockers that occupy every worker, then requests whose own timeout
// elapses while they wait (only meaningful with a pool).
func queueGroup(g *gen, pool, ht int, rounds int) *group {
	gr := &group{name: "queue"}
	for _, tr := range []string{"tcp", "udp"} {
		for r := 0; r < rounds; r++ {
			ep := gr.addEp(tr)
			for i := 0; i < pool; i++ {
				b := g.request(fmt.Sprintf("sleep:%d", blockerMs), 0, 0)
				sc := "plain"
				if ht > 0 {
					sc = "overlong" // 900 ms >= 3 x T
				}
				gr.add(ep, pool, ht, sc, b)
			}
			for _, fn := range []string{"ok", "err:77:boom", "tars_ping", "ok", "plainerr:late", "sleep:5"} {
				for _, ver := range []int16{1, 3, 5} {
					if r > 0 && g.rng.Intn(2) == 0 {
						continue
					}
					v := g.request(fn, 0, victimTO)
					v.Ver = ver
					if fn == "ok" && g.rng.Intn(2) == 0 {
						v.PType = 1
					}
					gr.add(ep, pool, ht, "victim", v)
				}
			}
			gr.add(ep, pool, ht, "plain", g.request("ok", 0, 0)) // fence
		}
	}
	return gr
}

// mainGroup: the bulk of fast requests plus, under a handle timeout, over-long ones.
func mainGroup(g *gen, pool, ht int, n int, longRounds int) *group {
	gr := &group{name: "main"}
	for _, tr := range []string{"tcp", "udp"} {
		neps := 1 + g.rng.Intn(4)
		var eps []int
		for i := 0; i < neps; i++ {
			eps = append(eps, gr.addEp(tr))
		}
		for i := 0; i < n; i++ {
			ep := eps[g.rng.Intn(len(eps))]
			gr.add(ep, pool, ht, "plain", g.request(g.fastFunc(), g.ptype(), g.timeout()))
		}
		// one connection / socket per request
		for i := 0; i < 4; i++ {
			ep := gr.addEp(tr)
			gr.add(ep, pool, ht, "plain", g.request(g.fastFunc(), 0, g.timeout()))
		}
		if ht > 0 {
			for r := 0; r < longRounds; r++ {
				ep := eps[g.rng.Intn(len(eps))]
				if r == 0 {
					ep = gr.addEp(tr)
				}
				for _, ver := range []int16{1, 3, 5} {
					for _, pt := range []int8{0, 1} {
						q := g.request(fmt.Sprintf("sleep:%d", overLongMs), pt, g.timeout())
						q.Ver = ver
						gr.add(ep, pool, ht, "overlong", q)
					}
				}
			}
		}
		for _, ep := range eps {
			gr.add(ep, pool, ht, "plain", g.request("ok", 0, 0)) // fence
		}
	}
	return gr
}

// ---------------------------------------------------------------------------------------------
// segmented connections: the same requests, but the TCP byte stream is cut where a receive loop can
// go wrong — around every request boundary, at the multiples of the server's 4096-byte read buffer,
// at random places — and the segments are written with pauses so that the server reads them one by one.
// Self-contained (own generator, own id range) so that one connection can be regenerated for a replay.

const segIDBase = 40000000

func segGen(seed int64, pool, ht int) *gen {
	g := newGen(rand.New(rand.NewSource(seed*7368787 + int64(pool)*104729 + int64(ht)*31 + 17)))
	g.nextID = segIDBase
	g.special = []int32{math.MinInt32 + 1, math.MaxInt32 - 1, -2, 2, math.MinInt32 + 2, math.MaxInt32 - 2}
	return g
}

func (g *gen) pause() int {
	if g.rng.Intn(8) == 0 {
		return 5 + g.rng.Intn(46)
	}
	return 5 + g.rng.Intn(4)
}

// smallReq: a fast request for a pipelined connection (edge = iTimeout 1 ms now and then, only without
// a handle timeout: such a request may or may not expire before it is dequeued, both are admissible)
func (g *gen) smallReq(gr *group, ep, pool, ht int, ref *segRef) *tcase {
	fn := g.fastFunc()
	scenario, timeout := "plain", g.timeout()
	// (not tars_ping: whether a request expired is read off the dispatcher's record, and a ping never gets there)
	if ht == 0 && g.rng.Intn(7) == 0 && !strings.HasPrefix(fn, "sleep:") && fn != "tars_ping" {
		scenario, timeout = "edge", 1
	}
	t := gr.add(ep, pool, ht, scenario, g.request(fn, g.ptype(), timeout))
	t.op.Seg = ref
	return t
}

func streamLen(gr *group, ep int) (total int, ends []int) {
	for _, t := range gr.cases {
		if t.ep == ep {
			total += len(t.op.Req.encode())
			ends = append(ends, total)
		}
	}
	return
}

// padTo grows the buffer of r until its encoding is exactly want bytes long (false: not reachable)
func padTo(r *reqSpec, want int) bool {
	for try := 0; try < 8; try++ {
		have := len(r.encode())
		if have == want {
			return true
		}
		n := len(unhx(r.Buf)) + want - have
		if n < 0 {
			return false
		}
		r.Buf = hx(bytes.Repeat([]byte{0x5a}, n))
	}
	return len(r.encode()) == want
}

func segGroup(seed int64, tier string, pool, ht int) *group {
	g := segGen(seed, pool, ht)
	gr := &group{name: "segmented", segs: map[int]*segPlan{}}
	thorough := tier == "thorough"
	nSmall := 22
	if thorough {
		nSmall = 300
	}
	conn := 0
	newConn := func(kind string) (int, *segRef) {
		ep := gr.addEp("tcp")
		ref := &segRef{Seed: seed, Tier: tier, Conn: conn, Kind: kind}
		conn++
		return ep, ref
	}
	fence := func(ep int, ref *segRef) {
		t := gr.add(ep, pool, ht, "plain", g.request("ok", 0, 0))
		t.op.Seg = ref
	}
	// (a) one cut per request boundary, the offsets -3..+3 in turn (two phases so that every offset meets
	// every position parity), short pauses
	for phase := 0; phase < 2; phase++ {
		ep, ref := newConn(fmt.Sprintf("boundary-offsets/%d", phase))
		for i := 0; i < nSmall; i++ {
			g.smallReq(gr, ep, pool, ht, ref)
		}
		fence(ep, ref)
		_, ends := streamLen(gr, ep)
		plan := &segPlan{}
		for j, b := range ends[:len(ends)-1] {
			off := []int{1, 2, 3, -1, -2, -3, 0}[(j+3*phase)%7]
			plan.cuts = append(plan.cuts, b+off)
			plan.pauses = append(plan.pauses, g.pause())
		}
		gr.segs[ep] = plan
	}
	// (b) random cuts
	{
		ep, ref := newConn("random-cuts")
		for i := 0; i < nSmall; i++ {
			g.smallReq(gr, ep, pool, ht, ref)
		}
		fence(ep, ref)
		total, _ := streamLen(gr, ep)
		plan := &segPlan{}
		pos := 0
		for {
			pos += 1 + g.rng.Intn(2*total/(nSmall+1)+2)
			if pos >= total {
				break
			}
			plan.cuts = append(plan.cuts, pos)
			plan.pauses = append(plan.pauses, g.pause())
		}
		gr.segs[ep] = plan
	}
	// (c) request boundaries 1, 2, 3 bytes in front of (and on, and behind) the multiples of 4096 of the
	// stream: once written in one piece (the server's 4096-byte reads end there by themselves when the
	// data is already waiting), once cut at every multiple
	for _, cutAt4096 := range []bool{false, true} {
		kind := "4096-aligned/one-write"
		if cutAt4096 {
			kind = "4096-aligned/cut"
		}
		ep, ref := newConn(kind)
		n := 14
		if thorough {
			n = 70
		}
		total := 0
		for i := 0; i < n; i++ {
			t := g.smallReq(gr, ep, pool, ht, ref)
			k := []int{1, 2, 3, 0, 4095, 4094, 5}[i%7] // the next 4096-multiple lies k bytes behind this request's end
			have := len(t.op.Req.encode())
			want := ((total+have+k+4095)/4096)*4096 - k - total
			for want < have {
				want += 4096
			}
			if !padTo(&t.op.Req, want) {
				want = have
			}
			total += len(t.op.Req.encode())
		}
		fence(ep, ref)
		total, _ = streamLen(gr, ep)
		plan := &segPlan{}
		if cutAt4096 {
			for c := 4096; c < total; c += 4096 {
				plan.cuts = append(plan.cuts, c)
				plan.pauses = append(plan.pauses, g.pause())
			}
		}
		gr.segs[ep] = plan
	}
	// (d) large bodies spanning many reads, each followed by a request whose header is cut 1..3 bytes in
	{
		ep, ref := newConn("large-bodies")
		sizes := []int{65536 + 7, 300000}
		if thorough {
			sizes = []int{65536, 65537, 262144 + 3, 1 << 20, 700001}
		}
		plan := &segPlan{}
		total := 0
		for i, sz := range sizes {
			big := g.request("ok", 0, g.timeout())
			b := make([]byte, sz)
			g.rng.Read(b)
			big.Buf = hx(b)
			t := gr.add(ep, pool, ht, "plain", big)
			t.op.Seg = ref
			total += len(big.encode())
			// a cut inside the body, and one 1..3 bytes into the next header
			plan.cuts = append(plan.cuts, total-sz/2, total+1+i%3)
			plan.pauses = append(plan.pauses, g.pause(), g.pause())
			for j := 0; j < 3; j++ {
				total += len(g.smallReq(gr, ep, pool, ht, ref).op.Req.encode())
			}
		}
		fence(ep, ref)
		gr.segs[ep] = plan
	}
	return gr
}

// ---------------------------------------------------------------------------------------------
// running a group against a child

func runGroup(c *child, gr *group) error {
	eps := make([]*endpoint, len(gr.eps))
	for i, tr := range gr.eps {
		port := c.tcp
		if tr == "udp" {
			port = c.udp
		}
		e, err := dialEndpoint(tr, port)
		if err != nil {
			return err
		}
		eps[i] = e
		defer e.close()
	}
	before, err := c.fetchStats()
	if err != nil {
		return err
	}
	seen := map[int32]int{}
	for _, r := range before {
		seen[r.ID]++
	}
	// send: per endpoint in order; TCP: the whole pipeline of an endpoint in as few writes as the
	// random chunking gives; UDP: one datagram per request, paced in windows
	byEp := map[int][]*tcase{}
	for _, t := range gr.cases {
		byEp[t.ep] = append(byEp[t.ep], t)
	}
	var wg sync.WaitGroup
	errs := make(chan error, len(eps))
	for i := range eps {
		wg.Add(1)
		go func(i int) {
			defer wg.Done()
			e := eps[i]
			if e.transport == "tcp" {
				var all []byte
				for _, t := range byEp[i] {
					all = append(all, t.op.Req.encode()...)
				}
				e.tcp.SetWriteDeadline(time.Now().Add(60 * time.Second))
				plan := gr.segs[i]
				if plan == nil {
					if _, err := e.tcp.Write(all); err != nil {
						errs <- err
					}
					return
				}
				// segmented: a write error means the server gave the connection up (what is then
				// unanswered is judged by the oracle), not a harness failure
				pos := 0
				for k, cut := range plan.cuts {
					if cut <= pos || cut >= len(all) {
						continue
					}
					if _, err := e.tcp.Write(all[pos:cut]); err != nil {
						return
					}
					pos = cut
					time.Sleep(time.Duration(plan.pauses[k]) * time.Millisecond)
				}
				e.tcp.Write(all[pos:])
				return
			}
			for k, t := range byEp[i] {
				if _, err := e.udp.Write(t.op.Req.encode()); err != nil {
					errs <- err
					return
				}
				if k%24 == 23 {
					time.Sleep(40 * time.Millisecond) // pacing only: keeps socket buffers far from full
				}
			}
		}(i)
	}
	wg.Wait()
	select {
	case err := <-errs:
		return fmt.Errorf("send: %v", err)
	default:
	}
	// 1. wait until every two-way request has an answer with its id on its endpoint (generous bound)
	count := func(t *tcase) int {
		n := 0
		for _, p := range eps[t.ep].snapshot() {
			if p.kind != "bad" && p.id() == t.op.Req.ID {
				n++
			}
		}
		return n
	}
	deadline := time.Now().Add(40 * time.Second)
	for time.Now().Before(deadline) && !c.exited() {
		missing := 0
		for _, t := range gr.cases {
			if t.twoWay() && count(t) == 0 && !eps[t.ep].broken() {
				missing++
			}
		}
		if missing == 0 {
			break
		}
		time.Sleep(20 * time.Millisecond)
	}
	// 2. wait until the dispatcher has seen every request that is meant to reach it
	deadline = time.Now().Add(15 * time.Second)
	var recs []invRecord
	for {
		recs, err = c.fetchStats()
		if err != nil {
			return err
		}
		got := map[int32]int{}
		for _, r := range recs {
			got[r.ID]++
		}
		missing := 0
		for _, t := range gr.cases {
			if !t.expiring() && t.op.Req.Func != "tars_ping" && got[t.op.Req.ID]-seen[t.op.Req.ID] == 0 && !eps[t.ep].broken() {
				missing++
			}
		}
		if missing == 0 || time.Now().After(deadline) || c.exited() {
			break
		}
		time.Sleep(20 * time.Millisecond)
	}
	// 3. bounded quiet period: anything the server still writes (an answer to a one-way request, a
	// duplicate) arrives within it; under a handle timeout that is T after the dispatcher started
	quiet := 500 * time.Millisecond
	if c.ht > 0 {
		quiet = time.Duration(c.ht+700) * time.Millisecond
	}
	time.Sleep(quiet)
	recs, err = c.fetchStats()
	if err != nil {
		return err
	}
	// attribute
	claimed := map[int]map[int]bool{}
	for _, t := range gr.cases {
		snap := eps[t.ep].snapshot()
		for k, p := range snap {
			if p.kind != "bad" && p.id() == t.op.Req.ID {
				t.packets = append(t.packets, p)
				if claimed[t.ep] == nil {
					claimed[t.ep] = map[int]bool{}
				}
				claimed[t.ep][k] = true
			}
		}
		for _, r := range recs {
			if r.ID == t.op.Req.ID && seen[r.ID] == 0 {
				t.inv = append(t.inv, r)
			}
		}
	}
	// packets nobody asked for
	for i, e := range eps {
		for k, p := range e.snapshot() {
			if !claimed[i][k] {
				gr.cases = append(gr.cases, &tcase{op: caseOp{Pool: c.pool, HT: c.ht, Transport: e.transport, Scenario: "spurious"}, ep: i, packets: []packet{p}})
			}
		}
	}
	return nil
}

// ---------------------------------------------------------------------------------------------
// oracle (independent of the model)

func statusCode(p *packet) (string, string, bool) {
	c, ok := p.req.Status[resCode]
	return c, p.req.Status[resDesc], ok
}

// carries: does the answer carry return code `code` (and, when desc != nil, that description)?
func carries(p *packet, code int32, desc *string) bool {
	if p.kind == "rsp" {
		return p.rsp.IRet == code && (desc == nil || p.rsp.SResultDesc == *desc)
	}
	c, d, ok := statusCode(p)
	if code == 0 {
		return !ok
	}
	return ok && c == strconv.Itoa(int(code)) && (desc == nil || d == *desc)
}

func isTimeoutAnswer(p *packet) bool {
	d := timeoutDesc
	return carries(p, 1, &d)
}

func oracle(t *tcase, res *common.Result, modelText string) {
	viol := func(class, locus, what string) {
		res.Violate(common.Violation{Signature: "C10:" + class + ":" + locus, What: what,
			Case: common.Case{Stream: "srvinvoke", Op: t.rop(), Model: modelText, Impl: t.implText()}})
	}
	r := t.op.Req
	path := t.path()
	if t.op.Scenario == "spurious" {
		viol("spurious-response", t.op.Transport, "the server wrote a packet that answers no request sent on that connection: "+t.packets[0].text())
		return
	}
	for i := range t.packets {
		if t.packets[i].kind == "bad" {
			viol("wrong-value", "undecodable-response", "an answer decodes neither as ResponsePacket nor as RequestPacket")
			return
		}
	}
	// exactly once / never
	if !t.twoWay() {
		if len(t.packets) != 0 {
			viol("response-to-oneway", path, fmt.Sprintf("a one-way request (id %d) was answered: %s", r.ID, t.packets[0].text()))
		}
	} else if len(t.packets) == 0 {
		viol("request-unanswered", path, fmt.Sprintf("two-way request id %d got no answer within the bound", r.ID))
	} else if len(t.packets) > 1 {
		viol("duplicate-response", path, fmt.Sprintf("two-way request id %d got %d answers", r.ID, len(t.packets)))
	}
	// execution
	kind, code, msg, _ := behaviour(r.Func)
	if r.Func == "tars_ping" && len(t.inv) > 0 {
		viol("ping-invoked", "Protocol.Invoke", "tars_ping reached the dispatcher")
	}
	if t.expiring() {
		for _, iv := range t.inv {
			if iv.StartTs-iv.RecvTs >= int64(r.Timeout)+expirySlack {
				viol("executed-after-timeout", "Protocol.Invoke", fmt.Sprintf("request id %d with iTimeout %d ms was executed %d ms after it was received", r.ID, r.Timeout, iv.StartTs-iv.RecvTs))
			}
		}
	}
	if len(t.inv) > 1 {
		viol("executed-twice", path, fmt.Sprintf("request id %d reached the dispatcher %d times", r.ID, len(t.inv)))
	}
	if len(t.packets) != 1 || !t.twoWay() {
		return
	}
	p := &t.packets[0]
	// identity
	if p.kind == "rsp" {
		if p.rsp.IVersion != r.Ver {
			viol("wrong-identity", "version@"+path, fmt.Sprintf("request version %d, answer version %d", r.Ver, p.rsp.IVersion))
		}
		if p.rsp.CPacketType != r.PType {
			viol("wrong-identity", "packet-type@"+path, fmt.Sprintf("request packet type %d, answer %d", r.PType, p.rsp.CPacketType))
		}
	} else {
		if p.req.IVersion != r.Ver {
			viol("wrong-identity", "version@"+path, fmt.Sprintf("request version %d, answer version %d", r.Ver, p.req.IVersion))
		}
		if p.req.CPacketType != r.PType {
			viol("wrong-identity", "packet-type@"+path, fmt.Sprintf("request packet type %d, answer %d", r.PType, p.req.CPacketType))
		}
	}
	// encoding by version
	if (r.Ver == 3) != (p.kind == "req") {
		viol("wrong-encoding", path, fmt.Sprintf("request version %d answered as %s", r.Ver, map[string]string{"rsp": "ResponsePacket", "req": "RequestPacket"}[p.kind]))
	}
	// return code
	tdesc := timeoutDesc
	swallowed := func(what string) {
		// the TUP encoding without the code in its status map
		viol("error-swallowed", "req2Byte", what+": the TUP answer carries no return code / description")
	}
	check := func(c int32, d *string, class, locus, what string) {
		if carries(p, c, d) {
			return
		}
		if p.kind == "req" && c != 0 {
			if _, _, ok := statusCode(p); !ok {
				swallowed(what)
				return
			}
		}
		viol(class, locus, what+": got "+p.text())
	}
	switch {
	case t.expiring():
		expired := true
		for _, iv := range t.inv {
			if iv.StartTs-iv.RecvTs < int64(r.Timeout)+expirySlack {
				expired = false // the scenario did not make the timeout elapse: not judged
			}
		}
		if expired && len(t.inv) == 0 {
			check(-6, &tdesc, "wrong-value", "queue-timeout-code", fmt.Sprintf("request id %d expired in the queue", r.ID))
		}
	case t.op.Scenario == "overlong":
		// a timeout error: non-zero code
		if p.kind == "rsp" {
			if p.rsp.IRet == 0 {
				viol("wrong-value", "handle-timeout-code", "over-long handler answered with return code 0")
			}
		} else if c, _, ok := statusCode(p); !ok {
			swallowed("over-long handler")
		} else if c == "0" {
			viol("wrong-value", "handle-timeout-code", "over-long handler answered with return code 0")
		}
	default:
		if t.op.HT > 0 && isTimeoutAnswer(p) && r.Func != "tars_ping" && len(t.inv) > 0 {
			return // the handler was over-long in real time: a timeout error is a correct answer
		}
		switch {
		case r.Func == "tars_ping":
			check(0, nil, "wrong-value", "ping", "tars_ping must be answered with success")
		case kind == "err" && code != 0:
			check(code, &msg, "wrong-value", "error-mapping", fmt.Sprintf("implementation error (%d, %q)", code, msg))
		case kind == "err":
			// code 0 is the boundary D19 of C01 (a zero code is success on the wire): not judged here
		case kind == "plainerr":
			check(1, &msg, "wrong-value", "error-mapping", fmt.Sprintf("plain implementation error %q", msg))
		case kind == "ok" || kind == "setpt":
			check(0, nil, "wrong-value", "success", "successful call")
			var buf []byte
			if p.kind == "rsp" {
				buf = u8(p.rsp.SBuffer)
			} else {
				buf = u8(p.req.SBuffer)
			}
			if hx(buf) != r.Buf {
				viol("wrong-value", "payload", "the answer does not carry the dispatcher's buffer")
			}
		case kind == "raw":
			check(0, nil, "wrong-value", "success", "successful call")
		}
	}
}

// ---------------------------------------------------------------------------------------------
// correspondence

func classOf(t *tcase) string {
	r := t.op.Req
	kind, _, _, _ := behaviour(r.Func)
	if r.Func == "tars_ping" {
		kind = "ping"
	}
	if strings.HasPrefix(r.Func, "sleep:") {
		kind = "sleep"
	}
	if strings.HasPrefix(r.Func, "nosuchfunc") {
		kind = "nofunc"
	}
	ver := map[int16]string{1: "tars", 3: "tup", 5: "json"}[r.Ver]
	if ver == "" {
		ver = "otherver"
	}
	way := "2way"
	if r.PType == 1 {
		way = "1way"
	}
	return fmt.Sprintf("p%d/h%d/%s/%s/%s/%s/%s", t.op.Pool, t.op.HT, t.op.Transport, t.op.Scenario, ver, way, kind)
}

func judge(cases []*tcase, m *common.Model, res *common.Result) error {
	// primary line per case, then optional fallbacks
	var lines []string
	type ref struct{ primary, fallback int }
	refs := make([]ref, len(cases))
	for i, t := range cases {
		refs[i] = ref{-1, -1}
		if t.op.Scenario == "spurious" {
			continue
		}
		_, _, _, ms := behaviour(t.op.Req.Func)
		sub := 0
		if t.expiring() {
			sub = int(t.op.Req.Timeout) + 1000
		}
		refs[i].primary = len(lines)
		lines = append(lines, t.modelLine(sub, ms))
		switch {
		case t.expiring():
			// the scenario may fail to make the timeout elapse (nothing guarantees scheduling): then the
			// dispatcher itself saw start-recv below the timeout
			missed := len(t.inv) > 0
			for _, iv := range t.inv {
				if iv.StartTs-iv.RecvTs >= int64(t.op.Req.Timeout)+expirySlack {
					missed = false
				}
			}
			if missed {
				refs[i].fallback = len(lines)
				lines = append(lines, t.modelLine(0, ms))
			}
		case t.op.HT > 0 && t.op.Scenario == "plain":
			// tie: the handler finished exactly when the handle timeout fired
			refs[i].fallback = len(lines)
			lines = append(lines, t.modelLine(0, t.op.HT))
		}
	}
	ans, err := m.Batch(lines)
	if err != nil {
		return err
	}
	var tieSlips []common.Case
	victimSlips, victims, htPlain := 0, 0, 0
	defer func() {
		// the slips are tolerated because scheduling is not under the harness's control; they are not
		// tolerated as the rule (a server that always takes the timeout branch, a queue scenario that
		// never makes a timeout elapse)
		if len(tieSlips) > 3 && len(tieSlips)*20 > htPlain {
			res.Diverge(tieSlips[0])
			res.Note("%d of %d fast requests under a handle timeout took the timeout branch", len(tieSlips), htPlain)
		}
		if victims > 0 && victimSlips*2 > victims {
			res.Note("queue scenario: only %d of %d requests expired in the queue", victims-victimSlips, victims)
			res.Histogram["queue-scenario-ineffective"]++
		}
	}()
	for i, t := range cases {
		if t.op.Scenario == "victim" {
			victims++
		}
		if t.op.Scenario == "plain" && t.op.HT > 0 {
			htPlain++
		}
		if t.op.Scenario == "spurious" {
			res.Count("spurious/"+t.packets[0].text(), "spurious", false)
			oracle(t, res, "")
			res.Diverge(common.Case{Stream: "srvinvoke", Op: t.rop(), Model: "(no request)", Impl: t.packets[0].text()})
			continue
		}
		impl := t.implText()
		model := ans[refs[i].primary]
		res.Count(classOf(t)+"/"+shapeOf(t), classOf(t), true)
		res.TracesValidated++
		if i%97 == 0 {
			res.Sample(map[string]interface{}{"case": t.rop(), "model": model, "impl": impl})
		}
		oracle(t, res, model)
		if model == common.NoModel {
			continue
		}
		if member(model, impl) {
			res.Histogram["branch:"+branchOf(t, impl)]++
			continue
		}
		if refs[i].fallback >= 0 && member(ans[refs[i].fallback], impl) {
			if t.op.Scenario == "victim" {
				res.Histogram["slip:queue-scenario-missed"]++
				victimSlips++
			} else if t.op.Scenario == "edge" {
				res.Histogram["branch:timeout-1ms-not-expired"]++
			} else {
				res.Histogram["slip:handle-timeout-tie"]++
				tieSlips = append(tieSlips, common.Case{Stream: "srvinvoke", Op: t.rop(), Model: model, Impl: impl,
					Note: "a fast request under a handle timeout was answered as if the handler had been over-long"})
			}
			continue
		}
		if strings.HasPrefix(model, "bad-") {
			return fmt.Errorf("model driver rejected %q: %s", lines[refs[i].primary], model)
		}
		res.Diverge(common.Case{Stream: "srvinvoke", Op: t.rop(), Model: model, Impl: impl})
	}
	return nil
}

// shapeOf: the outcome without ids and payloads (for the distinct-case count)
func shapeOf(t *tcase) string {
	s := fmt.Sprintf("inv=%d/n=%d", len(t.inv), len(t.packets))
	for i := range t.packets {
		p := &t.packets[i]
		switch p.kind {
		case "rsp":
			s += fmt.Sprintf("/rsp:v%d:t%d:ret%d", p.rsp.IVersion, p.rsp.CPacketType, p.rsp.IRet)
		case "req":
			c, _, _ := statusCode(p)
			s += fmt.Sprintf("/req:v%d:t%d:code%s", p.req.IVersion, p.req.CPacketType, c)
		default:
			s += "/bad"
		}
	}
	return s
}

func member(set, x string) bool {
	for _, o := range strings.Split(set, " | ") {
		if o == x {
			return true
		}
	}
	return false
}

func branchOf(t *tcase, impl string) string {
	switch {
	case t.op.Scenario == "victim":
		return "queue-timeout"
	case t.op.Scenario == "overlong":
		return "handle-timeout"
	case t.op.Req.Func == "tars_ping":
		return "ping"
	case strings.Contains(impl, "inv=1") && strings.Contains(impl, "n=0"):
		return "oneway-executed"
	}
	kind, _, _, _ := behaviour(t.op.Req.Func)
	return "dispatch-" + kind
}

// ---------------------------------------------------------------------------------------------

type config struct{ pool, ht int }

func runConfig(scratch string, cf config, seed int64, tier string, n, rounds int, res *common.Result, mu *sync.Mutex, m *common.Model) error {
	g := newGen(rand.New(rand.NewSource(seed*1000003 + int64(cf.pool)*7919 + int64(cf.ht))))
	c, err := startChild(scratch, cf.pool, cf.ht)
	if err != nil {
		return err
	}
	defer c.kill()
	var groups []*group
	if cf.pool > 0 {
		groups = append(groups, queueGroup(g, cf.pool, cf.ht, rounds))
	}
	groups = append(groups, mainGroup(g, cf.pool, cf.ht, n, rounds))
	groups = append(groups, segGroup(seed, tier, cf.pool, cf.ht))
	for _, gr := range groups {
		if err := runGroup(c, gr); err != nil {
			return fmt.Errorf("config pool=%d ht=%d group %s: %v (child: %s)", cf.pool, cf.ht, gr.name, err, tail(c.out.String()))
		}
		died := c.exited()
		mu.Lock()
		err := judge(gr.cases, m, res)
		if died {
			res.Violate(common.Violation{Signature: "C10:server-died:" + gr.name, What: "the server process exited while answering well-formed requests: " + tail(c.out.String()),
				Case: common.Case{Stream: "srvinvoke", Op: gr.cases[0].op}})
		}
		mu.Unlock()
		if err != nil {
			return err
		}
		if died {
			return nil
		}
	}
	return nil
}

func tail(s string) string {
	if len(s) > 600 {
		return s[len(s)-600:]
	}
	return s
}

func replay(o *common.Opts, scratch string, res *common.Result, m *common.Model) error {
	var op caseOp
	if err := common.ReadReplay(o.Replay, &op); err != nil {
		return err
	}
	c, err := startChild(scratch, op.Pool, op.HT)
	if err != nil {
		return err
	}
	defer c.kill()
	if op.Seg != nil {
		// the whole connection is regenerated and replayed: what happens to one request of a byte stream
		// depends on where the stream was cut before it
		full := segGroup(op.Seg.Seed, op.Seg.Tier, op.Pool, op.HT)
		gr := &group{name: "replay-segmented", segs: map[int]*segPlan{}}
		ep := gr.addEp("tcp")
		gr.segs[ep] = full.segs[op.Seg.Conn]
		var the *tcase
		for _, t := range full.cases {
			if t.ep == op.Seg.Conn {
				t.ep = ep
				gr.cases = append(gr.cases, t)
				if t.op.Req.ID == op.Req.ID {
					the = t
				}
			}
		}
		if gr.segs[ep] == nil || len(gr.cases) == 0 {
			return fmt.Errorf("segmented connection %d cannot be regenerated", op.Seg.Conn)
		}
		if err := runGroup(c, gr); err != nil {
			return err
		}
		if err := judge(gr.cases, m, res); err != nil {
			return err
		}
		fmt.Printf("connection %d (%s): %d requests, stream cut at %v\n", op.Seg.Conn, op.Seg.Kind, len(gr.cases), gr.segs[ep].cuts)
		if the != nil {
			fmt.Printf("request id %d: %s\n", op.Req.ID, the.implText())
		}
		return nil
	}
	g := newGen(rand.New(rand.NewSource(o.Seed)))
	g.nextID = 1 << 20
	g.special = nil
	gr := &group{name: "replay"}
	ep := gr.addEp(op.Transport)
	if op.Scenario == "victim" {
		for i := 0; i < op.Pool; i++ {
			sc := "plain"
			if op.HT > 0 {
				sc = "overlong"
			}
			gr.add(ep, op.Pool, op.HT, sc, g.request(fmt.Sprintf("sleep:%d", blockerMs), 0, 0))
		}
	}
	t := gr.add(ep, op.Pool, op.HT, op.Scenario, op.Req)
	if op.Scenario == "spurious" {
		return fmt.Errorf("a spurious-response case has no request to replay; re-run the generated stream with the same seed")
	}
	if err := runGroup(c, gr); err != nil {
		return err
	}
	if err := judge(gr.cases, m, res); err != nil {
		return err
	}
	_, _, _, ms := behaviour(op.Req.Func)
	sub := 0
	if op.Scenario == "victim" {
		sub = int(op.Req.Timeout) + 1000
	}
	model, _ := m.Ask(t.modelLine(sub, ms))
	fmt.Printf("case:  %+v\nmodel: %s\nimpl:  %s\n", op, model, t.implText())
	return nil
}

func main() {
	o := common.ParseOpts()
	if strings.HasPrefix(o.Extra, "child:") {
		childMain(o.Extra)
		return
	}
	res := common.NewResult("C10", o)
	res.Streams = []string{"srvinvoke"}
	scratch, err := os.MkdirTemp("", "verif-c10-")
	if err != nil {
		res.Fatal(o.Out, err)
	}
	defer os.RemoveAll(scratch)
	fail := func(err error) {
		os.RemoveAll(scratch)
		res.Fatal(o.Out, err)
	}
	m, err := common.StartModel(o.Model, "srvinvoke")
	if err != nil {
		fail(err)
	}
	defer m.Close()
	if v, err := m.Ask("variant"); err == nil {
		res.Note("variant of the tree according to the extractor (timeoutIdentity, skipEmpty, tupStatus): %s", v)
	}
	if o.Replay != "" {
		if err := replay(o, scratch, res, m); err != nil {
			fail(err)
		}
		if err := res.Write(o.Out); err != nil {
			panic(err)
		}
		return
	}
	configs := []config{{0, 0}, {2, 0}, {0, handleT}, {2, handleT}}
	n, rounds := 60, 1
	if o.Thorough() {
		configs = []config{{0, 0}, {1, 0}, {3, 0}, {0, handleT}, {1, handleT}, {3, handleT}}
		n, rounds = 1200, 3
	}
	var mu sync.Mutex
	var wg sync.WaitGroup
	errc := make(chan error, len(configs))
	for _, cf := range configs {
		wg.Add(1)
		go func(cf config) {
			defer wg.Done()
			if err := runConfig(scratch, cf, o.Seed, o.Tier, n, rounds, res, &mu, m); err != nil {
				errc <- err
			}
		}(cf)
	}
	wg.Wait()
	select {
	case err := <-errc:
		fail(err)
	default:
	}
	res.Rule = "real TarsGo applications in child processes for {pool 0, pool N} x {handletimeout 0, 300 ms}, TCP and UDP adapters, counting test dispatcher; " +
		"raw pipelined clients send hand-built RequestPackets (versions TARS/TUP/JSON/other, two-way/one-way, ids incl. 0, negative, int32 limits, " +
		"timeouts, pings, errors, unknown functions, blockers + requests that expire in the queue, handlers 4x over the handle timeout); per configuration " +
		"also TCP connections whose pipelined byte stream is written in segments with 5-50 ms pauses (one cut per request boundary at the offsets -3..+3 in turn, random cuts, " +
		"request boundaries 1-3 bytes around the multiples of the 4096-byte read buffer written in one piece and cut there, 64 KiB-1 MiB bodies followed by a header cut 1-3 bytes in, iTimeout 1 ms); every written " +
		"packet is decoded with ReadFrom and attributed by id; compared per request with the admissible outcomes of the Lean model (variant read from the tree) " +
		"and judged by an independent oracle; non-trivial = distinct (configuration, transport, scenario, version, packet type, dispatcher behaviour, outcome)"
	if err := res.Write(o.Out); err != nil {
		panic(err)
	}
}
