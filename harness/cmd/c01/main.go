// C01 harness launcher: end-to-end call transparency through generated proxies and dispatchers.
package main

import "verifharness/e2e"

func main() { e2e.Launch() }
