// C05 "well-formed hostile header" harness: no single packet of any CONTENT can terminate a server.
//
// The byte-level streams (c05, c05net) mutate encodings; this one sends WELL-FORMED request packets
// whose header fields select the rarely used server paths of Protocol.Invoke: every combination of
// the iMessageType bits (hash, grid, dyed, sample, async, setname, trace), the three protocol
// versions (and unknown ones), the packet types, and status / context maps carrying the keys those
// paths read (STATUS_TRACE_KEY, STATUS_DYED_KEY, …) with grammar-directed hostile VALUES: for the
// trace key `<type>[.<maxLen>]-<id>|<parentSpan>[|<span>]` every string over a small alphabet of
// the grammar's terminals up to a length, plus longer random ones and numeric fields with
// non-numeric / huge / negative text.
//
// Three ways in, all judged by "the process survives":
//
//	parser  the parsers on their own, in-process with recover (current.InitTarsTrace,
//	        trace.NeedTraceParam, trace.WithTraceKey, current.SetDyeingKey)
//	invoke  Protocol.Invoke on the framed packet, in a child process (Invoke turns a panic into
//	        os.Exit), thousands of packets per second
//	tcp/udp a real server in a child process (TCP + UDP adapter, a dispatcher that does what the
//	        generated server code does with trace and dyeing state); every request is answered, so
//	        a missing answer followed by the death of the child names the culprit exactly
package main

import (
	"bufio"
	"bytes"
	"context"
	"encoding/binary"
	"encoding/hex"
	"fmt"
	"io"
	"math/rand"
	"net"
	"os"
	"os/exec"
	"path/filepath"
	"sort"
	"strings"
	"time"

	"github.com/TarsCloud/TarsGo/tars"
	"github.com/TarsCloud/TarsGo/tars/protocol/codec"
	"github.com/TarsCloud/TarsGo/tars/protocol/res/requestf"
	"github.com/TarsCloud/TarsGo/tars/util/current"
	tarstrace "github.com/TarsCloud/TarsGo/tars/util/trace"

	"verifharness/common"
	"verifharness/srv"
)

// Op is one case (also the replay format; path "model" = a correspondence case). Map values and the parser argument are hex, because
// they are arbitrary bytes.
type Op struct {
	Path    string            `json:"path"`              // parser | invoke | tcp | udp
	Fn      string            `json:"fn,omitempty"`      // parser: which function
	Value   string            `json:"value,omitempty"`   // parser: the argument (hex)
	Text    string            `json:"text,omitempty"`    // the hostile value, readable (informative)
	Version int16             `json:"version,omitempty"` // request header …
	PType   int8              `json:"ptype,omitempty"`
	MsgType int32             `json:"msgtype,omitempty"`
	Func    string            `json:"func,omitempty"`
	Timeout int32             `json:"timeout,omitempty"`
	Status  map[string]string `json:"status,omitempty"`  // values hex
	Context map[string]string `json:"context,omitempty"` // values hex
}

func unhexS(s string) string {
	b, err := hex.DecodeString(s)
	if err != nil {
		panic(err)
	}
	return string(b)
}

func hexMap(m map[string]string) map[string]string {
	out := map[string]string{}
	for k, v := range m {
		out[k] = hex.EncodeToString([]byte(v))
	}
	return out
}

func plainMap(m map[string]string) map[string]string {
	out := map[string]string{}
	for k, v := range m {
		out[k] = unhexS(v)
	}
	return out
}

func frame(body []byte) []byte {
	out := make([]byte, 4, 4+len(body))
	binary.BigEndian.PutUint32(out, uint32(4+len(body)))
	return append(out, body...)
}

// packet renders the well-formed request an Op describes.
func (o Op) packet(id int32) []byte {
	req := requestf.RequestPacket{IVersion: o.Version, CPacketType: o.PType, IMessageType: o.MsgType, IRequestId: id,
		SServantName: "App.Server.Obj", SFuncName: o.Func, SBuffer: []int8{1, 2, 3}, ITimeout: o.Timeout,
		Context: plainMap(o.Context), Status: plainMap(o.Status)}
	b := codec.NewBuffer()
	req.WriteTo(b)
	return frame(b.ToBytes())
}

// ---- the dispatcher of the child server: what generated server code does with the request state ----

type traced struct{}

func (traced) Dispatch(ctx context.Context, imp interface{}, req *requestf.RequestPacket, resp *requestf.ResponsePacket, withContext bool) error {
	// generated code, server side (gen_go.go: SR before the call, SS after it)
	if trace, ok := current.GetTarsTrace(ctx); ok && trace.Call() {
		for _, es := range []tarstrace.SpanType{tarstrace.EstSR, tarstrace.EstSS, tarstrace.EstCS, tarstrace.EstCR, tarstrace.EstTS, tarstrace.EstTE} {
			_ = trace.NeedTraceParam(es, uint(len(req.SBuffer)))
			_ = trace.GetTraceKey(es)
		}
		_ = trace.GetTraceFullKey(true)
		_ = trace.GetTraceType()
		trace.NewSpan() // what a downstream call from the handler does (servant.go)
		_ = trace.GetTraceFullKey(false)
	}
	if k, ok := current.GetDyeingKey(ctx); ok {
		_ = k
		tars.TLOG.DyeingDebugf(ctx, nil, "dyed request %d", req.IRequestId)
	}
	_, _ = current.GetRequestStatus(ctx)
	_, _ = current.GetRequestContext(ctx)
	resp.IVersion = req.IVersion
	resp.IRequestId = req.IRequestId
	resp.SBuffer = req.SBuffer
	resp.Status = req.Status
	resp.Context = req.Context
	return nil
}

// ---- parser level, in-process ----

var parserFns = []string{"InitTarsTrace", "NeedTraceParam", "WithTraceKey", "SetDyeingKey"}

func callParser(fn, v string) (out string) {
	defer func() {
		if r := recover(); r != nil {
			out = fmt.Sprintf("panic %v", r)
		}
	}()
	switch fn {
	case "InitTarsTrace":
		ctx := current.ContextWithTarsCurrent(context.Background())
		current.InitTarsTrace(ctx, v)
		if tr, ok := current.GetTarsTrace(ctx); ok {
			_ = tr.NeedTraceParam(tarstrace.EstSR, 10)
			_ = tr.GetTraceKey(tarstrace.EstSR)
		}
	case "NeedTraceParam":
		_ = tarstrace.NeedTraceParam(tarstrace.EstCS, v, 10)
	case "WithTraceKey":
		sc := tarstrace.NewSpanContext(tarstrace.WithTraceKey(v))
		sc.NewSpan()
		_ = sc.FullKey(true)
		sc.Open(v)
	case "SetDyeingKey":
		ctx := current.ContextWithTarsCurrent(context.Background())
		current.SetDyeingKey(ctx, v)
		_, _ = current.GetDyeingKey(ctx)
	}
	return "ok"
}

// ---- correspondence with Model/TraceKey.lean (ops tracetype / tracekey of tm_wire) ----

// search: the parameter limit, observed through the public API (`len > maxLen*1024` ⇒ EnpOverMaxLen)
func limitOf(over func(n uint) bool) uint {
	lo, hi := uint(0), uint(1)<<44 // over(hi) holds: maxLen < 2^32
	for lo+1 < hi {
		mid := lo + (hi-lo)/2
		if over(mid) {
			hi = mid
		} else {
			lo = mid
		}
	}
	return lo / 1024
}

// obsInitType: (typ, maxLen) of trace.initType(id) as NeedTraceParam shows them; the limit is
// observable only when some type bit is set.
func obsInitType(id string) (out string) {
	defer func() {
		if r := recover(); r != nil {
			out = "panic"
		}
	}()
	typ := 0
	var first tarstrace.SpanType
	for _, es := range []tarstrace.SpanType{tarstrace.EstCS, tarstrace.EstCR, tarstrace.EstSR, tarstrace.EstSS} {
		if tarstrace.NeedTraceParam(es, id, 0) != tarstrace.EnpNo {
			typ |= int(es)
			if first == 0 {
				first = es
			}
		}
	}
	if typ == 0 {
		return "ok 0 -"
	}
	return fmt.Sprintf("ok %d %d", typ, limitOf(func(n uint) bool { return tarstrace.NeedTraceParam(first, id, n) == tarstrace.EnpOverMaxLen }))
}

// obsInit: SpanContext.Init(key) through Trace.InitTrace
func obsInit(key string) (out string) {
	defer func() {
		if r := recover(); r != nil {
			out = "panic"
		}
	}()
	tr := tarstrace.New()
	if !tr.InitTrace(key) {
		return "reset"
	}
	typ := tr.GetTraceType()
	if typ == 0 {
		return "ok 0 -"
	}
	var first tarstrace.SpanType
	for _, es := range []tarstrace.SpanType{tarstrace.EstCS, tarstrace.EstCR, tarstrace.EstSR, tarstrace.EstSS} {
		if typ&int(es) != 0 {
			first = es
			break
		}
	}
	return fmt.Sprintf("ok %d %d", typ, limitOf(func(n uint) bool { return tr.NeedTraceParam(first, n) == tarstrace.EnpOverMaxLen }))
}

func canonTraceModel(ans string) string {
	f := strings.Fields(ans)
	if len(f) == 3 && f[0] == "ok" && f[1] == "0" {
		return "ok 0 -"
	}
	if len(f) >= 2 && f[0] == "err" && strings.HasPrefix(f[1], "panic") {
		return "panic"
	}
	return ans
}

func (r *runner) runModel(vals []string) {
	bin := r.o.Model
	if bin != "" {
		bin = filepath.Join(filepath.Dir(bin), "tm_wire")
		if _, err := os.Stat(bin); err != nil {
			bin = ""
			r.res.Note("model driver tm_wire not built: correspondence skipped")
		}
	}
	m, err := common.StartModel(bin, "wire")
	if err != nil {
		r.res.Fatal(r.o.Out, err)
	}
	defer m.Close()
	dflt := tarstrace.GetTraceParamMaxLen()
	lines := make([]string, 0, 2*len(vals))
	for _, v := range vals {
		lines = append(lines, fmt.Sprintf("tracetype %d %s", dflt, common.Hex([]byte(v))), fmt.Sprintf("tracekey %d %s", dflt, common.Hex([]byte(v))))
	}
	ans, err := m.Batch(lines)
	if err != nil {
		r.res.Fatal(r.o.Out, err)
	}
	for i, v := range vals {
		for j, fn := range []string{"initType", "SpanContext.Init"} {
			var impl string
			if j == 0 {
				impl = obsInitType(v)
			} else {
				impl = obsInit(v)
			}
			op := Op{Path: "model", Fn: fn, Value: hex.EncodeToString([]byte(v)), Text: fmt.Sprintf("%q", v)}
			r.count(op, fn+":"+strings.Fields(impl)[0])
			ma := ans[2*i+j]
			if r.o.Replay != "" {
				fmt.Printf("%s(%q): model %s, impl %s\n", fn, v, ma, impl)
			}
			if ma != common.NoModel && canonTraceModel(ma) != impl {
				r.res.Diverge(common.Case{Stream: "header", Op: op, Model: ma, Impl: impl})
			}
		}
	}
}

func panicClass(out string) string {
	switch {
	case strings.Contains(out, "makeslice"):
		return "panic-makeslice"
	case strings.Contains(out, "index out of range"):
		return "panic-index"
	case strings.Contains(out, "slice bounds out of range"):
		return "panic-slice-bounds"
	case strings.Contains(out, "nil pointer") || strings.Contains(out, "nil map"):
		return "panic-nil"
	case strings.Contains(out, "stack overflow") || strings.Contains(out, "stack exceeds"):
		return "fatal-stack"
	case strings.Contains(out, "out of memory"):
		return "fatal-oom"
	case strings.Contains(out, "panic"):
		return "panic-other"
	}
	return "exit"
}

// ---- values ----

// words over an alphabet, all lengths 0..n
func words(alpha string, n int) []string {
	out := []string{""}
	last := []string{""}
	for l := 1; l <= n; l++ {
		var next []string
		for _, w := range last {
			for i := 0; i < len(alpha); i++ {
				next = append(next, w+alpha[i:i+1])
			}
		}
		out = append(out, next...)
		last = next
	}
	return out
}

var numericTexts = []string{"", "0", "1", "f", "10", "ff", "7fffffff", "80000000", "ffffffffffffffffff", "-1", "-f", "+1", "0x1", " 1", "1 ", "g", "١", "4294967295", "4294967296", "99999999999999999999", "-0", "1e3", "\x00", "\xff\xfe"}

// grammarTraceKeys: <type>[.<maxLen>]-<id>|<parent>[|<span>] with hostile numeric fields and hostile structure
func grammarTraceKeys(rng *rand.Rand, n int) []string {
	pick := func(xs []string) string { return xs[rng.Intn(len(xs))] }
	ids := []string{"", "a", "ee824ad0eb4dacf56b29d230a229c584", "a.b", "a-b", "-", ".", "..", "a.b.c-d", "x|y"}
	var out []string
	for i := 0; i < n; i++ {
		var sb strings.Builder
		switch rng.Intn(6) {
		case 0:
			sb.WriteString(pick(numericTexts) + "." + pick(numericTexts) + "-" + pick(ids))
		case 1:
			sb.WriteString(pick(numericTexts) + "-" + pick(ids))
		case 2:
			sb.WriteString(pick(ids))
		case 3: // separators in the "wrong" order
			sb.WriteString(pick(numericTexts) + "-" + pick(ids) + "." + pick(numericTexts))
		case 4:
			sb.WriteString(strings.Repeat(pick([]string{".", "-", "f.", "1-", ".-", "-."}), 1+rng.Intn(6)))
		default:
			sb.WriteString(pick(numericTexts) + strings.Repeat(".", rng.Intn(3)) + pick(numericTexts) + strings.Repeat("-", rng.Intn(3)) + pick(ids))
		}
		for k := rng.Intn(4); k > 0; k-- {
			sb.WriteString("|" + pick([]string{"", "0300", "030019ac000010796162bc5900000021", "*", "-", ".", "a.b"}))
		}
		out = append(out, sb.String())
	}
	return out
}

var msgBits = []int32{0x01, 0x02, 0x04, 0x08, 0x10, 0x80, 0x100}

func allMsgTypes() []int32 {
	var out []int32
	for m := 0; m < 1<<len(msgBits); m++ {
		var v int32
		for i, b := range msgBits {
			if m&(1<<i) != 0 {
				v |= b
			}
		}
		out = append(out, v)
	}
	return append(out, -1, 0x7fffffff, -0x80000000, 0x200, 0x104|0x40000000)
}

const (
	keyTrace = "STATUS_TRACE_KEY"
	keyDyed  = "STATUS_DYED_KEY"
)

var otherStatusKeys = []string{"STATUS_GRID_KEY", "STATUS_SAMPLE_KEY", "STATUS_RESULT_CODE", "STATUS_RESULT_DESC", "STATUS_SETNAME_VALUE", "STATUS_TRACK_KEY", ""}

func reqOp(path string, ver int16, pt int8, mt int32, fn string, status map[string]string, text string) Op {
	return Op{Path: path, Version: ver, PType: pt, MsgType: mt, Func: fn, Status: hexMap(status), Context: hexMap(map[string]string{"k": text}), Text: fmt.Sprintf("%q", text)}
}

// requests builds the request cases of one path. words: the exhaustive trace-key strings.
func requests(path string, rng *rand.Rand, ws []string, nGrammar, nCombo int, fn string) []Op {
	var out []Op
	trace := int32(0x100)
	// 1. every short string as the trace key (2- and 3-part keys are what Init accepts: the
	//    strings contain '|' themselves; also embed each as the trace id of a 2-part key)
	for _, w := range ws {
		out = append(out, reqOp(path, 1, 0, trace, fn, map[string]string{keyTrace: w}, w))
		if !strings.Contains(w, "|") {
			out = append(out, reqOp(path, 1, 0, trace, fn, map[string]string{keyTrace: w + "|0300"}, w+"|0300"))
		}
	}
	// 2. grammar-directed longer keys
	for _, k := range grammarTraceKeys(rng, nGrammar) {
		mt := trace
		if rng.Intn(3) == 0 {
			mt |= 0x04
		}
		out = append(out, reqOp(path, []int16{1, 3, 5}[rng.Intn(3)], int8(rng.Intn(3)), mt, fn, map[string]string{keyTrace: k, keyDyed: k}, k))
	}
	// 3. every combination of message-type bits × version × packet type, with all the keys present
	hostile := []string{"-.|x", "f.2-ee82|0300|0301", ".-|x", "", "|", "||", "|||", "f-a.b|0300", "\xff|\x00", strings.Repeat("f.", 200) + "-|x"}
	mts := allMsgTypes()
	vers := []int16{1, 3, 5, 2, 0, -1, 32767}
	pts := []int8{0, 1, 2, -1, 127}
	n := 0
	for _, mt := range mts {
		for _, ver := range vers {
			for _, pt := range pts {
				n++
				if nCombo > 0 && n%nCombo != 0 {
					continue
				}
				v := hostile[rng.Intn(len(hostile))]
				st := map[string]string{keyTrace: v, keyDyed: hostile[rng.Intn(len(hostile))]}
				for _, k := range otherStatusKeys {
					st[k] = numericTexts[rng.Intn(len(numericTexts))]
				}
				op := reqOp(path, ver, pt, mt, fn, st, v)
				op.Timeout = []int32{0, 0, 60000, -1}[rng.Intn(4)]
				out = append(out, op)
			}
		}
	}
	return out
}

// ---- children ----

type child struct {
	cmd  *exec.Cmd
	out  *bytes.Buffer
	in   io.WriteCloser
	rd   *bufio.Reader
	done chan struct{}
}

func startChild(extra string, pipe bool) (*child, error) {
	self, _ := os.Executable()
	cmd := exec.Command(self, "-extra", extra)
	cmd.Env = append(os.Environ(), "GOMEMLIMIT=2GiB")
	ch := &child{cmd: cmd, out: &bytes.Buffer{}, done: make(chan struct{})}
	cmd.Stderr = ch.out
	if pipe {
		in, _ := cmd.StdinPipe()
		outp, _ := cmd.StdoutPipe()
		ch.in, ch.rd = in, bufio.NewReader(outp)
	} else {
		cmd.Stdout = ch.out
	}
	if err := cmd.Start(); err != nil {
		return nil, err
	}
	go func() { cmd.Wait(); close(ch.done) }()
	return ch, nil
}

func (c *child) exited() bool {
	select {
	case <-c.done:
		return true
	default:
		return false
	}
}

func (c *child) waitExit(d time.Duration) bool {
	select {
	case <-c.done:
		return true
	case <-time.After(d):
		return false
	}
}

func (c *child) kill() {
	if !c.exited() {
		c.cmd.Process.Kill()
		<-c.done
	}
}

func panicDumps() string {
	self, err := os.Executable()
	if err != nil {
		return ""
	}
	files, _ := filepath.Glob(filepath.Join(filepath.Dir(self), "panic.*"))
	sort.Strings(files)
	var sb strings.Builder
	for _, f := range files {
		if b, err := os.ReadFile(f); err == nil {
			if i := bytes.IndexByte(b, '\n'); i > 0 {
				sb.WriteString("panic: " + string(b[:i]) + "\n")
			}
		}
		os.Remove(f)
	}
	return sb.String()
}

func firstPanicLine(s string) string {
	for _, l := range strings.Split(s, "\n") {
		if strings.Contains(l, "panic") || strings.Contains(l, "fatal error") || strings.Contains(l, "runtime error") {
			return strings.TrimSpace(l)
		}
	}
	return strings.TrimSpace(s)
}

func childServer(port int) {
	cfg := &srv.Config{Adapters: []srv.Adapter{{Obj: "App.Server.Obj", Proto: "tcp", Host: "127.0.0.1", Port: port}, {Obj: "App.Server.UObj", Proto: "udp", Host: "127.0.0.1", Port: port}}}
	if err := srv.Start(cfg, traced{}, nil, true); err != nil {
		fmt.Println("child server start failed:", err)
		os.Exit(9)
	}
	select {}
}

// childInvoke: one framed packet per line (hex); Protocol.Invoke on each; "ok" per packet.
func childInvoke() {
	port := srv.FreePort("127.0.0.1")
	cfg := &srv.Config{Adapters: []srv.Adapter{{Obj: "App.Server.Obj", Proto: "tcp", Host: "127.0.0.1", Port: port}}}
	if err := srv.Start(cfg, traced{}, nil, true); err != nil { // configuration, loggers, reporters as in a server
		fmt.Fprintln(os.Stderr, "child start failed:", err)
		os.Exit(9)
	}
	p := tars.NewTarsProtocol(traced{}, nil, true)
	sc := bufio.NewScanner(os.Stdin)
	sc.Buffer(make([]byte, 1<<20), 1<<24)
	w := bufio.NewWriter(os.Stdout)
	fmt.Fprintln(w, "ready")
	w.Flush()
	for sc.Scan() {
		pkt, err := hex.DecodeString(sc.Text())
		if err != nil {
			os.Exit(8)
		}
		ctx := current.ContextWithTarsCurrent(context.Background())
		rsp := p.Invoke(ctx, pkt)
		fmt.Fprintf(w, "ok %d\n", len(rsp))
		w.Flush()
	}
	os.Exit(0)
}

// ---- the run ----

// a path that has killed its child this often is not fed any further
const maxDeaths = 3

type runner struct {
	o   *common.Opts
	res *common.Result
}

func (r *runner) violate(class, locus, what string, op Op, impl string) {
	r.res.Violate(common.Violation{Signature: "C05:" + class + ":" + locus, What: what, Case: common.Case{Stream: "header", Op: op, Impl: impl}})
}

func (r *runner) count(op Op, cls string) {
	key := fmt.Sprintf("%s/%s/%d/%d/%d/%v/%s", op.Path, op.Fn, op.Version, op.PType, op.MsgType, op.Status, op.Value)
	if len(key) > 200 {
		key = key[:200]
	}
	r.res.Count(key, op.Path+":"+cls, true)
	r.res.TracesValidated++
}

func (r *runner) runParser(values []string, replayFn string) {
	for _, fn := range parserFns {
		if replayFn != "" && fn != replayFn {
			continue
		}
		for i, v := range values {
			out := callParser(fn, v)
			op := Op{Path: "parser", Fn: fn, Value: hex.EncodeToString([]byte(v)), Text: fmt.Sprintf("%q", v)}
			cls := "ok"
			if out != "ok" {
				cls = panicClass(out)
				r.violate(cls, "status-key-parser", fmt.Sprintf("%s(%q) panicked: %s — Protocol.Invoke runs it on the %s entry of the status map of a request with the trace/dyed message-type bit, under CheckPanic (os.Exit)", fn, v, out, keyTrace), op, out)
			}
			if i%50000 == 0 {
				r.res.Sample(map[string]interface{}{"path": "parser", "fn": fn, "value": fmt.Sprintf("%q", v), "result": out})
			}
			r.count(op, fn+":"+cls)
		}
	}
}

func (r *runner) runInvoke(ops []Op) {
	start := func() *child {
		ch, err := startChild("child-invoke", true)
		if err != nil {
			r.res.Fatal(r.o.Out, err)
		}
		line, err := ch.rd.ReadString('\n')
		if err != nil || strings.TrimSpace(line) != "ready" {
			ch.kill()
			r.res.Fatal(r.o.Out, fmt.Errorf("invoke child did not start: %v %s", err, ch.out.String()))
		}
		return ch
	}
	ch := start()
	defer func() { ch.kill() }()
	deaths := 0
	for i, op := range ops {
		fmt.Fprintf(ch.in, "%x\n", op.packet(int32(i+1)))
		line, err := ch.rd.ReadString('\n')
		cls := "ok"
		if err != nil || !strings.HasPrefix(line, "ok") {
			ch.waitExit(3 * time.Second)
			ch.kill()
			dump := panicDumps() + ch.out.String()
			cls = panicClass(dump)
			r.violate("server-killed-"+cls, "Protocol.Invoke", "Protocol.Invoke on one well-formed request packet terminated the process: "+firstPanicLine(dump), op, cls)
			ch = start()
			if deaths++; deaths >= maxDeaths {
				r.res.Note("invoke: stopped after %d process deaths (%d of %d cases run)", deaths, i+1, len(ops))
				r.count(op, fmt.Sprintf("v%d:%s", op.Version, cls))
				return
			}
		}
		if i%3000 == 0 {
			r.res.Sample(map[string]interface{}{"path": "invoke", "msgtype": op.MsgType, "version": op.Version, "value": op.Text, "result": cls})
		}
		r.count(op, fmt.Sprintf("v%d:%s", op.Version, cls))
	}
}

func readFrame(c net.Conn, d time.Duration) bool {
	c.SetReadDeadline(time.Now().Add(d))
	hdr := make([]byte, 4)
	if _, err := io.ReadFull(c, hdr); err != nil {
		return false
	}
	l := int(binary.BigEndian.Uint32(hdr))
	if l < 4 || l > 11<<20 {
		return false
	}
	_, err := io.ReadFull(c, make([]byte, l-4))
	return err == nil
}

func pingOp() Op { return Op{Version: 1, Func: "tars_ping"} }

func alive(port int) bool {
	for try := 0; try < 3; try++ {
		c, err := net.DialTimeout("tcp", fmt.Sprintf("127.0.0.1:%d", port), time.Second)
		if err != nil {
			time.Sleep(100 * time.Millisecond)
			continue
		}
		c.Write(pingOp().packet(99))
		ok := readFrame(c, 3*time.Second)
		c.Close()
		if ok {
			return true
		}
	}
	return false
}

func (r *runner) runNet(ops []Op) {
	var ch *child
	var port int
	var tcp, udp net.Conn
	start := func() {
		port = srv.FreePort("127.0.0.1")
		var err error
		ch, err = startChild(fmt.Sprintf("child-server:%d", port), false)
		if err != nil {
			r.res.Fatal(r.o.Out, err)
		}
		okk := false
		for i := 0; i < 100 && !okk; i++ {
			okk = alive(port)
			if !okk {
				time.Sleep(50 * time.Millisecond)
			}
		}
		if !okk {
			ch.kill()
			r.res.Fatal(r.o.Out, fmt.Errorf("server child did not start: %s", ch.out.String()))
		}
		tcp, udp = nil, nil
	}
	start()
	defer func() { ch.kill() }()
	var suspects []Op
	deaths := map[string]int{}
	for i, op := range ops {
		if deaths[op.Path] >= maxDeaths {
			// the path is shown to be fatal; every further death costs a restart of the child
			if deaths[op.Path] == maxDeaths {
				r.res.Note("%s: stopped after %d process deaths", op.Path, maxDeaths)
				deaths[op.Path]++
			}
			continue
		}
		pkt := op.packet(int32(i + 1))
		answered := false
		oneway := op.PType == 1
		if op.Path == "udp" {
			if udp == nil {
				udp, _ = net.Dial("udp", fmt.Sprintf("127.0.0.1:%d", port))
			}
			udp.Write(pkt)
			if !oneway {
				udp.SetReadDeadline(time.Now().Add(300 * time.Millisecond))
				n, err := udp.Read(make([]byte, 65536))
				answered = err == nil && n >= 4
			}
		} else {
			if tcp == nil {
				tcp, _ = net.DialTimeout("tcp", fmt.Sprintf("127.0.0.1:%d", port), time.Second)
			}
			if tcp != nil {
				tcp.SetWriteDeadline(time.Now().Add(5 * time.Second))
				tcp.Write(pkt)
				if !oneway {
					answered = readFrame(tcp, 500*time.Millisecond)
				}
				if !answered && !oneway {
					tcp.Close()
					tcp = nil
				}
			}
		}
		cls := "answered"
		dead := func(wait time.Duration) bool { return ch.waitExit(wait) || !alive(port) }
		report := func(op Op) {
			ch.kill()
			dump := panicDumps() + ch.out.String()
			c := panicClass(dump)
			r.violate("server-killed-"+c, op.Path, "a single well-formed "+op.Path+" request (header fields and status map only) terminated the server process: "+firstPanicLine(dump), op, c)
			if tcp != nil {
				tcp.Close()
			}
			if udp != nil {
				udp.Close()
			}
			start()
			deaths[op.Path]++
		}
		// settle: the time CheckPanic needs to dump the stack and flush the logs before os.Exit
		const settle = 450 * time.Millisecond
		if oneway {
			// never answered: collect, and look at the child once per batch
			cls = "oneway"
			suspects = append(suspects, op)
			if len(suspects) >= 200 || i == len(ops)-1 {
				if dead(settle) {
					// which one? each alone against a fresh child
					ch.kill()
					panicDumps()
					if tcp != nil {
						tcp.Close()
					}
					if udp != nil {
						udp.Close()
					}
					start()
					for _, q := range suspects {
						if q.Path == "udp" {
							u, _ := net.Dial("udp", fmt.Sprintf("127.0.0.1:%d", port))
							u.Write(q.packet(7))
							u.Close()
						} else if c, err := net.DialTimeout("tcp", fmt.Sprintf("127.0.0.1:%d", port), time.Second); err == nil {
							c.Write(q.packet(7))
							time.Sleep(20 * time.Millisecond)
							c.Close()
						}
						if dead(settle) {
							report(q)
						}
					}
				}
				suspects = suspects[:0]
			}
		} else if !answered {
			cls = "unanswered"
			if dead(settle) {
				report(op)
				suspects = suspects[:0]
			}
		}
		if i%1500 == 0 {
			r.res.Sample(map[string]interface{}{"path": op.Path, "msgtype": op.MsgType, "version": op.Version, "ptype": op.PType, "value": op.Text, "result": cls})
		}
		r.count(op, fmt.Sprintf("v%d:p%d:%s", op.Version, op.PType, cls))
	}
	if !alive(port) {
		r.violate("server-killed-exit", "tcp", "the server child does not answer a ping after the stream", Op{Path: "tcp"}, ch.out.String())
	}
}

func main() {
	o := common.ParseOpts()
	var port int
	if _, err := fmt.Sscanf(o.Extra, "child-server:%d", &port); err == nil {
		childServer(port)
		return
	}
	if o.Extra == "child-invoke" {
		childInvoke()
		return
	}
	res := common.NewResult("C05", o)
	res.Streams = []string{"header", "wire"}
	res.Rule = "well-formed RequestPackets whose header (version, packet type, every combination of message-type bits) and status/context maps (trace key, dyeing key, … with grammar-directed hostile values) select the rarely used paths of Protocol.Invoke: parsers in-process with recover, Protocol.Invoke in a child process, a real server child over TCP and UDP; oracle: no panic, the process survives and still answers a ping"
	r := &runner{o: o, res: res}
	panicDumps() // stale dumps of earlier runs

	if o.Replay != "" {
		var op Op
		if err := common.ReadReplay(o.Replay, &op); err != nil {
			res.Fatal(o.Out, err)
		}
		switch op.Path {
		case "parser":
			r.runParser([]string{unhexS(op.Value)}, op.Fn)
		case "model":
			r.runModel([]string{unhexS(op.Value)})
		case "invoke":
			r.runInvoke([]Op{op})
		default:
			r.runNet([]Op{op})
		}
		for _, v := range res.Violations {
			fmt.Printf("%s: %s\n", v.Signature, v.What)
		}
		if len(res.Violations) == 0 {
			fmt.Println("survived:", op.Path, op.Text)
		}
		res.Write(o.Out)
		return
	}

	rng := o.Rand()
	// the terminals of the trace-key grammar: hex digit letters, decimal digits, the three separators
	full := "af0123456789-.|"
	small := "af09-.|"
	nFull, nSmallInvoke, nSmallNet, nGrammar, nCombo := 4, 5, 4, 800, 3
	if o.Thorough() {
		nFull, nSmallInvoke, nSmallNet, nGrammar, nCombo = 5, 6, 5, 8000, 1
	}
	// 1. the parsers on their own
	vals := words(full, nFull)
	vals = append(vals, words(small, nFull+2)...)
	vals = append(vals, grammarTraceKeys(rng, 20*nGrammar)...)
	for _, a := range numericTexts {
		for _, b := range numericTexts {
			vals = append(vals, a+"."+b+"-x|y", a+"-"+b+"|y|z")
		}
	}
	r.runParser(vals, "")
	// 1b. the parser against its Lean model (Model/TraceKey.lean): type and limit as the public API shows them
	mv := words(small, nSmallInvoke)
	mv = append(mv, grammarTraceKeys(rng, 10*nGrammar)...)
	for _, a := range numericTexts {
		for _, b := range numericTexts {
			mv = append(mv, a+"."+b+"-x", a+"-"+b+"|y|z", a+"."+b+"-x|y")
		}
	}
	r.runModel(mv)
	// 2. Protocol.Invoke in a child process
	r.runInvoke(requests("invoke", rng, words(small, nSmallInvoke), 4*nGrammar, 1, "tars_ping"))
	// 3. a real server over TCP and UDP
	var net_ []Op
	net_ = append(net_, requests("tcp", rng, words(small, nSmallNet), nGrammar, nCombo, "echo")...)
	net_ = append(net_, requests("udp", rng, words(small, nSmallNet), nGrammar, nCombo, "echo")...)
	net_ = append(net_, requests("tcp", rng, nil, nGrammar/4, nCombo*3, "tars_ping")...)
	r.runNet(net_)
	res.Write(o.Out)
}
