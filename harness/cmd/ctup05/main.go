// ctup05: the C05 clauses (no panic, bounded allocation, bounded CPU) for tup.UniAttribute.Decode.
package main

import "verifharness/tuprun"

func main() { tuprun.Launch("C05") }
