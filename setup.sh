#!/bin/sh
# setup_cmd: build the framework from files on disk only (offline). Every check rebuilds what it
# needs itself; this only warms the caches, so a failure of one property's build is not fatal here
# (it is reported by that property's check).
cd "$(dirname "$0")"
export GOFLAGS=-mod=mod GOPROXY=off GOSUMDB=off GOTOOLCHAIN=local CGO_ENABLED=0
mkdir -p out evidence
(cd extract && go build -o bin/extract .) || echo "setup: extractor build failed"
./extract/bin/extract -repo /repo -lean lean/TarsModel/Generated/Consts.lean -fp out/fingerprints.json || true
cp /repo/go.sum harness/go.sum
for p in $(cat checks/ready.txt); do cfg=checks/$p.json
  props=$(python3 -c "import json,sys;c=json.load(open('$cfg'));p=c['lean_props'];m=c['model_exe'];print(' '.join(p if isinstance(p,list) else [p]), ' '.join(m if isinstance(m,list) else [m]))")
  (cd lean && lake build $props) || echo "setup: lean build failed for $cfg"
  for h in $(python3 -c "import json;c=json.load(open('$cfg'));h=c['harness'];print(' '.join(h if isinstance(h,list) else [h]))"); do
    (cd harness && go build -tags verif -o "bin/$h" "./cmd/$h") || echo "setup: harness build failed for $h"
  done
done
echo setup-ok
