#!/bin/sh
# setup_cmd: build the framework from files on disk only (offline).
set -e
cd "$(dirname "$0")"
export GOFLAGS=-mod=mod GOPROXY=off GOSUMDB=off GOTOOLCHAIN=local CGO_ENABLED=0
mkdir -p out evidence
(cd extract && go build -o bin/extract .)
./extract/bin/extract -repo /repo -lean lean/TarsModel/Generated/Consts.lean -fp out/fingerprints.json || true
(cd lean && lake build TarsModel $(grep -A1 'lean_exe' lakefile.toml | sed -n 's/^name = "\(.*\)"/\1/p'))
cp /repo/go.sum harness/go.sum
(cd harness && for d in cmd/*/; do n=$(basename "$d"); go build -tags verif -o "bin/$n" "./cmd/$n"; done)
echo setup-ok
