#!/bin/bash
# seedtest.sh <seed-name> <property> <pkgdir-for-demo_test.go | -> <go test run pattern | ->
# Confirms a seeded change produced by an independent agent (in /tmp/seed/<seed-name>.out) in a fresh
# scratch worktree: builds, existing tests of the touched package pass, demo fails with the change
# and passes without; then runs our check against the changed worktree (VERIF_REPO) and records
# everything under /verif/seeded/<seed-name>/.
set -u
name=$1; prop=$2; pkg=$3; pat=$4
src=/tmp/seed/$name.out
wt=/tmp/seedv/$name
export GOFLAGS=-mod=mod GOPROXY=off GOSUMDB=off GOTOOLCHAIN=local
mkdir -p /tmp/seedv /verif/seeded/$name
git -C /repo worktree remove --force $wt 2>/dev/null
git -C /repo worktree add -q $wt HEAD || exit 2
log=/verif/seeded/$name/confirm.log; : > $log
run() { echo "\$ $*" >> $log; ( "$@" ) >> $log 2>&1; rc=$?; echo "[rc=$rc]" >> $log; return $rc; }
demo() { # run the demo in the worktree; returns its rc
  if [ "$pkg" != "-" ]; then
    cp $src/demo_test.go $wt/$pkg/zz_demo_test.go
    (cd $wt && run go test ${TAGS:+-tags $TAGS} -count=1 -run "$pat" ./$pkg/); rc=$?
    rm -f $wt/$pkg/zz_demo_test.go; return $rc
  else
    (cd $wt && run bash $src/demo/run.sh $wt); return $?
  fi
}
echo "== pristine: demo must pass" >> $log; demo; p0=$?
(cd $wt && git apply $src/patch.diff) || { echo "patch does not apply to HEAD" | tee -a $log; }
echo "== changed: build" >> $log; (cd $wt && run go build ./tars/...); b=$?
touched=$(grep '^+++ b/' $src/patch.diff | sed 's#+++ b/##' | xargs -n1 dirname | sort -u)
t=0
for d in $touched; do case $d in tars/tools/tars2go*) (cd $wt/tars/tools/tars2go && run go build ./... ) || t=1;; *) (cd $wt && run go test -count=1 ./$d/) || t=1;; esac; done
echo "== changed: demo must fail" >> $log; demo; p1=$?
echo "pristine_demo_rc=$p0 build_rc=$b existing_tests_rc=$t changed_demo_rc=$p1" | tee -a $log
echo "== our check against the changed tree" >> $log
(cd /verif && VERIF_REPO=$wt VERIF_WS=$name ./vcheck $prop > /verif/seeded/$name/vcheck.out 2>&1; echo "vcheck_rc=$?" >> /verif/seeded/$name/vcheck.out)
tail -4 /verif/seeded/$name/vcheck.out
cp $src/patch.diff /verif/seeded/$name/; cp $src/meta.json /verif/seeded/$name/meta.agent.json 2>/dev/null; cp $src/demo_test.go /verif/seeded/$name/ 2>/dev/null; cp -r $src/demo /verif/seeded/$name/ 2>/dev/null
mkdir -p /verif/seeded/$name/replay; cp /verif/out/ws/$name/replay/*.json /verif/seeded/$name/replay/ 2>/dev/null
rm -rf /verif/out/ws/$name
git -C /repo worktree remove --force $wt
