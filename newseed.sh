#!/bin/bash
# newseed.sh <name> : creates the scratch worktree /tmp/seed/<name> (at /repo HEAD) and the prompt
# /tmp/seed/<name>.prompt.txt for an independent seeding agent (round 2: with a focus clause taken
# from seeded/round2_focus.json). The agent gets only the property text + the worktree.
set -eu
name=$1; prop=${name:0:3}
mkdir -p /tmp/seed
git -C /repo worktree remove --force /tmp/seed/$name 2>/dev/null || true
rm -rf /tmp/seed/$name /tmp/seed/$name.out
git -C /repo worktree add -q --detach /tmp/seed/$name HEAD
python3 - "$name" "$prop" <<'PY'
import json, sys
name, prop = sys.argv[1], sys.argv[2]
focus = json.load(open('/verif/seeded/round2_focus.json')).get(name, '')
p = [json.loads(l) for l in open('/verif/properties.jsonl') if json.loads(l)['id'] == prop][0]
text = "%s — %s\n\n%s\n\nQuantifier: %s\n\nRelevant files: %s\n" % (p['id'], p['title'], p['statement'], p['quantifier']['text'], ', '.join(p['anchors']['files']))
open('/tmp/seed/%s.prop.txt' % name, 'w').write(text)
tmpl = open('/verif/seeded/prompt_template.txt').read()
foc = ("\nFOCUS for this change: break the property through " + focus + ". Choose a different mechanism than the most obvious one.\n") if focus else ""
open('/tmp/seed/%s.prompt.txt' % name, 'w').write(tmpl.replace('@PROP@', prop).replace('@NAME@', name).replace('@TEXT@', text).replace('@FOCUS@', foc))
PY
echo /tmp/seed/$name.prompt.txt
