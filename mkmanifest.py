#!/usr/bin/env python3
"""Regenerates MANIFEST.json from checks/*.json (one file per claimed property)."""
import glob, json, os, subprocess
ROOT = os.path.dirname(os.path.abspath(__file__))
props = [json.loads(l) for l in open(os.path.join(ROOT, "properties.jsonl"))]
ids = [p["id"] for p in props]
checks, na = [], []
pending = json.load(open(os.path.join(ROOT, "checks", "not_applicable.json")))
ready = set(open(os.path.join(ROOT, "checks", "ready.txt")).read().split())
for pid in ids:
    f = os.path.join(ROOT, "checks", pid + ".json")
    if os.path.exists(f) and pid in ready:
        c = json.load(open(f))
        checks.append({
            "property_id": pid,
            "quick_cmd": "./vcheck %s --tier quick" % pid,
            "thorough_cmd": "./vcheck %s --tier thorough" % pid,
            "evidence_file": "/verif/evidence/%s.json" % pid,
            "replay_cmd_template": "./vcheck %s --replay {path}" % pid,
            "engine": "lean4-proof+correspondence",
            "level_claimed": {"category": c.get("level", "proof"), "text": c["level_text"], "design_ref": c.get("design_ref", "DESIGN.md §6 " + pid)},
            "level_note": c["level_note"],
            "technique": c.get("technique", "machine-checked proof in Lean 4 about an executable model + differential correspondence check of model and implementation"),
        })
    else:
        na.append({"property_id": pid, "reason": pending.get(pid, "check not built yet in this round; see DESIGN.md §6 for the planned model and theorems")})
hooks_commits = []
try:
    out = subprocess.run(["git", "-C", "/repo", "log", "--format=%H %s"], capture_output=True, text=True).stdout
    hooks_commits = [l.split()[0] for l in out.splitlines() if " verif-hook:" in l]
except Exception:
    pass
man = {
    "version": 1,
    "setup_cmd": "./setup.sh",
    "hooks": {
        "guard": "verif",
        "enable": "go build -tags verif (the harness is built with this tag; hook files carry //go:build verif)",
        "baseline_off_cmd": "for m in $(cat /w/out/gomods.txt); do MF=$(cd /repo/$m && . /w/out/goenv.sh && gomodflag); (cd /repo/$m && go test $MF -json -vet=off -count=1 -timeout 25m ./...); done",
        "source_commits": hooks_commits,
        "add_only": True,
    },
    "engines": [{
        "name": "lean4-proof+correspondence",
        "path": "/verif/vcheck",
        "serves_properties": [c["property_id"] for c in checks],
        "kind_free_text": "Lean 4 theorems about a hand-written executable model (lean/TarsModel), constants regenerated from /repo by a go/ast extractor, and a Go differential harness that runs model and implementation on the same cases (line protocol) and evaluates the property oracle on the implementation",
    }],
    "checks": checks,
    "not_applicable": na,
    "notes": "Every check: extractor -> lake build of the property's theorems + #print axioms audit -> go build -tags verif of the harness against /repo's working tree -> corpus + generated correspondence + oracle -> verdict (DESIGN.md §4). Properties under not_applicable with reason 'check not built yet' are work in progress, not judged inapplicable.",
}
json.dump(man, open(os.path.join(ROOT, "MANIFEST.json"), "w"), indent=1)
print("checks:", len(checks), "not_applicable:", len(na))
