#!/bin/bash
# harmlesstest.sh <name>: applies the behaviour-preserving change /tmp/seed/<name>.out/patch.diff in a
# fresh scratch worktree and runs every check anchored in a changed file against it (VERIF_REPO).
# Expected: OK everywhere. Records under /verif/seeded/<name>/.
set -u
name=$1
src=/tmp/seed/$name.out
wt=/tmp/seedv/$name
export GOFLAGS=-mod=mod GOPROXY=off GOSUMDB=off GOTOOLCHAIN=local
mkdir -p /tmp/seedv /verif/seeded/$name
git -C /repo worktree remove --force $wt 2>/dev/null
git -C /repo worktree add -q --detach $wt HEAD || exit 2
(cd $wt && git apply $src/patch.diff) || { echo "patch does not apply"; exit 2; }
(cd $wt && go build ./tars/... ) || { echo "does not build"; exit 2; }
cp $src/patch.diff /verif/seeded/$name/; cp $src/meta.json /verif/seeded/$name/meta.agent.json 2>/dev/null
files=$(grep '^+++ b/' $src/patch.diff | sed 's#+++ b/##')
props=$(python3 - $files <<'PY'
import json, sys
ch = set(sys.argv[1:])
for l in open('/verif/properties.jsonl'):
    p = json.loads(l)
    if ch & set(p['anchors']['files']):
        print(p['id'])
PY
)
: > /verif/seeded/$name/vcheck.out
for p in $props; do
  (cd /verif && VERIF_REPO=$wt VERIF_WS=$name ./vcheck $p 2>&1 | tail -4) >> /verif/seeded/$name/vcheck.out
done
mkdir -p /verif/seeded/$name/replay; cp /verif/out/ws/$name/replay/*.json /verif/seeded/$name/replay/ 2>/dev/null
rm -rf /verif/out/ws/$name
git -C /repo worktree remove --force $wt
grep -c '^OK' /verif/seeded/$name/vcheck.out; grep '^VIOLATION\|CHECK-ERROR' /verif/seeded/$name/vcheck.out
