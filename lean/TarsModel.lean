-- root of the library: every Props module (and through them models and proofs)
import TarsModel.Props.C02
import TarsModel.Props.C07
import TarsModel.Props.C20
import TarsModel.Props.C19
import TarsModel.Props.C14
import TarsModel.Props.C18
import TarsModel.Props.C13
import TarsModel.Props.C17
import TarsModel.Props.C04
import TarsModel.Props.C15
import TarsModel.Props.C16
import TarsModel.Props.C03
import TarsModel.Props.C05
import TarsModel.Props.C06
import TarsModel.Props.C10
import TarsModel.Props.C12
import TarsModel.Props.C11
