-- root of the library: every Props module (and through them models and proofs)
import TarsModel.Props.C02
