import TarsModel.Model.Bytes
import TarsModel.Model.Wire
