import TarsModel.Model.Wire
def main : IO Unit := IO.println "tarsmodel"
