import TarsModel.Driver.Common
import TarsModel.Driver.Wire

open Tars.Driver

def main (args : List String) : IO UInt32 := do
  let stdin ← IO.getStdin
  let stdout ← IO.getStdout
  match args with
  | ["wire"] => loopPure stdin stdout Wire.handle; return 0
  | _ => IO.eprintln "usage: tarsmodel <stream>"; return 2
