import TarsModel.Driver.Common
import TarsModel.Driver.Call

open Tars.Driver

/-- model driver for the `call` stream (C08, C09): `tm_call call` -/
def main (args : List String) : IO UInt32 := do
  let stdin ← IO.getStdin
  let stdout ← IO.getStdout
  match args with
  | ["call"] => loopPure stdin stdout Call.handle; return 0
  | _ => IO.eprintln "usage: tm_call call"; return 2
