import TarsModel.Driver.Common
import TarsModel.Driver.Schema

open Tars.Driver

/-- model driver for the generated-struct codec streams (C03–C06): `tm_schema schema` -/
def main (args : List String) : IO UInt32 := do
  let stdin ← IO.getStdin
  let stdout ← IO.getStdout
  match args with
  | ["schema"] => loopState stdin stdout Schema.step []; return 0
  | _ => IO.eprintln "usage: tm_schema schema"; return 2
