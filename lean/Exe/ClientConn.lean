import TarsModel.Driver.Common
import TarsModel.Driver.ClientConn

open Tars.Driver

/-- model driver for the `clientconn` stream (C11): `tm_clientconn clientconn` -/
def main (args : List String) : IO UInt32 := do
  let stdin ← IO.getStdin
  let stdout ← IO.getStdout
  match args with
  | ["clientconn"] => loopPure stdin stdout ClientConn.handle; return 0
  | _ => IO.eprintln "usage: tm_clientconn clientconn"; return 2
