import TarsModel.Driver.Common
import TarsModel.Driver.Endpoint

open Tars.Driver

/-- model driver for the `endpoint` stream (C18): `tm_endpoint endpoint` -/
def main (args : List String) : IO UInt32 := do
  let stdin ← IO.getStdin
  let stdout ← IO.getStdout
  match args with
  | ["endpoint"] => loopPure stdin stdout Endpoint.handle; return 0
  | _ => IO.eprintln "usage: tm_endpoint endpoint"; return 2
