import TarsModel.Driver.Common
import TarsModel.Driver.CallPath

open Tars.Driver

/-- model driver for the `callpath` stream (C01): `tm_callpath callpath` -/
def main (args : List String) : IO UInt32 := do
  let stdin ← IO.getStdin
  let stdout ← IO.getStdout
  match args with
  | ["callpath"] => loopPure stdin stdout CallPath.handle; return 0
  | _ => IO.eprintln "usage: tm_callpath callpath"; return 2
