import TarsModel.Driver.Common
import TarsModel.Driver.ServerInvoke

open Tars.Driver

/-- model driver for the `srvinvoke` stream (C10): `tm_srvinvoke srvinvoke` -/
def main (args : List String) : IO UInt32 := do
  let stdin ← IO.getStdin
  let stdout ← IO.getStdout
  match args with
  | ["srvinvoke"] => loopPure stdin stdout ServerInvoke.handle; return 0
  | _ => IO.eprintln "usage: tm_srvinvoke srvinvoke"; return 2
