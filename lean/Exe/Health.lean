import TarsModel.Driver.Common
import TarsModel.Driver.Health

open Tars.Driver

/-- model driver for the `health` stream (C15): `tm_health health` -/
def main (args : List String) : IO UInt32 := do
  let stdin ← IO.getStdin
  let stdout ← IO.getStdout
  match args with
  | ["health"] => loopState stdin stdout Health.handle none; return 0
  | _ => IO.eprintln "usage: tm_health health"; return 2
