import TarsModel.Driver.Common
import TarsModel.Driver.Wire

open Tars.Driver

/-- model driver for the `wire` stream (C02): `tm_wire wire` -/
def main (args : List String) : IO UInt32 := do
  let stdin ← IO.getStdin
  let stdout ← IO.getStdout
  match args with
  | ["wire"] => loopPure stdin stdout Wire.handle; return 0
  | _ => IO.eprintln "usage: tm_wire wire"; return 2
