import TarsModel.Driver.Common
import TarsModel.Driver.Logger
import TarsModel.Driver.LogWriter

open Tars.Driver

/-- model driver for C20: `tm_logger logger` (queue and flusher), `tm_logger rollwriter` (size-rolling writer) -/
def main (args : List String) : IO UInt32 := do
  let stdin ← IO.getStdin
  let stdout ← IO.getStdout
  match args with
  | ["logger"] => loopPure stdin stdout Logger.handle; return 0
  | ["rollwriter"] => loopPure stdin stdout LogWriter.handle; return 0
  | _ => IO.eprintln "usage: tm_logger logger|rollwriter"; return 2
