import TarsModel.Driver.Common
import TarsModel.Driver.Logger

open Tars.Driver

/-- model driver for the `logger` stream (C20): `tm_logger logger` -/
def main (args : List String) : IO UInt32 := do
  let stdin ← IO.getStdin
  let stdout ← IO.getStdout
  match args with
  | ["logger"] => loopPure stdin stdout Logger.handle; return 0
  | _ => IO.eprintln "usage: tm_logger logger"; return 2
