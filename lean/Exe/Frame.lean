import TarsModel.Driver.Common
import TarsModel.Driver.Frame

open Tars.Driver

/-- model driver for the `frame` stream (C07): `tm_frame frame` -/
def main (args : List String) : IO UInt32 := do
  let stdin ← IO.getStdin
  let stdout ← IO.getStdout
  match args with
  | ["frame"] => loopPure stdin stdout Frame.handle; return 0
  | _ => IO.eprintln "usage: tm_frame frame"; return 2
