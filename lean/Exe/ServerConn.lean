import TarsModel.Driver.Common
import TarsModel.Driver.ServerConn

open Tars.Driver

/-- model driver for the `serverconn` stream (C12): `tm_serverconn serverconn` -/
def main (args : List String) : IO UInt32 := do
  let stdin ← IO.getStdin
  let stdout ← IO.getStdout
  match args with
  | ["serverconn"] => loopPure stdin stdout ServerConn.handle; return 0
  | _ => IO.eprintln "usage: tm_serverconn serverconn"; return 2
