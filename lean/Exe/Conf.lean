import TarsModel.Driver.Common
import TarsModel.Driver.Conf

open Tars.Driver

/-- model driver for the `conf` stream (C17): `tm_conf conf` -/
def main (args : List String) : IO UInt32 := do
  let stdin ← IO.getStdin
  let stdout ← IO.getStdout
  match args with
  | ["conf"] => loopPure stdin stdout Conf.handle; return 0
  | _ => IO.eprintln "usage: tm_conf conf"; return 2
