import TarsModel.Driver.Common
import TarsModel.Driver.Idl

open Tars.Driver

/-- model driver for the tars2go front end (C16): `tm_idl idl` -/
def main (args : List String) : IO UInt32 := do
  let stdin ← IO.getStdin
  let stdout ← IO.getStdout
  match args with
  | ["idl"] => loopPure stdin stdout Idl.handle; return 0
  | _ => IO.eprintln "usage: tm_idl idl"; return 2
