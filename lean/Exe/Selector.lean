import TarsModel.Driver.Common
import TarsModel.Driver.Selector

open Tars.Driver

/-- model driver for the `selector` stream (C13): `tm_selector selector` -/
def main (args : List String) : IO UInt32 := do
  let stdin ← IO.getStdin
  let stdout ← IO.getStdout
  match args with
  | ["selector"] => loopPure stdin stdout Selector.handle; return 0
  | _ => IO.eprintln "usage: tm_selector selector"; return 2
