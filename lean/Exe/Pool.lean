import TarsModel.Driver.Common
import TarsModel.Driver.Pool

open Tars.Driver

/-- model driver for the `pool` stream (C19): `tm_pool pool` -/
def main (args : List String) : IO UInt32 := do
  let stdin ← IO.getStdin
  let stdout ← IO.getStdout
  match args with
  | ["pool"] => loopPure stdin stdout Pool.handle; return 0
  | _ => IO.eprintln "usage: tm_pool pool"; return 2
