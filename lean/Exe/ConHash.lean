import TarsModel.Driver.Common
import TarsModel.Driver.ConHash

open Tars.Driver

/-- model driver for the `conhash` stream (C14): `tm_conhash conhash` -/
def main (args : List String) : IO UInt32 := do
  let stdin ← IO.getStdin
  let stdout ← IO.getStdout
  match args with
  | ["conhash"] => loopState stdin stdout ConHash.step {}; return 0
  | _ => IO.eprintln "usage: tm_conhash conhash"; return 2
