/-
  Model of tars/protocol/codec/codec.go: Buffer writers and Reader (bytes.Reader semantics).
  Every definition mirrors one Go function; names follow the Go names.
-/
import TarsModel.Model.Bytes
import TarsModel.Generated.Consts

namespace Tars

open Consts

/-! ## Writers (`codec.Buffer`): each returns the bytes appended to the buffer -/

/-- `Buffer.WriteHead` -/
def writeHead (ty tag : Nat) : Bytes :=
  if tag < extTagThreshold then [byte (tag * 16 + ty)]
  else [byte (extTagMarker * 16 + ty), byte tag]

/-- `Buffer.WriteInt8` (`data` is the int8 value as an integer) -/
def writeInt8 (v : Int) (tag : Nat) : Bytes :=
  if v = 0 then writeHead tyZeroTag tag
  else writeHead tyBYTE tag ++ [byte (toU 8 v)]

/-- `Buffer.WriteInt16` -/
def writeInt16 (v : Int) (tag : Nat) : Bytes :=
  if -128 ≤ v ∧ v ≤ 127 then writeInt8 v tag
  else writeHead tySHORT tag ++ be 2 (toU 16 v)

/-- `Buffer.WriteInt32` -/
def writeInt32 (v : Int) (tag : Nat) : Bytes :=
  if -32768 ≤ v ∧ v ≤ 32767 then writeInt16 v tag
  else writeHead tyINT tag ++ be 4 (toU 32 v)

/-- `Buffer.WriteInt64` -/
def writeInt64 (v : Int) (tag : Nat) : Bytes :=
  if -2147483648 ≤ v ∧ v ≤ 2147483647 then writeInt32 v tag
  else writeHead tyLONG tag ++ be 8 (toU 64 v)

/-- `Buffer.WriteUint8`: via `WriteInt16(int16(data))` -/
def writeUint8 (v : Nat) (tag : Nat) : Bytes := writeInt16 (v : Int) tag
/-- `Buffer.WriteUint16`: via `WriteInt32(int32(data))` -/
def writeUint16 (v : Nat) (tag : Nat) : Bytes := writeInt32 (v : Int) tag
/-- `Buffer.WriteUint32`: via `WriteInt64(int64(data))` -/
def writeUint32 (v : Nat) (tag : Nat) : Bytes := writeInt64 (v : Int) tag

/-- `Buffer.WriteBool` -/
def writeBool (b : Bool) (tag : Nat) : Bytes := writeInt8 (if b then 1 else 0) tag

/-- `Buffer.WriteFloat32`: `bits = math.Float32bits(data)` -/
def writeFloat32 (bits : Nat) (tag : Nat) : Bytes := writeHead tyFLOAT tag ++ be 4 bits
/-- `Buffer.WriteFloat64` -/
def writeFloat64 (bits : Nat) (tag : Nat) : Bytes := writeHead tyDOUBLE tag ++ be 8 bits

/-- `Buffer.WriteString` (`uint32(len)` / `byte(len)` truncations are literal) -/
def writeString (s : Bytes) (tag : Nat) : Bytes :=
  if s.length > str1Max then writeHead tySTRING4 tag ++ be 4 s.length ++ s
  else writeHead tySTRING1 tag ++ [byte s.length] ++ s

/-! ## Reader (`codec.Reader` over `bytes.Reader`) -/

structure Reader where
  data : Array Byte -- `Reader.ref`: the whole input (an array so that the compiled driver reads in O(1))
  pos  : Nat        -- may exceed `data.size` after `Seek`
deriving Repr, DecidableEq

/-- `n` bytes starting at index `i` (fewer if the input ends): `data[i : min(i+n, len)]` -/
def takeFrom (a : Array Byte) (i : Nat) : Nat → Bytes
  | 0 => []
  | n+1 =>
    match a[i]? with
    | some b => b :: takeFrom a (i+1) n
    | none => []

inductive Err where
  | eof          -- io.EOF from the underlying reader
  | require      -- "can not find Tag … But require"
  | mismatch     -- "type mismatch" / "type not match" / "need string" / "require vector, but not"
  | invalid      -- "invalid type" in skipField
  | slhead       -- "simple list need byte head"
  | fuel         -- model artefact: never produced for fuel ≥ bound (theorem)
  | panic (site : String)   -- Go run-time panic (makeslice, index out of range, …)
deriving Repr, DecidableEq

/-- Result of a reader operation: outcome and the reader state afterwards (kept on error too,
    because the skip loops ignore inner errors and continue). -/
abbrev Res (α : Type) := Except Err α × Reader

def RM (α : Type) := Reader → Res α

@[inline] def RM.pure (a : α) : RM α := fun r => (.ok a, r)
@[inline] def RM.bind (m : RM α) (f : α → RM β) : RM β := fun r =>
  match m r with
  | (.ok a, r') => f a r'
  | (.error e, r') => (.error e, r')
@[inline] def RM.fail (e : Err) : RM α := fun r => (.error e, r)

instance : Monad RM where
  pure := RM.pure
  bind := RM.bind

namespace Reader

def mk0 (data : Bytes) : Reader := ⟨data.toArray, 0⟩

/-- `bytes.Reader.Len()` -/
def remaining (r : Reader) : Nat := r.data.size - r.pos

/-- unread portion -/
def rest (r : Reader) : Bytes := r.data.toList.drop r.pos

end Reader

/-- `bytes.Reader.ReadByte` -/
def readByte : RM Byte := fun r =>
  match r.data[r.pos]? with
  | some b => (.ok b, { r with pos := r.pos + 1 })
  | none => (.error .eof, r)

/-- `bytes.Reader.UnreadByte` (error ignored by the caller) -/
def unreadByte : RM Unit := fun r =>
  if r.pos = 0 then (.ok (), r) else (.ok (), { r with pos := r.pos - 1 })

/-- `bytes.Reader.Seek(n, io.SeekCurrent)` for `n ≥ 0` -/
def seekCur (n : Nat) : RM Unit := fun r => (.ok (), { r with pos := r.pos + n })

/-- `io.ReadFull(r, buf)` with `len(buf) = n` on a `bytes.Reader`: all `n` bytes or an error
    (`io.EOF` when nothing is left, `io.ErrUnexpectedEOF` on a short read — both `.eof` here); the
    position advances by what was available. An empty buffer reads nothing and succeeds. -/
def readFull (n : Nat) : RM Bytes := fun r =>
  if n = 0 then (.ok [], r)
  else if r.pos ≥ r.data.size then (.error .eof, r)
  else
    let got := takeFrom r.data r.pos n
    if got.length < n then (.error .eof, { r with pos := r.pos + got.length })
    else (.ok got, { r with pos := r.pos + got.length })

/-- `bReadU16/32/64` (the value is assigned also on error; callers use it only when `err == nil`) -/
def bReadU (n : Nat) : RM Nat := fun r =>
  match readFull n r with
  | (.ok buf, r') => (.ok (beVal buf), r')
  | (.error e, r') => (.error e, r')

/-- `bReadU8` -/
def bReadU8 : RM Nat := fun r =>
  match readByte r with
  | (.ok b, r') => (.ok b.val, r')
  | (.error e, r') => (.error e, r')

/-- `Reader.readHead`: returns `(ty, tag)` -/
def readHead : RM (Nat × Nat) := fun r =>
  match readByte r with
  | (.error e, r') => (.error e, r')
  | (.ok d, r1) =>
    let ty := d.val % 16
    let tag := d.val / 16
    if tag = extTagRead then
      match readByte r1 with
      | (.error e, r') => (.error e, r')
      | (.ok d2, r2) => (.ok (ty, d2.val), r2)
    else (.ok (ty, tag), r1)

/-- `Reader.unreadHead` -/
def unreadHead (curTag : Nat) : RM Unit := fun r =>
  let (_, r1) := unreadByte r
  if curTag ≥ extTagUnread then unreadByte r1 else (.ok (), r1)

/-- `Reader.Skip(n)` for the Go `int` argument `n` -/
def skip (n : Int) : RM Unit := fun r =>
  if n ≤ 0 then (.ok (), r) else seekCur n.toNat r

/-- `Reader.Next(n)` -/
def next (n : Int) : RM Bytes := fun r =>
  if n ≤ 0 then (.ok [], r)
  else
    let beg := r.data.size - r.remaining
    let r' : Reader := { r with pos := r.pos + n.toNat }
    let end_ := r.data.size - r'.remaining
    (.ok (takeFrom r.data beg (end_ - beg)), r')

/-- The first iteration of `SkipToNoCheck(0, true)` (which is the only one: no tag is `< 0`),
    followed by the `ReadInt32` switch: this is `ReadInt32(&length, 0, true)` as used for every
    length prefix.  Kept separate so that the skip family does not depend on the general
    `skipToNoCheck`; `readInt32_tag0` proves the two agree. -/
def readLen : RM Int := fun r =>
  match readHead r with
  | (.error _, r') => (.error .require, r')
  | (.ok (ty, tag), r1) =>
    if ty = tyStructEnd ∨ tag > 0 then (.error .require, r1)
    else if ty = tyZeroTag then (.ok 0, r1)
    else if ty = tyBYTE then
      match bReadU8 r1 with
      | (.ok v, r2) => (.ok (toS 8 v), r2)
      | (.error e, r2) => (.error e, r2)
    else if ty = tySHORT then
      match bReadU 2 r1 with
      | (.ok v, r2) => (.ok (toS 16 v), r2)
      | (.error e, r2) => (.error e, r2)
    else if ty = tyINT then
      match bReadU 4 r1 with
      | (.ok v, r2) => (.ok (toS 32 v), r2)
      | (.error e, r2) => (.error e, r2)
    else (.error .mismatch, r1)

/-! ### skip family (`skipField`, `skipFieldMap`, `skipFieldList`, `skipFieldSimpleList`,
    `SkipToStructEnd`) — mutual recursion in Go; here one fuel-indexed family.  Every recursive
    call and every loop iteration consumes one unit of fuel. -/

mutual
/-- `Reader.skipField(ty)` -/
def skipField : Nat → Nat → RM Unit
  | 0, _ => RM.fail .fuel
  | fuel+1, ty => fun r =>
    if ty = tyBYTE then skip 1 r
    else if ty = tySHORT then skip 2 r
    else if ty = tyINT then skip 4 r
    else if ty = tyLONG then skip 8 r
    else if ty = tyFLOAT then skip 4 r
    else if ty = tyDOUBLE then skip 8 r
    else if ty = tySTRING1 then
      match readByte r with
      | (.error e, r') => (.error e, r')
      | (.ok d, r1) => skip (d.val : Int) r1
    else if ty = tySTRING4 then
      match bReadU 4 r with
      | (.error e, r') => (.error e, r')
      | (.ok l, r1) => skip (l : Int) r1
    else if ty = tyMAP then
      -- skipFieldMap
      match readLen r with
      | (.error e, r') => (.error e, r')
      | (.ok len, r1) => skipElems fuel (wrapS 32 (len * 2)) r1
    else if ty = tyLIST then
      -- skipFieldList
      match readLen r with
      | (.error e, r') => (.error e, r')
      | (.ok len, r1) => skipElems fuel len r1
    else if ty = tySimpleList then
      -- skipFieldSimpleList: the type test comes before the error test
      match readHead r with
      | (.error e, r') =>
        -- Go tests `tyCur != BYTE` before `err`: `tyCur` is 0 (= BYTE) when the first byte is
        -- missing, and the low nibble of the first byte when the extended tag byte is missing
        match r.data[r.pos]? with
        | none => (.error e, r')
        | some d => if d.val % 16 ≠ tyBYTE then (.error .slhead, r') else (.error e, r')
      | (.ok (tyCur, _), r1) =>
        if tyCur ≠ tyBYTE then (.error .slhead, r1)
        else
          match readLen r1 with
          | (.error e, r') => (.error e, r')
          | (.ok len, r2) => skip len r2
    else if ty = tyStructBegin then skipToStructEnd fuel r
    else if ty = tyStructEnd then (.ok (), r)
    else if ty = tyZeroTag then (.ok (), r)
    else (.error .invalid, r)

/-- the loop `for i := 0; i < n; i++ { readHead; _ = skipField }` of skipFieldMap / skipFieldList -/
def skipElems : Nat → Int → RM Unit
  | 0, _ => RM.fail .fuel
  | fuel+1, n => fun r =>
    if n ≤ 0 then (.ok (), r)
    else
      match readHead r with
      | (.error e, r') => (.error e, r')
      | (.ok (tyCur, _), r1) =>
        -- inner error ignored, state kept
        let (_, r2) := skipField fuel tyCur r1
        skipElems fuel (n - 1) r2

/-- `Reader.SkipToStructEnd` -/
def skipToStructEnd : Nat → RM Unit
  | 0 => RM.fail .fuel
  | fuel+1 => fun r =>
    match readHead r with
    | (.error e, r') => (.error e, r')
    | (.ok (ty, _), r1) =>
      match skipField fuel ty r1 with
      | (.error e, r') => (.error e, r')
      | (.ok (), r2) => if ty = tyStructEnd then (.ok (), r2) else skipToStructEnd fuel r2
end

/-- fuel that is always sufficient for a reader (theorem `skip_fuel_suffices`) -/
def Reader.fuel (r : Reader) : Nat := 2 * r.data.size + 8

/-- `Reader.SkipToNoCheck(tag, require)`: returns `(have, tyCur)` -/
def skipToNoCheckF : Nat → Nat → Bool → RM (Bool × Nat)
  | 0, _, _ => RM.fail .fuel
  | fuel+1, tag, require => fun r =>
    match readHead r with
    | (.error _, r') => if require then (.error .require, r') else (.ok (false, 0), r')
    | (.ok (tyCur, tagCur), r1) =>
      if tyCur = tyStructEnd ∨ tagCur > tag then
        if require then (.error .require, r1)
        else
          let (_, r2) := unreadHead tagCur r1
          (.ok (false, tyCur), r2)
      else if tagCur = tag then (.ok (true, tyCur), r1)
      else
        match skipField r1.fuel tyCur r1 with
        | (.error e, r') => (.error e, r')
        | (.ok (), r2) => skipToNoCheckF fuel tag require r2

def skipToNoCheck (tag : Nat) (require : Bool) : RM (Bool × Nat) := fun r =>
  skipToNoCheckF r.fuel tag require r

/-- `Reader.SkipTo(ty, tag, require)` -/
def skipTo (ty tag : Nat) (require : Bool) : RM Bool := fun r =>
  match skipToNoCheck tag require r with
  | (.error e, r') => (.error e, r')
  | (.ok (have_, tyCur), r1) =>
    if have_ ∧ ty ≠ tyCur then (.error .mismatch, r1) else (.ok have_, r1)

/-- helper: apply a conversion to the result of a raw read -/
@[inline] def mapRes (f : α → β) (x : Res α) : Res β :=
  match x with
  | (.ok a, r) => (.ok (f a), r)
  | (.error e, r) => (.error e, r)

/-- `Reader.ReadInt8(&data, tag, require)`; `old` is the previous value of `*data` -/
def readInt8 (old : Int) (tag : Nat) (require : Bool) : RM Int := fun r =>
  match skipToNoCheck tag require r with
  | (.error e, r') => (.error e, r')
  | (.ok (false, _), r1) => (.ok old, r1)
  | (.ok (true, ty), r1) =>
    if ty = tyZeroTag then (.ok 0, r1)
    else if ty = tyBYTE then mapRes (toS 8) (bReadU8 r1)
    else (.error .mismatch, r1)

/-- `Reader.ReadInt16` -/
def readInt16 (old : Int) (tag : Nat) (require : Bool) : RM Int := fun r =>
  match skipToNoCheck tag require r with
  | (.error e, r') => (.error e, r')
  | (.ok (false, _), r1) => (.ok old, r1)
  | (.ok (true, ty), r1) =>
    if ty = tyZeroTag then (.ok 0, r1)
    else if ty = tyBYTE then mapRes (toS 8) (bReadU8 r1)
    else if ty = tySHORT then mapRes (toS 16) (bReadU 2 r1)
    else (.error .mismatch, r1)

/-- `Reader.ReadInt32` -/
def readInt32 (old : Int) (tag : Nat) (require : Bool) : RM Int := fun r =>
  match skipToNoCheck tag require r with
  | (.error e, r') => (.error e, r')
  | (.ok (false, _), r1) => (.ok old, r1)
  | (.ok (true, ty), r1) =>
    if ty = tyZeroTag then (.ok 0, r1)
    else if ty = tyBYTE then mapRes (toS 8) (bReadU8 r1)
    else if ty = tySHORT then mapRes (toS 16) (bReadU 2 r1)
    else if ty = tyINT then mapRes (toS 32) (bReadU 4 r1)
    else (.error .mismatch, r1)

/-- `Reader.ReadInt64` -/
def readInt64 (old : Int) (tag : Nat) (require : Bool) : RM Int := fun r =>
  match skipToNoCheck tag require r with
  | (.error e, r') => (.error e, r')
  | (.ok (false, _), r1) => (.ok old, r1)
  | (.ok (true, ty), r1) =>
    if ty = tyZeroTag then (.ok 0, r1)
    else if ty = tyBYTE then mapRes (toS 8) (bReadU8 r1)
    else if ty = tySHORT then mapRes (toS 16) (bReadU 2 r1)
    else if ty = tyINT then mapRes (toS 32) (bReadU 4 r1)
    else if ty = tyLONG then mapRes (toS 64) (bReadU 8 r1)
    else (.error .mismatch, r1)

/-- `Reader.ReadUint8`: `n := int16(*data); ReadInt16(&n); *data = uint8(n)` -/
def readUint8 (old : Nat) (tag : Nat) (require : Bool) : RM Nat := fun r =>
  mapRes (fun n => toU 8 n) (readInt16 (old : Int) tag require r)
/-- `Reader.ReadUint16` -/
def readUint16 (old : Nat) (tag : Nat) (require : Bool) : RM Nat := fun r =>
  mapRes (fun n => toU 16 n) (readInt32 (old : Int) tag require r)
/-- `Reader.ReadUint32` -/
def readUint32 (old : Nat) (tag : Nat) (require : Bool) : RM Nat := fun r =>
  mapRes (fun n => toU 32 n) (readInt64 (old : Int) tag require r)

/-- `Reader.ReadBool` -/
def readBool (old : Bool) (tag : Nat) (require : Bool) : RM Bool := fun r =>
  mapRes (fun (n : Int) => !(n == 0)) (readInt8 (if old then 1 else 0) tag require r)

/-- float32 → float64 conversion on bit patterns (Go `float64(float32)`, exact; NaNs are quieted
    as the hardware conversion does). -/
def widenF32 (b : Nat) : Nat :=
  let sign := (b / 2 ^ 31) % 2
  let e := (b / 2 ^ 23) % 256
  let m := b % 2 ^ 23
  if e = 255 then
    if m = 0 then sign * 2 ^ 63 + 2047 * 2 ^ 52
    else sign * 2 ^ 63 + 2047 * 2 ^ 52 + ((m * 2 ^ 29) ||| 2 ^ 51)
  else if e = 0 then
    if m = 0 then sign * 2 ^ 63
    else
      -- subnormal: normalise
      let k := Nat.log2 m          -- position of the leading one, 0..22
      let e' := k + 874
      let m' := (m * 2 ^ (52 - k)) % 2 ^ 52
      sign * 2 ^ 63 + e' * 2 ^ 52 + m'
  else sign * 2 ^ 63 + (e + 896) * 2 ^ 52 + m * 2 ^ 29

/-- `Reader.ReadFloat32` (bit pattern) -/
def readFloat32 (old : Nat) (tag : Nat) (require : Bool) : RM Nat := fun r =>
  match skipToNoCheck tag require r with
  | (.error e, r') => (.error e, r')
  | (.ok (false, _), r1) => (.ok old, r1)
  | (.ok (true, ty), r1) =>
    if ty = tyZeroTag then (.ok 0, r1)
    else if ty = tyFLOAT then bReadU 4 r1
    else (.error .mismatch, r1)

/-- `Reader.ReadFloat64` (bit pattern) -/
def readFloat64 (old : Nat) (tag : Nat) (require : Bool) : RM Nat := fun r =>
  match skipToNoCheck tag require r with
  | (.error e, r') => (.error e, r')
  | (.ok (false, _), r1) => (.ok old, r1)
  | (.ok (true, ty), r1) =>
    if ty = tyZeroTag then (.ok 0, r1)
    else if ty = tyFLOAT then mapRes widenF32 (bReadU 4 r1)
    else if ty = tyDOUBLE then bReadU 8 r1
    else (.error .mismatch, r1)

/-- `buff := b.Next(int(length)); if len(buff) != length { return error }` in `ReadString` -/
def nextExact (l : Nat) : RM Bytes := fun r =>
  match next (l : Int) r with
  | (.error e, r') => (.error e, r')
  | (.ok buff, r') => if buff.length ≠ l then (.error .eof, r') else (.ok buff, r')

/-- `Reader.ReadString` -/
def readString (old : Bytes) (tag : Nat) (require : Bool) : RM Bytes := fun r =>
  match skipToNoCheck tag require r with
  | (.error e, r') => (.error e, r')
  | (.ok (false, _), r1) => (.ok old, r1)
  | (.ok (true, ty), r1) =>
    if ty = tySTRING4 then
      match bReadU 4 r1 with
      | (.error e, r') => (.error e, r')
      | (.ok l, r2) => nextExact l r2
    else if ty = tySTRING1 then
      match bReadU8 r1 with
      | (.error e, r') => (.error e, r')
      | (.ok l, r2) => nextExact l r2
    else (.error .mismatch, r1)

/-- `Reader.CheckLength(length)`: a length or element count read from the input must not be
    negative and cannot exceed the bytes left (every element takes at least one byte). -/
def checkLength (len : Int) : RM Unit := fun r =>
  if len < 0 ∨ len > (r.remaining : Int) then (.error .eof, r) else (.ok (), r)

/-- `Reader.ReadSliceInt8 / ReadSliceUint8` (`len` is the int32 argument); returns the new slice
    (`nil` when `len ≤ 0`; the previous content `old` of the target is irrelevant since the fix
    "an empty byte vector on the wire clears the target"); the length is validated before the
    slice is allocated. -/
def readSlice8 (_old : Bytes) (len : Int) : RM Bytes := fun r =>
  if len ≤ 0 then (.ok [], r)
  else
    match checkLength len r with
    | (.error e, r') => (.error e, r')
    | (.ok (), r') => readFull len.toNat r'

/-- `Reader.ReadBytes`: the length is validated (negative lengths are an error, no longer a
    `make` panic) before the slice is allocated. -/
def readBytes (len : Int) : RM Bytes := fun r =>
  match checkLength len r with
  | (.error e, r') => (.error e, r')
  | (.ok (), r') => readFull len.toNat r'

end Tars
