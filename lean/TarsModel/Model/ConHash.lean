/-
  Consistent-hash ring of `tars/selector/consistenthash/consistenthash_new.go`, modelled literally,
  function by function, over an abstract point function

      pts : Host → Nat → List Nat        -- ring points of virtual node `i` of a host

  (Ketama: the four 32-bit words of `md5("<host>_<i>")`; default algorithm: one word).  The
  concrete instantiation with an executable MD5 is at the end of the file and is what the driver
  runs.  Core Lean only.

  Go state                         model
  ----------------------------     ------------------------------------------------------------
  mapValues map[string]struct{}    `mapValues : List H`   (set of host keys, `HashKey() = Host`)
  hashRing  map[uint32]Endpoint    `hashRing  : List (Nat × Ep H)`, a Go map: `mset` overwrites
                                   an existing key, `mdel` deletes it, `mget` misses with `none`
  sortedKeys []uint32              `sortedKeys : Array Nat` (duplicates possible, as in Go)
  enableWeight, replicates         `cfg : Cfg`

  Nothing is deduplicated or repaired: a ring point claimed by two hosts is overwritten by the
  later `addLocked` and deleted by `Remove` of either host, exactly as the Go code does (D17).
-/
import TarsModel.Generated.Consts
import TarsModel.Model.MD5

namespace Tars.ConHash

/-! ## Go maps keyed by `uint32` -/

/-- `m[k]` with the comma-ok result -/
def mget {α : Type} : List (Nat × α) → Nat → Option α
  | [], _ => none
  | (k', v) :: m, k => if k' = k then some v else mget m k

/-- `m[k] = v` (overwrites an existing entry) -/
def mset {α : Type} : List (Nat × α) → Nat → α → List (Nat × α)
  | [], k, v => [(k, v)]
  | (k', v') :: m, k, v => if k' = k then (k, v) :: m else (k', v') :: mset m k v

/-- `delete(m, k)` -/
def mdel {α : Type} : List (Nat × α) → Nat → List (Nat × α)
  | [], _ => []
  | (k', v') :: m, k => if k' = k then mdel m k else (k', v') :: mdel m k

/-- the keys, in some iteration order (Go's is unspecified; every use sorts afterwards) -/
def mkeys {α : Type} (m : List (Nat × α)) : List Nat := m.map (·.1)

/-! ## Endpoints, configuration, state -/

/-- what the selectors look at in an `endpoint.Endpoint`: `HashKey()` (= `Host`) and `Weight`
    (an `int32`).  All other fields travel with the value unchanged. -/
structure Ep (H : Type) where
  host : H
  weight : Int
deriving DecidableEq, Repr

/-- `enableWeight` and `replicates` (set once by `New`, never changed) -/
structure Cfg where
  enableWeight : Bool
  replicates : Nat
deriving DecidableEq, Repr

structure Ring (H : Type) where
  cfg : Cfg
  mapValues : List H
  hashRing : List (Nat × Ep H)
  sortedKeys : Array Nat

/-- `consistenthash.New(enableWeight, _)`: `replicates = selector.ConHashVirtualNodes` -/
def Ring.new {H : Type} (enableWeight : Bool) : Ring H :=
  { cfg := ⟨enableWeight, Consts.conHashVirtualNodes⟩, mapValues := [], hashRing := [], sortedKeys := #[] }

/-- `(*ConsistentHash).weight`: number of virtual hosts of an endpoint.  Go `int` arithmetic on
    values that fit (an `int32` or the constant): `/` on a positive value is floor division. -/
def weight (cfg : Cfg) (w : Int) : Int :=
  let weight : Int := if cfg.enableWeight then w else (cfg.replicates : Int)
  if weight > (Consts.conHashWeightPositiveBound : Int) then
    let q := weight / (Consts.conHashWeightDiv : Int)
    if q = (Consts.conHashWeightZeroTest : Int) then (Consts.conHashWeightMin : Int) else q
  else weight

/-- all ring points of a host, in the order of the loops
    `for i := 0; i < weight; i++ { … for k := 0; k < 4; k++ { … } }` (nested loops flattened);
    a non-positive `weight` runs the loop zero times -/
def allPts {H : Type} (pts : H → Nat → List Nat) (h : H) (n : Int) : List Nat :=
  (List.range n.toNat).flatMap (pts h)

/-- the ring points of an endpoint under a configuration -/
def ptsOf {H : Type} (cfg : Cfg) (pts : H → Nat → List Nat) (e : Ep H) : List Nat :=
  allPts pts e.host (weight cfg e.weight)

/-- `(*ConsistentHash).sort`: `sort.Slice` with `<` on `uint32`; the result is the sorted
    permutation (unique for numbers, so instability of `sort.Slice` is unobservable) -/
def sortKeys (a : Array Nat) : Array Nat :=
  (a.toList.mergeSort (fun x y => decide (x ≤ y))).toArray

/-- `(*ConsistentHash).addLocked`; `none` = the error "endpoint already exists" (state unchanged) -/
def addLocked {H : Type} [DecidableEq H] (pts : H → Nat → List Nat) (r : Ring H) (ep : Ep H) : Option (Ring H) :=
  if ep.host ∈ r.mapValues then none
  else
    let ps := ptsOf r.cfg pts ep
    some { r with
      hashRing := ps.foldl (fun m p => mset m p ep) r.hashRing
      sortedKeys := r.sortedKeys ++ ps.toArray
      mapValues := r.mapValues ++ [ep.host] }

/-- `(*ConsistentHash).Refresh` (errors of `addLocked` are discarded: `_ = c.addLocked(ep)`).
    Nothing of the caller's slice is kept (endpoints are copied into the maps). -/
def refresh {H : Type} [DecidableEq H] (pts : H → Nat → List Nat) (r : Ring H) (eps : List (Ep H)) : Ring H :=
  let r0 : Ring H := { r with mapValues := [], hashRing := [], sortedKeys := #[] }
  let r1 := eps.foldl (fun r ep => match addLocked pts r ep with | some r' => r' | none => r) r0
  { r1 with sortedKeys := sortKeys r1.sortedKeys }

/-- `(*ConsistentHash).Add`; `none` = error, nothing changed (the early return skips the sort) -/
def add {H : Type} [DecidableEq H] (pts : H → Nat → List Nat) (r : Ring H) (ep : Ep H) : Option (Ring H) :=
  match addLocked pts r ep with
  | none => none
  | some r' => some { r' with sortedKeys := sortKeys r'.sortedKeys }

/-- `(*ConsistentHash).reBuildHashRingLocked` -/
def reBuildHashRingLocked {H : Type} (r : Ring H) : Ring H :=
  { r with sortedKeys := sortKeys (mkeys r.hashRing).toArray }

/-- `(*ConsistentHash).Remove`; `none` = the error "endpoint already removed" (state unchanged).
    The number of virtual hosts is computed from the *argument's* weight, as in Go. -/
def remove {H : Type} [DecidableEq H] (pts : H → Nat → List Nat) (r : Ring H) (ep : Ep H) : Option (Ring H) :=
  if ep.host ∈ r.mapValues then
    let ps := ptsOf r.cfg pts ep
    some (reBuildHashRingLocked { r with
      mapValues := r.mapValues.filter (fun h => h ≠ ep.host)
      hashRing := ps.foldl mdel r.hashRing })
  else none

/-! ## Lookup -/

/-- `sort.Search(n, f)` with `f x = (a[x] >= key)`, literally: the binary-search loop
    `i, j := 0, n; for i < j { h := (i+j)/2; if !f(h) { i = h+1 } else { j = h } }; return i` -/
def search (a : Array Nat) (key : Nat) (i j : Nat) (hj : j ≤ a.size) : Nat :=
  if h : i < j then
    let m := (i + j) / 2
    have hm : m < a.size := by omega
    if a[m] ≥ key then search a key i m (by omega) else search a key (m + 1) j hj
  else i
termination_by j - i

/-- result of `FindInt32` -/
inductive Found (H : Type) where
  /-- `(zero Endpoint, false)`: empty ring -/
  | notFound
  /-- `(ep, true)` -/
  | ep (e : Ep H)
  /-- `(zero Endpoint, true)`: the key taken from `sortedKeys` is missing in `hashRing`
      (a Go map miss yields the zero value).  Shown unreachable (`InvK`). -/
  | zeroEp
deriving DecidableEq, Repr

/-- `(*ConsistentHash).FindInt32` -/
def findInt32 {H : Type} (r : Ring H) (key : Nat) : Found H :=
  if h0 : r.sortedKeys.size = 0 then .notFound
  else
    let i := search r.sortedKeys key 0 r.sortedKeys.size (Nat.le_refl _)
    let idx := if i ≥ r.sortedKeys.size then 0 else i
    have hidx : idx < r.sortedKeys.size := by
      show (if i ≥ r.sortedKeys.size then 0 else i) < r.sortedKeys.size
      split <;> omega
    match mget r.hashRing r.sortedKeys[idx] with
    | some e => .ep e
    | none => .zeroEp

/-- `(*ConsistentHash).Select`: `FindInt32(msg.HashCode())`, error iff not found -/
def select {H : Type} (r : Ring H) (hashCode : Nat) : Found H := findInt32 r hashCode

/-! ## Histories -/

inductive Op (H : Type) where
  | refresh (eps : List (Ep H))
  | add (ep : Ep H)
  | remove (ep : Ep H)
deriving Repr

/-- one selector call; a call that returns an error leaves the state as it was -/
def step {H : Type} [DecidableEq H] (pts : H → Nat → List Nat) (r : Ring H) : Op H → Ring H
  | .refresh eps => refresh pts r eps
  | .add ep => (add pts r ep).getD r
  | .remove ep => (remove pts r ep).getD r

def run {H : Type} [DecidableEq H] (pts : H → Nat → List Nat) (r : Ring H) (ops : List (Op H)) : Ring H :=
  ops.foldl (step pts) r

/-- the endpoints an operation mentions -/
def Op.eps {H : Type} : Op H → List (Ep H)
  | .refresh eps => eps
  | .add ep => [ep]
  | .remove ep => [ep]

/-! ## Concrete point functions (what the driver runs) -/

/-- decimal digits of `n`, as `fmt.Sprintf("%d", n)` for `n ≥ 0` (fuel = `n + 1` suffices) -/
def digitsAux : Nat → Nat → List Nat → List Nat
  | 0, _, acc => acc
  | fuel + 1, n, acc => if n < 10 then (48 + n) :: acc else digitsAux fuel (n / 10) ((48 + n % 10) :: acc)

def decimal (n : Nat) : List Nat := digitsAux (n + 1) n []

/-- `fmt.Sprintf("%s_%d", host, i)` as bytes; the host is given as its bytes -/
def virtualHost (host : List Nat) (i : Nat) : List Nat := host ++ [95] ++ decimal i

/-- little-endian word `k` of a digest: `p[4k+3]<<24 | p[4k+2]<<16 | p[4k+1]<<8 | p[4k]` -/
def digestWord (d : List Nat) (k : Nat) : Nat :=
  match d.drop (4 * k) with
  | b0 :: b1 :: b2 :: b3 :: _ => MD5.le32 b0 b1 b2 b3
  | _ => 0

/-- Ketama: the `conHashPointsPerDigestAdd` (= 4) words of `md5(virtualHost)` -/
def ketamaPts (host : List Nat) (i : Nat) : List Nat :=
  let d := MD5.sum (virtualHost host i)
  (List.range Consts.conHashPointsPerDigestAdd).map (digestWord d)

/-- `DefaultHashAlg.Hash`: xor of the four little-endian words (the Go code reads them through
    `unsafe.Pointer`, i.e. in host byte order — little endian on every platform the harness runs on) -/
def defaultHash (key : List Nat) : Nat :=
  let d := MD5.sum key
  digestWord d 0 ^^^ digestWord d 1 ^^^ digestWord d 2 ^^^ digestWord d 3

def defaultPts (host : List Nat) (i : Nat) : List Nat := [defaultHash (virtualHost host i)]

/-- `KetamaHashAlg.Hash` (used by `Find(key string)`): first word of the digest -/
def ketamaHash (key : List Nat) : Nat := digestWord (MD5.sum key) 0

end Tars.ConHash
