/-
  The routing function around the ring (C14): the mod-hash selector
  (`tars/selector/modhash/modhash.go`), the hash code in the client context
  (`tars/util/current/clientcurrent.go`), its copy into the message (`ServantProxy.TarsInvoke`,
  `tars/message.go`), the strategy decision of `endpointManager.SelectAdapterProxy`, and the
  string hash helpers of `tars/hash_func.go`.  Core Lean only.

  The weighted cycle (`selector.BuildStaticWeightList`) belongs to C13's model; here it is a
  parameter `build : List (Ep H) → List Nat` (the list of endpoint indices).
-/
import TarsModel.Model.ConHash

namespace Tars.HashRoute
open Tars.ConHash (Ep Found Op)

/-! ## `modhash.ModHash` -/

structure ModHash (H : Type) where
  enableWeight : Bool
  mapValues : List H
  endpoints : List (Ep H)
  /-- `staticWeightRouterCache` -/
  cache : List Nat

/-- `modhash.New` -/
def ModHash.new {H : Type} (enableWeight : Bool) : ModHash H := ⟨enableWeight, [], [], []⟩

/-- outcome of a selector's `Select` -/
inductive Sel (H : Type) where
  /-- the error result ("no such endpoint") -/
  | err
  | ep (e : Ep H)
  /-- index out of range (a cycle entry that is not an index of `endpoints`) -/
  | panic
deriving DecidableEq, Repr

/-- `endpoints[i]`: the endpoint, or the index-out-of-range panic -/
def slot {H : Type} (l : List (Ep H)) (i : Nat) : Sel H :=
  match l[i]? with
  | some e => .ep e
  | none => .panic

/-- `(*ModHash).Select`.  `hashCode % uint32(len(..))`: lengths are below 2^32. -/
def ModHash.select {H : Type} (m : ModHash H) (hashCode : Nat) : Sel H :=
  if h0 : m.endpoints.length = 0 then .err
  else if hc : m.cache.length ≠ 0 then
    let idx := m.cache[hashCode % m.cache.length]'(Nat.mod_lt _ (by omega))
    slot m.endpoints idx
  else .ep (m.endpoints[hashCode % m.endpoints.length]'(Nat.mod_lt _ (by omega)))

/-- `(*ModHash).reBuildLocked` -/
def ModHash.reBuildLocked {H : Type} (build : List (Ep H) → List Nat) (m : ModHash H) : ModHash H :=
  { m with cache := if m.enableWeight then build m.endpoints else [] }

/-- `(*ModHash).addLocked`; `none` = "already exists" -/
def ModHash.addLocked {H : Type} [DecidableEq H] (m : ModHash H) (ep : Ep H) : Option (ModHash H) :=
  if ep.host ∈ m.mapValues then none
  else some { m with endpoints := m.endpoints ++ [ep], mapValues := m.mapValues ++ [ep.host] }

/-- `(*ModHash).Refresh`.  The Go code copies the endpoints into a list of its own
    (`make` + `append`); the model state is a value, so the caller's slice cannot be observed
    afterwards — the harness stream `alias` overwrites it after every call to hold the code to that. -/
def ModHash.refresh {H : Type} [DecidableEq H] (build : List (Ep H) → List Nat) (m : ModHash H) (eps : List (Ep H)) : ModHash H :=
  let m0 : ModHash H := { m with mapValues := [], endpoints := [] }
  ModHash.reBuildLocked build (eps.foldl (fun m ep => match m.addLocked ep with | some m' => m' | none => m) m0)

/-- `(*ModHash).Add`; `none` = error, nothing changed -/
def ModHash.add {H : Type} [DecidableEq H] (build : List (Ep H) → List Nat) (m : ModHash H) (ep : Ep H) : Option (ModHash H) :=
  match m.addLocked ep with
  | none => none
  | some m' => some (ModHash.reBuildLocked build m')

/-- the loop `for i, n := range endpoints { if n.HashKey() == ep.HashKey() { delete i; break } }` -/
def eraseFirstHost {H : Type} [DecidableEq H] (h : H) : List (Ep H) → List (Ep H)
  | [] => []
  | e :: l => if e.host = h then l else e :: eraseFirstHost h l

/-- `(*ModHash).Remove`; `none` = "already removed" -/
def ModHash.remove {H : Type} [DecidableEq H] (build : List (Ep H) → List Nat) (m : ModHash H) (ep : Ep H) : Option (ModHash H) :=
  if ep.host ∈ m.mapValues then
    some (ModHash.reBuildLocked build { m with
      mapValues := m.mapValues.filter (fun h => h ≠ ep.host)
      endpoints := eraseFirstHost ep.host m.endpoints })
  else none

def ModHash.step {H : Type} [DecidableEq H] (build : List (Ep H) → List Nat) (m : ModHash H) : Op H → ModHash H
  | .refresh eps => m.refresh build eps
  | .add ep => (m.add build ep).getD m
  | .remove ep => (m.remove build ep).getD m

def ModHash.run {H : Type} [DecidableEq H] (build : List (Ep H) → List Nat) (m : ModHash H) (ops : List (Op H)) : ModHash H :=
  ops.foldl (ModHash.step build) m

/-- specification of the installed endpoint list (pure bookkeeping on the list itself, no
    `mapValues`, no cache): `Refresh` installs the listed endpoints in order (first occurrence of
    a host wins), `Add` appends unless the host is present, `Remove` deletes the host's entry -/
def listStep {H : Type} [DecidableEq H] (l : List (Ep H)) : Op H → List (Ep H)
  | .refresh eps => eps.foldl (fun l e => if e.host ∈ l.map (·.host) then l else l ++ [e]) []
  | .add ep => if ep.host ∈ l.map (·.host) then l else l ++ [ep]
  | .remove ep => eraseFirstHost ep.host l

def listAfter {H : Type} [DecidableEq H] (l : List (Ep H)) (ops : List (Op H)) : List (Ep H) := ops.foldl listStep l

/-! ## Hash code in the client context -/

/-- `current.ClientCurrent`, the hash part -/
structure ClientCurrent where
  isHash : Bool
  hashCode : Nat
  hashType : Int
  isTimeout : Bool := false
  /-- in ms -/
  timeout : Int := 0
  serverIP : String := ""
  serverPort : String := ""
deriving DecidableEq, Repr

/-- `newClientCurrent` -/
def newClientCurrent : ClientCurrent := { isHash := false, hashCode := 0, hashType := 0 }

/-- `current.SetClientHash`; the context either carries a `ClientCurrent` (`some`) or not (`none`,
    the call is then a no-op returning `false`) -/
def setClientHash (cc : Option ClientCurrent) (hashType : Int) (hashCode : Nat) : Option ClientCurrent × Bool :=
  match cc with
  | some c => (some { c with isHash := true, hashType := hashType, hashCode := hashCode }, true)
  | none => (none, false)

/-- `current.GetClientHash`: `(isOk, hashType, hashCode, isHash)` -/
def getClientHash (cc : Option ClientCurrent) : Bool × Int × Nat × Bool :=
  match cc with
  | some c => (true, c.hashType, c.hashCode, c.isHash)
  | none => (false, 0, 0, false)

/-- `current.SetClientTimeout`: its own two fields, nothing else -/
def setClientTimeout (cc : Option ClientCurrent) (timeout : Int) : Option ClientCurrent × Bool :=
  match cc with
  | some c => (some { c with isTimeout := true, timeout := timeout }, true)
  | none => (none, false)

/-- `current.GetClientTimeout`: `(isOk, timeout, isTimeout)` -/
def getClientTimeout (cc : Option ClientCurrent) : Bool × Int × Bool :=
  match cc with
  | some c => (true, c.timeout, c.isTimeout)
  | none => (false, 0, false)

/-- `current.SetServerIPWithContext` -/
def setServerIP (cc : Option ClientCurrent) (ip : String) : Option ClientCurrent × Bool :=
  match cc with
  | some c => (some { c with serverIP := ip }, true)
  | none => (none, false)

/-- `current.SetServerPortWithContext` -/
def setServerPort (cc : Option ClientCurrent) (port : String) : Option ClientCurrent × Bool :=
  match cc with
  | some c => (some { c with serverPort := port }, true)
  | none => (none, false)

/-- one per-call option applied to the client context (every setter of clientcurrent.go) -/
inductive CtxOp where
  | hash (hashType : Int) (hashCode : Nat)
  | timeout (ms : Int)
  | serverIP (ip : String)
  | serverPort (port : String)
deriving DecidableEq, Repr

def applyCtxOp (cc : Option ClientCurrent) : CtxOp → Option ClientCurrent
  | .hash t c => (setClientHash cc t c).1
  | .timeout ms => (setClientTimeout cc ms).1
  | .serverIP ip => (setServerIP cc ip).1
  | .serverPort p => (setServerPort cc p).1

def applyCtxOps (cc : Option ClientCurrent) (ops : List CtxOp) : Option ClientCurrent := ops.foldl applyCtxOp cc

/-- the last hash option of a sequence of options -/
def lastHash : List CtxOp → Option (Int × Nat)
  | [] => none
  | op :: ops =>
    match lastHash ops with
    | some h => some h
    | none => (match op with | .hash t c => some (t, c) | _ => none)

/-- the last timeout option -/
def lastTimeout : List CtxOp → Option Int
  | [] => none
  | op :: ops =>
    match lastTimeout ops with
    | some h => some h
    | none => (match op with | .timeout ms => some ms | _ => none)

/-- the hash fields of `tars.Message` -/
structure Msg where
  isHash : Bool
  hashType : Int
  hashCode : Nat
deriving DecidableEq, Repr

/-- what `TarsInvoke` puts into the fresh `&Message{…}`:
    `if ok, hashType, hashCode, isHash := current.GetClientHash(ctx); ok { msg.… = … }` -/
def msgOfCtx (cc : Option ClientCurrent) : Msg :=
  let g := getClientHash cc
  if g.1 then ⟨g.2.2.2, g.2.1, g.2.2.1⟩ else ⟨false, 0, 0⟩

/-- `(*Message).SetHash` -/
def Msg.setHash (_m : Msg) (code : Nat) (h : Int) : Msg := ⟨true, h, code⟩

inductive Strategy where
  | conHash | modHash | roundRobin
deriving DecidableEq, Repr

/-- the `if / else if / else` of `SelectAdapterProxy` -/
def strategy (msg : Msg) : Strategy :=
  if msg.isHash && msg.hashType == (Consts.conHashMsgConsistentHash : Int) then .conHash
  else if msg.isHash && msg.hashType == (Consts.conHashMsgModHash : Int) then .modHash
  else .roundRobin

/-- outcome of `SelectAdapterProxy` as far as routing is concerned -/
inductive Route (H : Type) where
  /-- `(nil, false)`: no active endpoint known -/
  | nilNoEndpoint
  /-- `(adp, true)`: an adapter queued for a health probe pre-empts the selection (C15) -/
  | check
  /-- `(adapter of e, false)` -/
  | selected (e : Ep H)
  /-- the consistent-hash selector handed out the zero endpoint (unreachable, see `InvK`) -/
  | selectedZero
  /-- selector error, registry mode: a random active endpoint -/
  | fallbackRandom
  /-- selector error, direct mode: `(nil, false)` -/
  | nilSelectorError
  /-- index panic inside a selector -/
  | panic
deriving DecidableEq, Repr

def Route.ofSel {H : Type} (directProxy : Bool) : Sel H → Route H
  | .ep e => .selected e
  | .err => if directProxy then .nilSelectorError else .fallbackRandom
  | .panic => .panic

def Route.ofFound {H : Type} (directProxy : Bool) : Found H → Route H
  | .ep e => .selected e
  | .notFound => if directProxy then .nilSelectorError else .fallbackRandom
  | .zeroEp => .selectedZero

/-- `(*endpointManager).SelectAdapterProxy`, decision logic.  `nActiveEp = len(e.activeEp)`,
    `nActiveEpf = len(e.activeEpf)`, `pendingCheck` = the `checkAdapter` channel has an element;
    the three selectors are given by their `Select` results. -/
def selectAdapterProxy {H : Type} (directProxy : Bool) (nActiveEp nActiveEpf : Nat) (pendingCheck : Bool)
    (msg : Msg) (conHash : Nat → Found H) (modHash : Nat → Sel H) (roundRobin : Sel H) : Route H :=
  if directProxy && nActiveEp == 0 then .nilNoEndpoint
  else if !directProxy && nActiveEpf == 0 then .nilNoEndpoint
  else if pendingCheck then .check
  else
    match strategy msg with
    | .conHash => Route.ofFound directProxy (conHash msg.hashCode)
    | .modHash => Route.ofSel directProxy (modHash msg.hashCode)
    | .roundRobin => Route.ofSel directProxy roundRobin

/-! ## Weight type in force (`endpointManager.updateActiveEp`, `enableWeight`)

The manager builds its three selectors with `enableWeight() = (e.weightType == EStaticWeight)`.
`updateActiveEp(newEps)` decides `e.weightType` from the `WeightType` fields of the NEW list. -/

/-- the loop `sameType, lastType := true, newEps[0].WeightType; for … { if ep.WeightType != lastType { sameType = false } }` -/
def sameTypeLoop (lastType : Int) : List Int → Bool → Bool
  | [], same => same
  | t :: ts, same => sameTypeLoop lastType ts (if t ≠ lastType then false else same)

/-- the part of `(*endpointManager).updateActiveEp` that sets `e.weightType`, literally: early
    return on an empty list (nothing changes); otherwise `e.weightType = endpoint.ELoop`
    unconditionally, then `if sameType { e.weightType = lastType }`.  `prev` is the value the field
    had before the call; `types` are the `WeightType`s of `newEps` in order. -/
def updateWeightType (prev : Int) (types : List Int) : Int :=
  match types with
  | [] => prev
  | lastType :: _ =>
    let sameType := sameTypeLoop lastType types true
    let wt : Int := (Consts.conHashWtELoop : Int)
    if sameType then lastType else wt

/-- `(*endpointManager).enableWeight` -/
def enableWeight (weightType : Int) : Bool := weightType == (Consts.conHashWtEStaticWeight : Int)

/-- SPECIFICATION: the weight type a set of endpoints puts in force — their common type, plain
    rotation when they differ.  A function of the list alone. -/
def effectiveWeightType : List Int → Int
  | [] => (Consts.conHashWtELoop : Int)
  | t :: ts => if ts.all (· == t) then t else (Consts.conHashWtELoop : Int)

/-! ## `tars/hash_func.go` (strings are given as their runes, as `for _, c := range str` yields them) -/

def u32 (n : Nat) : Nat := n % 4294967296

/-- `HashString`: `h = 5*h + uint32(c)` -/
def hashString (cs : List Nat) : Nat := cs.foldl (fun h c => u32 (5 * h + u32 c)) 0

/-- `Hash` (ELF hash) -/
def hashElf (cs : List Nat) : Nat :=
  cs.foldl (fun h c =>
    let h := u32 ((h <<< 4) + u32 c)
    let g := h &&& 0xF0000000
    if g ≠ 0 then (h ^^^ (g >>> 24)) ^^^ g else h) 0

/-- `HashNew` (one-at-a-time), never 0 -/
def hashNew (cs : List Nat) : Nat :=
  let v := cs.foldl (fun v c =>
    let v := u32 (v + u32 c)
    let v := u32 (v + u32 (v <<< 10))
    v ^^^ (v >>> 6)) 0
  let v := u32 (v + u32 (v <<< 3))
  let v := v ^^^ (v >>> 11)
  let v := u32 (v + u32 (v <<< 15))
  if v = 0 then 1 else v

/-- `MagicStringHash` -/
def magicStringHash (cs : List Nat) : Nat := hashNew cs

end Tars.HashRoute
