/-
  Model/Health.lean — executable model of TarsGo's endpoint failover state machine (property C15).
  Core Lean only.

  Mirrors, function by function:
    tars/adapter.go          AdapterProxy.sendAdd, successAdd, failAdd, reset, checkActive
    tars/endpointmanager.go  endpointManager.checkStatus, SelectAdapterProxy, addAliveEp, updateActiveEp
    tars/servant.go          ServantProxy.doInvoke (the part that records success / failure and
                             reinstates a probed endpoint)

  Time is `time.Now().Unix()` (whole seconds) and enters every function as the explicit argument
  `now`; the thresholds and the comparison operators of `checkActive` come from the regenerated
  `Tars.Consts` (extracted from setting.go / adapter.go on every run).

  What is NOT modelled (assumptions, see checks/C15.json): the keep-alive ping (default
  `keepAliveInterval = 0`, i.e. off), registry refreshes (the registry list `reg` is fixed during a
  history, so no adapter is ever `Close`d), int32 wrap-around and float32 rounding of the counters
  (exact below 2^24 calls per reinstatement), the capacity 1000 of the `checkAdapter` channel
  (the queue never holds an endpoint twice, so this needs more than 1000 registered endpoints).
  One action of the model is atomic; the real code runs `reset(); addAliveEp()` in a goroutine.
-/
import TarsModel.Generated.Consts

namespace Tars.Health
open Tars

/-! ## thresholds and comparison operators (regenerated) -/

/-- comparison operator by the code the extractor emits: 0 `>=`, 1 `>`, 2 `<=`, 3 `<`, 4 `==`, 5 `!=` -/
def cmpOp (code : Nat) (a b : Int) : Bool :=
  if code = 0 then decide (b ≤ a)
  else if code = 1 then decide (b < a)
  else if code = 2 then decide (a ≤ b)
  else if code = 3 then decide (a < b)
  else if code = 4 then decide (a = b)
  else decide (a ≠ b)

/-- `float32(failCount)/float32(sendCount) <op> failRatio` with `failRatio = num/den`; division by
zero gives `+Inf` (or `NaN` for 0/0) exactly as in Go. Exact for counters below 2^24. -/
def ratioCmp (code : Nat) (f s : Nat) : Bool :=
  if s = 0 then
    (if f = 0 then code == 5 else (code == 0 || code == 1 || code == 5))
  else cmpOp code ((f : Int) * (Consts.healthFailRatioDen : Int)) ((s : Int) * (Consts.healthFailRatioNum : Int))

/-! ## the health record of one AdapterProxy -/

structure Rec where
  failCount : Nat
  lastFailCount : Nat
  sendCount : Nat
  successCount : Nat
  status : Bool
  lastSuccessTime : Int
  lastBlockTime : Int
  lastCheckTime : Int
  closed : Bool
deriving DecidableEq, Repr

/-- `NewAdapterProxy`: all counters and timestamps zero, `status = true` -/
def Rec.fresh : Rec :=
  { failCount := 0, lastFailCount := 0, sendCount := 0, successCount := 0, status := true,
    lastSuccessTime := 0, lastBlockTime := 0, lastCheckTime := 0, closed := false }

/-- `AdapterProxy.sendAdd` -/
def sendAdd (r : Rec) : Rec := { r with sendCount := r.sendCount + 1 }

/-- `AdapterProxy.successAdd` -/
def successAdd (now : Int) (r : Rec) : Rec :=
  { r with lastSuccessTime := now, successCount := r.successCount + 1, lastFailCount := 0 }

/-- `AdapterProxy.failAdd` -/
def failAdd (r : Rec) : Rec :=
  { r with lastFailCount := r.lastFailCount + 1, failCount := r.failCount + 1 }

/-- `AdapterProxy.reset` -/
def reset (now : Int) (r : Rec) : Rec :=
  { r with sendCount := 0, successCount := 0, failCount := 0, lastFailCount := 0,
           lastBlockTime := now, lastCheckTime := now, status := true }

/-- result of `checkActive`: the updated record and the two flags -/
structure CA where
  r : Rec
  firstTime : Bool
  needCheck : Bool

/-- `AdapterProxy.checkActive`, pure in `now`; `conn` = whether `tarsClient.ReConnect()` succeeds -/
def checkActive (now : Int) (conn : Bool) (r : Rec) : CA :=
  if r.closed then ⟨r, false, false⟩
  else if r.status then
    if cmpOp Consts.healthOpFailInterval (now - r.lastSuccessTime) Consts.healthFailInterval
        && cmpOp Consts.healthOpFainN r.lastFailCount Consts.healthFainN then
      ⟨{ r with status := false, lastBlockTime := now }, true, false⟩
    else if cmpOp Consts.healthOpCheckTime (now - r.lastCheckTime) Consts.healthCheckTime then
      if cmpOp Consts.healthOpOverN r.failCount Consts.healthOverN
          && ratioCmp Consts.healthOpFailRatio r.failCount r.sendCount then
        ⟨{ r with lastBlockTime := now, status := false }, true, false⟩
      else ⟨{ r with lastBlockTime := now }, false, false⟩
    else ⟨r, false, false⟩
  else if cmpOp Consts.healthOpTryTime (now - r.lastBlockTime) Consts.healthTryTimeInterval then
    if conn then ⟨{ r with lastBlockTime := now }, false, true⟩
    else ⟨{ r with lastBlockTime := now }, false, false⟩
  else ⟨r, false, false⟩

/-! ## the endpoint manager -/

/-- what an observer of a history sees (newest first in `Mgr.log`) -/
inductive Event
  /-- `SelectAdapterProxy` returned this endpoint; `probe` = its second result (`needCheck`) -/
  | picked (ep : Nat) (probe : Bool) (t : Int)
  /-- `SelectAdapterProxy` returned nil: the call fails outright -/
  | noEndpoint (t : Int)
  /-- a call on `ep` succeeded (`successAdd`) -/
  | ok (ep : Nat) (t : Int)
  /-- a call on `ep` failed (`failAdd`) -/
  | fail (ep : Nat) (t : Int)
  /-- `checkStatus` took `ep` out of rotation -/
  | blocked (ep : Nat) (t : Int)
  /-- `checkStatus` queued `ep` as probe candidate -/
  | grant (ep : Nat) (t : Int)
  /-- a successful probe put `ep` back (`reset` + `addAliveEp`) -/
  | reinstated (ep : Nat) (t : Int)
deriving DecidableEq, Repr

def upd {α : Type} (f : Nat → α) (k : Nat) (v : α) : Nat → α := fun x => if x = k then v else f x

structure Mgr where
  /-- variant: `true` = the repaired `SelectAdapterProxy` (pending/C15-probe-stamp.patch) that
  stamps `lastBlockTime` when it hands out a probe candidate; `false` = as found -/
  stamp : Bool
  now : Int
  /-- `activeEpf`: the registry's active list -/
  reg : List Nat
  /-- `activeEp` -/
  active : List Nat
  /-- members of the selectors (`activeEpRoundRobin/ConHash/ModHash`): the normal rotation -/
  sel : List Nat
  /-- `epList` membership -/
  has : Nat → Bool
  /-- the health record of each adapter (`Rec.fresh` where none has been created) -/
  recs : Nat → Rec
  /-- `checkAdapter` channel, head = next to be received -/
  queue : List Nat
  /-- `checkAdapterList` -/
  pend : List Nat
  /-- calls that were sent and whose outcome is still open: endpoint and `needCheck` -/
  inflight : List (Nat × Bool)
  log : List Event

/-- selector `Add`/`addLocked`: an endpoint the selector already holds is refused -/
def selAdd (l : List Nat) (ep : Nat) : List Nat := if l.contains ep then l else l ++ [ep]

/-- selector `Refresh`: `addLocked` for every endpoint, starting from empty -/
def selRefresh (eps : List Nat) : List Nat := eps.foldl selAdd []

/-- `newEndpointManager` + first `refreshEndpoints`/`updateActiveEp` over the registry list: every
endpoint active (no adapter exists yet), selectors refreshed (they drop duplicates). -/
def init (stamp : Bool) (reg : List Nat) (now0 : Int) : Mgr :=
  { stamp := stamp, now := now0, reg := reg, active := reg, sel := selRefresh reg,
    has := fun _ => false, recs := fun _ => Rec.fresh, queue := [], pend := [], inflight := [], log := [] }

/-! primitive state updates -/

def setRec (s : Mgr) (ep : Nat) (r : Rec) : Mgr := { s with recs := upd s.recs ep r }

def emit (s : Mgr) (e : Event) : Mgr := { s with log := e :: s.log }

/-- `checkStatus`, `firstTime` branch: remove `ep` from `activeEp` (first occurrence) and from the selectors -/
def takeOut (s : Mgr) (ep : Nat) : Mgr :=
  emit { s with active := s.active.erase ep, sel := s.sel.erase ep } (.blocked ep s.now)

/-- `checkStatus`, `needCheck` branch (the endpoint is not yet in `checkAdapterList`) -/
def enqueue (s : Mgr) (ep : Nat) : Mgr :=
  emit { s with pend := ep :: s.pend, queue := s.queue ++ [ep] } (.grant ep s.now)

/-- body of the loop of `endpointManager.checkStatus` for one registry entry -/
def checkOne (conn : List Nat) (s : Mgr) (ep : Nat) : Mgr :=
  if s.has ep then
    let ca := checkActive s.now (conn.contains ep) (s.recs ep)
    let s1 := setRec s ep ca.r
    let s2 := if ca.firstTime then takeOut s1 ep else s1
    if ca.needCheck && !(s2.pend.contains ep) then enqueue s2 ep else s2
  else s

/-- `endpointManager.checkStatus` -/
def checkStatus (conn : List Nat) (s : Mgr) : Mgr := s.reg.foldl (checkOne conn) s

/-- `endpointManager.addAliveEp` (the crc32 order of `activeEp` is not modelled; selectors refuse
an endpoint they already hold) -/
def addAliveEp (s : Mgr) (ep : Nat) : Mgr :=
  { s with active := s.active ++ [ep], sel := selAdd s.sel ep }

/-- outcome of `SelectAdapterProxy` -/
structure Pick where
  mgr : Mgr
  ep : Option Nat
  probe : Bool

/-- `SelectAdapterProxy`, `case adp := <-e.checkAdapter`: hand out the queued probe candidate -/
def popProbe (s : Mgr) (ep : Nat) (q : List Nat) : Mgr :=
  let s1 : Mgr := { s with queue := q, pend := s.pend.erase ep }
  if s.stamp then setRec s1 ep { s1.recs ep with lastBlockTime := s1.now } else s1

/-- `SelectAdapterProxy`, selector / random branch: the adapter is created on first use -/
def touch (s : Mgr) (ep : Nat) : Mgr := { s with has := upd s.has ep true }

/-- `endpointManager.SelectAdapterProxy`; `choice` resolves the selector's / `rand`'s choice -/
def selectAdapter (s : Mgr) (choice : Nat) : Pick :=
  match s.reg with
  | [] => ⟨s, none, false⟩
  | r0 :: _ =>
    match s.queue with
    | ep :: q => ⟨popProbe s ep q, some ep, true⟩
    | [] =>
      match s.sel with
      | e0 :: _ => ⟨touch s (s.sel.getD (choice % s.sel.length) e0), some (s.sel.getD (choice % s.sel.length) e0), false⟩
      | [] => ⟨touch s (s.reg.getD (choice % s.reg.length) r0), some (s.reg.getD (choice % s.reg.length) r0), false⟩

/-- `failAdd` on a failed call -/
def recFail (s : Mgr) (ep : Nat) : Mgr := emit (setRec s ep (failAdd (s.recs ep))) (.fail ep s.now)

/-- `successAdd` on a successful call -/
def recOk (s : Mgr) (ep : Nat) : Mgr := emit (setRec s ep (successAdd s.now (s.recs ep))) (.ok ep s.now)

/-- `adp.reset(); s.manager.addAliveEp(ep)` after a successful probe -/
def reinstate (s : Mgr) (ep : Nat) : Mgr :=
  emit (addAliveEp (setRec s ep (reset s.now (s.recs ep))) ep) (.reinstated ep s.now)

/-- `adp.Send`: `sendAdd` -/
def recSend (s : Mgr) (ep : Nat) (probe : Bool) : Mgr :=
  emit (setRec s ep (sendAdd (s.recs ep))) (.picked ep probe s.now)

/-- `doInvoke` after the selection: `Send` (`sendOk` = the transport accepted the request); a
refused send is a failed call, a one-way call ends here with success. -/
def startOn (s : Mgr) (ep : Nat) (probe sendOk oneway : Bool) : Mgr :=
  let m := recSend s ep probe
  if !sendOk then recFail m ep
  else if oneway then recOk m ep
  else { m with inflight := m.inflight ++ [(ep, probe)] }

/-- first half of `ServantProxy.doInvoke`: select, then send -/
def start (s : Mgr) (choice : Nat) (sendOk oneway : Bool) : Mgr :=
  let p := selectAdapter s choice
  match p.ep with
  | none => emit p.mgr (.noEndpoint s.now)
  | some ep => startOn p.mgr ep p.probe sendOk oneway

/-- outcome of an open call on `ep` (`ctx.Done()` → `failAdd`; response → if `needCheck` then
`reset` + `addAliveEp`; `successAdd`) -/
def finishCall (s : Mgr) (ep : Nat) (probe ok : Bool) : Mgr :=
  if ok then recOk (if probe then reinstate s ep else s) ep else recFail s ep

/-- second half of `doInvoke`: the outcome of the `k`-th open call -/
def finish (s : Mgr) (k : Nat) (ok : Bool) : Mgr :=
  match s.inflight with
  | [] => s
  | c0 :: _ =>
    let c := s.inflight.getD (k % s.inflight.length) c0
    finishCall { s with inflight := s.inflight.eraseIdx (k % s.inflight.length) } c.1 c.2 ok

inductive Action
  /-- `d` seconds pass -/
  | advance (d : Nat)
  /-- one run of `checkStatus`; `conn` = endpoints whose `ReConnect` would succeed -/
  | checkStatus (conn : List Nat)
  /-- a call is issued -/
  | start (choice : Nat) (sendOk oneway : Bool)
  /-- an open call completes -/
  | finish (k : Nat) (ok : Bool)
deriving Repr

def step (s : Mgr) : Action → Mgr
  | .advance d => { s with now := s.now + d }
  | .checkStatus conn => checkStatus conn s
  | .start c so ow => start s c so ow
  | .finish k ok => finish s k ok

/-- a history is a list of actions -/
def run (s : Mgr) (h : List Action) : Mgr := h.foldl step s

/-! ## observables of a log (newest event first) -/

/-- failed calls on `ep` since it was last reinstated (or since the beginning) -/
def failsSince : List Event → Nat → Nat
  | [], _ => 0
  | .fail e _ :: r, ep => (if e = ep then 1 else 0) + failsSince r ep
  | .reinstated e _ :: r, ep => if e = ep then 0 else failsSince r ep
  | _ :: r, ep => failsSince r ep

/-- failed calls on `ep` ever -/
def failsEver : List Event → Nat → Nat
  | [], _ => 0
  | .fail e _ :: r, ep => (if e = ep then 1 else 0) + failsEver r ep
  | _ :: r, ep => failsEver r ep

/-- consecutive failed calls on `ep` since its last successful call -/
def streak : List Event → Nat → Nat
  | [], _ => 0
  | .fail e _ :: r, ep => (if e = ep then 1 else 0) + streak r ep
  | .ok e _ :: r, ep => if e = ep then 0 else streak r ep
  | _ :: r, ep => streak r ep

/-- time of the last successful call on `ep` -/
def lastOk : List Event → Nat → Option Int
  | [], _ => none
  | .ok e t :: r, ep => if e = ep then some t else lastOk r ep
  | _ :: r, ep => lastOk r ep

/-- time at which `ep` was last queued as probe candidate -/
def lastGrant : List Event → Nat → Option Int
  | [], _ => none
  | .grant e t :: r, ep => if e = ep then some t else lastGrant r ep
  | _ :: r, ep => lastGrant r ep

/-- time of the last probe call handed to `ep` -/
def lastProbe : List Event → Nat → Option Int
  | [], _ => none
  | .picked e true t :: r, ep => if e = ep then some t else lastProbe r ep
  | _ :: r, ep => lastProbe r ep

/-- time of the probe call before the last one -/
def prevProbe : List Event → Nat → Option Int
  | [], _ => none
  | .picked e true _ :: r, ep => if e = ep then lastProbe r ep else prevProbe r ep
  | _ :: r, ep => prevProbe r ep

/-- number of probe candidates queued for `ep` / probe calls handed to `ep` -/
def grants : List Event → Nat → Nat
  | [], _ => 0
  | .grant e _ :: r, ep => (if e = ep then 1 else 0) + grants r ep
  | _ :: r, ep => grants r ep

def probes : List Event → Nat → Nat
  | [], _ => 0
  | .picked e true _ :: r, ep => (if e = ep then 1 else 0) + probes r ep
  | _ :: r, ep => probes r ep

end Tars.Health
