/-
  Model of the panic exit path `tars.CheckPanic` (`tars/panic.go`) as far as property C20 is
  concerned: which of {stack dump, log flush} happen before the process ends.
  Core Lean only.

      func CheckPanic() {
        if r := recover(); r != nil {
          … msg …
          debug.DumpStack(true, "panic", msg)      `dumpStack`
          rogger.FlushLogger()                     `flush`
          os.Exit(-1)                              `exit`
        }
      }

  The recover branch is a sequence of statements (`PStmt`). Go semantics that matter: statements run
  in order; `defer f()` (`deferFlush`) only registers `f`, which runs when the function returns;
  `os.Exit` ends the process at once — deferred functions do not run, nothing after it runs.
  The extractor reads the statement order of the recover branch from the source into
  `Consts.panicCheckPanicSeq` (decimal digits, first statement first: 1 = DumpStack, 2 = plain
  FlushLogger call, 3 = os.Exit, 4 = deferred FlushLogger).
-/
import TarsModel.Generated.Consts

namespace Tars.PanicExit

inductive PStmt
  | dumpStack
  | flush
  | exit
  | deferFlush
deriving DecidableEq, Repr

/-- what the process does, in order -/
inductive Effect
  | dump
  | flush
  | exit
deriving DecidableEq, Repr

/-- run the branch: `deferred` = number of pending `defer rogger.FlushLogger()` -/
def run : List PStmt → Nat → List Effect
  | [], deferred => List.replicate deferred .flush          -- the function returns: deferred calls run
  | .dumpStack :: rest, d => .dump :: run rest d
  | .flush :: rest, d => .flush :: run rest d
  | .deferFlush :: rest, d => run rest (d + 1)
  | .exit :: _, _ => [.exit]                                  -- os.Exit: nothing else happens

def effects (body : List PStmt) : List Effect := run body 0

/-- the process ends through `os.Exit` and the logs were flushed before -/
def flushedBeforeExit : List Effect → Bool
  | [] => false
  | .flush :: rest => rest.contains .exit
  | .exit :: _ => false
  | .dump :: rest => flushedBeforeExit rest

/-- the syntactic condition the extractor anchor stands for: a plain `rogger.FlushLogger()` call
statement occurs before the first `os.Exit`, and there is an `os.Exit` -/
def plainFlushBeforeExit : List PStmt → Bool
  | [] => false
  | .flush :: rest => rest.contains .exit
  | .exit :: _ => false
  | _ :: rest => plainFlushBeforeExit rest

def asFound : List PStmt := [.dumpStack, .flush, .exit]

def digitsRev : Nat → Nat → List Nat
  | 0, _ => []
  | fuel + 1, n => if n = 0 then [] else (n % 10) :: digitsRev fuel (n / 10)

def stmtOf : Nat → Option PStmt
  | 1 => some .dumpStack
  | 2 => some .flush
  | 3 => some .exit
  | 4 => some .deferFlush
  | _ => none

/-- the recover branch of `CheckPanic` in the current tree, as the extractor read it -/
def treeBody : List PStmt :=
  ((digitsRev 20 Tars.Consts.panicCheckPanicSeq).reverse).filterMap stmtOf

end Tars.PanicExit
