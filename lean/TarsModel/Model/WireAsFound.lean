/-
  The primitives of codec.go AS FOUND at the pinned commit, before the repair
  "fix: codec readers report short reads" (defect D8): `bytes.Reader.Read` returns the bytes that
  are available and no error unless nothing is left, and the callers looked at the whole buffer.
  Kept only to state the counterexamples; the current code is modelled in `Wire.lean`.
-/
import TarsModel.Model.Wire

namespace Tars.AsFound
open Tars

/-- `r.Read(buf)` followed by the caller using all of `buf` (zero-padded on a short read) -/
def readBuf (n : Nat) : Reader → (Bytes × Bool) × Reader := fun r =>
  if r.pos ≥ r.data.size then ((zeros n, true), r)
  else
    let got := takeFrom r.data r.pos n
    ((got ++ zeros (n - got.length), false), { r with pos := r.pos + got.length })

/-- as-found `bReadU16/32/64` -/
def bReadU (n : Nat) : RM Nat := fun r =>
  match readBuf n r with
  | ((buf, false), r') => (.ok (beVal buf), r')
  | ((_, true), r') => (.error .eof, r')

/-- as-found tail of `ReadString`: `*data = string(b.Next(length))` without a length check -/
def readStringTail (l : Nat) : RM Bytes := next (l : Int)

/-- as-found `ReadSliceInt8/Uint8` for `len > 0` (for `len ≤ 0` the as-found code returned without
    assigning, so the target kept its previous content: see `readSlice8Empty`) -/
def readSlice8 (len : Nat) : RM Bytes := fun r =>
  match readBuf len r with
  | ((buf, false), r') => (.ok buf, r')
  | ((_, true), r') => (.error .eof, r')

/-- as-found `ReadSliceInt8/Uint8` for `len ≤ 0`: the target keeps `old` -/
def readSlice8Empty (old : Bytes) : RM Bytes := fun r => (.ok old, r)

end Tars.AsFound
