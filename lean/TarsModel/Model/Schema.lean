/-
  Model of what tars2go's gencode emits for struct codecs (genWriteVar / genReadVar and friends in
  tars/tools/tars2go/gencode/gen_go.go): ResetDefault, ReadFrom, ReadBlock, WriteTo, WriteBlock,
  over the primitive model `Wire`.  Schema-directed: a `Ty` says which code the generator emits,
  a `Val` is the Go value.
-/
import TarsModel.Model.Wire

namespace Tars
open Consts

/-- IDL types as the generator distinguishes them (`genType`) -/
inductive Ty where
  | bool | i8 | u8 | i16 | u16 | i32 | u32 | i64 | f32 | f64 | str
  | enum                      -- Go: named int32; written/read with WriteInt32/ReadInt32
  | vec (e : Ty)              -- `vector<e>`  → `[]e`
  | arr (n : Nat) (e : Ty)    -- `e x[n]`     → `[n]e`
  | map (k v : Ty)            -- `map<k,v>`   → `map[k]v`
  | struct (name : String)
deriving Repr, DecidableEq, Inhabited

/-- Go values -/
inductive Val where
  | bool (b : Bool)
  | int (i : Int)             -- all integer types and enums
  | f32 (bits : Nat)
  | f64 (bits : Nat)
  | str (s : Bytes)
  | list (vs : List Val)      -- slices and arrays
  | map (kvs : List (Val × Val))   -- association list, insertion order, keys distinct
  | struct (fields : List Val)     -- positional, in schema (= ascending tag) order
deriving Repr, Inhabited

structure Field where
  tag  : Nat
  req  : Bool
  ty   : Ty
  /-- explicit IDL default (`= literal`), if any: what ResetDefault assigns -/
  dflt : Option Val
deriving Repr, Inhabited

/-- struct name ↦ members in the order the generator emits them (sorted by tag) -/
abbrev Env := List (String × List Field)

def Env.find (env : Env) (n : String) : Option (List Field) :=
  match env with
  | [] => none
  | (m, fs) :: rest => if m = n then some fs else Env.find rest n

/-! ### float comparison as Go's `!=` on the values (bit patterns in, IEEE semantics) -/

def f32IsNaN (b : Nat) : Bool := (b / 2 ^ 23) % 256 == 255 && b % 2 ^ 23 != 0
def f64IsNaN (b : Nat) : Bool := (b / 2 ^ 52) % 2048 == 2047 && b % 2 ^ 52 != 0
/-- Go `a == b` for float32 given bit patterns -/
def f32Eq (a b : Nat) : Bool :=
  !f32IsNaN a && !f32IsNaN b && (a == b || (a % 2 ^ 31 == 0 && b % 2 ^ 31 == 0))
def f64Eq (a b : Nat) : Bool :=
  !f64IsNaN a && !f64IsNaN b && (a == b || (a % 2 ^ 63 == 0 && b % 2 ^ 63 == 0))

/-- Go zero value of a scalar type (`typeDef` without explicit default) -/
def scalarZero : Ty → Val
  | .bool => .bool false
  | .f32 => .f32 0
  | .f64 => .f64 0
  | .str => .str []
  | _ => .int 0

/-- `v != typeDef` as Go evaluates it for the scalar kinds -/
def scalarNeDefault (ty : Ty) (dflt : Option Val) (v : Val) : Bool :=
  match v, dflt.getD (scalarZero ty) with
  | .bool a, .bool b => a != b
  | .int a, .int b => a != b
  | .f32 a, .f32 b => !f32Eq a b
  | .f64 a, .f64 b => !f64Eq a b
  | .str a, .str b => a != b
  | _, _ => true

/-- `buf.Write<T>(v, tag)` for scalar `T` -/
def writeScalar (ty : Ty) (v : Val) (tag : Nat) : Bytes :=
  match ty, v with
  | .bool, .bool b => writeBool b tag
  | .i8, .int i => writeInt8 i tag
  | .u8, .int i => writeUint8 i.toNat tag
  | .i16, .int i => writeInt16 i tag
  | .u16, .int i => writeUint16 i.toNat tag
  | .i32, .int i => writeInt32 i tag
  | .u32, .int i => writeUint32 i.toNat tag
  | .i64, .int i => writeInt64 i tag
  | .enum, .int i => writeInt32 i tag
  | .f32, .f32 b => writeFloat32 b tag
  | .f64, .f64 b => writeFloat64 b tag
  | .str, .str s => writeString s tag
  | _, _ => []

def Ty.isScalar : Ty → Bool
  | .bool | .i8 | .u8 | .i16 | .u16 | .i32 | .u32 | .i64 | .f32 | .f64 | .str => true
  | _ => false

/-- the bytes of a `[]int8` as written by `WriteSliceInt8` -/
def int8Bytes (vs : List Val) : Bytes :=
  vs.map fun v => match v with
    | .int i => byte (toU 8 i)
    | _ => byte 0

/-! ## Encoding: `genWriteVar` -/

mutual
/-- code emitted by `genWriteVar` for a member/element of type `ty` with tag `tag` -/
def encVar (env : Env) (tag : Nat) (req : Bool) (ty : Ty) (dflt : Option Val) : Val → Bytes
  | .list vs =>
    match ty with
    | .vec e | .arr _ e =>
      -- genWriteVector / genWriteArray: `if len(x) > 0` guard only for optional members
      if !req && vs.isEmpty then []
      else if e = .i8 then
        -- genWriteSimpleList
        writeHead tySimpleList tag ++ writeHead tyBYTE 0 ++ writeInt32 (wrapS 32 vs.length) 0 ++ int8Bytes vs
      else
        writeHead tyLIST tag ++ writeInt32 (wrapS 32 vs.length) 0 ++ encElems env e vs
    | _ => []
  | .map kvs =>
    match ty with
    | .map k v =>
      if !req && kvs.isEmpty then []
      else writeHead tyMAP tag ++ writeInt32 (wrapS 32 kvs.length) 0 ++ encPairs env k v kvs
    | _ => []
  | .struct vs =>
    match ty with
    | .struct name =>
      -- genWriteStruct: WriteBlock, always (also for optional members)
      match env.find name with
      | some fs => writeHead tyStructBegin tag ++ encMembers env fs vs ++ writeHead tyStructEnd 0
      | none => []
    | _ => []
  | v =>
    -- scalars and enums
    if ty = .enum then writeScalar ty v tag
    else if ty.isScalar then
      if !req && !scalarNeDefault ty dflt v then [] else writeScalar ty v tag
    else []

/-- `for _, v := range x { genWriteVar(dummy{Require: true, Tag: 0, Type: e}) }` -/
def encElems (env : Env) (e : Ty) : List Val → Bytes
  | [] => []
  | v :: vs => encVar env 0 true e none v ++ encElems env e vs

/-- `for k, v := range m { write k with tag 0; write v with tag 1 }` -/
def encPairs (env : Env) (k v : Ty) : List (Val × Val) → Bytes
  | [] => []
  | (a, b) :: rest => encVar env 0 true k none a ++ encVar env 1 true v none b ++ encPairs env k v rest

/-- `WriteTo`: every member in schema order -/
def encMembers (env : Env) : List Field → List Val → Bytes
  | f :: fs, v :: vs => encVar env f.tag f.req f.ty f.dflt v ++ encMembers env fs vs
  | _, _ => []
end

/-- `st.WriteTo(buf)` for struct `name` -/
def encStruct (env : Env) (name : String) (v : Val) : Bytes :=
  match env.find name, v with
  | some fs, .struct vs => encMembers env fs vs
  | _, _ => []

/-! ## Zero values and ResetDefault -/

/-- Go zero value of a type (what `make`/`var` give). Fuel is consumed only when entering a
    struct definition (struct types cannot contain themselves by value, so `env.length + 1`
    always suffices: `zeroOf`). -/
def zeroVal (env : Env) (fuel : Nat) (ty : Ty) : Val :=
  match ty with
  | .vec _ => .list []
  | .arr n e => .list (List.replicate n (zeroVal env fuel e))
  | .map _ _ => .map []
  | .struct name =>
    match fuel with
    | 0 => .struct []
    | fuel'+1 =>
      match env.find name with
      | some fs => .struct (fs.map fun f => zeroVal env fuel' f.ty)
      | none => .struct []
  | .enum => .int 0
  | t => scalarZero t
termination_by (fuel, sizeOf ty)
decreasing_by all_goals simp_wf <;> first | (apply Prod.Lex.right; omega) | (apply Prod.Lex.left; omega)

def zeroOf (env : Env) (ty : Ty) : Val := zeroVal env (env.length + 1) ty

/-- `ResetDefault()`: nested struct members are reset recursively; members with an explicit default
    are assigned it; every other member is assigned its Go zero value -/
def resetDefault (env : Env) : Nat → List Field → List Val → List Val
  | 0, _, vs => vs
  | _, [], _ => []
  | _, _, [] => []
  | fuel+1, f :: fs, v :: vs =>
    let v1 := match f.ty, v with
      | .struct name, .struct inner =>
        match env.find name with
        | some ifs => Val.struct (resetDefault env fuel ifs inner)
        | none => v
      | _, _ => v
    let v2 := match f.dflt with
      | some d => d
      | none =>
        -- no explicit default: a nested struct has been reset by its own ResetDefault, every
        -- other member goes back to its Go zero value (fix "ResetDefault resets every member")
        match f.ty with
        | .struct _ => v1
        | .arr n (.struct s) =>
          -- `st.X = [N]S{}` followed by `for i := range st.X { st.X[i].ResetDefault() }`
          match env.find s with
          | some ifs =>
            Val.list (List.replicate n (Val.struct (resetDefault env fuel ifs (ifs.map fun g => zeroOf env g.ty))))
          | none => zeroOf env f.ty
        | t => zeroOf env t
    v2 :: resetDefault env (fuel+1) fs vs
termination_by fuel fs _ => (fuel, fs.length)

/-! ## Decoding: `genReadVar` -/

/-- `readBuf.Read<T>(&x, tag, require)` for scalar `T` -/
def readScalar (ty : Ty) (old : Val) (tag : Nat) (req : Bool) : RM Val := fun r =>
  match ty, old with
  | .bool, .bool o => mapRes Val.bool (readBool o tag req r)
  | .i8, .int o => mapRes Val.int (readInt8 o tag req r)
  | .u8, .int o => mapRes (fun n => Val.int (n : Nat)) (readUint8 o.toNat tag req r)
  | .i16, .int o => mapRes Val.int (readInt16 o tag req r)
  | .u16, .int o => mapRes (fun n => Val.int (n : Nat)) (readUint16 o.toNat tag req r)
  | .i32, .int o => mapRes Val.int (readInt32 o tag req r)
  | .u32, .int o => mapRes (fun n => Val.int (n : Nat)) (readUint32 o.toNat tag req r)
  | .i64, .int o => mapRes Val.int (readInt64 o tag req r)
  | .enum, .int o => mapRes Val.int (readInt32 o tag req r)
  | .f32, .f32 o => mapRes Val.f32 (readFloat32 o tag req r)
  | .f64, .f64 o => mapRes Val.f64 (readFloat64 o tag req r)
  | .str, .str o => mapRes Val.str (readString o tag req r)
  | _, _ => (.error (.panic "model: ill-typed target"), r)

/-- bytes of a SimpleList as `[]int8` / `[]uint8` values -/
def bytesToVals (signed : Bool) (bs : Bytes) : List Val :=
  bs.map fun b => if signed then Val.int (toS 8 b.val) else Val.int b.val

/-- association-list insert with overwrite (Go `m[k] = v`) -/
def mapInsert (kvs : List (Val × Val)) (k v : Val) (eqv : Val → Val → Bool) : List (Val × Val) :=
  match kvs with
  | [] => [(k, v)]
  | (a, b) :: rest => if eqv a k then (a, v) :: rest else (a, b) :: mapInsert rest k v eqv

/-- Go `==` on map keys (scalars, strings, enums) -/
def keyEq : Val → Val → Bool
  | .int a, .int b => a == b
  | .bool a, .bool b => a == b
  | .str a, .str b => a == b
  | .f32 a, .f32 b => f32Eq a b
  | .f64 a, .f64 b => f64Eq a b
  | _, _ => false

def listSet (vs : List Val) (i : Nat) (v : Val) : List Val := vs.set i v

/-- What happens when the element loop of `genReadArray` reaches an index `i ≥ N`: Go evaluates
    `arr[i]` (and panics "index out of range") at the point where the emitted code first touches
    the element: immediately for scalar, enum and struct elements (`&arr[i]` is an argument /
    receiver), but only after the element's head and length were read successfully for vector and
    map elements (`arr[i] = make(…)` / `ReadSliceInt8(&arr[i], …)`); errors of those reads win. -/
def arrOverflow (e : Ty) : RM Val := fun r =>
  match e with
  | .vec ee =>
    match skipToNoCheck 0 true r with
    | (.error er, r') => (.error er, r')
    | (.ok (_, tyCur), r1) =>
      if tyCur = tyLIST then
        match readLen r1 with
        | (.error er, r') => (.error er, r')
        | (.ok len, r2) => if len < 0 then (.error (.panic "makeslice"), r2) else (.error (.panic "index"), r2)
      else if tyCur = tySimpleList then
        if ee = .i8 ∨ ee = .u8 then
          match skipTo tyBYTE 0 true r1 with
          | (.error er, r') => (.error er, r')
          | (.ok _, r2) =>
            match readLen r2 with
            | (.error er, r') => (.error er, r')
            | (.ok _, r3) => (.error (.panic "index"), r3)
        else (.error .mismatch, r1)
      else (.error .mismatch, r1)
  | .arr _ _ => (.error (.panic "index"), r)
  | .map _ _ =>
    match skipTo tyMAP 0 true r with
    | (.error er, r') => (.error er, r')
    | (.ok _, r1) =>
      match readLen r1 with
      | (.error er, r') => (.error er, r')
      | (.ok _, r2) => (.error (.panic "index"), r2)
  | _ => (.error (.panic "index"), r)

mutual
/-- code emitted by `genReadVar`; `old` is the current value of the target -/
def decVar (env : Env) : Nat → Nat → Bool → Ty → Val → RM Val
  | 0, _, _, _, _ => RM.fail .fuel
  | fuel+1, tag, req, ty, old => fun r =>
    match ty with
    | .vec e =>
      -- genReadVector
      match skipToNoCheck tag req r with
      | (.error er, r') => (.error er, r')
      | (.ok (have_, tyCur), r1) =>
        if !req && !have_ then (.ok old, r1)
        else if tyCur = tyLIST then
          match readLen r1 with
          | (.error er, r') => (.error er, r')
          | (.ok len, r2) =>
            -- `err = readBuf.CheckLength(length)` before `make([]T, length)`
            match checkLength len r2 with
            | (.error er, r') => (.error er, r')
            | (.ok (), r3) => decElems env fuel e len.toNat [] r3
        else if tyCur = tySimpleList then
          if e = .i8 ∨ e = .u8 then
            -- genReadSimpleList
            match skipTo tyBYTE 0 true r1 with
            | (.error er, r') => (.error er, r')
            | (.ok _, r2) =>
              match readLen r2 with
              | (.error er, r') => (.error er, r')
              | (.ok len, r3) =>
                let oldBytes := match old with
                  | .list vs => int8Bytes vs
                  | _ => []
                match readSlice8 oldBytes len r3 with
                | (.error er, r') => (.error er, r')
                | (.ok bs, r4) => (.ok (.list (bytesToVals (e = .i8) bs)), r4)
          else (.error .mismatch, r1)
        else (.error .mismatch, r1)
    | .arr n e =>
      -- genReadArray (byte arrays do not compile and are outside the supported language)
      match skipToNoCheck tag req r with
      | (.error er, r') => (.error er, r')
      | (.ok (have_, tyCur), r1) =>
        if !req && !have_ then (.ok old, r1)
        else if tyCur = tyLIST then
          match readLen r1 with
          | (.error er, r') => (.error er, r')
          | (.ok len, r2) =>
            let oldVs := match old with
              | .list vs => vs
              | _ => []
            -- `if length > N { err = fmt.Errorf("array of N elements, but got …") }`
            if len > (n : Int) then (.error .mismatch, r2)
            else decArr env fuel e n 0 len oldVs r2
        else (.error .mismatch, r1)
    | .map k v =>
      -- genReadMap
      match skipTo tyMAP tag req r with
      | (.error er, r') => (.error er, r')
      | (.ok have_, r1) =>
        if !req && !have_ then (.ok old, r1)
        else
          match readLen r1 with
          | (.error er, r') => (.error er, r')
          | (.ok len, r2) =>
            -- `err = readBuf.CheckLength(length)` before the map is filled
            match checkLength len r2 with
            | (.error er, r') => (.error er, r')
            | (.ok (), r3) => decPairs env fuel k v len [] r3
    | .struct name =>
      -- genReadStruct → ReadBlock
      match env.find name, old with
      | some fs, .struct ovs =>
        let o1 := resetDefault env fuel fs ovs
        match skipTo tyStructBegin tag req r with
        | (.error er, r') => (.error er, r')
        | (.ok have_, r1) =>
          if !have_ then
            if req then (.error .require, r1) else (.ok (.struct o1), r1)
          else
            match decMembers env fuel fs (resetDefault env fuel fs o1) r1 with
            | (.error er, r') => (.error er, r')
            | (.ok vs, r2) =>
              match skipToStructEnd r2.fuel r2 with
              | (.error er, r') => (.error er, r')
              | (.ok (), r3) => (.ok (.struct vs), r3)
      | _, _ => (.error (.panic "model: ill-typed target"), r)
    | t => readScalar t old tag req r

/-- `x = make([]e, length); for i := 0; i < length; i++ { read x[i] with tag 0, require }`;
    `acc` holds the elements read so far (reversed) -/
def decElems (env : Env) : Nat → Ty → Nat → List Val → RM Val
  | 0, _, _, _ => RM.fail .fuel
  | fuel+1, e, n, acc => fun r =>
    match n with
    | 0 => (.ok (.list acc.reverse), r)
    | n'+1 =>
      match decVar env fuel 0 true e (zeroOf env e) r with
      | (.error er, r') => (.error er, r')
      | (.ok v, r1) => decElems env fuel e n' (v :: acc) r1

/-- `for i := 0; i < length; i++ { read arr[i] }` on a fixed array of `n` elements -/
def decArr (env : Env) : Nat → Ty → Nat → Nat → Int → List Val → RM Val
  | 0, _, _, _, _, _ => RM.fail .fuel
  | fuel+1, e, n, i, len, cur => fun r =>
    if (i : Int) ≥ len then (.ok (.list cur), r)
    else if i ≥ n then arrOverflow e r
    else
      match decVar env fuel 0 true e (cur.getD i (zeroOf env e)) r with
      | (.error er, r') => (.error er, r')
      | (.ok v, r1) => decArr env fuel e n (i+1) len (listSet cur i v) r1

/-- `m = make(map); for i := 0; i < length; i++ { var k, v; read k (tag 0), v (tag 1); m[k] = v }` -/
def decPairs (env : Env) : Nat → Ty → Ty → Int → List (Val × Val) → RM Val
  | 0, _, _, _, _ => RM.fail .fuel
  | fuel+1, k, v, len, acc => fun r =>
    if len ≤ 0 then (.ok (.map acc), r)
    else
      match decVar env fuel 0 true k (zeroOf env k) r with
      | (.error er, r') => (.error er, r')
      | (.ok a, r1) =>
        match decVar env fuel 1 true v (zeroOf env v) r1 with
        | (.error er, r') => (.error er, r')
        | (.ok b, r2) => decPairs env fuel k v (len - 1) (mapInsert acc a b keyEq) r2

/-- the member sequence of `ReadFrom` (after ResetDefault) -/
def decMembers (env : Env) : Nat → List Field → List Val → RM (List Val)
  | 0, _, _ => RM.fail .fuel
  | fuel+1, fs, olds => fun r =>
    match fs, olds with
    | f :: fs', o :: os =>
      match decVar env fuel f.tag f.req f.ty o r with
      | (.error er, r') => (.error er, r')
      | (.ok v, r1) =>
        match decMembers env fuel fs' os r1 with
        | (.error er, r') => (.error er, r')
        | (.ok vs, r2) => (.ok (v :: vs), r2)
    | _, _ => (.ok [], r)
end

/-- largest member count of any struct of the schema -/
def Env.width (env : Env) : Nat := env.foldr (fun p m => max p.2.length m) 0

/-- fuel sufficient for decoding from a reader (theorem `C05_terminates`): fuel is a call-depth
    budget; `decMembers` spends one unit per member (also for an absent optional member, which
    consumes no input), entering a nested struct / reading an element consumes at least one byte.
    The summand `env.length` only makes the bound exceed every struct rank (`rk S ≤ env.length`),
    which the proofs about `ResetDefault`'s own fuel use; it is not needed for decoding. -/
def decFuel (env : Env) (r : Reader) : Nat := (env.width + 3) * (r.data.size + 2) + env.length

/-- `st.ReadFrom(readBuf)` for struct `name` into a target currently holding `old` -/
def decStruct (env : Env) (name : String) (old : Val) : RM Val := fun r =>
  match env.find name, old with
  | some fs, .struct ovs =>
    let fuel := decFuel env r
    match decMembers env fuel fs (resetDefault env fuel fs ovs) r with
    | (.error er, r') => (.error er, r')
    | (.ok vs, r1) => (.ok (.struct vs), r1)
  | _, _ => (.error (.panic "model: ill-typed target"), r)

/-- a fresh target: Go zero value of the struct -/
def freshStruct (env : Env) (name : String) : Val := zeroOf env (.struct name)

end Tars
