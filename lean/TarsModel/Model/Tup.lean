/-
  Model of tars/protocol/tup/tup.go: the TUP attribute set `UniAttribute`
  (`PutBuffer`, `GetBuffer`, `Encode`, `Decode`), on top of the codec model `Model/Wire.lean`.
  Every definition mirrors one Go function or one loop body, statement by statement; names follow
  the Go names.  Core Lean only (the driver `tm_wire` links it).

  `u.data` (a Go `map[string][]byte`) is an association list with unique keys; `put` is the map
  assignment `u.data[k] = v` (a later assignment to the same key wins), `get` the lookup.  Go
  iterates a map in an unspecified order, so `encode` takes the entries in the order they are
  written (any order of the association list).

  The loop of `Decode` runs `length` times (`for i, e := int32(0), length; i < e; i++`), whatever
  the iterations do: the model recurses on that count and leaves early only on an error, exactly
  like the Go loop.  An iteration does NOT have to consume input (`ReadString(&k, 0, false)` and
  `SkipToNoCheck(1, false)` both succeed without reading anything when the wanted tag is not
  there), so without the count validation of pending/C05-tup-count-spin.patch the number of
  iterations is not bounded by the input (`Consts.tupCountChecked = 0`: as found;
  `= 1`: the count is validated with `Reader.CheckLength` before the loop).

  Ghost counters (no counterpart in the Go state; they never influence a result):
  `iters` = loop iterations started, `alloc` = bytes requested from the allocator by the decoder
  (`string(buff)` of a key that was found, `make([]byte, byteLen)` of a value).
-/
import TarsModel.Model.Wire

namespace Tars.Tup
open Tars Consts

/-- `u.data`: association list with unique keys -/
abbrev TupMap := List (Bytes × Bytes)

/-- `v, ok := u.data[k]` -/
def get (m : TupMap) (k : Bytes) : Option Bytes := m.lookup k

/-- `u.data[k] = v`: the entry is replaced when the key is already there -/
def put (m : TupMap) (k v : Bytes) : TupMap := (k, v) :: m.filter (fun p => !(p.1 == k))

/-- `UniAttribute.PutBuffer(k, buf)`: stores a copy of `buf` -/
def putBuffer (m : TupMap) (k buf : Bytes) : TupMap := put m k buf

/-- `UniAttribute.GetBuffer(k, &buf)`: `none` is the error "donot find key" (`*buf` is then `nil`) -/
def getBuffer (m : TupMap) (k : Bytes) : Option Bytes := get m k

/-! ## `UniAttribute.Encode` -/

/-- body of `for k, v := range u.data`: `WriteString(k, 0)`, `WriteHead(SimpleList, 1)`,
    `WriteHead(BYTE, 0)`, `WriteInt32(int32(len(v)), 0)`, `WriteBytes(v)` -/
def encodeEntry (k v : Bytes) : Bytes :=
  writeString k 0 ++ writeHead tySimpleList 1 ++ writeHead tyBYTE 0
    ++ writeInt32 (wrapS 32 (v.length : Int)) 0 ++ v

/-- the entries in iteration order -/
def encodeEntries : TupMap → Bytes
  | [] => []
  | (k, v) :: rest => encodeEntry k v ++ encodeEntries rest

/-- `UniAttribute.Encode(os)` when the `range` visits the entries in the order of `l`:
    `WriteHead(MAP, 0)`, `WriteInt32(int32(len(u.data)), 0)`, then the entries.
    (None of the writers can fail on a `bytes.Buffer`.) -/
def encode (l : TupMap) : Bytes :=
  writeHead tyMAP 0 ++ writeInt32 (wrapS 32 (l.length : Int)) 0 ++ encodeEntries l

/-! ## `UniAttribute.Decode` -/

/-- what one loop iteration did -/
structure EntryOut where
  /-- `.ok none`: `have` was false, nothing stored; `.ok (some (k, v))`: `u.data[k] = v` -/
  res   : Except Err (Option (Bytes × Bytes))
  /-- ghost: bytes allocated in this iteration -/
  alloc : Nat
  rd    : Reader
deriving Repr

/-- ghost: what `ReadBytes(&v, len, true)` requests from the allocator: `make([]byte, len)` runs only
    after `CheckLength(len)` passed -/
def bytesAlloc (len : Int) (r : Reader) : Nat :=
  match checkLength len r with
  | (.ok (), _) => len.toNat
  | (.error _, _) => 0

/-- One iteration of the loop of `Decode`:
    ```
    var k string; var v []byte
    err = is.ReadString(&k, 0, false)
    have, ty, err = is.SkipToNoCheck(1, false)
    if have {
      if ty == codec.SimpleList {
        _, err = is.SkipTo(codec.BYTE, 0, true)
        var byteLen int32 = 0
        err = is.ReadInt32(&byteLen, 0, true)
        err = is.ReadBytes(&v, byteLen, true)
        u.data[k] = v
      } else { err = fmt.Errorf("require vector, but not") }
    }
    ```
    (each `err` is returned at once).  When `have` is false nothing is stored and the loop goes
    on.  `ReadBytes` is `CheckLength` followed by `make([]byte, len)` and `io.ReadFull`: the
    allocation is counted as soon as the check passed. -/
def decodeEntry (r : Reader) : EntryOut :=
  match readString [] 0 false r with
  | (.error e, r') => ⟨.error e, 0, r'⟩
  | (.ok k, r1) =>
    match skipToNoCheck 1 false r1 with
    | (.error e, r') => ⟨.error e, k.length, r'⟩
    | (.ok (false, _), r2) => ⟨.ok none, k.length, r2⟩
    | (.ok (true, ty), r2) =>
      if ty = tySimpleList then
        match skipTo tyBYTE 0 true r2 with
        | (.error e, r') => ⟨.error e, k.length, r'⟩
        | (.ok _, r3) =>
          match readInt32 0 0 true r3 with
          | (.error e, r') => ⟨.error e, k.length, r'⟩
          | (.ok byteLen, r4) =>
            match readBytes byteLen r4 with
            | (.error e, r') => ⟨.error e, k.length + bytesAlloc byteLen r4, r'⟩
            | (.ok v, r5) => ⟨.ok (some (k, v)), k.length + bytesAlloc byteLen r4, r5⟩
      else ⟨.error .mismatch, k.length, r2⟩

/-- outcome of `Decode`: the returned error (`none` = `nil`), `u.data` afterwards (entries stored
    before an error stay in the map: the generated dispatchers ignore the error of
    `reqTup.Decode`), the reader, and the ghost counters -/
structure Out where
  err   : Option Err
  data  : TupMap
  rd    : Reader
  iters : Nat
  alloc : Nat
deriving Repr

/-- `for i, e := int32(0), length; i < e; i++ { … }` with `n = e - i` iterations still to run -/
def decodeLoop : Nat → TupMap → Nat → Nat → Reader → Out
  | 0, m, it, al, r => ⟨none, m, r, it, al⟩
  | n+1, m, it, al, r =>
    match decodeEntry r with
    | ⟨.error e, a, r'⟩ => ⟨some e, m, r', it + 1, al + a⟩
    | ⟨.ok none, a, r'⟩ => decodeLoop n m (it + 1) (al + a) r'
    | ⟨.ok (some (k, v)), a, r'⟩ => decodeLoop n (put m k v) (it + 1) (al + a) r'

/-- `UniAttribute.Decode(is)` into the map `m0` (`NewUniAttribute()` gives the empty map).
    `checked` selects the variant of the tree: with it the count is validated by
    `is.CheckLength(length)` before the loop. -/
def decodeV (checked : Bool) (m0 : TupMap) (r : Reader) : Out :=
  match skipTo tyMAP 0 false r with
  | (.error e, r') => ⟨some e, m0, r', 0, 0⟩
  | (.ok _, r1) =>            -- `have` is not looked at
    match readInt32 0 0 true r1 with
    | (.error e, r') => ⟨some e, m0, r', 0, 0⟩
    | (.ok length, r2) =>
      if checked then
        match checkLength length r2 with
        | (.error e, r') => ⟨some e, m0, r', 0, 0⟩
        | (.ok (), r3) => decodeLoop length.toNat m0 0 0 r3
      else decodeLoop length.toNat m0 0 0 r2     -- `i < e` is false at once for `length ≤ 0`

/-- is the count validated in the tree the constants were extracted from? -/
def countChecked : Bool := Consts.tupCountChecked == 1

/-- `UniAttribute.Decode` of the current tree -/
def decode (m0 : TupMap) (r : Reader) : Out := decodeV countChecked m0 r

end Tars.Tup
