/-
  Bytes, big-endian encodings, two's-complement conversions.
  Core Lean only (no Mathlib) so that the driver links.
-/
namespace Tars

abbrev Byte := Fin 256
abbrev Bytes := List Byte

/-- Go's `byte(n)` conversion (truncation). -/
def byte (n : Nat) : Byte := ⟨n % 256, Nat.mod_lt _ (by decide)⟩

@[simp] theorem byte_val (n : Nat) : (byte n).val = n % 256 := rfl

/-- `binary.BigEndian.PutUintN`: `n` bytes, most significant first, of `x mod 256^n`. -/
def be : Nat → Nat → Bytes
  | 0, _ => []
  | n+1, x => byte (x / 256 ^ n) :: be n x

@[simp] theorem be_length (n x : Nat) : (be n x).length = n := by
  induction n with
  | zero => rfl
  | succ n ih => simp [be, ih]

/-- `binary.BigEndian.UintN` on a byte slice. -/
def beVal : Bytes → Nat
  | [] => 0
  | b :: bs => b.val * 256 ^ bs.length + beVal bs

/-- Go `intN(uintN)` conversion: reinterpret the low `bits` bits as two's complement. -/
def toS (bits : Nat) (u : Nat) : Int :=
  let m := u % 2 ^ bits
  if m < 2 ^ (bits - 1) then (m : Int) else (m : Int) - (2 ^ bits : Nat)

/-- Go `uintN(intN)` conversion: two's complement representation in `bits` bits. -/
def toU (bits : Nat) (v : Int) : Nat := (v % ((2 ^ bits : Nat) : Int)).toNat

/-- wrap an integer into the signed range of `bits` bits (Go fixed-width arithmetic / conversion). -/
def wrapS (bits : Nat) (v : Int) : Int := toS bits (toU bits v)

def zeros (n : Nat) : Bytes := List.replicate n (byte 0)

/-- decimal rendering of bytes for the line protocol: hex string. -/
def hexDigit (n : Nat) : Char :=
  if n < 10 then Char.ofNat (48 + n) else Char.ofNat (87 + n)

def toHex (bs : Bytes) : String :=
  String.ofList (bs.foldr (fun b acc => hexDigit (b.val / 16) :: hexDigit (b.val % 16) :: acc) [])

def hexVal (c : Char) : Option Nat :=
  if '0' ≤ c ∧ c ≤ '9' then some (c.toNat - 48)
  else if 'a' ≤ c ∧ c ≤ 'f' then some (c.toNat - 87)
  else if 'A' ≤ c ∧ c ≤ 'F' then some (c.toNat - 55)
  else none

def fromHexAux : List Char → Bytes → Option Bytes
  | [], acc => some acc.reverse
  | [_], _ => none
  | a :: b :: rest, acc =>
    match hexVal a, hexVal b with
    | some x, some y => fromHexAux rest (byte (x * 16 + y) :: acc)
    | _, _ => none

/-- `-` denotes the empty byte string in the line protocol. -/
def fromHex (s : String) : Option Bytes :=
  if s = "-" then some [] else fromHexAux s.toList []

def hexOut (bs : Bytes) : String := if bs.isEmpty then "-" else toHex bs

end Tars
