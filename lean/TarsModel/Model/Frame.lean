/-
  Stream framing (C07): `protocol.TarsRequest` and the buffer handling of the two receive loops,
  `tcpHandler.recv` (server) and `connection.recv` (client).
  Core Lean only (no Mathlib) so that the driver links.

  Conventions
  * a Go `[]byte` is a `Bytes`; the nil slice and the empty slice are both `[]` (the loops keep
    `currBuffer` nil exactly when it is empty: `append(nil, buffer[:0]...)` is nil, and after a
    packet that empties the buffer the code assigns nil).
  * Go `int` is 64 bit: `int(binary.BigEndian.Uint32(..))` is the non-negative value of the four
    bytes.  `maxPackageLength` is a Go `int` that `SetMaxPackageLength` may set to anything, hence
    an `Int` here.
  * a Go panic is an explicit outcome (`Parse.panic`, `Status.panicked`).
-/
import TarsModel.Model.Bytes
import TarsModel.Generated.Consts

namespace Tars.Frame
open Tars

/-- result of `ParsePackage`: Go returns `(pkgLen, status)`; the status codes are those of package
`protocol` (`Consts.protoPackage*`), the receive loops compare them with the constants of package
`transport` (`Consts.transportPackage*`). -/
inductive Parse where
  | ret (pkgLen : Nat) (status : Nat)
  | panic
  deriving DecidableEq, Repr

/-- `protocol.TarsRequest(rev)` with `maxPackageLength = maxLen`
(= `TarsProtocol.ParsePackage`, `tars.Protocol.ParsePackage`, `AdapterProxy.ParsePackage`, which
only forward to it).

```go
if len(rev) < 4 { return 0, PackageLess }
iHeaderLen := int(binary.BigEndian.Uint32(rev[0:4]))
if iHeaderLen < 4 || iHeaderLen > maxPackageLength { return 0, PackageError }
if len(rev) < iHeaderLen { return 0, PackageLess }
return iHeaderLen, PackageFull
```
`rev[0:4]` panics when fewer than four bytes are present; that is excluded by the first guard only
as long as its literal (`Consts.headerBytes`) is at least 4. -/
def tarsRequest (maxLen : Int) (rev : Bytes) : Parse :=
  if rev.length < Consts.headerBytes then .ret 0 Consts.protoPackageLess
  else
    match rev with
    | b0 :: b1 :: b2 :: b3 :: _ =>
      let iHeaderLen : Nat := beVal [b0, b1, b2, b3]
      if iHeaderLen < Consts.minHeaderLen ∨ (iHeaderLen : Int) > maxLen then
        .ret 0 Consts.protoPackageError
      else if rev.length < iHeaderLen then .ret 0 Consts.protoPackageLess
      else .ret iHeaderLen Consts.protoPackageFull
    | _ => .panic

/-- state of one connection's receive loop after it stopped parsing -/
inductive Status where
  /-- the loop is (back) at `conn.Read` -/
  | open
  /-- "parse package error": the loop returned, the connection is closed -/
  | closed
  /-- a slice expression went out of range -/
  | panicked
  deriving DecidableEq, Repr

/-- a `PackageFull` answer carries a positive length (this is what makes the inner loop terminate;
it depends on the regenerated `Consts.minHeaderLen`/`headerBytes`) -/
theorem tarsRequest_full_pos {maxLen : Int} {buf : Bytes} {n s : Nat}
    (h : tarsRequest maxLen buf = .ret n s) (hs : s = Consts.transportPackageFull) :
    0 < n ∧ 0 < buf.length := by
  unfold tarsRequest at h
  simp only [Consts.headerBytes, Consts.minHeaderLen, Consts.protoPackageLess,
    Consts.protoPackageError, Consts.protoPackageFull, Consts.transportPackageFull] at h hs
  subst hs
  split at h
  · simp at h
  · split at h
    · split at h
      · simp at h
      · split at h
        · simp at h
        · simp only [Parse.ret.injEq] at h
          omega
    · simp at h

set_option linter.unusedVariables false in
/-- inner `for` loop of `tcpHandler.recv` on `currBuffer = buf`; result: the buffer left, the
packets handed to `handleConn` (→ `Invoke`) in order, and how the loop ended.

```go
for {
    pkgLen, status := t.server.protocol.ParsePackage(currBuffer)
    if status == PackageLess { break }
    if status == PackageFull {
        pkg := make([]byte, pkgLen)
        copy(pkg, currBuffer[:pkgLen])
        currBuffer = currBuffer[pkgLen:]
        t.handleConn(connSt, pkg)
        if len(currBuffer) > 0 { continue }
        currBuffer = nil
        break
    }
    TLOG.Errorf("parse package error ..."); return
}
```
`currBuffer[:pkgLen]` beyond the length is a panic (or, within the capacity, stale bytes): an
explicit outcome, unreachable with `tarsRequest`. -/
def drainServer (maxLen : Int) (buf : Bytes) : Bytes × List Bytes × Status :=
  match h : tarsRequest maxLen buf with
  | .panic => (buf, [], .panicked)
  | .ret pkgLen status =>
    if status = Consts.transportPackageLess then (buf, [], .open)
    else if hs : status = Consts.transportPackageFull then
      if pkgLen ≤ buf.length then
        let pkg := buf.take pkgLen
        let rest := buf.drop pkgLen
        if 0 < rest.length then
          let r := drainServer maxLen rest
          (r.1, pkg :: r.2.1, r.2.2)
        else ([], [pkg], .open)
      else (buf, [], .panicked)
    else (buf, [], .closed)
termination_by buf.length
decreasing_by
  have := tarsRequest_full_pos h hs
  simp only [List.length_drop]
  omega

set_option linter.unusedVariables false in
/-- inner `for` loop of `connection.recv` (client) on `currBuffer = buf`; the packets are handed to
`go c.client.protocol.Recv(pkg)`.

```go
for {
    pkgLen, status := c.client.protocol.ParsePackage(currBuffer)
    if status == PackageLess { break }
    if status == PackageFull {
        atomic.AddInt32(&c.invokeNum, -1)
        pkg := make([]byte, pkgLen)
        copy(pkg, currBuffer[0:pkgLen])
        currBuffer = currBuffer[pkgLen:]
        go c.client.protocol.Recv(pkg)
        if len(currBuffer) > 0 { continue }
        currBuffer = nil
        break
    }
    TLOG.Error("parse package error"); c.close(conn); return
}
``` -/
def drainClient (maxLen : Int) (buf : Bytes) : Bytes × List Bytes × Status :=
  match h : tarsRequest maxLen buf with
  | .panic => (buf, [], .panicked)
  | .ret pkgLen status =>
    if status = Consts.transportPackageLess then (buf, [], .open)
    else if hs : status = Consts.transportPackageFull then
      if pkgLen ≤ buf.length then
        let pkg := buf.take pkgLen
        let rest := buf.drop pkgLen
        if 0 < rest.length then
          let r := drainClient maxLen rest
          (r.1, pkg :: r.2.1, r.2.2)
        else ([], [pkg], .open)
      else (buf, [], .panicked)
    else (buf, [], .closed)
termination_by buf.length
decreasing_by
  have := tarsRequest_full_pos h hs
  simp only [List.length_drop]
  omega

/-- which receive loop -/
inductive Side where
  | server | client
  deriving DecidableEq, Repr

def drain : Side → Int → Bytes → Bytes × List Bytes × Status
  | .server => drainServer
  | .client => drainClient

/-- the receive loop's state between two `conn.Read`s -/
structure Conn where
  /-- `currBuffer` -/
  buf : Bytes
  status : Status
  deriving DecidableEq, Repr

/-- a fresh connection: `var currBuffer []byte` -/
def Conn.init : Conn := ⟨[], .open⟩

/-- one iteration of the outer loop in which `conn.Read(buffer)` returned `chunk = buffer[:n]`
without error: `currBuffer = append(currBuffer, buffer[:n]...)` and the inner loop.  Returns the
new state and the packets delivered by this iteration.  Once the loop has returned (closed,
panicked) nothing is read any more.  (A `Read` that times out is `continue`: the state is left
untouched; any other `Read` error ends the loop without touching delivered packets.) -/
def feed (side : Side) (maxLen : Int) (st : Conn) (chunk : Bytes) : Conn × List Bytes :=
  match st.status with
  | .open =>
    let r := drain side maxLen (st.buf ++ chunk)
    (⟨r.1, r.2.2⟩, r.2.1)
  | _ => (st, [])

/-- the outer loop over a sequence of successful reads: final state and all delivered packets -/
def feedAll (side : Side) (maxLen : Int) (st : Conn) : List Bytes → Conn × List Bytes
  | [] => (st, [])
  | c :: cs =>
    let r := feed side maxLen st c
    let r' := feedAll side maxLen r.1 cs
    (r'.1, r.2 ++ r'.2)

/-- like `feedAll`, also reporting after every read the cumulative number of delivered packets and
the status (the per-step observables the harness compares) -/
def feedTrace (side : Side) (maxLen : Int) (st : Conn) (n : Nat) :
    List Bytes → Conn × List Bytes × List (Nat × Status)
  | [] => (st, [], [])
  | c :: cs =>
    let r := feed side maxLen st c
    let n' := n + r.2.length
    let r' := feedTrace side maxLen r.1 n' cs
    (r'.1, r.2 ++ r'.2.1, (n', r.1.status) :: r'.2.2)

/-- `connection.ReConnect` (client) / the accept goroutine of `tcpHandler.Handle` (server) start a
NEW activation of the receive loop for every connection: `go c.recv(c.conn, connDone)` /
`t.recv(cf)`.  The reassembly buffer is a local of that activation (`var currBuffer []byte`), so
the new loop starts from the empty buffer and `open`, whatever the previous activation of the
same `TarsClient` / `tcpHandler` still held when its connection ended (an incomplete packet after
EOF, a reset or a close; the rest after a protocol error).  Neither loop reads or writes any other
reassembly state (the extractor checks that the argument of `ParsePackage` is such a local). -/
def reconnect (_prev : Conn) : Conn := Conn.init

/-- the history of one `TarsClient` (or of one listener): a sequence of connections, each a
sequence of successful reads; a connection ends (EOF, reset, close, protocol error) wherever its
chunk list ends, possibly in the middle of a packet.  Per connection: the final state of its
receive loop and the packets it delivered. -/
def session (side : Side) (maxLen : Int) : Conn → List (List Bytes) → List (Conn × List Bytes)
  | _, [] => []
  | prev, cs :: rest =>
    let r := feedAll side maxLen (reconnect prev) cs
    r :: session side maxLen r.1 rest

/-- the sender's framing (`RequestPack`, `req2Byte`, `rsp2Byte`): a 4-byte big-endian length that
counts itself, then the body -/
def frame (body : Bytes) : Bytes := be 4 (body.length + 4) ++ body

end Tars.Frame
