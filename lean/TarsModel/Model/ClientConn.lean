/-
  Model of the client connection of `tars/transport/tarsclient.go` (property C11).
  Core Lean only (no Mathlib) so that the driver links.

  One `TarsClient` = one shared `connection` object (`isClosed`, the current `net.Conn`, the lock),
  the `sendQueue`, the `sendFailQueue` (capacity 1) and, per `net.Conn` ever dialled (index `k`,
  in dial order; the current one is the last), one `recv` goroutine, one `send` goroutine and one
  `connDone` channel (capacity 1).  Each LTS action is one shared-memory / channel / socket
  operation of one goroutine; `select` chooses among the enabled cases, `default` only when none is
  enabled; the 1 s ticker is an environment action that may fire whenever the goroutine waits in the
  inner `select` (time is abstract).  "All interleavings" = all action lists.

  Go code mirrored (statement by statement):

  * `TarsClient.Send`
        callBegin id      the call is issued (visible); the request remembers which connections the
                          client already knew to be closed at that moment (`Msg.dead`, history only)
        callReconnect id  `tc.ReConnect()` — `connection.ReConnect` under `connLock`, atomic:
                          `if c.isClosed { dial; c.isClosed = false; go c.recv; go c.send }`
                          (the server is reachable: the dial succeeds). The lock is held from the
                          test of the flag over the dial to the installation of the new connection.
        callCheckClosed id / callInstall id   NOT the code as found: `ReConnect` with the dial
                          outside the lock (configuration `unlockedDial`, see `initUnlocked`): the
                          flag is read under the lock, the dial runs unlocked, then the lock is taken
                          again and the new connection is installed without looking at the flag
                          again, the socket of the connection it replaces being closed directly
                          (`c.conn.Close()`, not `close()`)
        mark reconnected  [verif yield point "Send.reconnected"]
        callEnq id        `tc.sendQueue <- sendMsg{req}` (enabled iff the queue is not full)
        callFail id       `<-timerC` "tars client write timeout" (only when the queue is full)
        callRet id        `Send` returns nil (visible)
  * `connection.send(conn_k, connDone_k)`
        mark top k        [yield "send.top"]
        sTopDone k / sTopGo k       loop-top poll `select { case <-connDone: return; default: }`
        sTakeFail k / sNoFail k     `select { case m = <-sendFailQueue: …; default: … }`
        mark inner k      [yield "send.inner"]
        sTakeQ k          inner select, `case m = <-sendQueue`
        sTickClosed k     `case <-t.C: if c.isClosed { return }`
        sTickIdle k       `… if invokeNum == 0 && idle time exceeded {` (guard abstracted: may happen
                          at any tick at which the flag is not set — an over-approximation — unless
                          the configuration `idleOK = false` says the idle timeout is out of reach)
        sIdleClose k      `c.close(conn); return }`
        sTickCont k       `continue`
        mark got k        [yield "send.got", directly in front of the write]
        sWriteOk k / sWriteLost k / sWriteFail k    `conn.Write(m.req)`: fails for certain on a
                          connection the client has closed itself, succeeds for certain on a live one;
                          on a connection the server has closed but the client has not yet, the bytes
                          may be accepted by the kernel and be lost, or the write may fail
        sRequeue k        `c.client.sendFailQueue <- m` (blocks while the queue holds an entry)
        sFailClose k      `c.close(conn)`; `err != net.ErrClosed` (always, the error is a
                          `*net.OpError`) → `return`
  * `connection.recv(conn_k, connDone_k)`
        rEof k            `conn.Read` returns `io.EOF` (orderly close by the server, FIN): the second
                          error branch of `recv`
        rErr k            `conn.Read` returns a `*net.OpError`: the server reset the connection
                          (`ECONNRESET`: abortive close, killed / restarted server, close with unread
                          input) or the client closed the socket itself: the first error branch
        mark closing k    [yield "recv.closing"]
        rClose k          `c.close(conn)`
        rSignal k         deferred `connDone <- true`
  * `connection.close(conn_k)` under the lock, atomic:  as found  `c.isClosed = true; conn.Close()`
        — the flag is the SHARED one, whichever connection is being closed.
  * peer:  `pClose k` the server stops reading connection `k` and closes it (FIN);
           `pReset k` the server stops reading connection `k` and aborts it (RST).
  * observations of the scripted server (lag behind the client's action): `obsAccept k`, `obsRecv k id`.

  Not modelled: the response path (`recv` → `ClientProtocol.Recv`; property C08), `TarsClient.Close`
  / `GraceClose`, TLS (`err == net.ErrClosed` → `ReConnect` inside `send`), dial failures.

  `Variant.repaired` is the code after `pending/C11-fix.patch`:
    (1) `close(conn)` sets the shared flag only when `conn` is the current connection,
    (2) the inner `select` of `send` also receives from `sendFailQueue` and from `connDone`,
    (3) after a dequeue the sender asks `c.lost(conn)` (under the lock: `c.isClosed || c.conn != conn`)
        and, if so, hands the request back through `sendFailQueue` and returns
        (`sCheckOk k` / `sCheckLost k`, `sHandback k`).
-/
import TarsModel.Generated.Consts

namespace Tars.ClientConn

inductive Variant
  | asFound
  | repaired
deriving DecidableEq, Repr

/-- Which variant the source tree is, as far as the extractor can see (guard in `close`, number of
receives from `sendFailQueue` in `send`, call of `lost` in `send`). -/
def treeVariant : Variant :=
  if Tars.Consts.clientCloseGuardsCurrent = 1 ∧ 2 ≤ Tars.Consts.clientSendFailQueueRecvs ∧
     1 ≤ Tars.Consts.clientSendLostChecks then .repaired else .asFound

/-- Does `connection.ReConnect` of the source tree leave the lock for the dial, or close a socket
itself? (extractor: the dial sits between `connLock.Lock()` and its `Unlock`, and `ReConnect`
contains no `.Close()` call). The theorems about `run` / `init` are about a tree for which this is
`false`; the harness replays histories of a tree for which it is `true` from `initUnlocked`-like
start states. -/
def treeUnlockedDial : Bool :=
  !(Tars.Consts.clientReConnectDialUnderLock == 1 && Tars.Consts.clientReConnectSocketCloses == 0)

/-- `sendFailQueue` is modelled as `Option Msg`: its capacity is 1 in the source. -/
example : Tars.Consts.clientSendFailQueueCap = 1 := rfl

/-- A request: its id and (history only) the connections the client had already closed when the
call was issued. -/
structure Msg where
  id : Nat
  dead : List Nat
deriving DecidableEq, Repr

/-- program counter of `connection.send` for one connection -/
inductive SPc
  | atTop                -- before the yield point at the top of the loop
  | top                  -- before the poll of `connDone`
  | pickFail             -- before the `sendFailQueue`-first select
  | atInner              -- before the yield point in front of the inner select
  | inner                -- in the inner select
  | got (m : Msg)        -- repaired only: has a request, before `c.lost(conn)`
  | atGot (m : Msg)      -- has a request it is going to write, before the yield point
  | ready (m : Msg)      -- before `conn.Write`
  | failed (m : Msg)     -- write failed, before `sendFailQueue <- m`
  | failClosing          -- before `c.close(conn)` after a failed write
  | idleClosing          -- before `c.close(conn)` on idle timeout
  | handback (m : Msg)   -- repaired only: before `sendFailQueue <- m; return`
  | exited
deriving DecidableEq, Repr

/-- program counter of `connection.recv` -/
inductive RPc
  | reading
  | atClosing
  | closing
  | signalling
  | done
deriving DecidableEq, Repr

structure Conn where
  /-- the server still reads this connection -/
  alive : Bool := true
  /-- the server has aborted the connection (RST): the pending `Read` fails with a `*net.OpError` -/
  reset : Bool := false
  /-- `close(conn)` has run for it: the client knows it is dead and has closed its socket -/
  known : Bool := false
  /-- buffer of `connDone` (capacity 1, one writer) -/
  connDone : Bool := false
  rpc : RPc := .reading
  spc : SPc := .atTop
deriving DecidableEq, Repr

inductive CallPc
  | begun
  | dialing
  | atConnected
  | connected
  | queued
deriving DecidableEq, Repr

structure State where
  /-- `connection.isClosed` (initially true: `NewTarsClient`) -/
  isClosed : Bool := true
  /-- every `net.Conn` dialled so far, in dial order; the last one is `connection.conn` -/
  conns : List Conn := []
  sendQ : List Msg := []
  failQ : Option Msg := none
  /-- `Send` calls in progress -/
  calls : List (Msg × CallPc) := []
  /-- history: ids of all calls ever issued -/
  issued : List Nat := []
  /-- history: every `conn.Write(m)` attempted, with the connection it was attempted on -/
  attempts : List (Msg × Nat) := []
  /-- history: requests written to a connection the server was still reading (id, connection) -/
  arrived : List (Nat × Nat) := []
  /-- history: requests whose bytes were accepted for a connection the server had left -/
  lost : List (Nat × Nat) := []
  /-- observations made by the server so far -/
  accepted : Nat := 0
  seen : List (Nat × Nat) := []
  /-- configuration: `IdleTimeout` is short enough for the idle close to be possible at all -/
  idleOK : Bool := true
  /-- configuration: `ReConnect` dials WITHOUT holding `connLock` (not the code as found; the
  extractor checks that the dial sits between `Lock` and its `Unlock`) -/
  unlockedDial : Bool := false
deriving DecidableEq, Repr

def init : State := {}

/-- a client whose `IdleTimeout` is so long that the idle close cannot happen during the run -/
def initNoIdle : State := { idleOK := false }

/-- a client whose `ReConnect` dials outside the lock (and whose idle close is out of reach) -/
def initUnlocked : State := { idleOK := false, unlockedDial := true }

/-- yield points of the `verif` hook -/
inductive Point
  | top
  | inner
  | got
  | closing
deriving DecidableEq, Repr

inductive Action
  | callBegin (id : Nat)
  | callReconnect (id : Nat)
  | callCheckClosed (id : Nat)
  | callInstall (id : Nat)
  | markReconnected (id : Nat)
  | callEnq (id : Nat)
  | callFail (id : Nat)
  | callRet (id : Nat)
  | pClose (k : Nat)
  | pReset (k : Nat)
  | rEof (k : Nat)
  | rErr (k : Nat)
  | rClose (k : Nat)
  | rSignal (k : Nat)
  | mark (p : Point) (k : Nat)
  | sTopDone (k : Nat)
  | sTopGo (k : Nat)
  | sTakeFail (k : Nat)
  | sNoFail (k : Nat)
  | sTakeQ (k : Nat)
  | sTickClosed (k : Nat)
  | sTickIdle (k : Nat)
  | sTickCont (k : Nat)
  | sIdleClose (k : Nat)
  | sInnerFail (k : Nat)
  | sInnerDone (k : Nat)
  | sCheckOk (k : Nat)
  | sCheckLost (k : Nat)
  | sHandback (k : Nat)
  | sWriteOk (k : Nat)
  | sWriteLost (k : Nat)
  | sWriteFail (k : Nat)
  | sRequeue (k : Nat)
  | sFailClose (k : Nat)
  | obsAccept (k : Nat)
  | obsRecv (k : Nat) (id : Nat)
deriving DecidableEq, Repr

/-- has the client run `close` for connection `j`? -/
def knownAt (s : State) (j : Nat) : Bool :=
  match s.conns[j]? with
  | some c => c.known
  | none => false

/-- the connections the client knows to be closed -/
def knownList (s : State) : List Nat := (List.range s.conns.length).filter (knownAt s)

/-- `k` is the current connection (`c.conn`) -/
def isCur (s : State) (k : Nat) : Bool := k + 1 == s.conns.length

def setConn (s : State) (k : Nat) (c : Conn) : State := { s with conns := s.conns.set k c }

/-- `connection.close(conn_k)` (under the lock; atomic) -/
def closeConn (v : Variant) (s : State) (k : Nat) (c : Conn) : State :=
  { s with conns := s.conns.set k { c with known := true },
           isClosed := match v with
             | .asFound => true
             | .repaired => if isCur s k then true else s.isClosed }

def findCall (s : State) (id : Nat) : Option (Msg × CallPc) := s.calls.find? (fun x => x.1.id == id)

def setCall (s : State) (m : Msg) (pc : CallPc) : State :=
  { s with calls := s.calls.map (fun x => if x.1.id == m.id then (m, pc) else x) }

/-- `c.conn.Close()` on the connection that is current (the last one), if any -/
def closeLast (l : List Conn) : List Conn :=
  match l.reverse with
  | [] => []
  | c :: r => ({ c with known := true } :: r).reverse

def dropCall (s : State) (id : Nat) : State :=
  { s with calls := s.calls.filter (fun x => !(x.1.id == id)) }

/-- where a sender goes once it has a request: as found straight to the yield point in front of the
`Write`, repaired to the `c.lost(conn)` check first -/
def afterDequeue (v : Variant) (m : Msg) : SPc :=
  match v with
  | .asFound => .atGot m
  | .repaired => .got m

/-- One atomic step; `none` = the action is not enabled in this state. `cap` = `cap(sendQueue)`. -/
def step (v : Variant) (cap : Nat) (s : State) : Action → Option State
  | .callBegin id =>
    if s.issued.contains id then none
    else some { s with calls := s.calls ++ [(⟨id, knownList s⟩, .begun)], issued := s.issued ++ [id] }
  | .callReconnect id =>
    match findCall s id with
    | some (m, .begun) =>
      if s.isClosed then
        some { setCall s m .atConnected with conns := s.conns ++ [{}], isClosed := false }
      else some (setCall s m .atConnected)
    | _ => none
  | .callCheckClosed id =>
    if s.unlockedDial = true then
      match findCall s id with
      | some (m, .begun) => some (setCall s m (if s.isClosed then .dialing else .atConnected))
      | _ => none
    else none
  | .callInstall id =>
    if s.unlockedDial = true then
      match findCall s id with
      | some (m, .dialing) =>
        some { setCall s m .atConnected with conns := closeLast s.conns ++ [{}], isClosed := false }
      | _ => none
    else none
  | .markReconnected id =>
    match findCall s id with
    | some (m, .atConnected) => some (setCall s m .connected)
    | _ => none
  | .callEnq id =>
    match findCall s id with
    | some (m, .connected) =>
      if s.sendQ.length < cap then some { setCall s m .queued with sendQ := s.sendQ ++ [m] } else none
    | _ => none
  | .callFail id =>
    match findCall s id with
    | some (_, .connected) => if s.sendQ.length < cap then none else some (dropCall s id)
    | _ => none
  | .callRet id =>
    match findCall s id with
    | some (_, .queued) => some (dropCall s id)
    | _ => none
  | .pClose k =>
    match s.conns[k]? with
    | some c => if c.alive then some (setConn s k { c with alive := false }) else none
    | none => none
  | .pReset k =>
    match s.conns[k]? with
    | some c => if c.alive then some (setConn s k { c with alive := false, reset := true }) else none
    | none => none
  | .rEof k =>
    match s.conns[k]? with
    | some c =>
      if c.rpc = .reading ∧ c.alive = false ∧ c.reset = false ∧ c.known = false then
        some (setConn s k { c with rpc := .atClosing }) else none
    | none => none
  | .rErr k =>
    match s.conns[k]? with
    | some c =>
      if c.rpc = .reading ∧ (c.reset = true ∨ c.known = true) then
        some (setConn s k { c with rpc := .atClosing }) else none
    | none => none
  | .rClose k =>
    match s.conns[k]? with
    | some c => if c.rpc = .closing then some (closeConn v s k { c with rpc := .signalling }) else none
    | none => none
  | .rSignal k =>
    match s.conns[k]? with
    | some c =>
      if c.rpc = .signalling then some (setConn s k { c with rpc := .done, connDone := true }) else none
    | none => none
  | .mark p k =>
    match s.conns[k]? with
    | some c =>
      match p, c.spc, c.rpc with
      | .top, .atTop, _ => some (setConn s k { c with spc := .top })
      | .inner, .atInner, _ => some (setConn s k { c with spc := .inner })
      | .got, .atGot m, _ => some (setConn s k { c with spc := .ready m })
      | .closing, _, .atClosing => some (setConn s k { c with rpc := .closing })
      | _, _, _ => none
    | none => none
  | .sTopDone k =>
    match s.conns[k]? with
    | some c =>
      if c.spc = .top ∧ c.connDone = true then
        some (setConn s k { c with spc := .exited, connDone := false }) else none
    | none => none
  | .sTopGo k =>
    match s.conns[k]? with
    | some c =>
      if c.spc = .top ∧ c.connDone = false then some (setConn s k { c with spc := .pickFail }) else none
    | none => none
  | .sTakeFail k =>
    match s.conns[k]? with
    | some c =>
      match c.spc, s.failQ with
      | .pickFail, some m => some { setConn s k { c with spc := afterDequeue v m } with failQ := none }
      | _, _ => none
    | none => none
  | .sNoFail k =>
    match s.conns[k]? with
    | some c =>
      match c.spc, s.failQ with
      | .pickFail, none => some (setConn s k { c with spc := .atInner })
      | _, _ => none
    | none => none
  | .sTakeQ k =>
    match s.conns[k]? with
    | some c =>
      match c.spc, s.sendQ with
      | .inner, m :: q => some { setConn s k { c with spc := afterDequeue v m } with sendQ := q }
      | _, _ => none
    | none => none
  | .sTickClosed k =>
    match s.conns[k]? with
    | some c =>
      if c.spc = .inner ∧ s.isClosed = true then some (setConn s k { c with spc := .exited }) else none
    | none => none
  | .sTickIdle k =>
    match s.conns[k]? with
    | some c =>
      if c.spc = .inner ∧ s.isClosed = false ∧ s.idleOK = true then
        some (setConn s k { c with spc := .idleClosing })
      else none
    | none => none
  | .sTickCont k =>
    match s.conns[k]? with
    | some c =>
      if c.spc = .inner ∧ s.isClosed = false then some (setConn s k { c with spc := .atTop }) else none
    | none => none
  | .sIdleClose k =>
    match s.conns[k]? with
    | some c =>
      if c.spc = .idleClosing then some (closeConn v s k { c with spc := .exited }) else none
    | none => none
  | .sInnerFail k =>
    match v, s.conns[k]? with
    | .repaired, some c =>
      match c.spc, s.failQ with
      | .inner, some m => some { setConn s k { c with spc := afterDequeue v m } with failQ := none }
      | _, _ => none
    | _, _ => none
  | .sInnerDone k =>
    match v, s.conns[k]? with
    | .repaired, some c =>
      if c.spc = .inner ∧ c.connDone = true then
        some (setConn s k { c with spc := .exited, connDone := false }) else none
    | _, _ => none
  | .sCheckOk k =>
    match s.conns[k]? with
    | some c =>
      match c.spc with
      | .got m =>
        if s.isClosed = false ∧ isCur s k = true then some (setConn s k { c with spc := .atGot m })
        else none
      | _ => none
    | none => none
  | .sCheckLost k =>
    match s.conns[k]? with
    | some c =>
      match c.spc with
      | .got m =>
        if s.isClosed = false ∧ isCur s k = true then none
        else some (setConn s k { c with spc := .handback m })
      | _ => none
    | none => none
  | .sHandback k =>
    match s.conns[k]? with
    | some c =>
      match c.spc, s.failQ with
      | .handback m, none => some { setConn s k { c with spc := .exited } with failQ := some m }
      | _, _ => none
    | none => none
  | .sWriteOk k =>
    match s.conns[k]? with
    | some c =>
      match c.spc with
      | .ready m =>
        if c.alive = true ∧ c.known = false then
          some { setConn s k { c with spc := .atTop } with
                 attempts := s.attempts ++ [(m, k)], arrived := s.arrived ++ [(m.id, k)] }
        else none
      | _ => none
    | none => none
  | .sWriteLost k =>
    match s.conns[k]? with
    | some c =>
      match c.spc with
      | .ready m =>
        if c.alive = false ∧ c.known = false then
          some { setConn s k { c with spc := .atTop } with
                 attempts := s.attempts ++ [(m, k)], lost := s.lost ++ [(m.id, k)] }
        else none
      | _ => none
    | none => none
  | .sWriteFail k =>
    match s.conns[k]? with
    | some c =>
      match c.spc with
      | .ready m =>
        if c.alive = false ∨ c.known = true then
          some { setConn s k { c with spc := .failed m } with attempts := s.attempts ++ [(m, k)] }
        else none
      | _ => none
    | none => none
  | .sRequeue k =>
    match s.conns[k]? with
    | some c =>
      match c.spc, s.failQ with
      | .failed m, none => some { setConn s k { c with spc := .failClosing } with failQ := some m }
      | _, _ => none
    | none => none
  | .sFailClose k =>
    match s.conns[k]? with
    | some c =>
      if c.spc = .failClosing then some (closeConn v s k { c with spc := .exited }) else none
    | none => none
  | .obsAccept k =>
    if k = s.accepted ∧ k < s.conns.length then some { s with accepted := s.accepted + 1 } else none
  | .obsRecv k id =>
    if s.arrived.contains (id, k) ∧ !s.seen.contains (id, k) then
      some { s with seen := s.seen ++ [(id, k)] } else none

/-- run a schedule (a list of actions) from `s`; `none` if some action was not enabled -/
def runFrom (v : Variant) (cap : Nat) (s : State) : List Action → Option State
  | [] => some s
  | a :: as =>
    match step v cap s a with
    | none => none
    | some s' => runFrom v cap s' as

def run (v : Variant) (cap : Nat) (acts : List Action) : Option State := runFrom v cap init acts

/-- the states reachable under any interleaving -/
inductive Reachable (v : Variant) (cap : Nat) : State → Prop
  | init : Reachable v cap init
  | initNoIdle : Reachable v cap initNoIdle
  | step {s s' : State} (a : Action) : Reachable v cap s → step v cap s a = some s' → Reachable v cap s'

/-! ### The side condition of the partial theorem: no late step of an old connection

`timely s a`: if `a` is a dequeue by sender `k` (from either queue), the client has not yet closed
connection `k` ("no sender outlives its connection by a dequeue"); if `a` is a `close(conn_k)`, `k`
is still the current connection (no `ReConnect` has happened since the connection was lost). -/
def timely (s : State) : Action → Bool
  | .sTakeFail k | .sTakeQ k | .sInnerFail k => !knownAt s k
  | .rClose k | .sIdleClose k | .sFailClose k => isCur s k
  | _ => true

/-- every step of the schedule `acts`, run from `s`, is timely -/
def TimelyFrom (v : Variant) (cap : Nat) : State → List Action → Prop
  | _, [] => True
  | s, a :: as =>
    timely s a = true ∧
      match step v cap s a with
      | some s' => TimelyFrom v cap s' as
      | none => True

def Timely (v : Variant) (cap : Nat) (acts : List Action) : Prop := TimelyFrom v cap init acts

/-! ### Observed histories (`admits`)

What the harness sees of a run of the real code: `Send` entered / returned, the goroutines passing
the yield points, the server closing a connection, the server accepting a connection / reading a
request, and probes of the shared state taken while nothing runs. Everything else is internal. -/

inductive Event
  | callBegin (id : Nat)
  | callRet (id : Nat)
  | callFail (id : Nat)
  | reconnected            -- some `Send` passed "Send.reconnected"
  | mark (p : Point) (k : Nat)
  | pClose (k : Nat)
  | pReset (k : Nat)
  | accept (k : Nat)
  | recv (k : Nat) (id : Nat)
  | probe (closed : Bool) (sendQ failQ conns : Nat)
deriving DecidableEq, Repr

def optLen : Option Msg → Nat
  | none => 0
  | some _ => 1

/-- the states reached by the visible step(s) matching an observed event -/
def fire (v : Variant) (cap : Nat) (s : State) : Event → List State
  | .callBegin id => (step v cap s (.callBegin id)).toList
  | .callRet id => (step v cap s (.callRet id)).toList
  | .callFail id => (step v cap s (.callFail id)).toList
  | .reconnected => s.calls.filterMap (fun x => step v cap s (.markReconnected x.1.id))
  | .mark p k => (step v cap s (.mark p k)).toList
  | .pClose k => (step v cap s (.pClose k)).toList
  | .pReset k => (step v cap s (.pReset k)).toList
  | .accept k => (step v cap s (.obsAccept k)).toList
  | .recv k id => (step v cap s (.obsRecv k id)).toList
  | .probe c q f n =>
    if s.isClosed = c ∧ s.sendQ.length = q ∧ optLen s.failQ = f ∧ s.conns.length = n then [s] else []

/-- internal (unobservable) actions -/
def Action.isTau : Action → Bool
  | .callBegin _ | .markReconnected _ | .callFail _ | .callRet _ | .pClose _ | .pReset _ | .mark _ _
  | .obsAccept _ | .obsRecv _ _ => false
  | _ => true

/-- the internal actions that may be enabled in `s` -/
def tauActions (s : State) : List Action :=
  (s.calls.map (fun x => [Action.callReconnect x.1.id, .callCheckClosed x.1.id, .callInstall x.1.id,
      .callEnq x.1.id])).flatten ++
  ((List.range s.conns.length).map (fun k =>
    [Action.rEof k, .rErr k, .rClose k, .rSignal k, .sTopDone k, .sTopGo k, .sTakeFail k, .sNoFail k, .sTakeQ k,
     .sTickClosed k, .sTickIdle k, .sTickCont k, .sIdleClose k, .sInnerFail k, .sInnerDone k,
     .sCheckOk k, .sCheckLost k, .sHandback k, .sWriteOk k, .sWriteLost k, .sWriteFail k,
     .sRequeue k, .sFailClose k])).flatten

def tauSucc (v : Variant) (cap : Nat) (s : State) : List State :=
  (tauActions s).filterMap (step v cap s)

def insertNew (seen : List State) (s : State) : List State :=
  if seen.contains s then seen else s :: seen

/-- breadth-first closure under internal steps, at most `fuel` rounds -/
def closure (v : Variant) (cap : Nat) : Nat → List State → List State → List State
  | 0, _, seen => seen
  | _ + 1, [], seen => seen
  | fuel + 1, frontier, seen =>
    let next := frontier.foldl (fun acc s => (tauSucc v cap s).foldl insertNew acc) []
    let fresh := next.filter (fun s => !seen.contains s)
    closure v cap fuel fresh (fresh ++ seen)

/-- every goroutine passes a yield point (visible) after at most a handful of internal steps, so the
depth of the closure is bounded by a small multiple of the number of goroutines -/
def closureOf (v : Variant) (cap : Nat) (ss : List State) : List State :=
  let fuel := ss.foldl (fun m s => max m (8 * s.conns.length + 2 * s.calls.length)) 0 + 8
  closure v cap fuel ss ss

/-- `.error (i, 0)`: no state of the current set can perform event `i`; `.error (i, n)`: the state
set grew to `n > limit` (nothing decided); otherwise the set after the whole history and the size
of the largest set met -/
def admitsFrom (v : Variant) (cap : Nat) (limit : Nat) :
    List State → List Event → Nat → Nat → Except (Nat × Nat) (List State × Nat)
  | ss, [], _, mx => .ok (ss, mx)
  | ss, ev :: rest, i, mx =>
    let cl := closureOf v cap ss
    if cl.length > limit then .error (i, cl.length)
    else
      let nxt := cl.foldl (fun acc s => (fire v cap s ev).foldl insertNew acc) []
      if nxt.isEmpty then .error (i, 0)
      else admitsFrom v cap limit nxt rest (i + 1) (max mx cl.length)

/-- Does the LTS have a run whose visible history is exactly `h`, for a client whose idle close is
possible (`idle`) or out of reach? (`false` also when the search exceeded `limit` states: nothing
decided.) -/
def admits (v : Variant) (cap : Nat) (idle : Bool) (h : List Event) (limit : Nat := 100000) : Bool :=
  match admitsFrom v cap limit [if idle then init else initNoIdle] h 0 1 with
  | .ok _ => true
  | .error _ => false

end Tars.ClientConn
