/-
  Model of the size-rolling file writer of `tars/util/rogger/logwriter.go` (property C20, the
  writer end: what `flushLog` hands to `v.writer.Write` must end up in the files).
  Core Lean only (no Mathlib) so that the driver links.

  Go code mirrored, statement by statement:

  * `reOpenFile(path, &w.currFile, &w.openTime)`                         → `reOpen`
        *openTime = gtime.CurrUnixTime
        if *currFile != nil { (*currFile).Close() }
        of, err := os.OpenFile(path, O_WRONLY|O_APPEND|O_CREATE, 0666)
        if err == nil { *currFile = of } else { fmt.Println(...) }       -- keeps the closed handle
  * `(*RollFileWriter).Write(v)`                                          → `write`
        if w.currFile == nil || w.openTime+10 < gtime.CurrUnixTime { reOpenFile(<name>.log) }
        if w.currFile == nil { return }
        n, _ := w.currFile.Write(v)            -- a closed handle: error ignored, n = 0
        w.currSize += int64(n)
        if w.currSize >= w.size {
          w.currFile.Close(); w.currSize = 0
          for i := w.num - 1; i >= 1; i-- {    -- <name>(i-1).log → <name>i.log  (index 0 = <name>.log)
            if exists(p1) { os.Rename(p1, p2) }                           → `rotateFrom`
          }
          reOpenFile(<name>.log)               -- present iff `reopen` (extractor: loggerRollReopenAfterRotate)
        }

  The file system is a tiny literal one: inodes with append-only content, a directory from roll
  index to inode, handles that stay bound to their inode across renames (`opened i`) and refuse
  writes once closed (`closed i`). `os.Rename` over an existing name unlinks the old target (its
  content is recorded in the history field `dropped`). The environment of one `Write` is the value
  of `gtime.CurrUnixTime` it sees and whether `os.OpenFile` succeeds (`Env`); nothing is assumed
  about either in the model, the theorems say where they need `openOk`.

  A write is an element of an arbitrary type `β` with a length `len : β → Nat` (for bytes:
  `β = List Byte`, `len = List.length`, and "concatenation" is `List.flatten` of what is stated here).
-/
import TarsModel.Generated.Consts

namespace Tars.LogWriter

/-- Go's `w.currFile : *os.File` -/
inductive Handle
  | nil
  | opened (ino : Nat)
  | closed (ino : Nat)
deriving DecidableEq, Repr

/-- `(*os.File).Close()`; closing twice is an ignored error -/
def Handle.close : Handle → Handle
  | .opened i => .closed i
  | h => h

/-- what one `Write` call sees of the outside world -/
structure Env where
  /-- `gtime.CurrUnixTime` -/
  now : Nat
  /-- `os.OpenFile` succeeds -/
  openOk : Bool
deriving DecidableEq, Repr

def upd {α : Type} (f : Nat → α) (i : Nat) (v : α) : Nat → α := fun j => if j = i then v else f j

structure State (β : Type) where
  /-- content of every inode ever created: the writes appended to it -/
  content : Nat → List β
  /-- number of inodes created -/
  nextIno : Nat
  /-- directory: roll index (0 = `<name>.log`, i = `<name>i.log`) → inode -/
  names : Nat → Option Nat
  /-- `w.currFile` -/
  cur : Handle
  /-- `w.currSize` -/
  currSize : Nat
  /-- `w.openTime` -/
  openTime : Nat
  /-- history: content of files unlinked by a rename over them, oldest first -/
  dropped : List β
  /-- history: the arguments of all `Write` calls, in order -/
  written : List β

/-- `NewRollFileWriter` on an empty directory -/
def init {β : Type} : State β :=
  { content := fun _ => [], nextIno := 0, names := fun _ => none, cur := .nil, currSize := 0,
    openTime := 0, dropped := [], written := [] }

/-- `reOpenFile(<name>.log, &w.currFile, &w.openTime)` -/
def reOpen {β : Type} (s : State β) (env : Env) : State β :=
  let s1 := { s with openTime := env.now, cur := s.cur.close }
  if env.openOk then
    match s1.names 0 with
    | some i => { s1 with cur := .opened i }
    | none => { s1 with nextIno := s1.nextIno + 1, names := upd s1.names 0 (some s1.nextIno),
                         cur := .opened s1.nextIno }
  else s1

/-- content of the file a directory entry points to -/
def fileOf {β : Type} (s : State β) : Option Nat → List β
  | some o => s.content o
  | none => []

/-- one iteration of the rotation loop for `i = j + 1`: `<name>j.log → <name>(j+1).log` if it exists -/
def renameStep {β : Type} (s : State β) (j : Nat) : State β :=
  match s.names j with
  | none => s
  | some src =>
    { s with names := upd (upd s.names (j + 1) (some src)) j none,
             dropped := s.dropped ++ fileOf s (s.names (j + 1)) }

/-- `for i := m; i >= 1; i-- { … }` -/
def rotateFrom {β : Type} : Nat → State β → State β
  | 0, s => s
  | j + 1, s => rotateFrom j (renameStep s j)

/-- `(*RollFileWriter).Write(v)` from `if w.currFile == nil { return }` on -/
def writeTail {β : Type} (len : β → Nat) (reopen : Bool) (num size : Nat) (s1 : State β) (env : Env)
    (v : β) : State β :=
  match s1.cur with
  | .nil => s1
  | .closed _ =>
    -- `n, _ := w.currFile.Write(v)` on a closed file: n = 0, the error is dropped
    if s1.currSize ≥ size then
      let s4 := rotateFrom (num - 1) { s1 with cur := s1.cur.close, currSize := 0 }
      if reopen then reOpen s4 env else s4
    else s1
  | .opened i =>
    let s2 : State β := { s1 with content := upd s1.content i (s1.content i ++ [v]),
                                  currSize := s1.currSize + len v }
    if s2.currSize ≥ size then
      let s4 := rotateFrom (num - 1) { s2 with cur := s2.cur.close, currSize := 0 }
      if reopen then reOpen s4 env else s4
    else s2

/-- `(*RollFileWriter).Write(v)`; `reopen` = the rotation branch ends with `reOpenFile` -/
def write {β : Type} (len : β → Nat) (reopen : Bool) (num size : Nat) (s : State β) (env : Env)
    (v : β) : State β :=
  let s0 := { s with written := s.written ++ [v] }
  let s1 := if s0.cur = .nil ∨ s0.openTime + 10 < env.now then reOpen s0 env else s0
  writeTail len reopen num size s1 env v

/-- a sequence of `Write` calls, each with its environment -/
def writes {β : Type} (len : β → Nat) (reopen : Bool) (num size : Nat) :
    State β → List (Env × β) → State β
  | s, [] => s
  | s, (env, v) :: rest => writes len reopen num size (write len reopen num size s env v) rest

/-- content of the file at a roll index -/
def fileAt {β : Type} (s : State β) (i : Nat) : List β := fileOf s (s.names i)

/-- the files read back in roll order, oldest first: `<name>(k-1).log … <name>1.log <name>.log` -/
def concatRoll {β : Type} (s : State β) : Nat → List β
  | 0 => []
  | k + 1 => fileAt s k ++ concatRoll s k

/-- number of directory slots the writer uses -/
def slots (num : Nat) : Nat := max num 1

/-- what the extractor saw in the tree: does the rotation branch of `RollFileWriter.Write` end with
a reopen of `<name>.log`? -/
def treeReopens : Bool := decide (Tars.Consts.loggerRollReopenAfterRotate = 1)

end Tars.LogWriter
