/-
  Client and server filters (C01): how `ServantProxy.TarsInvoke` (tars/servant.go) and
  `Protocol.Invoke` (tars/tarsprotocol.go) select and compose the registered filters around the
  actual call, and `filters.getMiddlewareClientFilter` / `getMiddlewareServerFilter`
  (tars/filter.go).  Core Lean only.

  A Go `ClientFilter` is `func(ctx, msg, invoke Invoke, timeout) error`, a `ServerFilter` is
  `func(ctx, d Dispatch, f, req, resp, withContext) error`: both receive the thing to call
  (`invoke` / `d`) and may call it any number of times, look at and change the mutable message
  (`msg` / `resp`), and return an error of their own.  Here:

  * `Comp ε σ α` — a computation over the mutable state `σ` (`msg.Resp` on the client,
    `rspPackage` on the server) that records events `ε` (writer style) and returns `α` (the Go
    `error`): `σ → List ε × α × σ`;
  * `Flt` — a filter: a function from the computation it is handed to a computation;
  * `Mw` — a middleware: `func(next Filter) Filter`.
-/
namespace Tars.Filter

/-- as-found code or the code after the `fix:` commit (DESIGN §3.5) -/
inductive Variant where
  | asFound | repaired
deriving DecidableEq, Repr, Inhabited

/-- state in, (events recorded, returned value, state out) -/
abbrev Comp (ε σ α : Type) := σ → List ε × α × σ

/-- `ClientFilter` / `ServerFilter`: receives `invoke` / `d` -/
abbrev Flt (ε σ α : Type) := Comp ε σ α → Comp ε σ α

/-- `ClientFilterMiddleware` / `ServerFilterMiddleware`: `func(next Filter) Filter` -/
abbrev Mw (ε σ α : Type) := Flt ε σ α → Flt ε σ α

/-- the registration state of one side (`filters` in tars/filter.go: `cf, cfms, preCfs, postCfs`
    resp. `sf, sfms, preSfs, postSfs`) -/
structure Reg (ε σ α : Type) where
  single : Option (Flt ε σ α) := none     -- `RegisterClientFilter` / `RegisterServerFilter`
  mws    : List (Mw ε σ α) := []          -- `UseClientFilterMiddleware` / `UseServerFilterMiddleware`
  pre    : List (Flt ε σ α) := []         -- `RegisterPre…Filter`, in registration order
  post   : List (Flt ε σ α) := []         -- `RegisterPost…Filter`, in registration order

variable {ε σ α : Type}

/-- the innermost filter of `getMiddlewareClientFilter` / `getMiddlewareServerFilter`:
    `return invoke(ctx, msg, timeout)` / `return d(ctx, f, req, resp, withContext)` -/
def baseFilter : Flt ε σ α := fun call => call

/-- `getMiddlewareClientFilter` / `getMiddlewareServerFilter`:
    ```go
    if len(f.cfms) <= 0 { return nil }
    cf := base
    for i := len(f.cfms) - 1; i >= 0; i-- { cf = f.cfms[i](cf) }
    return cf
    ``` -/
def getMiddlewareFilter (mws : List (Mw ε σ α)) : Option (Flt ε σ α) :=
  if mws.length ≤ 0 then none else some (mws.foldr (fun m cf => m cf) baseFilter)

/-- `for _, v := range fs { err = v(ctx, …, call, …) }`: every filter is handed `call`; the value
    of `err` before the loop is `err0`, the result is its value after the loop -/
def runEach (fs : List (Flt ε σ α)) (call : Comp ε σ α) (err0 : α) : Comp ε σ α := fun s =>
  match fs with
  | [] => ([], err0, s)
  | v :: vs =>
    match v call s with
    | (t1, e1, s1) =>
      match runEach vs call e1 s1 with
      | (t2, e2, s2) => (t1 ++ t2, e2, s2)

/-- The filter part of `ServantProxy.TarsInvoke` (`nil` is Go's nil error, `doInvoke` is
    `s.doInvoke`):
    ```go
    var err error
    if app.allFilters.cf != nil {
        err = app.allFilters.cf(ctx, msg, s.doInvoke, timeout)
    } else if cf := app.getMiddlewareClientFilter(); cf != nil {
        err = cf(ctx, msg, s.doInvoke, timeout)
    } else {
        for i, v := range app.allFilters.preCfs { err = v(ctx, msg, s.doInvoke, timeout); … }
        err = s.doInvoke(ctx, msg, timeout)
        for i, v := range app.allFilters.postCfs { filterErr := v(ctx, msg, s.doInvoke, timeout); … }
    }
    ```
    (the value a pre filter leaves in `err` is overwritten by the call's; post filters have a
    variable of their own) -/
def runClient (nil : α) (reg : Reg ε σ α) (doInvoke : Comp ε σ α) : Comp ε σ α := fun s =>
  match reg.single with
  | some cf => cf doInvoke s
  | none =>
    match getMiddlewareFilter reg.mws with
    | some cf => cf doInvoke s
    | none =>
      match runEach reg.pre doInvoke nil s with
      | (t1, _, s1) =>
        match doInvoke s1 with
        | (t2, err, s2) =>
          match runEach reg.post doInvoke nil s2 with
          | (t3, _, s3) => (t1 ++ t2 ++ t3, err, s3)

/-- The filter part of `Protocol.Invoke` (`dispatch` is `s.dispatcher.Dispatch`).  Same selection
    as on the client.  `asFound`: the post-filter loop is `err = v(…)` — it assigns to the very
    variable that holds the dispatch result (D3); `repaired` (commit "server post filters no longer
    overwrite the dispatch error"): `filterErr := v(…)`. -/
def runServer (variant : Variant) (nil : α) (reg : Reg ε σ α) (dispatch : Comp ε σ α) : Comp ε σ α :=
  fun s =>
  match reg.single with
  | some sf => sf dispatch s
  | none =>
    match getMiddlewareFilter reg.mws with
    | some sf => sf dispatch s
    | none =>
      match runEach reg.pre dispatch nil s with
      | (t1, _, s1) =>
        match dispatch s1 with
        | (t2, err, s2) =>
          match variant with
          | .asFound =>
            match runEach reg.post dispatch err s2 with
            | (t3, err', s3) => (t1 ++ t2 ++ t3, err', s3)
          | .repaired =>
            match runEach reg.post dispatch nil s2 with
            | (t3, _, s3) => (t1 ++ t2 ++ t3, err, s3)

/-! ## Registration (tars/filter.go): the state a call sees is the fold of the registrations made
    before it -/

/-- one registration call -/
inductive RegOp (ε σ α : Type) where
  /-- `registerClientFilter` / `registerServerFilter`: `f.cf = cf` (one slot: replaces) -/
  | single (f : Flt ε σ α)
  /-- `registerPreClientFilter` / `registerPreServerFilter`: `f.preCfs = append(f.preCfs, cf)` -/
  | pre (f : Flt ε σ α)
  /-- `registerPostClientFilter` / `registerPostServerFilter`: `f.postCfs = append(f.postCfs, cf)` -/
  | post (f : Flt ε σ α)
  /-- `UseClientFilterMiddleware(cfm...)` / `UseServerFilterMiddleware(sfm...)`:
      `f.cfms = append(f.cfms, cfm...)` -/
  | useMw (ms : List (Mw ε σ α))

/-- the state after one registration -/
def Reg.register (reg : Reg ε σ α) : RegOp ε σ α → Reg ε σ α
  | .single f => { reg with single := some f }
  | .pre f => { reg with pre := reg.pre ++ [f] }
  | .post f => { reg with post := reg.post ++ [f] }
  | .useMw ms => { reg with mws := reg.mws ++ ms }

/-- the state after a history of registrations, in the order they were made -/
def Reg.after (reg : Reg ε σ α) (ops : List (RegOp ε σ α)) : Reg ε σ α := ops.foldl Reg.register reg

/-- the middlewares / pre / post / single filters a history registers, in order -/
def RegOp.mwsOf : RegOp ε σ α → List (Mw ε σ α)
  | .useMw ms => ms
  | _ => []
def RegOp.preOf : RegOp ε σ α → List (Flt ε σ α)
  | .pre f => [f]
  | _ => []
def RegOp.postOf : RegOp ε σ α → List (Flt ε σ α)
  | .post f => [f]
  | _ => []
def RegOp.singleOf : RegOp ε σ α → List (Flt ε σ α)
  | .single f => [f]
  | _ => []

/-- the chain `getMiddleware…Filter` composes from a list of middlewares (first registered
    outermost) -/
def chainOf (mws : List (Mw ε σ α)) : Flt ε σ α := mws.foldr (fun m cf => m cf) baseFilter

/-! ## Recording pass-through filters (what the harness registers; used by the driver) -/

/-- a legacy single filter that records `b`, calls what it was handed exactly once, records `a`
    and returns the call's result -/
def recFlt (b a : List ε) : Flt ε σ α := fun call s =>
  match call s with
  | (t, e, s') => (b ++ t ++ a, e, s')

/-- a middleware doing the same around `next` -/
def recMw (b a : List ε) : Mw ε σ α := fun next call => recFlt b a (next call)

/-- a pre/post filter that records `b`, does not invoke, returns nil -/
def recSide (nil : α) (b : List ε) : Flt ε σ α := fun _ s => (b, nil, s)

/-- the registration the harness uses for `cfilters`/`sfilters`: an optional single filter,
    `nmw` middlewares, `npre` pre and `npost` post filters, all recording and passing through -/
def recReg (nil : α) (single : Bool) (nmw npre npost : Nat) : Reg String σ α where
  single := if single then some (recFlt ["single.before"] ["single.after"]) else none
  mws := (List.range nmw).map fun i => recMw [s!"mw{i}.before"] [s!"mw{i}.after"]
  pre := (List.range npre).map fun i => recSide nil [s!"pre{i}"]
  post := (List.range npost).map fun i => recSide nil [s!"post{i}"]

end Tars.Filter
