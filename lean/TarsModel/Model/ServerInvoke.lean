/-
  Model of the server's answer to ONE decoded request (property C10), core Lean only.

  Mirrored Go functions (each fingerprinted by /verif/extract/c10.go):

    tars/tarsprotocol.go            Protocol.Invoke, Protocol.rsp2Byte, Protocol.req2Byte,
                                    Protocol.InvokeTimeout, Protocol.GetCloseMsg
    tars/transport/tarsserver.go    TarsServer.invoke            (the HandleTimeout race)
    tars/transport/tcphandler.go    tcpHandler.handleConn        (write / no write)
    tars/transport/udphandler.go    udpHandler.handleUDPAddr     (write / no write)
    tars/errors.go                  Error, GetErrorCode          (error → IRet / SResultDesc)
    tars/util/current               Get/SetPacketTypeFromContext (the packet type travels from
                                    Invoke to the handler through the `Current` in the context)

  Level of the model: the *decoded* request (the members of `requestf.RequestPacket`) and the
  *struct that is encoded* as the answer (`requestf.ResponsePacket`, or `requestf.RequestPacket` for
  TUP) — not bytes.  The byte level (codec, struct encoders, the 4-byte length frame) is the subject
  of C02/C03/C07; the harness decodes the real answers with the real `ReadFrom`.

  What is abstracted, and how:
  * the application has no server filter registered (`allFilters.sf == nil`, no middleware, no
    pre/post filters): `Invoke` calls `s.dispatcher.Dispatch` directly (filters are C01's subject);
  * the dispatcher (generated code + implementation) is a parameter `Disp`: what it leaves in
    `*tarsResp`, which error it returns, and how long it runs (model time, ms);
  * time: every statement except `Dispatch` takes no model time.  `Invoke` therefore reaches its
    `select` at once; the context derived with `context.WithTimeout(ctx, ITimeout - sub)` is done
    there iff `ITimeout > 0` and `ITimeout - sub ≤ 0` (`sub` = ms between receipt of the packet,
    `recvPkgTs`, and `Invoke`: the time spent queued);
  * `TarsServer.invoke` with a handle timeout `T`: `Invoke` runs in its own goroutine and finishes at
    model time `dur` (0 when `Dispatch` is not called); the handler goroutine wakes at `min dur T`.
    `dur < T`: `Invoke`'s answer is used.  `dur > T`: `rsp` is still empty, `InvokeTimeout` answers,
    and the packet type has not been stored in the context yet.  `dur = T`: both `select`/channel
    events are enabled, every interleaving is admissible (`Branch`).  The answer of the server is
    therefore a *set* (list) of admissible outcomes;
  * integers are `Int` (Go: int16 / int8 / int32); the model never computes with them except
    `ITimeout - sub`, so no wrap-around is involved; `[]int8` is `List Int`; Go maps are association
    lists read through `lookup` and written through `setKey`.

  `Variant`: the tree as found at round 0 (`asFound`) and as repaired by commits 17261bf / a260ec1 (`repaired`),
  one flag per repaired function so that each patch is modelled on exactly the definition it changes.
-/
import TarsModel.Generated.Consts

namespace Tars.ServerInvoke

abbrev SMap := List (String × String)
abbrev Buf := List Int

/-- `requestf.RequestPacket` -/
structure RequestPacket where
  iVersion : Int
  cPacketType : Int
  iMessageType : Int
  iRequestId : Int
  sServantName : String
  sFuncName : String
  sBuffer : Buf
  iTimeout : Int
  context : SMap
  status : SMap
  deriving DecidableEq, Repr, Inhabited

/-- `requestf.ResponsePacket` -/
structure ResponsePacket where
  iVersion : Int
  cPacketType : Int
  iRequestId : Int
  iMessageType : Int
  iRet : Int
  sBuffer : Buf
  status : SMap
  sResultDesc : String
  context : SMap
  deriving DecidableEq, Repr, Inhabited

/-- Go zero values: `requestf.ResponsePacket{}` / `requestf.RequestPacket{}` -/
def ResponsePacket.zero : ResponsePacket := ⟨0, 0, 0, 0, 0, [], [], "", []⟩
def RequestPacket.zero : RequestPacket := ⟨0, 0, 0, 0, "", "", [], 0, [], []⟩

/-! ### constants (regenerated from basef/BaseF.go and the literals of tarsprotocol.go) -/

def TARSVERSION : Int := Consts.srvTARSVERSION
def TUPVERSION : Int := Consts.srvTUPVERSION
def JSONVERSION : Int := Consts.srvJSONVERSION
def TARSNORMAL : Int := Consts.srvTARSNORMAL
def TARSONEWAY : Int := Consts.srvTARSONEWAY
def SUCCESS : Int := Consts.srvTARSSERVERSUCCESS
def QUEUETIMEOUT : Int := Consts.srvTARSSERVERQUEUETIMEOUT
/-- `rspPackage.IRet = 1` for an error that is not a `*tars.Error` -/
def plainErrRet : Int := Consts.srvPlainErrRet
/-- `rspPackage.IRet = 1` in `InvokeTimeout` -/
def invokeTimeoutRet : Int := Consts.srvInvokeTimeoutRet
def pingName : String := "tars_ping"
def timeoutDesc : String := "server invoke timeout"
def reconnectMsg : String := "_reconnect_"
def statusResultCode : String := "STATUS_RESULT_CODE"
def statusResultDesc : String := "STATUS_RESULT_DESC"

/-! ### variants -/

structure Variant where
  /-- `InvokeTimeout` copies `IVersion`/`CPacketType` from the request and returns nothing for a
      one-way request (commit 17261bf, tarsprotocol.go part) -/
  timeoutIdentity : Bool
  /-- the transport handlers do not write an empty response (same patch, transport part) -/
  skipEmpty : Bool
  /-- `req2Byte` carries a non-zero `IRet` and `SResultDesc` in the status map
      (commit a260ec1) -/
  tupStatus : Bool
  deriving DecidableEq, Repr

def Variant.asFound : Variant := ⟨false, false, false⟩
def Variant.repaired : Variant := ⟨true, true, true⟩
/-- the variant the regenerated constants say the current tree is -/
def treeVariant : Variant :=
  ⟨Consts.srvFixTimeoutIdentity = 1, Consts.srvFixSkipEmpty = 1, Consts.srvFixTupStatus = 1⟩

/-! ### Go maps -/

def lookup (k : String) : SMap → Option String
  | [] => none
  | (k', v) :: m => if k' = k then some v else lookup k m

/-- `m[k] = v` -/
def setKey (k v : String) (m : SMap) : SMap := (k, v) :: m.filter (fun e => !decide (e.1 = k))

/-! ### errors (tars/errors.go) -/

/-- what `Dispatch` may return besides nil: `errors.New(msg)` / `fmt.Errorf` (any error that is not
    a `*tars.Error`), or `&tars.Error{Code, Message}` -/
inductive Err where
  | plain (msg : String)
  | tars (code : Int) (msg : String)
  deriving DecidableEq, Repr

/-- `err.Error()` -/
def Err.msg : Err → String
  | .plain m => m
  | .tars _ m => m

/-- `rspPackage.IRet = 1; if tarsErr, ok := err.(*Error); ok && tarsErr.Code != 0 { rspPackage.IRet = tarsErr.Code }`
    — the `&& tarsErr.Code != 0` since the D19 fix (code 0 means success on the wire, an error carrying it
    keeps the generic code); `Consts.srvErrCodeZeroGuard` says whether the tree has that guard. -/
def Err.ret : Err → Int
  | .plain _ => plainErrRet
  | .tars c _ => if Consts.srvErrCodeZeroGuard = 1 ∧ c = 0 then plainErrRet else c

/-! ### the dispatcher -/

/-- state after `s.dispatcher.Dispatch(ctx, imp, &reqPackage, &rspPackage, withContext)` returned -/
structure DispOut where
  rsp : ResponsePacket
  err : Option Err

/-- the dispatcher + implementation: effect on `rspPackage`, returned error, running time (model ms) -/
structure Disp where
  run : RequestPacket → ResponsePacket → DispOut
  dur : Nat

/-- what tars2go emits (`genIFDispatch`) on the success path:
    `*tarsResp = requestf.ResponsePacket{IVersion: tarsReq.IVersion, CPacketType: 0, IRequestId: tarsReq.IRequestId, IMessageType: 0, IRet: 0, SBuffer: …, Status: …, SResultDesc: "", Context: …}; return nil` -/
def genOk (buf : Buf) (status context : SMap) : RequestPacket → ResponsePacket → DispOut :=
  fun req _ => ⟨⟨req.iVersion, 0, req.iRequestId, 0, 0, buf, status, "", context⟩, none⟩

/-- what tars2go emits on every error path (`return err` before `*tarsResp` is assigned) -/
def genErr (e : Err) : RequestPacket → ResponsePacket → DispOut :=
  fun _ rsp => ⟨rsp, some e⟩

/-! ### Protocol.Invoke -/

/-- `ctx.Done()` is ready at `Invoke`'s `select`:
    `if reqPackage.ITimeout > 0 { timeout := int64(ITimeout) - sub; ctx, cancel = context.WithTimeout(ctx, timeout ms) }`
    — a non-positive duration gives a context that is done at once; no other timer fires in zero
    model time. -/
def queueExpired (req : RequestPacket) (sub : Int) : Bool :=
  decide (req.iTimeout > (Consts.srvTimeoutPositiveBound : Int)) && decide (req.iTimeout - sub ≤ 0)

structure InvokeResult where
  /-- `rspPackage` as handed to `rsp2Byte` -/
  rsp : ResponsePacket
  /-- `Dispatch` was called -/
  invoked : Bool
  /-- value stored by `current.SetPacketTypeFromContext(ctx, rspPackage.CPacketType)` -/
  ctxType : Int
  /-- model time at which `Invoke` returns -/
  dur : Nat

/-- `rspPackage.IVersion = reqPackage.IVersion; rspPackage.IRequestId = reqPackage.IRequestId` on the
    zero value: what `Dispatch` receives as `tarsResp` -/
def preset (req : RequestPacket) : ResponsePacket :=
  { ResponsePacket.zero with iVersion := req.iVersion, iRequestId := req.iRequestId }

/-- `Protocol.Invoke` from `rspPackage.IVersion = reqPackage.IVersion` to the call of `rsp2Byte`
    (decoding is done by the caller of the model; dyeing/trace/stat reporting do not touch the answer) -/
def invoke (req : RequestPacket) (sub : Int) (d : Disp) : InvokeResult :=
  -- timeout or tars_ping or error
  let rsp0 : ResponsePacket := preset req
  let r : ResponsePacket × Bool :=
    if queueExpired req sub then
      -- case <-ctx.Done():
      ({ rsp0 with iRet := QUEUETIMEOUT, sResultDesc := timeoutDesc }, false)
    else if req.sFuncName ≠ pingName then
      let o := d.run req rsp0
      match o.err with
      | none => (o.rsp, true)
      | some e => ({ o.rsp with iRet := e.ret, sResultDesc := e.msg }, true)
    else (rsp0, false)
  -- return packet type
  let rsp2 : ResponsePacket := { r.1 with cPacketType := req.cPacketType }
  ⟨rsp2, r.2, rsp2.cPacketType, if r.2 then d.dur else 0⟩

/-! ### rsp2Byte / req2Byte -/

/-- which struct is encoded (`WriteTo`) behind the 4-byte length -/
inductive Wire where
  | rsp (p : ResponsePacket)
  | req (p : RequestPacket)
  deriving DecidableEq, Repr

/-- `Protocol.req2Byte`: the `RequestPacket` a TUP peer receives as the answer -/
def req2Byte (v : Variant) (rsp : ResponsePacket) : RequestPacket :=
  { RequestPacket.zero with
    iVersion := rsp.iVersion
    iRequestId := rsp.iRequestId
    iMessageType := rsp.iMessageType
    cPacketType := rsp.cPacketType
    context := rsp.context
    status :=
      if v.tupStatus && decide (rsp.iRet ≠ 0) then
        setKey statusResultDesc rsp.sResultDesc (setKey statusResultCode (toString rsp.iRet) rsp.status)
      else rsp.status
    sBuffer := rsp.sBuffer }

/-- `Protocol.rsp2Byte` -/
def rsp2Byte (v : Variant) (rsp : ResponsePacket) : Wire :=
  if rsp.iVersion = TUPVERSION then .req (req2Byte v rsp) else .rsp rsp

/-- `Protocol.InvokeTimeout(pkg)`; `none` = the nil slice -/
def invokeTimeout (v : Variant) (req : RequestPacket) : Option Wire :=
  if v.timeoutIdentity then
    if req.cPacketType = TARSONEWAY then none
    else some (rsp2Byte v { ResponsePacket.zero with
      iVersion := req.iVersion, cPacketType := req.cPacketType, iRequestId := req.iRequestId,
      iRet := invokeTimeoutRet, sResultDesc := timeoutDesc })
  else
    some (rsp2Byte v { ResponsePacket.zero with
      iRequestId := req.iRequestId, iRet := invokeTimeoutRet, sResultDesc := timeoutDesc })

/-- `Protocol.GetCloseMsg` (not an answer to a request; sent on shutdown, see C12) -/
def getCloseMsg (v : Variant) : Wire :=
  rsp2Byte v { ResponsePacket.zero with iVersion := TARSVERSION, iRequestId := 0, sResultDesc := reconnectMsg }

/-! ### TarsServer.invoke and the transport handlers -/

/-- server configuration: `MaxInvoke` (worker pool size, 0 = goroutine per request),
    `HandleTimeout` (ms, 0 = none), transport -/
structure Config where
  pool : Nat
  handleTimeout : Nat
  udp : Bool
  deriving DecidableEq, Repr

/-- how the race in `TarsServer.invoke` went -/
inductive Branch where
  /-- `rsp` was set by `Invoke` when the handler looked at it (no handle timeout, or `Invoke` first) -/
  | invokeWon
  /-- `len(rsp) == 0` held: `InvokeTimeout` answers; `ctxSet` = `Invoke` had already stored the packet
      type in the context when the handler read it -/
  | timeoutWon (ctxSet : Bool)
  deriving DecidableEq, Repr

/-- `TarsServer.invoke`: the admissible branches, `dur` = model time at which `Invoke` returns -/
def branches (cfg : Config) (dur : Nat) : List Branch :=
  if cfg.handleTimeout = Consts.srvNoHandleTimeout then [.invokeWon]
  else if dur < cfg.handleTimeout then [.invokeWon]
  else if dur = cfg.handleTimeout then [.invokeWon, .timeoutWon true, .timeoutWon false]
  else [.timeoutWon false]

/-- what one request causes -/
structure Outcome where
  /-- the writes on the connection / socket, `none` = a write of zero bytes (an empty datagram on UDP) -/
  sent : List (Option Wire)
  /-- `Dispatch` was called for this request -/
  invoked : Bool
  deriving DecidableEq, Repr

/-- the handler closure of `tcpHandler.handleConn` / `udpHandler.handleUDPAddr` after
    `rsp := t.server.invoke(ctx, pkg)`: `ctxType` is what `GetPacketTypeFromContext` returns
    (0 when nothing was stored) -/
def handlerWrite (v : Variant) (rsp : Option Wire) (ctxType : Int) : List (Option Wire) :=
  if ctxType = TARSONEWAY then []
  else if v.skipEmpty && rsp.isNone then []
  else [rsp]

/-- one branch of the race, followed by the handler -/
def outcomeOf (v : Variant) (req : RequestPacket) (r : InvokeResult) : Branch → Outcome
  | .invokeWon => ⟨handlerWrite v (some (rsp2Byte v r.rsp)) r.ctxType, r.invoked⟩
  | .timeoutWon ctxSet => ⟨handlerWrite v (invokeTimeout v req) (if ctxSet then r.ctxType else 0), r.invoked⟩

/-- the server's answer to one well-decoded request: all admissible outcomes -/
def serveOne (v : Variant) (cfg : Config) (req : RequestPacket) (sub : Int) (d : Disp) : List Outcome :=
  let r := invoke req sub d
  (branches cfg r.dur).map (outcomeOf v req r)

/-! ### observations on what was sent -/

def Wire.id : Wire → Int
  | .rsp p => p.iRequestId
  | .req p => p.iRequestId
def Wire.version : Wire → Int
  | .rsp p => p.iVersion
  | .req p => p.iVersion
def Wire.packetType : Wire → Int
  | .rsp p => p.cPacketType
  | .req p => p.cPacketType
def Wire.buffer : Wire → Buf
  | .rsp p => p.sBuffer
  | .req p => p.sBuffer

/-- the answer carries return code `code` with description `desc`: `iRet`/`sResultDesc` of a
    `ResponsePacket`; for the TUP encoding (a `RequestPacket`, which has no such members) the status
    map entries a TUP peer reads, absent for success -/
def Wire.Carries (w : Wire) (code : Int) (desc : String) : Prop :=
  match w with
  | .rsp p => p.iRet = code ∧ p.sResultDesc = desc
  | .req p =>
    if code = 0 then lookup statusResultCode p.status = none
    else lookup statusResultCode p.status = some (toString code) ∧ lookup statusResultDesc p.status = some desc

/-- packets that reach the peer (zero-byte writes dropped) -/
def Outcome.packets (o : Outcome) : List Wire := o.sent.filterMap id

/-! ### many requests (pipelined on one or many connections) -/

/-- one request with its environment -/
structure Job where
  req : RequestPacket
  sub : Int
  disp : Disp

/-- an admissible run of the server on a batch: every request is handled by its own handler
    invocation (pool worker or goroutine), independently of the others -/
inductive Run (v : Variant) (cfg : Config) : List Job → List Outcome → Prop where
  | nil : Run v cfg [] []
  | cons {j js o os} : o ∈ serveOne v cfg j.req j.sub j.disp → Run v cfg js os → Run v cfg (j :: js) (o :: os)

/-- everything written during a run (in request order; the real order is any permutation) -/
def written (os : List Outcome) : List Wire := os.flatMap Outcome.packets

/-! ### the payload of a TUP answer as the emitted dispatcher builds it (gen_go.go, genSwitchCase)

  The TUP branch of every `case "<func>":` tars2go emits shares ONE `codec.Buffer` (`buf`):

      <write funRet at tag 0>                       (only for a function with a return value)
      rspTup.PutBuffer("", buf.ToBytes()); rspTup.PutBuffer("tars_ret", buf.ToBytes())
      for every out parameter v, in declaration order:
          buf.Reset()
          <write v at tag 0>
          rspTup.PutBuffer("<name of v>", buf.ToBytes())

  `ToBytes` hands out the current content, a write appends.  The value encodings are parameters
  (byte strings; the codec is C02/C03's subject). -/

/-- the out-parameter loop; `buf` = content of the shared buffer on entry, `first` = no out parameter
    was written yet; `resetFirst`/`resetLater` = whether `buf.Reset()` is emitted before the first / the
    later out parameters -/
def tupOutLoop (resetFirst resetLater : Bool) (buf : List Nat) (first : Bool) :
    List (String × List Nat) → List (String × List Nat)
  | [] => []
  | (name, enc) :: rest =>
    let reset := if first then resetFirst else resetLater
    let buf' := (if reset then [] else buf) ++ enc
    (name, buf') :: tupOutLoop resetFirst resetLater buf' false rest

/-- the attributes put into `rspTup`, in the order of the `PutBuffer` calls -/
def tupRspAttrs (resetFirst resetLater : Bool) (ret : Option (List Nat)) (outs : List (String × List Nat)) :
    List (String × List Nat) :=
  match ret with
  | none => tupOutLoop resetFirst resetLater [] true outs
  | some r => ("", r) :: ("tars_ret", r) :: tupOutLoop resetFirst resetLater r true outs

/-- the emitted code of the current tree (where `buf.Reset()` is emitted is re-read on every run) -/
def genTupRspAttrs : Option (List Nat) → List (String × List Nat) → List (String × List Nat) :=
  tupRspAttrs (Consts.srvGenTupResetFirstOut = 1) (Consts.srvGenTupResetLaterOut = 1)

/-- what the property demands: the return value under "" and "tars_ret", and one attribute per out
    parameter holding exactly that parameter's encoding -/
def tupRspSpec (ret : Option (List Nat)) (outs : List (String × List Nat)) : List (String × List Nat) :=
  (match ret with
   | none => []
   | some r => [("", r), ("tars_ret", r)]) ++ outs

end Tars.ServerInvoke
