/-
  Literal model of the iterative skip of tars/protocol/codec/codec.go (`Reader.skipFields`,
  `skipLen`, `skipSimpleList`, `skipField`, `SkipToStructEnd`) as it is since the repair
  "skipping nested fields no longer recurses once per nesting level".

  The recursive family `skipField / skipElems / skipToStructEnd` of `Wire.lean` (the code as it was)
  stays as the SPECIFICATION the rest of the model and all theorems are stated over;
  `Proofs/SkipIter*.lean` proves that the loop below computes exactly the same results
  (`skipFieldIter_eq`, `skipToStructEndIter_eq`), never runs out of fuel, and that its explicit
  stack never holds more entries than bytes have been consumed (+1): nesting costs heap
  proportional to the input, and no call stack.
-/
import TarsModel.Model.Wire

namespace Tars
open Consts

/-- `const skipPending int32 = -1`: marks an open struct on the skip stack; other entries (always
    positive when pushed) count the elements of an enclosing LIST/MAP still to be skipped. -/
abbrev skipPending : Int := skipPendingMarker

/-- `Reader.skipSimpleList`: body of a SimpleList whose head has been read (same statements as the
    SimpleList branch of the recursive `skipField`) -/
def skipSimpleListM : RM Unit := fun r =>
  match readHead r with
  | (.error e, r') =>
    -- Go tests `tyCur != BYTE` before `err`
    match r.data[r.pos]? with
    | none => (.error e, r')
    | some d => if d.val % 16 ≠ tyBYTE then (.error .slhead, r') else (.error e, r')
  | (.ok (tyCur, _), r1) =>
    if tyCur ≠ tyBYTE then (.error .slhead, r1)
    else
      match readLen r1 with
      | (.error e, r') => (.error e, r')
      | (.ok len, r2) => skip len r2

/-- the `switch ty` of `skipFields`: consumes the field's own bytes (for containers only the
    count), may push one stack entry; returns the error (if any) and the new stack (head = top) -/
def skipOne (ty : Nat) (stack : List Int) : Reader → (Option Err × List Int) × Reader := fun r =>
  if ty = tyBYTE then ((none, stack), (skip 1 r).2)
  else if ty = tySHORT then ((none, stack), (skip 2 r).2)
  else if ty = tyINT then ((none, stack), (skip 4 r).2)
  else if ty = tyLONG then ((none, stack), (skip 8 r).2)
  else if ty = tyFLOAT then ((none, stack), (skip 4 r).2)
  else if ty = tyDOUBLE then ((none, stack), (skip 8 r).2)
  else if ty = tySTRING1 then
    match readByte r with
    | (.error e, r') => ((some e, stack), r')
    | (.ok d, r1) => ((none, stack), (skip (d.val : Int) r1).2)
  else if ty = tySTRING4 then
    match bReadU 4 r with
    | (.error e, r') => ((some e, stack), r')
    | (.ok l, r1) => ((none, stack), (skip (l : Int) r1).2)
  else if ty = tyMAP then
    match readLen r with
    | (.error e, r') => ((some e, stack), r')
    | (.ok len, r1) =>
      let n := wrapS 32 (len * 2)
      ((none, if n > 0 then n :: stack else stack), r1)
  else if ty = tyLIST then
    match readLen r with
    | (.error e, r') => ((some e, stack), r')
    | (.ok len, r1) => ((none, if len > 0 then len :: stack else stack), r1)
  else if ty = tySimpleList then
    match skipSimpleListM r with
    | (.error e, r') => ((some e, stack), r')
    | (.ok (), r1) => ((none, stack), r1)
  else if ty = tyStructBegin then ((none, skipPending :: stack), r)
  else if ty = tyStructEnd then ((none, stack), r)
  else if ty = tyZeroTag then ((none, stack), r)
  else ((some .invalid, stack), r)

mutual
/-- one iteration of the outer `for` of `skipFields`: skip the field of type `ty`, then decide
    what comes next. Every step of either loop consumes one unit of fuel. -/
def skipFieldsF : Nat → Nat → List Int → RM Unit
  | 0, _, _ => RM.fail .fuel
  | fuel+1, ty, stack => fun r =>
    match skipOne ty stack r with
    | ((err, stack'), r1) => skipNextF fuel err stack' r1

/-- the inner `for` of `skipFields` ("what is to be skipped next") -/
def skipNextF : Nat → Option Err → List Int → RM Unit
  | 0, _, _ => RM.fail .fuel
  | fuel+1, some e, stack => fun r =>
    -- the error ends every struct it occurred in; the element loop of an enclosing LIST/MAP
    -- ignores it
    let stack' := stack.dropWhile (· = skipPending)
    if stack' = [] then (.error e, r) else skipNextF fuel none stack' r
  | _+1, none, [] => fun r => (.ok (), r)
  | fuel+1, none, top :: rest => fun r =>
    if top = skipPending then
      match readHead r with
      | (.error e, r') => skipNextF fuel (some e) (top :: rest) r'
      | (.ok (tyCur, _), r1) =>
        if tyCur = tyStructEnd then skipNextF fuel none rest r1
        else skipFieldsF fuel tyCur (top :: rest) r1
    else if top ≤ 0 then skipNextF fuel none rest r
    else
      -- `stack[top]--` then `readHead`
      match readHead r with
      | (.error e, r') => skipNextF fuel (some e) rest r'      -- the LIST/MAP itself fails
      | (.ok (tyCur, _), r1) => skipFieldsF fuel tyCur ((top - 1) :: rest) r1
end

/-- fuel sufficient for the loop (theorem `skipIter_never_fuel`) -/
def Reader.iterFuel (r : Reader) : Nat := 6 * r.data.size + 16

/-- `Reader.skipField(ty)` as it is now -/
def skipFieldIter (ty : Nat) : RM Unit := fun r => skipFieldsF r.iterFuel ty [] r

/-- `Reader.SkipToStructEnd()` as it is now: `skipFields(StructBegin, nil)` -/
def skipToStructEndIter : RM Unit := fun r => skipFieldsF r.iterFuel tyStructBegin [] r

mutual
/-- instrumented run: the largest number of entries the explicit stack holds (heap cost) -/
def maxStackFields : Nat → Nat → List Int → Reader → Nat
  | 0, _, stack, _ => stack.length
  | fuel+1, ty, stack, r =>
    match skipOne ty stack r with
    | ((err, stack'), r1) => max stack'.length (maxStackNext fuel err stack' r1)

def maxStackNext : Nat → Option Err → List Int → Reader → Nat
  | 0, _, stack, _ => stack.length
  | fuel+1, some _, stack, r =>
    let stack' := stack.dropWhile (· = skipPending)
    if stack' = [] then 0 else maxStackNext fuel none stack' r
  | _+1, none, [], _ => 0
  | fuel+1, none, top :: rest, r =>
    if top = skipPending then
      match readHead r with
      | (.error e, r') => maxStackNext fuel (some e) (top :: rest) r'
      | (.ok (tyCur, _), r1) =>
        if tyCur = tyStructEnd then maxStackNext fuel none rest r1
        else maxStackFields fuel tyCur (top :: rest) r1
    else if top ≤ 0 then maxStackNext fuel none rest r
    else
      match readHead r with
      | (.error e, r') => maxStackNext fuel (some e) rest r'
      | (.ok (tyCur, _), r1) => maxStackFields fuel tyCur ((top - 1) :: rest) r1
end

end Tars
