/-
  Static-weight list of the endpoint selectors (C13).

  Mirrors, literally, `selector.BuildStaticWeightList` of `/repo/tars/selector/selector.go`
  (a smooth weighted round robin over scaled weights) and the two `endpoint.Endpoint` methods it
  uses (`String`, `HashKey`).  Core Lean only (no Mathlib) so that the driver links.

  Go `int` is modelled by `Int`: the function only adds/multiplies `int32` weights (scaled by at
  most 100) a bounded number of times, so 64-bit wrap-around needs more than 2^24 endpoints (listed as an
  assumption of the check; Go `int` is 64 bit on the checked platform).  The specification side
  (`max 1 (Wᵢ·R / M)` in `Props/C13.lean`) is exact over `Int` for all int32 weights; an implementation
  that narrows `Wᵢ·R` to int32 wraps from 21 474 837 (R = 100) resp. 214 748 365 (R = 10) on and is
  found by the differential run on the extreme-weight streams.  Go strings are byte sequences: `List Nat` (every element < 256).
-/
import TarsModel.Generated.Consts

namespace Tars.Sel

/-- `endpoint.Endpoint`, restricted to the fields the selectors read. -/
structure Ep where
  /-- `Host` (bytes of the Go string) -/
  host : List Nat
  port : Int
  timeout : Int
  /-- `Proto` (bytes of the Go string) -/
  proto : List Nat
  /-- `Weight` (int32) -/
  weight : Int
  /-- `WeightType` (int32) -/
  weightType : Int
deriving DecidableEq, Repr

/-- bytes of `fmt.Sprintf("%d", n)` -/
def decBytes (n : Int) : List Nat :=
  if n < 0 then 45 :: (Nat.toDigits 10 n.natAbs).map Char.toNat
  else (Nat.toDigits 10 n.toNat).map Char.toNat

/-- `Endpoint.String`: `fmt.Sprintf("%s -h %s -p %d -t %d", e.Proto, e.Host, e.Port, e.Timeout)` -/
def Ep.str (e : Ep) : List Nat :=
  e.proto ++ [32, 45, 104, 32] ++ e.host ++ [32, 45, 112, 32] ++ decBytes e.port
    ++ [32, 45, 116, 32] ++ decBytes e.timeout

/-- `Endpoint.HashKey`: the host. -/
def Ep.hashKey (e : Ep) : List Nat := e.host

/-- Go `a <= b` on strings (byte-wise lexicographic order). -/
def lexLe : List Nat → List Nat → Bool
  | [], _ => true
  | _ :: _, [] => false
  | a :: as, b :: bs => a < b || (a == b && lexLe as bs)

/-- Go `a < b` on strings. -/
def lexLt (a b : List Nat) : Bool := !lexLe b a

/-- Which tree the model describes: the code as found, or with the proposed D2 guard
(`pending/C13-static-weight-guard.patch`) applied.  Only `buildStaticWeightList` depends on it. -/
inductive Variant
  | asFound
  | repaired
deriving DecidableEq, Repr

/-- Result of `BuildStaticWeightList`.  A Go run-time panic is an explicit outcome. `nil` is the
`return nil` path; `ok cap l` is the returned slice `l` together with the capacity `cap` that was
requested from `make` (the allocation the call performs). -/
inductive Out
  | panic (site : String)
  | nil
  | ok (cap : Int) (l : List Nat)
deriving DecidableEq, Repr

/-- One element of `weightToId` (a `pair{first, second}`) together with the two values the loop
looks up through `second`: `idToWeight[second]` and `endpoints[second].String()`. -/
structure Slot where
  /-- `pair.first`: the current (running) weight -/
  cur : Int
  /-- `pair.second`: index into `endpoints` -/
  idx : Nat
  /-- `idToWeight[second]`: the scaled static weight -/
  w : Int
  /-- `endpoints[second].String()` -/
  key : List Nat
deriving DecidableEq, Repr

/-- the `less` closure passed to `sort.Slice` -/
def slotLess (a b : Slot) : Bool :=
  if a.cur == b.cur then lexLt a.key b.key else decide (a.cur < b.cur)

/-- `a` may stay in front of `b` in ascending order: `!less(b, a)` -/
def slotLe (a b : Slot) : Bool := !slotLess b a

/-- `sort.Slice(weightToId, less)` followed by the reversed traversal (`for begin := len-1 …`):
the slots in descending order.  `sort.Slice` is not stable; the result is determined by `less`
whenever no two slots are equivalent, which holds when the `String()`s are pairwise different
(the selectors dedupe by host).  The model uses a stable merge sort. -/
def sortDesc (l : List Slot) : List Slot := (l.mergeSort slotLe).reverse

/-- first loop of `BuildStaticWeightList`: `(maxWeight, minWeight, totalCapacity)`, or `none` when an
endpoint whose `WeightType` is not `EStaticWeight` is met (`return nil`). -/
def scan : List Ep → Int → Int → Int → Option (Int × Int × Int)
  | [], mx, mn, tc => some (mx, mn, tc)
  | e :: es, mx, mn, tc =>
    if e.weightType ≠ (Consts.epEStaticWeight : Int) then none
    else scan es (if mx < e.weight then e.weight else mx) (if mn > e.weight then e.weight else mn)
      (tc + e.weight)

/-- `math.MaxInt32`, `math.MinInt32` -/
def maxInt32 : Int := 2147483647
def minInt32 : Int := -2147483648

/-- `(maxRange, totalWeight)` after the `if minWeight > 0 { … } else { maxRange, totalWeight = 1, 1 }`
statement (Go `/` truncates towards zero: `Int.tdiv`). -/
def rangeOf (mx mn : Int) : Int × Int :=
  if mn > (Consts.selMinWeightPositiveBound : Int) then
    let r := Int.tdiv mx mn
    let r := if r < (Consts.selMinStaticWeightLimit : Int) then (Consts.selMinStaticWeightLimit : Int) else r
    let r := if r > (Consts.selMaxStaticWeightLimit : Int) then (Consts.selMaxStaticWeightLimit : Int) else r
    (r, 0)
  else ((Consts.selDegenerateRange : Int), (Consts.selDegenerateTotal : Int))

/-- `int(node.Weight) * maxRange / maxWeight` (the caller has checked `maxWeight ≠ 0`). -/
def scaled (r mx w : Int) : Int := Int.tdiv (w * r) mx

/-- second loop: endpoints whose scaled weight is not positive go once to the front of the list
(`zeros`), the others become the initial `weightToId`/`idToWeight` (`slots`, `first = weight`).
`i` is the index of the head of the list. -/
def split (r mx : Int) : List Ep → Nat → List Nat × List Slot
  | [], _ => ([], [])
  | e :: es, i =>
    let (z, s) := split r mx es (i + 1)
    let w := scaled r mx e.weight
    if w > (Consts.selScaledWeightBound : Int) then (z, ⟨w, i, w, e.str⟩ :: s) else (i :: z, s)

/-- `totalWeight += weight` over the positive scaled weights -/
def sumW : List Slot → Int
  | [] => 0
  | s :: l => s.w + sumW l

/-- the `for i := 0; i < totalWeight; i++` loop: `n` remaining iterations, `acc` is the list of
picked indices in reverse order.  Each iteration sorts, picks the greatest slot
(`first − totalWeight + idToWeight`), and raises every other slot by its weight; `mulTemp` (the next
`weightToId`) is in the traversal (descending) order. -/
def rounds (t : Int) : Nat → List Slot → List Nat → List Nat
  | 0, _, acc => acc
  | n + 1, l, acc =>
    match sortDesc l with
    | [] => rounds t n [] acc
    | p :: rest =>
      rounds t n
        ({ p with cur := p.cur - t + p.w } :: rest.map fun q => { q with cur := q.cur + q.w })
        (p.idx :: acc)

/-- the capacity passed to `make([]int, 0, …)`: `totalCapacity+100` as found;
`len(endpoints)*maxRange+1` with the proposed repair -/
def capOf (v : Variant) (n : Nat) (r tc : Int) : Int :=
  match v with
  | .asFound => tc + 100
  | .repaired => (n : Int) * r + 1

/-- `selector.BuildStaticWeightList(endpoints)` -/
def buildStaticWeightList (v : Variant) (eps : List Ep) : Out :=
  match scan eps minInt32 maxInt32 0 with
  | none => .nil
  | some (mx, mn, tc) =>
    -- proposed guard (D2): `if maxWeight <= 0 { return nil }`
    if v = .repaired ∧ mx ≤ 0 then .nil
    else
      let r := (rangeOf mx mn).1
      let tw0 := (rangeOf mx mn).2
      -- `make([]int, 0, cap)` panics on a negative capacity
      let cap := capOf v eps.length r tc
      if cap < 0 then .panic "makeslice: cap out of range"
      -- `int(node.Weight) * maxRange / maxWeight` in the first iteration of the second loop
      else if eps ≠ [] ∧ mx = 0 then .panic "integer divide by zero"
      else
        let zs := split r mx eps 0
        let t := tw0 + sumW zs.2
        .ok cap (zs.1 ++ (rounds t t.toNat zs.2 []).reverse)

end Tars.Sel
