/-
  Model of the server side of a TCP adapter during graceful shutdown (property C12):
  `tars/transport/tcphandler.go` (`Handle`, `recv`, `handleConn`, `CloseIdles`, `sendCloseMsg`,
  `OnShutdown`), `tars/transport/tarsserver.go` (`Shutdown`) and, as far as the handler needs it,
  `tars/util/gpool/gpool.go` (`dispatch`, `Release`; the detailed pool LTS is `Model/Pool.lean`, C19).
  Core Lean only (no Mathlib) so that the driver links.

  A labelled transition system: every goroutine is a program counter plus locals, one action = one
  shared-memory / channel / socket operation of one goroutine; "all interleavings" = all action lists.

  Goroutines and the statements behind the actions

  * accept loop `tcpHandler.Handle`
        for { if isClosed == 1 { isListenClosed = 1; break }      `acceptExit`
              conn, err := Accept() … numConn++ ; go func(conn){  `accept c`
                  t.conns.Store(key, cf)                          `register c`
                  t.recv(cf); t.conns.Delete(key) }(conn) }
        [repaired only: t.wg.Wait() — every connection goroutine has returned]
        if t.pool != nil { t.pool.Release() }                     `relCall` … `pStop` … `relRet`
  * receiver `tcpHandler.recv` of connection c
        for { if isClosed == 1 {SetReadDeadline(100ms)} …; connSt.idleTime = now   `stamp c`
              n, err = conn.Read(buffer)                                           `read c n` | `readErr c fatal`
              if err != nil { if isClosed == 1 && currBuffer == nil { return } … if isNoDataError(err) { continue }; return }
              currBuffer = append(currBuffer, …)
              for { ParsePackage … PackageFull: t.handleConn(connSt, pkg) … } }    `dispatch c` (one per package)
        deferred: tk := NewTicker(500ms); for range tk.C { if numInvoke == 0 { break } }    `drainTick c` (first tick)
                  conn.Close(); DoClose; idleTime = 0                              `drainClose c`
  * `handleConn`: `atomic.AddInt32(&numInvoke, 1)`, then `go handler()` (no pool) or
    `t.pool.JobQueue <- handler` (pool; blocks while the queue is full: `enqueue c`)  — inside `dispatch c`
  * handler of request i of connection c
        defer numInvoke--            `dec c i`
        rsp := t.server.invoke(…)    `start c i` (Invoke entered) … `fin c i` (Invoke returned)
        if cPacketType == TARSONEWAY || len(rsp) == 0 { return }   `skip c i` (requests sent with `sendNR`)
        conn.Write(rsp)              `write c i`   (fails when the server has closed the connection)
    (variant `decEarly`: `numInvoke--` directly after invoke: `finEarly c i`, then `lateWrite c i`)
  * pool (abstraction of gpool that keeps what matters here): the dispatcher takes one job out of the
    queue (`pTake`), waits for an idle worker and hands the job over (part of `start`); `Release`
    (`relCall`) is accepted by the dispatcher only between two jobs (`pStop`), after which the
    dispatcher never looks at the job queue again — whatever is still queued is dropped — and
    `Release` returns when every worker has finished its job (`relRet`).
  * `TarsServer.Shutdown`
        isClosed = 1                                        `shutdownCall`, `setClosed`
        OnShutdown(): if isListenClosed == 1 { sendCloseMsg(); isListenClosed = 2 }   `closeMsg`, `onShutdownRet`
        for { select { case <-ctx.Done(): return            `ctxExpire`
                       case <-tk.C: if CloseIdles(2) { return } } }
    `CloseIdles`: (sendCloseMsg if isListenClosed == 1) and a snapshot of the map      `ciBegin`
        per connection: numInvoke > 0 || idleTime+2 > now → allClosed = false          `ciVisit c`
                        else conn.Close()                                              `ciClose` (a SECOND action:
                        the load of numInvoke and the Close are not atomic — D16)
        return allClosed                                                               `ciEnd`
  * environment: clients (`connect`, `send c r`, and the observations `recvRsp`, `recvMsg`, `recvEof`),
    the clock (`age c`: two seconds have passed since the connection's idle stamp).

  Simplifications (all over-approximations of the schedules or listed as assumptions in checks/C12.json):
  clients send whole packages (no residue of a partial package in `currBuffer`); which requests need no
  response (one-way packets, empty responses) is fixed when the client sends them (`sendNR`); a read error may occur at any time (`readErr`; `fatal` = any error
  that is not a timeout, or the idle-timeout return); the two tickers are abstracted to "may fire at
  any time"; `sync.Map.Range` visits the connections stored when it begins.

  `Cfg` selects the variant: `releaseAfterDrain` = the accept loop waits for all connection
  goroutines before releasing the pool (pending/C12-fix-pool-release.patch); `ci` = how `CloseIdles`
  treats an idle connection: `asFound` (load, then close), `atomic` (hypothetical: one step),
  `kickOnly` (pending/C12-d16-closeidles-wake.patch: it only wakes the receiver with
  `SetReadDeadline(now)`, which then drains and closes, and counts every connection still in the
  table as not closed).
-/
import TarsModel.Generated.Consts

namespace Tars.ServerConn

abbrev Cid := Nat
abbrev Rid := Nat

inductive CIMode
  | asFound
  | atomic
  | kickOnly
deriving DecidableEq, Hashable, Repr

structure Cfg where
  /-- `MaxInvoke > 0`: worker pool with N workers and a job queue of capacity Q; `none`: a goroutine per request -/
  pool : Option (Nat × Nat)
  releaseAfterDrain : Bool
  ci : CIMode
  /-- the handler's `numInvoke--` is a `defer` at the top of the closure, so it also runs on the early
  return taken for one-way requests and empty responses (the code); `false`: it is the closure's last
  statement and the early return skips it (the variant of `C12_oneway_leak_counterexample`) -/
  decDeferred : Bool := true
  /-- `true`: the handler decrements `numInvoke` right after `invoke` returned, BEFORE `conn.Write(rsp)`
  (the variant of `C12_early_decrement_counterexample`); `false` (the code): after the write -/
  decEarly : Bool := false
  /-- the deferred drain of `recv` is `for range tk.C { if numInvoke == 0 { break } }`: the test comes
  after a receive from the 500 ms ticker, so a connection is closed one tick after its receive loop
  returned at the earliest (the code); `false`: `for numInvoke > 0 { <-tk.C }` — the test comes first
  (variant of `C12_no_first_tick_counterexample`) -/
  drainFirstTick : Bool := true
deriving DecidableEq, Repr

/-- state of the handler closure of one dispatched request -/
inductive HSt
  | queued              -- handleConn has counted it; goroutine spawned / job submitted, body not started
  | handed              -- pool only: a worker has received the job and has not yet called it
  | running             -- inside `protocol.Invoke`
  | finished            -- Invoke returned, `conn.Write(rsp)` not yet executed
  | wrote (ok : Bool)   -- `conn.Write(rsp)` executed; ok = the connection was still open
  | done (ok : Bool)    -- deferred `numInvoke--` executed
  | writePending        -- only with `decEarly = true`: `numInvoke--` executed, `conn.Write(rsp)` still to come
  | doneLate (ok : Bool) -- only with `decEarly = true`: that late write executed; ok = the connection was still open
  | leaked              -- only with `decDeferred = false`: the handler returned early (one-way request /
                        -- empty response) past its `numInvoke--`: it is over, the counter stays up
deriving DecidableEq, Hashable, Repr

/-- the handler's `numInvoke--` has been executed -/
def HSt.isDone : HSt → Bool
  | .done _ | .writePending | .doneLate _ => true
  | _ => false

/-- occupies a worker: from the start of the job body to its end -/
def HSt.busy : HSt → Bool
  | .handed | .running | .finished | .wrote _ | .writePending => true
  | _ => false

/-- no failed write so far -/
def HSt.ok : HSt → Bool
  | .wrote false | .done false | .doneLate false => false
  | _ => true

/-- the response reached the socket -/
def HSt.answered : HSt → Bool
  | .wrote true | .done true | .doneLate true => true
  | _ => false

/-- states that only the early-decrement variant has -/
def HSt.early : HSt → Bool
  | .writePending | .doneLate _ => true
  | _ => false

structure Req where
  id : Rid
  st : HSt
  /-- ghost: the connection was open when `handleConn` counted the request -/
  dispOpen : Bool
  /-- the handler has nothing to write: a one-way request (`cPacketType == TARSONEWAY`) or one whose
  `Invoke` returns an empty response -/
  noReply : Bool := false
deriving DecidableEq, Hashable, Repr

/-- program counter of the connection goroutine (`go func(conn)` in `Handle`, then `recv`) -/
inductive RPc
  | backlog             -- TCP handshake done, `Accept` has not returned it yet
  | unreg               -- accepted; `t.conns.Store` not yet executed
  | top                 -- loop top of `recv`
  | reading             -- in `conn.Read`
  | parse               -- `Read` returned data; in the inner loop over `currBuffer`
  | sending (i : Nat)   -- in `handleConn` at `t.pool.JobQueue <- handler` for request index i
  | drainWait           -- `recv` returned; the deferred function has started its ticker and has not tested yet
  | draining            -- deferred function: testing `numInvoke == 0` (after each tick)
  | closed              -- deferred function closed the connection; `t.conns.Delete` done
deriving DecidableEq, Hashable, Repr

structure Conn where
  /-- complete packages the client has written and `conn.Read` has not yet returned -/
  wire : List Rid := []
  /-- `currBuffer`: packages read and not yet handed to `handleConn` -/
  buf : List Rid := []
  numInvoke : Nat := 0
  /-- `idleTime + 2 ≤ now` (the zero value of `idleTime` is stale) -/
  stale : Bool := true
  /-- present in `t.conns` -/
  registered : Bool := false
  /-- the server has executed `conn.Close()` (the receiver's deferred function or `CloseIdles`) -/
  srvClosed : Bool := false
  /-- ghost: closed by `CloseIdles` -/
  byIdles : Bool := false
  /-- `sendCloseMsg` wrote the close message to the open connection -/
  notified : Bool := false
  rpc : RPc := .backlog
  /-- dispatched requests in dispatch order -/
  reqs : List Req := []
  /-- the ticker of the deferred drain was created after `Shutdown`'s ticker (the receive loop returned
  when `Shutdown` was already polling): its first tick comes after the poller's first tick -/
  tickAfterPoll : Bool := false
  /-- ghosts: what `sendCloseMsg` found when it ran: the connection already closed by the server / not
  yet in the connection table; `sawNotify`: it ran while this connection existed -/
  missedClosed : Bool := false
  lateReg : Bool := false
  sawNotify : Bool := false
  /-- ghost: request ids the client has sent -/
  sent : List Rid := []
  /-- those among them that need no response (one-way packets, requests answered with an empty response) -/
  nrIds : List Rid := []
  /-- client: responses received -/
  got : List Rid := []
  gotMsg : Bool := false
  sawEof : Bool := false
deriving DecidableEq, Hashable, Repr

/-- a connection the kernel has just completed the handshake for -/
def Conn.new : Conn := {}

/-- state of the pool dispatcher as far as `Release` is concerned -/
inductive PSt
  | live       -- `Release` not called
  | stopReq    -- `Release` is blocked in `p.stop <- struct{}{}`
  | stopping   -- the dispatcher took the stop request: it stops the workers as they become idle
  | stopped    -- `Release` returned
deriving DecidableEq, Hashable, Repr

/-- accept loop -/
inductive APc
  | accepting
  | afterLoop   -- left the loop (`isListenClosed = 1`), pool not yet released
  | inRelease
  | returned
deriving DecidableEq, Hashable, Repr

/-- the caller of `Shutdown` -/
inductive SPc
  | idle
  | called
  | onShutdown
  | polling
  | returned (drained : Bool)
deriving DecidableEq, Hashable, Repr

/-- one call of `CloseIdles` in progress -/
structure Pass where
  todo : List Cid
  all : Bool
  /-- `numInvoke == 0` and stale stamp observed for this connection, `Close()` not yet executed -/
  holding : Option Cid
deriving DecidableEq, Hashable, Repr

structure State where
  conns : List Conn := []
  isClosed : Bool := false
  listenClosed : Nat := 0
  apc : APc := .accepting
  spc : SPc := .idle
  pass : Option Pass := none
  jobQ : List (Cid × Nat) := []
  held : Option (Cid × Nat) := none
  pst : PSt := .live
  /-- ghost: the connections registered and open when `sendCloseMsg` ran -/
  msgTo : List Cid := []
  /-- ghost: snapshot of the `CloseIdles` call that is running / ran last -/
  lastPass : List Cid := []
  /-- the shutdown poller's first tick has fired (its first `CloseIdles` call has begun) -/
  firstPoll : Bool := false
  /-- ghost: the close message had been sent by the end of that first call's `sendCloseMsg` -/
  fpNotified : Bool := false
deriving DecidableEq, Hashable, Repr

def init : State := {}

inductive Action
  | connect
  | send (c : Cid) (r : Rid)
  | sendNR (c : Cid) (r : Rid)   -- a request that needs no response (one-way / empty response)
  | accept (c : Cid)
  | register (c : Cid)
  | stamp (c : Cid)
  | read (c : Cid) (n : Nat)
  | readErr (c : Cid) (fatal : Bool)
  | age (c : Cid)
  | dispatch (c : Cid)
  | enqueue (c : Cid)
  | pTake
  | pGive
  | start (c : Cid) (i : Nat)
  | fin (c : Cid) (i : Nat)
  | finEarly (c : Cid) (i : Nat)   -- `decEarly`: Invoke returned and `numInvoke--` at once, the write is still to come
  | lateWrite (c : Cid) (i : Nat)  -- `decEarly`: the write (or the early return) after the decrement
  | write (c : Cid) (i : Nat)
  | skip (c : Cid) (i : Nat)     -- the early return `if cPacketType == TARSONEWAY || len(rsp) == 0 { return }`
  | dec (c : Cid) (i : Nat)
  | drainTick (c : Cid)    -- the deferred drain reaches its test of `numInvoke` for the first time
  | drainClose (c : Cid)
  | shutdownCall
  | setClosed
  | acceptExit
  | relCall
  | pStop
  | relRet
  | closeMsg
  | onShutdownRet
  | ciBegin
  | ciVisit (c : Cid)
  | ciClose
  | ciEnd
  | ctxExpire
  | recvRsp (c : Cid) (i : Nat)
  | recvMsg (c : Cid)
  | recvEof (c : Cid)
deriving DecidableEq, Repr

/-! ### transitions of one connection record -/

def cSend (nr : Bool) (r : Rid) (k : Conn) : Option Conn :=
  if r ∈ k.sent then none
  else some { k with wire := k.wire ++ [r], sent := r :: k.sent, nrIds := if nr then r :: k.nrIds else k.nrIds }

def cAccept (k : Conn) : Option Conn :=
  match k.rpc with
  | .backlog => some { k with rpc := .unreg }
  | _ => none

/-- `t.conns.Store(key, cf)` and the entry into `recv` -/
def cRegister (k : Conn) : Option Conn :=
  match k.rpc with
  | .unreg => some { k with rpc := .top, registered := true }
  | _ => none

/-- loop top: deadline, `connSt.idleTime = time.Now().Unix()`, call of `conn.Read` -/
def cStamp (k : Conn) : Option Conn :=
  match k.rpc with
  | .top => some { k with rpc := .reading, stale := false }
  | _ => none

/-- `conn.Read` returns the first `n` packages waiting on the wire (a closed descriptor returns an error) -/
def cRead (n : Nat) (k : Conn) : Option Conn :=
  match k.rpc with
  | .reading =>
    if k.srvClosed = false ∧ 0 < n ∧ n ≤ k.wire.length then
      some { k with rpc := .parse, buf := k.buf ++ k.wire.take n, wire := k.wire.drop n }
    else none
  | _ => none

/-- `conn.Read` returns an error: `isClosed == 1 && currBuffer == nil` → return; a timeout → continue;
anything else (EOF, closed descriptor, idle timeout) → return -/
def cReadErr (polling isClosed fatal : Bool) (k : Conn) : Option Conn :=
  match k.rpc with
  | .reading =>
    if (isClosed = true ∧ k.buf = []) ∨ fatal = true then
      -- `return`: the deferred function runs: `tk := time.NewTicker(500 ms)`
      some { k with rpc := .drainWait, tickAfterPoll := polling }
    else some { k with rpc := .top }
  | _ => none

/-- the deferred drain gets to its (first) test of `numInvoke`: after the first tick of its ticker
(`for range tk.C { if … }`) or at once (`for … > 0 { <-tk.C }`); the timing condition is in `step` -/
def cDrainTick (k : Conn) : Option Conn :=
  match k.rpc with
  | .drainWait => some { k with rpc := .draining }
  | _ => none

def cAge (k : Conn) : Option Conn := some { k with stale := true }

/-- one `PackageFull` round of the inner loop: `handleConn` counts the request and spawns the handler
(`pool = false`) or goes on to submit it (`pool = true`) -/
def cDispatch (pool : Bool) (k : Conn) : Option Conn :=
  match k.rpc, k.buf with
  | .parse, r :: rest =>
    some { k with
      buf := rest, numInvoke := k.numInvoke + 1,
      reqs := k.reqs ++ [{ id := r, st := .queued, dispOpen := !k.srvClosed, noReply := k.nrIds.contains r }],
      rpc := if pool then .sending k.reqs.length else if rest = [] then .top else .parse }
  | _, _ => none

/-- `t.pool.JobQueue <- handler` completed -/
def cEnqueued (k : Conn) : Option (Conn × Nat) :=
  match k.rpc with
  | .sending i => some ({ k with rpc := if k.buf = [] then .top else .parse }, i)
  | _ => none

def cSetSt (i : Nat) (frm : HSt) (to : HSt) (k : Conn) : Option Conn :=
  match k.reqs[i]? with
  | some q => if q.st = frm then some { k with reqs := k.reqs.set i { q with st := to } } else none
  | none => none

def cStart (i : Nat) (k : Conn) : Option Conn := cSetSt i .queued .running k
/-- pool: `worker := <-p.WorkerQueue; worker.JobChannel <- job` -/
def cHand (i : Nat) (k : Conn) : Option Conn := cSetSt i .queued .handed k
/-- pool: the worker calls `job()` -/
def cStartP (i : Nat) (k : Conn) : Option Conn := cSetSt i .handed .running k
def cFin (i : Nat) (k : Conn) : Option Conn := cSetSt i .running .finished k

/-- early-decrement variant: `rsp := invoke(…); atomic.AddInt32(&connSt.numInvoke, -1)` -/
def cFinEarly (i : Nat) (k : Conn) : Option Conn :=
  match k.reqs[i]? with
  | some q =>
    match q.st with
    | .running => some { k with reqs := k.reqs.set i { q with st := .writePending }, numInvoke := k.numInvoke - 1 }
    | _ => none
  | none => none

/-- early-decrement variant: `conn.Write(rsp)` (or the early return) after the decrement -/
def cLateWrite (i : Nat) (k : Conn) : Option Conn :=
  match k.reqs[i]? with
  | some q =>
    match q.st with
    | .writePending =>
      some { k with reqs := k.reqs.set i { q with st := .doneLate (q.noReply || !k.srvClosed) } }
    | _ => none
  | none => none
/-- `conn.Write(rsp)`: an error (only logged) when the server has closed the connection -/
def cWrite (i : Nat) (k : Conn) : Option Conn :=
  match k.reqs[i]? with
  | some q => if q.noReply = false then cSetSt i .finished (.wrote (!k.srvClosed)) k else none
  | none => none

/-- the early return of the handler for a one-way request or an empty response: nothing is written.
With the deferred decrement the handler goes on to `numInvoke--` (state `wrote true`: no write has
failed); without it the handler is over and the counter stays up (`leaked`). -/
def cSkip (deferred : Bool) (i : Nat) (k : Conn) : Option Conn :=
  match k.reqs[i]? with
  | some q => if q.noReply = true then cSetSt i .finished (if deferred then .wrote true else .leaked) k else none
  | none => none

/-- deferred `atomic.AddInt32(&connSt.numInvoke, -1)` -/
def cDec (i : Nat) (k : Conn) : Option Conn :=
  match k.reqs[i]? with
  | some q =>
    match q.st with
    | .wrote ok => some { k with reqs := k.reqs.set i { q with st := .done ok }, numInvoke := k.numInvoke - 1 }
    | _ => none
  | none => none

/-- deferred function of `recv`: `numInvoke == 0` seen, `conn.Close()`, `DoClose`, `idleTime = 0`,
then `t.conns.Delete(key)` -/
def cDrainClose (k : Conn) : Option Conn :=
  match k.rpc with
  | .draining =>
    if k.numInvoke = 0 then
      some { k with rpc := .closed, srvClosed := true, registered := false, stale := true }
    else none
  | _ => none

/-- `conn.conn.Close()` in `CloseIdles` -/
def cCloseByIdles (k : Conn) : Conn := { k with srvClosed := true, byIdles := true }

/-- `sendCloseMsg` on one map entry: `SetReadDeadline(now)`, `Write(closeMsg)` -/
def cNotify (k : Conn) : Conn :=
  if k.registered = true ∧ k.srvClosed = false then { k with notified := true, sawNotify := true }
  else if k.srvClosed = true then { k with missedClosed := true, sawNotify := true }
  else { k with lateReg := true, sawNotify := true }

def cRecvRsp (i : Nat) (k : Conn) : Option Conn :=
  match k.reqs[i]? with
  | some q =>
    if q.st.answered = true ∧ q.noReply = false ∧ q.id ∉ k.got then some { k with got := k.got ++ [q.id] } else none
  | none => none

def cRecvMsg (k : Conn) : Option Conn :=
  if k.notified = true ∧ k.gotMsg = false then some { k with gotMsg := true } else none

/-- the client reads EOF: the server closed, and (TCP order) everything written before was received -/
def cRecvEof (k : Conn) : Option Conn :=
  if k.srvClosed = true ∧ k.sawEof = false ∧ (k.notified = true → k.gotMsg = true) ∧
      (k.reqs.all fun q => !q.st.answered || q.noReply || k.got.contains q.id) = true then
    some { k with sawEof := true }
  else none

/-! ### global transitions -/

def updConn (s : State) (c : Cid) (f : Conn → Option Conn) : Option State :=
  match s.conns[c]? with
  | none => none
  | some k =>
    match f k with
    | none => none
    | some k' => some { s with conns := s.conns.set c k' }

def Conn.busy (k : Conn) : Nat := k.reqs.countP (fun q => q.st.busy)

/-- number of workers inside a job body -/
def busy (s : State) : Nat := (s.conns.map Conn.busy).sum

/-- connection ids present in `t.conns` -/
def registeredIds (s : State) : List Cid :=
  (List.range s.conns.length).filter (fun c => match s.conns[c]? with
    | some k => k.registered
    | none => false)

/-- every accepted connection's goroutine has returned (`wg.Wait()` would return) -/
def allConnGoroutinesDone (s : State) : Bool :=
  s.conns.all (fun k => k.rpc == .closed || k.rpc == .backlog)

/-- `sendCloseMsg` over the whole map -/
def notifyAll (s : State) : State :=
  { s with conns := s.conns.map cNotify,
           msgTo := (registeredIds s).filter (fun c => match s.conns[c]? with
             | some k => !k.srvClosed
             | none => false),
           listenClosed := 2 }

def poolOn (cfg : Cfg) : Bool := cfg.pool.isSome

/-- One atomic step; `none` = the action is not enabled in this state. -/
def step (cfg : Cfg) (s : State) : Action → Option State
  | .connect => some { s with conns := s.conns ++ [Conn.new] }
  | .send c r => updConn s c (cSend false r)
  | .sendNR c r => updConn s c (cSend true r)
  | .accept c => if s.apc = .accepting then updConn s c cAccept else none
  | .register c => updConn s c cRegister
  | .stamp c => updConn s c cStamp
  | .read c n => updConn s c (cRead n)
  | .readErr c fatal =>
    updConn s c (cReadErr (s.spc == .polling || s.spc == .returned true || s.spc == .returned false) s.isClosed fatal)
  | .age c => updConn s c cAge
  | .dispatch c => updConn s c (cDispatch (poolOn cfg))
  | .enqueue c =>
    match cfg.pool, s.conns[c]? with
    | some (_, q), some k =>
      match cEnqueued k with
      | some (k', i) =>
        if s.jobQ.length < q then
          some { s with conns := s.conns.set c k', jobQ := s.jobQ ++ [(c, i)] }
        else if q = 0 ∧ s.held = none ∧ (s.pst = .live ∨ s.pst = .stopReq) then
          -- unbuffered JobQueue: rendezvous with the dispatcher's `case job := <-p.JobQueue`
          some { s with conns := s.conns.set c k', held := some (c, i) }
        else none
      | none => none
    | _, _ => none
  | .pTake =>
    match s.held, s.jobQ with
    | none, j :: rest =>
      if s.pst = .live ∨ s.pst = .stopReq then some { s with held := some j, jobQ := rest } else none
    | _, _ => none
  | .pGive =>
    match cfg.pool, s.held with
    | some (n, _), some (c, i) =>
      -- `worker := <-p.WorkerQueue` (an idle worker exists) and `worker.JobChannel <- job`
      if busy s < n then (updConn s c (cHand i)).map fun s' => { s' with held := none } else none
    | _, _ => none
  | .start c i => if poolOn cfg then updConn s c (cStartP i) else updConn s c (cStart i)
  | .fin c i => if cfg.decEarly then none else updConn s c (cFin i)
  | .finEarly c i => if cfg.decEarly then updConn s c (cFinEarly i) else none
  | .lateWrite c i => updConn s c (cLateWrite i)
  | .write c i => updConn s c (cWrite i)
  | .skip c i => updConn s c (cSkip cfg.decDeferred i)
  | .dec c i => updConn s c (cDec i)
  | .drainTick c =>
    match s.conns[c]? with
    | some k =>
      -- Both tickers have the same period: a drain ticker created after the shutdown poller's ticker
      -- fires after the poller's first tick (timers are served in the order of their due times).
      if cfg.drainFirstTick = true ∧ k.tickAfterPoll = true ∧ s.firstPoll = false then none
      else updConn s c cDrainTick
    | none => none
  | .drainClose c => updConn s c cDrainClose
  | .shutdownCall =>
    match s.spc with
    | .idle => some { s with spc := .called }
    | _ => none
  | .setClosed =>
    match s.spc with
    | .called => some { s with spc := .onShutdown, isClosed := true }
    | _ => none
  | .acceptExit =>
    if s.apc = .accepting ∧ s.isClosed = true then
      some { s with listenClosed := 1, apc := if poolOn cfg then .afterLoop else .returned }
    else none
  | .relCall =>
    if s.apc = .afterLoop ∧ (cfg.releaseAfterDrain = true → allConnGoroutinesDone s = true) then
      some { s with apc := .inRelease, pst := .stopReq }
    else none
  | .pStop =>
    if s.pst = .stopReq ∧ s.held = none then some { s with pst := .stopping } else none
  | .relRet =>
    if s.pst = .stopping ∧ busy s = 0 then some { s with pst := .stopped, apc := .returned } else none
  | .closeMsg =>
    match s.spc with
    | .onShutdown => if s.listenClosed = 1 then some (notifyAll s) else none
    | _ => none
  | .onShutdownRet =>
    match s.spc with
    | .onShutdown => some { s with spc := .polling }
    | _ => none
  | .ciBegin =>
    match s.spc, s.pass with
    | .polling, none =>
      let s1 := if s.listenClosed = 1 then notifyAll s else s
      some { s1 with pass := some { todo := registeredIds s1, all := true, holding := none },
                     lastPass := registeredIds s1, firstPoll := true,
                     fpNotified := if s.firstPoll then s.fpNotified else s1.listenClosed == 2 }
    | _, _ => none
  | .ciVisit c =>
    match s.pass with
    | some p =>
      if c ∈ p.todo ∧ p.holding = none then
        let p' := { p with todo := p.todo.erase c }
        match s.conns[c]? with
        | none => none
        | some k =>
          if k.registered = false then some { s with pass := some p' }   -- deleted meanwhile
          else if 0 < k.numInvoke ∨ k.stale = false then
            some { s with pass := some { p' with all := false } }
          else
            match cfg.ci with
            | .asFound => some { s with pass := some { p' with holding := some c } }
            | .atomic => some { s with pass := some p', conns := s.conns.set c (cCloseByIdles k) }
            | .kickOnly => some { s with pass := some { p' with all := false } }
      else none
    | none => none
  | .ciClose =>
    match s.pass with
    | some p =>
      match p.holding with
      | some c =>
        match s.conns[c]? with
        | some k => some { s with pass := some { p with holding := none },
                                  conns := s.conns.set c (cCloseByIdles k) }
        | none => none
      | none => none
    | none => none
  | .ciEnd =>
    match s.spc, s.pass with
    | .polling, some p =>
      if p.todo = [] ∧ p.holding = none then
        some { s with pass := none, spc := if p.all then .returned true else .polling }
      else none
    | _, _ => none
  | .ctxExpire =>
    match s.spc, s.pass with
    | .polling, none => some { s with spc := .returned false }
    | _, _ => none
  | .recvRsp c i => updConn s c (cRecvRsp i)
  | .recvMsg c => updConn s c cRecvMsg
  | .recvEof c => updConn s c cRecvEof

/-- run a schedule (a list of actions) from `s`; `none` if some action was not enabled -/
def runFrom (cfg : Cfg) (s : State) : List Action → Option State
  | [] => some s
  | a :: as =>
    match step cfg s a with
    | none => none
    | some s' => runFrom cfg s' as

def run (cfg : Cfg) (acts : List Action) : Option State := runFrom cfg init acts

/-- the states reachable under any interleaving -/
inductive Reachable (cfg : Cfg) : State → Prop
  | init : Reachable cfg init
  | step {s s' : State} (a : Action) : Reachable cfg s → step cfg s a = some s' → Reachable cfg s'

/-! ### the variants -/

/-- the code of the snapshot -/
def asFound (pool : Option (Nat × Nat)) : Cfg := { pool := pool, releaseAfterDrain := false, ci := .asFound }

/-- both repairs -/
def repaired (pool : Option (Nat × Nat)) : Cfg := { pool := pool, releaseAfterDrain := true, ci := .kickOnly }

/-- What the extractor saw in the tree: does `Handle` wait (`Wait()` call) before `Release()`, and
does `CloseIdles` still call `conn.conn.Close()` itself (as found) or only wake the receive loop
(`conn.conn.SetReadDeadline`, the repair: `kickOnly`), and is the handler's `numInvoke--` deferred. The harness expects the real code to behave
like this. -/
def treeCfg (pool : Option (Nat × Nat)) : Cfg :=
  { pool := pool,
    releaseAfterDrain := decide (Consts.srvHandleWaitsBeforeRelease ≥ 1),
    ci := if Consts.srvCloseIdlesCloses ≥ 1 then .asFound else .kickOnly,
    decDeferred := decide (Consts.srvInvokeDecDeferred ≥ 1),
    decEarly := decide (Consts.srvInvokeDecDeferred = 0 ∧ Consts.srvInvokeDecBeforeWrite ≥ 1),
    drainFirstTick := decide (Consts.srvRecvDrainTickFirst ≥ 1) }

/-- What the extractor saw of the drain loop of a connection's deferred close: `numInvoke == 0` is its
only exit (no bound on the number of ticks, no other break / return). The LTS relies on it: `drainClose`
has `numInvoke = 0` as its only guard. -/
def treeDrainUnbounded : Bool := decide (Consts.srvRecvDrainUnbounded ≥ 1)

end Tars.ServerConn
