/-
  Model of the close-notification path of `tars/adapter.go` (property C11): `AdapterProxy.Recv`
  (request id 0 → `onPush`), `AdapterProxy.onPush` and `AdapterProxy.Send`. Core Lean only.

  One `AdapterProxy` owns one `c.tarsClient` at a time. `gen` counts the `transport.NewTarsClient`
  calls made by `onPush`: generation 0 is the client made by `NewAdapterProxy`, and every generation
  is a fresh `TarsClient` — the transport LTS of `Model/ClientConn.lean` started at `ClientConn.init`
  (flag "closed", no connection: its first `Send` dials).

  Go code mirrored:

  * server (`tcpHandler.sendCloseMsg` on shutdown): stops reading the connections of a client and
    pushes the close notification — a response packet with request id 0 and result description
    `"_reconnect_"` — and closes the connection only later.              `pNotify g`
    Any other server push (request id 0, other description).             `pPush g payload`
  * `connection.recv` of generation `g` parses the packet and runs `go protocol.Recv(pkg)`: every
    packet is handled by its own goroutine, in any order.                `recv i` (i-th pending packet)
  * `AdapterProxy.Recv`: `packet.IRequestId == 0` → `c.onPush(packet)`.
  * `AdapterProxy.onPush(pkg)`, as found (`Variant.reconnectFirst`):
        if pkg.SResultDesc == reconnectMsg {
            oldClient := c.tarsClient
            c.tarsClient = transport.NewTarsClient(…)      -- gen := gen + 1
            oldClient.GraceClose(ctx); return              -- graceClosing += old generation
        }
        if c.pushCallback == nil { return }
        c.pushCallback(data)                                -- pushed += payload
    `oldClient.GraceClose(ctx)` polls every 500 ms until the old client has no request in flight
    (one-way requests are counted and never answered) or `ctx` expires — `ClientIdleTimeout`, ten
    minutes: the handler goroutine can stay inside `onPush` for a long time. The model makes that
    wait explicit: `recv i` performs the switch and leaves the handler in `handlers`;
    `graceDone j` is its return, whenever that happens. Handlers of further pushed packets run
    concurrently.
    `Variant.guardFirst` is the same function with the `pushCallback == nil → return` guard moved in
    front of the `reconnectMsg` test (a client without push callback then ignores the notification).
    `Variant.casGated` handles "only one notification at a time": a test-and-set on a flag that is
    released when the handler returns; a notification processed while another handler is still
    inside `GraceClose` is dropped.
  * `ServantProxy.SetPushCallback` / `doInvoke` copying it to the adapter.   `setCallback`
  * `AdapterProxy.Send(req)`: `c.tarsClient.Send(sbuf)` — the request goes to the generation that
    is current when `Send` reads `c.tarsClient`.                          `send id`

  History fields: `noticed` = the generations whose close notification has been handed to `onPush`
  (the client has processed the notification, whatever `onPush` did with it); every `send` records
  the generation it used and `noticed` at that moment.
-/
import TarsModel.Generated.Consts

namespace Tars.AdapterPush

inductive Variant
  | reconnectFirst
  | guardFirst
  | casGated
deriving DecidableEq, Repr

/-- Which variant the source tree is: the extractor records whether, in `onPush`, the test for
`reconnectMsg` comes before the first `… == nil → return` guard, how many `return`s precede the
switch `c.tarsClient = transport.NewTarsClient(…)` and how many test-and-set gates (`CompareAndSwap`,
`TryLock`, `Swap`) the function contains. -/
def treeVariant : Variant :=
  if 0 < Tars.Consts.adapterOnPushGates then .casGated
  else if Tars.Consts.adapterOnPushReconnectFirst = 1 ∧ Tars.Consts.adapterOnPushReturnsBeforeSwitch = 0
  then .reconnectFirst else .guardFirst

/-- a pushed packet (request id 0) as far as `onPush` looks at it -/
inductive Push
  | reconnect
  | data (payload : Nat)
deriving DecidableEq, Repr

structure Sent where
  id : Nat
  /-- generation of `c.tarsClient` the request was handed to -/
  gen : Nat
  /-- generations whose close notification the client had processed when `Send` was entered -/
  noticed : List Nat
deriving DecidableEq, Repr

structure State where
  /-- index of the current `c.tarsClient` -/
  gen : Nat := 0
  hasCallback : Bool := false
  /-- packets parsed by the receiver of generation `g` whose `Recv` goroutine has not run yet -/
  inbox : List (Nat × Push) := []
  /-- history: generations whose close notification has been handed to `onPush` -/
  noticed : List Nat := []
  /-- history: generations on whose connections the server has stopped reading -/
  stopped : List Nat := []
  /-- history: old clients handed to `GraceClose` -/
  graceClosing : List Nat := []
  /-- `onPush` handlers that have switched the client and are still inside `GraceClose` (the old
  generation each of them waits for) -/
  handlers : List Nat := []
  /-- history: payloads delivered to the push callback -/
  pushed : List Nat := []
  /-- history: every `AdapterProxy.Send` -/
  sends : List Sent := []
deriving DecidableEq, Repr

def init : State := {}

inductive Action
  | setCallback
  | pNotify (g : Nat)
  | pPush (g : Nat) (payload : Nat)
  | recv (i : Nat)
  | graceDone (j : Nat)
  | send (id : Nat)
deriving DecidableEq, Repr

/-- `AdapterProxy.onPush` for a packet that came in through the receiver of generation `g` -/
def onPush (v : Variant) (s : State) (g : Nat) (p : Push) : State :=
  let s := match p with
    | .reconnect => { s with noticed := s.noticed ++ [g] }
    | .data _ => s
  let body : State :=
    match p with
    | .reconnect => { s with gen := s.gen + 1, graceClosing := s.graceClosing ++ [s.gen],
                             handlers := s.handlers ++ [s.gen] }
    | .data d => if s.hasCallback then { s with pushed := s.pushed ++ [d] } else s
  match v with
  | .reconnectFirst => body
  | .guardFirst => if s.hasCallback then body else s
  | .casGated =>
    match p with
    | .reconnect => if s.handlers.isEmpty then body else s
    | .data _ => body

def step (v : Variant) (s : State) : Action → Option State
  | .setCallback => some { s with hasCallback := true }
  | .pNotify g =>
    if g ≤ s.gen ∧ !s.stopped.contains g then
      some { s with stopped := s.stopped ++ [g], inbox := s.inbox ++ [(g, .reconnect)] }
    else none
  | .pPush g d =>
    if g ≤ s.gen ∧ !s.stopped.contains g then some { s with inbox := s.inbox ++ [(g, .data d)] } else none
  | .recv i =>
    match s.inbox[i]? with
    | some (g, p) => some (onPush v { s with inbox := s.inbox.eraseIdx i } g p)
    | none => none
  | .graceDone j => if j < s.handlers.length then some { s with handlers := s.handlers.eraseIdx j } else none
  | .send id => some { s with sends := s.sends ++ [⟨id, s.gen, s.noticed⟩] }

def runFrom (v : Variant) (s : State) : List Action → Option State
  | [] => some s
  | a :: as =>
    match step v s a with
    | none => none
    | some s' => runFrom v s' as

def run (v : Variant) (acts : List Action) : Option State := runFrom v init acts

end Tars.AdapterPush
