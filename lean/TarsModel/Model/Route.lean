/-
  Model of the client call path of TarsGo (C08, C09) as a labelled transition system. Core Lean only.

  Go sources mirrored (statement order kept; one LTS action = one atomic shared-memory or channel
  operation of one goroutine, local computation is merged into the adjacent atomic operation):

  * `ServantProxy.genRequestID` (tars/servant.go)
        atomic.CompareAndSwapInt32(&msgID, maxInt32, 1)          -- pc `genCas`  (action `cas`)
        for { if v := atomic.AddInt32(&msgID, 1); v != 0 {       -- pc `genAdd`  (action `add`)
                  return v } }
    `msgID` is a process-wide int32; `AddInt32` wraps in two's complement.
  * `ServantProxy.TarsInvoke`
        IRequestId: s.genRequestID()                             -- `cas`, `add`
        (effective deadline: local, see Model/Call.lean)
        s.manager.preInvoke()        -- atomic.AddInt32(&e.invokeNum, 1)   pc `pre`    (action `pre`)
        err = s.doInvoke(ctx, msg, timeout)      (no client filters installed: assumption)
        s.manager.postInvoke()       -- atomic.AddInt32(&e.invokeNum, -1)  pc `post o` (action `post`)
  * `ServantProxy.doInvoke`
        adp, _ := s.manager.SelectAdapterProxy(msg); adp == nil → return error   pc `select` (`selectAdp none/some a`)
        if s.queueLen > ObjQueueMax → return error               -- pc `gate`   (action `gate`, a plain read)
        atomic.AddInt32(&s.queueLen, 1)                          -- pc `incQ`   (action `incQ`)
            (`s` is the ServantProxy the call was made on — `Params.proxy`; several ServantProxy objects
             of one object share the endpoint manager and its adapters, so calls of different proxies
             meet in the same pending-reply table; the deferred decrement is on the same receiver `s`:
             `Consts.callQueueLenDecSameReceiver`, re-extracted)
        readCh := make(chan *ResponsePacket)     (unbuffered: `Consts.callReplyChanCap = 0`)
        adp.resp.Store(msg.Req.IRequestId, readCh)               -- pc `store`  (action `store`)
        defer { atomic.AddInt32(&s.queueLen, -1)                 -- pc `decQ o` (action `decQ`)
                adp.resp.Delete(msg.Req.IRequestId) }            -- pc `del o`  (action `del`)
        adp.Send(req) → TarsClient.Send:
            ReConnect(): connLock.Lock(); if isClosed { dial } ; Unlock
                                                                 -- pc `lock`   (action `lockAcq`)
                                                                 -- pc `dial`   (`dialOk` / `dialFail`)
            select { <-timerC (only if WriteTimeout > 0) → error -- pc `enq`    (action `writeTimeout`)
                   | sendQueue <- msg }                          --             (action `enqueue`)
        error → return err (deferred cleanup runs)
        CPacketType == TARSONEWAY → return nil
        select { <-ctx.Done() → timeout error                    -- pc `wait`   (action `timeout`)
               | msg.Resp = <-readCh }                           --             (joint action `deliver r`)
  * `AdapterProxy.Recv` — one goroutine per received frame (`go c.client.protocol.Recv(pkg)`):
        ResponseUnpack error → return                            -- action `garbage`
        IRequestId == 0 → onPush; CPacketType == TARSONEWAY → return; chIF, ok := c.resp.Load(id)
                                                                 -- pc `decoded` (action `lookup`)
        select { ch <- packet                                    -- pc `offer i` (joint action `deliver r`)
               | <-rtimer.After(ReadTimeout) }                   --              (action `giveUp`)
  * peer / connection: `emit a p` (the peer sends ANY response packet on adapter a at ANY time),
    `drain a` (the sender goroutine takes the head of `sendQueue`), `connClose a`
    (`connection.close`: isClosed := true, by a read error, a framing error, the peer closing, idling).

  The channel of a call is identified with the call (index into `calls`): `make(chan …)` is fresh for
  every `doInvoke`.  Timers are unconstrained here (`timeout`, `writeTimeout`, `giveUp` may happen at
  any time they are armed); the timed refinement is `Model/Call.lean`.

  * `AdapterProxy.doKeepAlive` (a tick of `autoKeepAlive`, or `checkStatus` when keep-alive-interval > 0):
        if c.servantProxy.queueLen > ObjQueueMax { return }      -- a plain read; not modelled: the tick may be
                                                                 -- admitted whatever the counter is (over-approximation,
                                                                 -- the read races with doInvoke anyway)
        IRequestId: c.servantProxy.genRequestID()                -- actions `kaCas`, `kaAdd`
        atomic.AddInt32(&c.servantProxy.queueLen, 1)             -- action `kaTake p`
        defer { atomic.AddInt32(&c.servantProxy.queueLen, -1) }  -- action `kaRelease p`
        c.Send(msg.Req) …                                        -- (the one-way ping itself is not modelled)
    Every way out after the increment runs the deferred decrement (`Consts.callKeepAliveSlotReleased`,
    re-extracted): a tick in flight is an element of `kaHeld`.

  Not modelled (assumptions of checks/C08.json, C09.json): client filters; the push callback and the
  reconnect push (`onPush` replaces the transport client); the health counters (C15); `sendFailQueue`
  and re-sending (C11); panics inside `Recv` (recovered there).
-/
import TarsModel.Generated.Consts

namespace Tars.Route

/-! ## genRequestID -/

/-- `maxInt32` of servant.go (re-extracted) -/
abbrev maxInt32 : Int := Consts.callMaxInt32
abbrev minInt32 : Int := -maxInt32 - 1

/-- two's-complement result of an int32 addition that overflowed upwards by less than 2^32 -/
def wrap32 (x : Int) : Int := if x > maxInt32 then x - 2 * (maxInt32 + 1) else x

/-- `atomic.CompareAndSwapInt32(&msgID, maxInt32, 1)`: the new counter value -/
def casStep (ctr : Int) : Int := if ctr = maxInt32 then Consts.callCasNew else ctr

/-- `atomic.AddInt32(&msgID, 1)`: the new counter value, which is also the value returned -/
def addStep (ctr : Int) : Int := wrap32 (ctr + Consts.callAddDelta)

/-- `v != 0`: the value is returned as a request id -/
def issues (v : Int) : Bool := v != Consts.callZeroSkip

/-- the counter and (ghost) the ids returned so far, most recent first -/
structure Gen where
  ctr : Int
  issued : List Int
  deriving DecidableEq, Hashable, Repr

inductive GenAct
  | cas | add
  deriving DecidableEq, Repr

def Gen.cas (g : Gen) : Gen := { g with ctr := casStep g.ctr }

def Gen.add (g : Gen) : Gen :=
  let v := addStep g.ctr
  { ctr := v, issued := if issues v then v :: g.issued else g.issued }

def Gen.step (g : Gen) : GenAct → Gen
  | .cas => g.cas
  | .add => g.add

def Gen.run (g : Gen) : List GenAct → Gen
  | [] => g
  | a :: as => (g.step a).run as

/-- the loop of `genRequestID` executed by one goroutine without interference
    (fuel = loop iterations allowed; two suffice, see `Proofs/RouteGen.lean`) -/
def genLoop (g : Gen) : Nat → Gen × Option Int
  | 0 => (g, none)
  | k + 1 => let g' := g.add; if issues g'.ctr then (g', some g'.ctr) else genLoop g' k

/-- `genRequestID` executed by one goroutine without interference -/
def genSeq (g : Gen) (fuel : Nat) : Gen × Option Int := genLoop g.cas fuel

/-! ## packets, calls, receivers -/

/-- the property-relevant part of a `ResponsePacket` -/
structure Pkt where
  id : Int          -- IRequestId
  oneway : Bool     -- CPacketType == TARSONEWAY
  body : Nat        -- payload tag
  deriving DecidableEq, Hashable, Repr

inductive Outcome
  | reply (p : Pkt)   -- `msg.Resp = <-readCh` (whatever iRet says: error mapping is C01)
  | timeout           -- `<-ctx.Done()`
  | sendErr           -- `adp.Send` failed: dial error or "tars client write timeout"
  | noAdapter         -- `SelectAdapterProxy` returned nil
  | queueFull         -- `s.queueLen > ObjQueueMax`
  | onewayOk          -- one-way request enqueued
  deriving DecidableEq, Hashable, Repr

inductive Pc
  | idle | genCas | genAdd | pre | select | gate | incQ | store | lock | dial | enq | wait
  | decQ (o : Outcome) | del (o : Outcome) | post (o : Outcome) | done (o : Outcome)
  deriving DecidableEq, Hashable, Repr

/-- between `preInvoke` and `postInvoke` -/
def Pc.inInvoke : Pc → Bool
  | .select | .gate | .incQ | .store | .lock | .dial | .enq | .wait | .decQ _ | .del _ | .post _ => true
  | _ => false

/-- between `queueLen + 1` and the deferred `queueLen - 1` -/
def Pc.inQueue : Pc → Bool
  | .store | .lock | .dial | .enq | .wait | .decQ _ => true
  | _ => false

/-- between `resp.Store` and the deferred `resp.Delete` -/
def Pc.registered : Pc → Bool
  | .lock | .dial | .enq | .wait | .decQ _ | .del _ => true
  | _ => false

/-- `genRequestID` has returned -/
def Pc.hasId : Pc → Bool
  | .idle | .genCas | .genAdd => false
  | _ => true

/-- `resp.Store` has been executed -/
def Pc.stored : Pc → Bool
  | .lock | .dial | .enq | .wait | .decQ _ | .del _ | .post _ | .done _ => true
  | _ => false

/-- `msg.Adp` is set and will still be used (`adp.Send`, the deferred `adp.resp.Delete`) -/
def Pc.needsAdp : Pc → Bool
  | .gate | .incQ | .store | .lock | .dial | .enq | .wait | .decQ _ | .del _ => true
  | _ => false

/-- the outcome `doInvoke` is returning with -/
def Pc.outcome? : Pc → Option Outcome
  | .decQ o | .del o | .post o | .done o => some o
  | _ => none

/-- arguments of `TarsInvoke` / what the caller's context carries -/
structure Params where
  oneway : Bool                 -- cType == TARSONEWAY
  body : Nat                    -- payload tag
  ctxDeadline : Option Nat      -- `ctx.Deadline()` (absolute model time)
  callTimeout : Option Nat      -- `current.GetClientTimeout(ctx)`
  proxy : Nat                   -- which `ServantProxy` object (receiver `s`) makes the call; all proxies of the
                                -- object share the endpoint manager and its adapters, each has its own `queueLen`
  deriving DecidableEq, Hashable, Repr

structure Call where
  par : Params
  pc : Pc
  id : Int      -- msg.Req.IRequestId
  seq : Nat     -- ghost: number of ids issued before this one
  adp : Nat     -- adapter returned by SelectAdapterProxy
  deriving DecidableEq, Hashable, Repr

inductive RPc
  | decoded            -- ResponseUnpack succeeded
  | offer (i : Nat)    -- `Load` found the channel of call i; in the select
  | pushed | dropped | delivered
  deriving DecidableEq, Hashable, Repr

/-- a `Recv` goroutine -/
structure Rcv where
  adp : Nat
  pkt : Pkt
  pc : RPc
  deriving DecidableEq, Hashable, Repr

/-- the transport client of one adapter -/
structure Conn where
  closed : Bool       -- connection.isClosed
  locked : Bool       -- connLock held (by a dialling caller)
  sendQ : List Int    -- ids of the requests in sendQueue
  deriving DecidableEq, Hashable, Repr

/-- an entry of `AdapterProxy.resp` (per adapter; ids are process-wide) -/
structure Entry where
  adp : Nat
  id : Int
  call : Nat
  deriving DecidableEq, Hashable, Repr

structure Cfg where
  nAdp : Nat            -- adapters of the proxy's endpoint manager
  objQueueMax : Int     -- comm.Client.ObjQueueMax
  queueCap : Nat        -- cap(sendQueue) (effective: NewTarsClient replaces values ≤ 0 by 100)
  writeTimeout : Nat    -- conf.WriteTimeout (0 = no timer in Send)
  dialTimeout : Nat     -- conf.DialTimeout
  timeout : Nat         -- s.timeout
  deriving DecidableEq, Hashable, Repr

structure State where
  gen : Gen
  calls : List Call
  table : List Entry
  queueLens : List Int         -- `s.queueLen` of every ServantProxy object (index = `Params.proxy`)
  kaHeld : List Nat            -- keep-alive ticks between their `queueLen+1` and the deferred `queueLen-1` (their proxies)
  invokeNum : Int
  conns : List Conn
  rcvs : List Rcv
  emitted : List (Nat × Pkt)   -- ghost: everything the peers sent
  deriving DecidableEq, Hashable, Repr

def Entry.is (e : Entry) (a : Nat) (id : Int) : Bool := e.adp == a && e.id == id

/-- `sync.Map.Load` -/
def tLoad (t : List Entry) (a : Nat) (id : Int) : Option Nat :=
  match t.find? (fun e => e.is a id) with
  | some e => some e.call
  | none => none

/-- `sync.Map.Delete` -/
def tDelete (t : List Entry) (a : Nat) (id : Int) : List Entry := t.filter (fun e => !e.is a id)

/-- `sync.Map.Store` (replaces) -/
def tStore (t : List Entry) (a : Nat) (id : Int) (i : Nat) : List Entry := ⟨a, id, i⟩ :: tDelete t a id

/-- `s.queueLen` of proxy `p` (0 for a proxy that has not been created) -/
def qGet (l : List Int) (p : Nat) : Int := l[p]?.getD 0

/-- `atomic.AddInt32(&s.queueLen, d)` on proxy `p` -/
def qAdd (l : List Int) (p : Nat) (d : Int) : List Int := l.set p (qGet l p + d)

/-- make room for the counter of proxy `p` (a new `ServantProxy` starts with `queueLen = 0`) -/
def qPad (l : List Int) (p : Nat) : List Int := l ++ List.replicate (p + 1 - l.length) 0

def init (cfg : Cfg) (ctr : Int) : State :=
  { gen := ⟨ctr, []⟩, calls := [], table := [], queueLens := [], kaHeld := [], invokeNum := 0,
    conns := List.replicate cfg.nAdp ⟨true, false, []⟩, rcvs := [], emitted := [] }

inductive CallAct
  | begin | cas | add | pre | selectAdp (a : Option Nat) | gate | incQ | store
  | lockAcq | dialOk | dialFail | enqueue | writeTimeout | timeout | decQ | del | post
  deriving DecidableEq, Repr

inductive Action
  | spawn (par : Params)            -- a caller goroutine about to enter TarsInvoke
  | call (i : Nat) (a : CallAct)
  | emit (a : Nat) (p : Pkt)        -- the peer of adapter a sends a decodable response frame
  | garbage (a : Nat)               -- … an undecodable one (`ResponseUnpack` error)
  | lookup (r : Nat)
  | deliver (r : Nat)
  | giveUp (r : Nat)
  | drain (a : Nat)
  | connClose (a : Nat)
  | kaCas | kaAdd                   -- `genRequestID` executed by a keep-alive tick (`doKeepAlive`)
  | kaTake (p : Nat)                -- … its `atomic.AddInt32(&c.servantProxy.queueLen, 1)`
  | kaRelease (p : Nat)             -- … its deferred `atomic.AddInt32(&c.servantProxy.queueLen, -1)`
  deriving DecidableEq, Repr

def State.setCall (s : State) (i : Nat) (c : Call) : State := { s with calls := s.calls.set i c }
def State.setConn (s : State) (a : Nat) (k : Conn) : State := { s with conns := s.conns.set a k }
def State.setRcv (s : State) (r : Nat) (x : Rcv) : State := { s with rcvs := s.rcvs.set r x }

/-- one atomic step of the caller goroutine of call `i` (whose record is `c`) -/
def callStep (cfg : Cfg) (s : State) (i : Nat) (c : Call) : CallAct → Option State
  | .begin =>
    match c.pc with
    | .idle => some (s.setCall i { c with pc := .genCas })
    | _ => none
  | .cas =>
    match c.pc with
    | .genCas => some { s.setCall i { c with pc := .genAdd } with gen := s.gen.cas }
    | _ => none
  | .add =>
    match c.pc with
    | .genAdd =>
      let v := addStep s.gen.ctr
      if issues v then
        some { s.setCall i { c with pc := .pre, id := v, seq := s.gen.issued.length } with gen := s.gen.add }
      else some { s with gen := s.gen.add }
    | _ => none
  | .pre =>
    match c.pc with
    | .pre => some { s.setCall i { c with pc := .select } with invokeNum := s.invokeNum + Consts.callInvokeNumInc }
    | _ => none
  | .selectAdp none =>
    match c.pc with
    | .select => some (s.setCall i { c with pc := .post .noAdapter })
    | _ => none
  | .selectAdp (some a) =>
    match c.pc with
    | .select => if a < s.conns.length then some (s.setCall i { c with pc := .gate, adp := a }) else none
    | _ => none
  | .gate =>
    match c.pc with
    | .gate =>
      if qGet s.queueLens c.par.proxy > cfg.objQueueMax then some (s.setCall i { c with pc := .post .queueFull })
      else some (s.setCall i { c with pc := .incQ })
    | _ => none
  | .incQ =>
    match c.pc with
    | .incQ => some { s.setCall i { c with pc := .store } with queueLens := qAdd s.queueLens c.par.proxy Consts.callQueueLenInc }
    | _ => none
  | .store =>
    match c.pc with
    | .store => some { s.setCall i { c with pc := .lock } with table := tStore s.table c.adp c.id i }
    | _ => none
  | .lockAcq =>
    match c.pc, s.conns[c.adp]? with
    | .lock, some k =>
      if k.locked then none
      else if k.closed then some ((s.setCall i { c with pc := .dial }).setConn c.adp { k with locked := true })
      else some (s.setCall i { c with pc := .enq })
    | _, _ => none
  | .dialOk =>
    match c.pc, s.conns[c.adp]? with
    | .dial, some k => some ((s.setCall i { c with pc := .enq }).setConn c.adp { k with closed := false, locked := false })
    | _, _ => none
  | .dialFail =>
    match c.pc, s.conns[c.adp]? with
    | .dial, some k => some ((s.setCall i { c with pc := .decQ .sendErr }).setConn c.adp { k with locked := false })
    | _, _ => none
  | .enqueue =>
    match c.pc, s.conns[c.adp]? with
    | .enq, some k =>
      if k.sendQ.length < cfg.queueCap then
        some ((s.setCall i { c with pc := if c.par.oneway then .decQ .onewayOk else .wait }).setConn c.adp
                { k with sendQ := k.sendQ ++ [c.id] })
      else none
    | _, _ => none
  | .writeTimeout =>
    match c.pc with
    | .enq => if cfg.writeTimeout > 0 then some (s.setCall i { c with pc := .decQ .sendErr }) else none
    | _ => none
  | .timeout =>
    match c.pc with
    | .wait => some (s.setCall i { c with pc := .decQ .timeout })
    | _ => none
  | .decQ =>
    match c.pc with
    | .decQ o => some { s.setCall i { c with pc := .del o } with queueLens := qAdd s.queueLens c.par.proxy (-(Consts.callQueueLenInc : Int)) }
    | _ => none
  | .del =>
    match c.pc with
    | .del o => some { s.setCall i { c with pc := .post o } with table := tDelete s.table c.adp c.id }
    | _ => none
  | .post =>
    match c.pc with
    | .post o => some { s.setCall i { c with pc := .done o } with invokeNum := s.invokeNum - Consts.callInvokeNumInc }
    | _ => none

/-- `AdapterProxy.Recv` up to and including `c.resp.Load` -/
def lookupPc (t : List Entry) (a : Nat) (p : Pkt) : RPc :=
  if p.id = Consts.callPushId then .pushed
  else if p.oneway then .dropped
  else match tLoad t a p.id with
    | some i => .offer i
    | none => .dropped

def step (cfg : Cfg) (s : State) : Action → Option State
  | .spawn par => some { s with calls := s.calls ++ [⟨par, .idle, 0, 0, 0⟩], queueLens := qPad s.queueLens par.proxy }
  | .call i a =>
    match s.calls[i]? with
    | some c => callStep cfg s i c a
    | none => none
  | .emit a p =>
    if a < s.conns.length then
      some { s with rcvs := s.rcvs ++ [⟨a, p, .decoded⟩], emitted := (a, p) :: s.emitted }
    else none
  | .garbage a => if a < s.conns.length then some s else none
  | .lookup r =>
    match s.rcvs[r]? with
    | some x =>
      match x.pc with
      | .decoded => some (s.setRcv r { x with pc := lookupPc s.table x.adp x.pkt })
      | _ => none
    | none => none
  | .deliver r =>
    match s.rcvs[r]? with
    | some x =>
      match x.pc with
      | .offer i =>
        match s.calls[i]? with
        | some c =>
          match c.pc with
          | .wait => some ((s.setCall i { c with pc := .decQ (.reply x.pkt) }).setRcv r { x with pc := .delivered })
          | _ => none
        | none => none
      | _ => none
    | none => none
  | .giveUp r =>
    match s.rcvs[r]? with
    | some x =>
      match x.pc with
      | .offer _ => some (s.setRcv r { x with pc := .dropped })
      | _ => none
    | none => none
  | .drain a =>
    match s.conns[a]? with
    | some k =>
      match k.sendQ with
      | _ :: rest => some (s.setConn a { k with sendQ := rest })
      | [] => none
    | none => none
  | .connClose a =>
    match s.conns[a]? with
    | some k => if k.locked then none else some (s.setConn a { k with closed := true })
    | none => none
  | .kaCas => some { s with gen := s.gen.cas }
  | .kaAdd => some { s with gen := s.gen.add }
  | .kaTake p =>
    if p < s.queueLens.length then
      some { s with queueLens := qAdd s.queueLens p Consts.callQueueLenInc, kaHeld := p :: s.kaHeld }
    else none
  | .kaRelease p =>
    if p ∈ s.kaHeld then
      some { s with queueLens := qAdd s.queueLens p (-(Consts.callQueueLenInc : Int)), kaHeld := s.kaHeld.erase p }
    else none

/-- all schedules = all action lists -/
def run (cfg : Cfg) (s : State) : List Action → Option State
  | [] => some s
  | a :: as => match step cfg s a with
    | some s' => run cfg s' as
    | none => none

/-- reachable from an initial state with an arbitrary counter value -/
inductive Reachable (cfg : Cfg) (ctr : Int) : State → Prop
  | init : Reachable cfg ctr (init cfg ctr)
  | step {s s' : State} (a : Action) : Reachable cfg ctr s → step cfg s a = some s' → Reachable cfg ctr s'

end Tars.Route
