/-
  The end-to-end call path (C01): a tars2go-generated client proxy, `ServantProxy.TarsInvoke` /
  `doInvoke` (tars/servant.go), `TarsProtocol.RequestPack` / `ResponseUnpack`
  (tars/protocol/tarsprotocol.go), the byte stream of one TCP connection, `tcpHandler.handleConn`
  (tars/transport/tcphandler.go), `Protocol.Invoke` / `rsp2Byte` (tars/tarsprotocol.go), the
  generated `Dispatch` (genIFDispatch / genSwitchCase), `AdapterProxy.Recv` (tars/adapter.go) and
  the error values of tars/errors.go — as one composition of pure functions over the shared codec
  model (`Model/Schema.lean`) and the filter model (`Model/Filter.lean`).  Core Lean only.

  Not modelled (fixed by assumption, see Props/C01.lean): deadlines (no timeout fires), dyeing and
  tracing keys added to the status map, endpoint selection, statistics reporting, the TUP and JSON
  request versions (explicit outcome `notModelled`), servants registered without context
  (`withContext = false`: the implementation then has no access to request/response context at
  all).  A Go `map[string]string` is an association list; `nil` and empty maps are distinguished
  only where the code does (the caller's `opts` maps: `Option StrMap`).
-/
import TarsModel.Model.Schema
import TarsModel.Model.Frame
import TarsModel.Model.Filter

namespace Tars.CallPath
open Tars Consts Filter

/-! ## Which variant of the three repaired sites the current tree is (regenerated) -/

def variantOf (flag : Nat) : Variant := if flag = 1 then .repaired else .asFound

/-- D3: `Protocol.Invoke`, result variable of the post server filters -/
def currentPostFilter : Variant := variantOf cpFixPostFilterVar
/-- D19a: `doInvoke`, empty `SResultDesc` -/
def currentEmptyDesc : Variant := variantOf cpFixEmptyDescKeepsCode
/-- D19b: `Protocol.Invoke`, `*tars.Error` with the success code -/
def currentZeroCode : Variant := variantOf cpFixZeroCodeIsError
/-- D20: generated proxy, copy-back into a nil `opts` map -/
def currentNilMapGuard : Variant := variantOf cpFixNilMapGuard

/-! ## Error values (tars/errors.go) -/

/-- a non-nil Go `error` as the call path distinguishes them -/
inductive GoErr where
  /-- any error that is not a `*tars.Error` (`errors.New`, `fmt.Errorf`); `msg = err.Error()` -/
  | plain (msg : Bytes)
  /-- `&tars.Error{Code: code, Message: msg}` (`tars.Errorf`); `Error()` returns `msg` -/
  | tars (code : Int) (msg : Bytes)
deriving DecidableEq, Repr, Inhabited

/-- `err.Error()` -/
def GoErr.msg : GoErr → Bytes
  | .plain m => m
  | .tars _ m => m

/-- `tars.GetErrorCode(err)` (`none` is the nil error) -/
def getErrorCode : Option GoErr → Int
  | none => cpErrCodeNil
  | some (.plain _) => cpErrCodePlain
  | some (.tars c _) => c

/-- the bytes of an ASCII string -/
def ascii (s : String) : Bytes := s.toList.map fun c => byte c.toNat

/-- `fmt.Sprintf("basef error code %d", iret)` -/
def synthDesc (iret : Int) : Bytes := ascii ("basef error code " ++ toString iret)

/-- `Protocol.Invoke`, the `if err != nil` block: what goes into `(IRet, SResultDesc)` of the
    response for an error `e` returned through `Dispatch` and the filters:
    ```go
    rspPackage.IRet = 1
    rspPackage.SResultDesc = err.Error()
    if tarsErr, ok := err.(*Error); ok && tarsErr.Code != 0 { rspPackage.IRet = tarsErr.Code }
    ```
    (`asFound`: without the `&& tarsErr.Code != 0`, D19b) -/
def serverErr (v : Variant) (e : GoErr) : Int × Bytes :=
  match e with
  | .plain m => (cpPlainErrRet, m)
  | .tars code m =>
    match v with
    | .asFound => (code, m)
    | .repaired => if code ≠ cpSuccessCode then (code, m) else (cpPlainErrRet, m)

/-- `doInvoke`, the mapping of a received response to the returned error (`msg.Status` is
    `TARSSERVERSUCCESS` here: it changes only when the deadline fires):
    ```go
    if msg.Status != basef.TARSSERVERSUCCESS || msg.Resp.IRet != 0 {
        desc := msg.Resp.SResultDesc
        if desc == "" { desc = fmt.Sprintf("basef error code %d", msg.Resp.IRet) }
        if msg.Resp.IRet != 0 && msg.Resp.IRet != 1 { return &Error{Code: msg.Resp.IRet, Message: desc} }
        return errors.New(desc)
    }
    return nil
    ```
    (`asFound`: `if SResultDesc == "" { return fmt.Errorf("basef error code %d", IRet) }` came
    first, D19a) -/
def clientErr (v : Variant) (iret : Int) (desc : Bytes) : Option GoErr :=
  if iret ≠ cpOkRet then
    match v with
    | .asFound =>
      if desc = [] then some (.plain (synthDesc iret))
      else if iret ≠ cpCodeLo ∧ iret ≠ cpCodeHi then some (.tars iret desc)
      else some (.plain desc)
    | .repaired =>
      let d := if desc = [] then synthDesc iret else desc
      if iret ≠ cpCodeLo ∧ iret ≠ cpCodeHi then some (.tars iret d) else some (.plain d)
  else none

/-! ## Interface functions and their argument / response pseudo-schemas -/

structure Param where
  isOut : Bool
  ty    : Ty
deriving Repr, Inhabited

/-- one function of an IDL interface: parameters in declaration order, return type (`none` = void) -/
structure Sig where
  params : List Param
  ret    : Option Ty
deriving Repr, Inhabited

/-- `Tag: int32(k + 1)` -/
def argTag (k : Nat) : Nat := k + cpArgTagOffset

/-- the dummy member the generator builds for parameter `k`: required, no default -/
def argField (k : Nat) (p : Param) : Field := ⟨argTag k, true, p.ty, none⟩

/-- genIFProxyFun, request: every parameter (in AND out) is written, tag `k+1` -/
def reqFieldsFrom (k : Nat) : List Param → List Field
  | [] => []
  | p :: ps => argField k p :: reqFieldsFrom (k+1) ps

/-- genSwitchCase, TARS branch: only the in parameters are read, each at its tag `k+1` -/
def inFieldsFrom (k : Nat) : List Param → List Field
  | [] => []
  | p :: ps => if p.isOut then inFieldsFrom (k+1) ps else argField k p :: inFieldsFrom (k+1) ps

/-- genSwitchCase (write) / genIFProxyFun (read): the out parameters, each at its tag `k+1` -/
def outFieldsFrom (k : Nat) : List Param → List Field
  | [] => []
  | p :: ps => if p.isOut then argField k p :: outFieldsFrom (k+1) ps else outFieldsFrom (k+1) ps

def reqFields (sig : Sig) : List Field := reqFieldsFrom 0 sig.params
def inFields (sig : Sig) : List Field := inFieldsFrom 0 sig.params
def outFields (sig : Sig) : List Field := outFieldsFrom 0 sig.params

/-- the return value: `Tag: 0, Require: true` -/
def retFields (sig : Sig) : List Field :=
  match sig.ret with
  | some t => [⟨cpRetTag, true, t, none⟩]
  | none => []

/-- the response buffer: return value (if any) at tag 0, then the out parameters -/
def rspFields (sig : Sig) : List Field := retFields sig ++ outFields sig

/-- the values of the in parameters among the values of all parameters -/
def inVals : List Param → List Val → List Val
  | p :: ps, v :: vs => if p.isOut then inVals ps vs else v :: inVals ps vs
  | _, _ => []

/-- the values of the out parameters among the values of all parameters -/
def outVals : List Param → List Val → List Val
  | p :: ps, v :: vs => if p.isOut then v :: outVals ps vs else outVals ps vs
  | _, _ => []

/-- fuel for decoding an argument / response buffer (model artefact, cf. `decFuel`): the member
    list of a pseudo-schema is not bounded by `env.width`, but every member is required and so
    occupies at least one byte -/
def argFuel (env : Env) (r : Reader) : Nat := (env.width + 4) * (r.data.size + 2)

/-! ## The packets (tars/protocol/res/requestf/RequestF.go) as schema structs -/

abbrev StrMap := List (Bytes × Bytes)

def reqPacketName : String := "requestf.RequestPacket"
def rspPacketName : String := "requestf.ResponsePacket"

abbrev mapStrStr : Ty := .map .str .str

/-- members of `RequestPacket`: tags and require flags regenerated from the struct tags, types from
    the Go struct, explicit defaults = what `ResetDefault` assigns -/
def reqPacketFields : List Field := [
  ⟨cpReqTagIVersion,     cpReqReqIVersion = 1,     .i16,      none⟩,
  ⟨cpReqTagCPacketType,  cpReqReqCPacketType = 1,  .i8,       some (.int 0)⟩,
  ⟨cpReqTagIMessageType, cpReqReqIMessageType = 1, .i32,      some (.int 0)⟩,
  ⟨cpReqTagIRequestId,   cpReqReqIRequestId = 1,   .i32,      none⟩,
  ⟨cpReqTagSServantName, cpReqReqSServantName = 1, .str,      some (.str [])⟩,
  ⟨cpReqTagSFuncName,    cpReqReqSFuncName = 1,    .str,      some (.str [])⟩,
  ⟨cpReqTagSBuffer,      cpReqReqSBuffer = 1,      .vec .i8,  none⟩,
  ⟨cpReqTagITimeout,     cpReqReqITimeout = 1,     .i32,      some (.int 0)⟩,
  ⟨cpReqTagContext,      cpReqReqContext = 1,      mapStrStr, none⟩,
  ⟨cpReqTagStatus,       cpReqReqStatus = 1,       mapStrStr, none⟩]

/-- members of `ResponsePacket` -/
def rspPacketFields : List Field := [
  ⟨cpRspTagIVersion,     cpRspReqIVersion = 1,     .i16,      none⟩,
  ⟨cpRspTagCPacketType,  cpRspReqCPacketType = 1,  .i8,       some (.int 0)⟩,
  ⟨cpRspTagIRequestId,   cpRspReqIRequestId = 1,   .i32,      none⟩,
  ⟨cpRspTagIMessageType, cpRspReqIMessageType = 1, .i32,      some (.int 0)⟩,
  ⟨cpRspTagIRet,         cpRspReqIRet = 1,         .i32,      some (.int 0)⟩,
  ⟨cpRspTagSBuffer,      cpRspReqSBuffer = 1,      .vec .i8,  none⟩,
  ⟨cpRspTagStatus,       cpRspReqStatus = 1,       mapStrStr, none⟩,
  ⟨cpRspTagSResultDesc,  cpRspReqSResultDesc = 1,  .str,      none⟩,
  ⟨cpRspTagContext,      cpRspReqContext = 1,      mapStrStr, none⟩]

/-- the schema of package `requestf` -/
def packetEnv : Env := [(reqPacketName, reqPacketFields), (rspPacketName, rspPacketFields)]

structure ReqPacket where
  iVersion     : Int
  cPacketType  : Int
  iMessageType : Int
  iRequestId   : Int
  sServantName : Bytes
  sFuncName    : Bytes
  sBuffer      : Bytes     -- `[]int8`, kept as the bytes (`tools.Int8ToByte`)
  iTimeout     : Int
  context      : StrMap
  status       : StrMap
deriving Repr, Inhabited, DecidableEq

structure RspPacket where
  iVersion     : Int
  cPacketType  : Int
  iRequestId   : Int
  iMessageType : Int
  iRet         : Int
  sBuffer      : Bytes
  status       : StrMap
  sResultDesc  : Bytes
  context      : StrMap
deriving Repr, Inhabited, DecidableEq

/-- `requestf.ResponsePacket{}` / `new(requestf.ResponsePacket)` -/
def RspPacket.zero : RspPacket := ⟨0, 0, 0, 0, 0, [], [], [], []⟩

/-- `tools.ByteToInt8`: the `[]int8` value with the same bytes -/
def bufVal (bs : Bytes) : Val := .list (bytesToVals true bs)

/-- `tools.Int8ToByte` -/
def valBuf : Val → Option Bytes
  | .list vs => some (int8Bytes vs)
  | _ => none

def mapVal (m : StrMap) : Val := .map (m.map fun p => (Val.str p.1, Val.str p.2))

def valMapAux : List (Val × Val) → Option StrMap
  | [] => some []
  | (.str k, .str v) :: rest => (valMapAux rest).map fun m => (k, v) :: m
  | _ => none

def valMap : Val → Option StrMap
  | .map kvs => valMapAux kvs
  | _ => none

def ReqPacket.toVal (p : ReqPacket) : Val :=
  .struct [.int p.iVersion, .int p.cPacketType, .int p.iMessageType, .int p.iRequestId,
    .str p.sServantName, .str p.sFuncName, bufVal p.sBuffer, .int p.iTimeout,
    mapVal p.context, mapVal p.status]

def ReqPacket.ofVal : Val → Option ReqPacket
  | .struct [.int ver, .int pt, .int mt, .int id, .str sn, .str fn, buf, .int to, ctx, st] =>
    match valBuf buf, valMap ctx, valMap st with
    | some b, some c, some s => some ⟨ver, pt, mt, id, sn, fn, b, to, c, s⟩
    | _, _, _ => none
  | _ => none

def RspPacket.toVal (p : RspPacket) : Val :=
  .struct [.int p.iVersion, .int p.cPacketType, .int p.iRequestId, .int p.iMessageType,
    .int p.iRet, bufVal p.sBuffer, mapVal p.status, .str p.sResultDesc, mapVal p.context]

def RspPacket.ofVal : Val → Option RspPacket
  | .struct [.int ver, .int pt, .int id, .int mt, .int ret, buf, st, .str desc, ctx] =>
    match valBuf buf, valMap st, valMap ctx with
    | some b, some s, some c => some ⟨ver, pt, id, mt, ret, b, s, desc, c⟩
    | _, _, _ => none
  | _ => none

/-! ## Framing: 4-byte big-endian length, header included -/

/-- `binary.BigEndian.PutUint32(bs, uint32(x))` on a slice of at least four bytes -/
def putUint32 (bs : Bytes) (x : Nat) : Bytes := be 4 x ++ bs.drop 4

/-- `TarsProtocol.RequestPack`: `WriteSliceInt8(make([]int8, 4))`, `req.WriteTo`, then the total
    length into the first four bytes -/
def requestPack (p : ReqPacket) : Bytes :=
  let bs := zeros cpReqHeader ++ encStruct packetEnv reqPacketName p.toVal
  putUint32 bs bs.length

/-- `Protocol.rsp2Byte` for a response that is not TUP: `sbuf.Write(make([]byte, 4))`,
    `sbuf.Write(bs)`, length into the first four bytes -/
def rsp2Byte (p : RspPacket) : Bytes :=
  let bs := zeros cpRspHeader ++ encStruct packetEnv rspPacketName p.toVal
  putUint32 bs bs.length

/-- what a receive loop (`tcpHandler.recv` on the server, `connection.recv` on the client; C07) hands
    to its handler when the bytes `stream` have arrived on a fresh connection: the first package, if
    `TarsRequest` finds a full one -/
inductive Recv where
  | pkg (p : Bytes)     -- `PackageFull`: the handler gets `buf[:pkgLen]`
  | less                -- `PackageLess`: the loop keeps reading
  | error               -- `PackageError` (or a slice panic): the connection is closed
deriving Repr, DecidableEq

/-- the receive loop's reaction to the `(pkgLen, status)` answer of `ParsePackage` -/
def recvOf (stream : Bytes) : Frame.Parse → Recv
  | .ret n st =>
    if st = transportPackageFull then .pkg (stream.take n)
    else if st = transportPackageLess then .less
    else .error
  | .panic => .error

def recvFirst (maxLen : Int) (stream : Bytes) : Recv :=
  recvOf stream (Frame.tarsRequest maxLen stream)

/-! ## Events, implementation, results -/

/-- what is observable about one call besides its result -/
inductive Ev where
  /-- recorded by a registered (client or server) filter -/
  | filter (name : String)
  /-- the implementation of function `fn` ran, with these in-arguments, request context and request
      status -/
  | impl (fn : Bytes) (args : List Val) (ctx status : StrMap)
  /-- the server wrote this response frame to the connection -/
  | reply (frame : Bytes)
deriving Repr, Inhabited

/-- what a server-side implementation produces: the Go return value (`none` for a void function),
    the values it leaves in the out parameters (in order), the response context / status it set
    with `current.SetResponseContext` / `SetResponseStatus` (`none`: not set), and its error -/
structure ImplOut where
  ret       : Option Val
  outs      : List Val
  rspCtx    : Option StrMap
  rspStatus : Option StrMap
  err       : Option GoErr
deriving Repr, Inhabited

/-- an implementation: in-arguments, request context, request status ↦ what it produces
    (the out parameters it is handed are zero values) -/
abbrev Impl := List Val → StrMap → StrMap → ImplOut

structure Func where
  name : Bytes
  sig  : Sig
  impl : Impl

/-- the servant: what `Dispatch`'s `switch tarsReq.SFuncName` knows -/
abbrev Iface := List Func

def Iface.find (iface : Iface) (fn : Bytes) : Option Func := List.find? (fun f => f.name == fn) iface

/-- the error `Dispatch` (and so the server filter chain) returns -/
inductive SrvErr where
  /-- returned by the implementation -/
  | impl (e : GoErr)
  /-- `fmt.Errorf("func mismatch")` -/
  | funcMismatch
  /-- a codec error while reading the arguments (a plain error; its text is not modelled) -/
  | decode (e : Err)
  /-- `fmt.Errorf("decode reqpacket fail, error version: %d", …)` -/
  | version (v : Int)
  /-- the request version is not TARS (TUP, JSON, or — for a function without in parameters — any
      other number): outside this model -/
  | notModelled
  /-- the generated code panicked (`make` with a negative length, …): `Invoke`'s `CheckPanic`
      recovers, nothing is answered; what filters record while the panic unwinds is not modelled -/
  | panic (site : String)
deriving Repr, Inhabited

/-- `err.Error()` for the errors whose text the model knows -/
def SrvErr.toGo : SrvErr → GoErr
  | .impl e => e
  | .funcMismatch => .plain (ascii "func mismatch")
  | .decode _ => .plain (ascii "<codec error: text not modelled>")
  | .version v => .plain (ascii ("decode reqpacket fail, error version: " ++ toString v))
  | .notModelled => .plain []
  | .panic _ => .plain []

/-- the response packet the generated `Dispatch` builds after the implementation returned nil
    (TARS version): return value at tag 0 and out parameters at their tags in `SBuffer`, the
    response status / context the implementation set, everything else from the request or literal -/
def dispatchRsp (env : Env) (req : ReqPacket) (sig : Sig) (out : ImplOut) : RspPacket :=
  { iVersion := req.iVersion, cPacketType := cpDispatchPacketType,
    iRequestId := req.iRequestId, iMessageType := cpDispatchMessageType,
    iRet := cpDispatchRet,
    sBuffer := encMembers env (rspFields sig) (out.ret.toList ++ out.outs),
    status := out.rspStatus.getD [], sResultDesc := [], context := out.rspCtx.getD [] }

/-- genSwitchCase, reading the in parameters: `if inArgsCount > 0 { if tarsReq.IVersion ==
    basef.TARSVERSION { … } else if … }` into zero-valued variables -/
def dispatchArgs (env : Env) (req : ReqPacket) (sig : Sig) : Except SrvErr (List Val) :=
  let ins := inFields sig
  let olds := ins.map fun fl => zeroOf env fl.ty
  if ins.isEmpty then .ok []
  else if req.iVersion = cpTARSVERSION then
    let r := Reader.mk0 req.sBuffer
    match (decMembers env (argFuel env r) ins olds r).1 with
    | .ok vs => .ok vs
    | .error (.panic site) => .error (.panic site)
    | .error e => .error (.decode e)
  else if req.iVersion = cpTUPVERSION ∨ req.iVersion = cpJSONVERSION then .error .notModelled
  else .error (.version req.iVersion)

/-- the generated `Dispatch` (genIFDispatch + genSwitchCase) as a computation over `*tarsResp`:
    look the function up, read the in parameters, call the implementation, and — only if it
    returned nil — write return value and out parameters and build the response packet. -/
def dispatch (env : Env) (iface : Iface) (req : ReqPacket) : Comp Ev RspPacket (Option SrvErr) :=
  fun rsp =>
  match iface.find req.sFuncName with
  | none => ([], some .funcMismatch, rsp)
  | some f =>
    match dispatchArgs env req f.sig with
    | .error e => ([], some e, rsp)
    | .ok vs =>
      let out := f.impl vs req.context req.status
      let ev := [Ev.impl f.name vs req.context req.status]
      match out.err with
      | some e => (ev, some (.impl e), rsp)
      | none =>
        if req.iVersion = cpTARSVERSION then (ev, none, dispatchRsp env req f.sig out)
        else (ev, some .notModelled, rsp)

/-- registrations of filters on either side -/
abbrev ServerReg := Reg Ev RspPacket (Option SrvErr)

/-- the four sites that exist in an as-found and a repaired form -/
structure Variants where
  postFilter  : Variant := .repaired
  emptyDesc   : Variant := .repaired
  zeroCode    : Variant := .repaired
  nilMapGuard : Variant := .repaired

/-- the variants of the current tree -/
def currentVariants : Variants :=
  ⟨currentPostFilter, currentEmptyDesc, currentZeroCode, currentNilMapGuard⟩

/-- what `tcpHandler.handleConn` does with one package -/
inductive ServerRes where
  /-- `conn.Write(rsp)` -/
  | reply (frame : Bytes)
  /-- one-way request: `return` before the write -/
  | silent
  /-- `Invoke` panicked and recovered: `rsp` is nil, nothing is written -/
  | panicked (site : String)
  /-- outside the model: TUP/JSON, or a request packet that does not decode (`Invoke` ignores the
      error of `reqPackage.ReadFrom` and goes on with the partially read packet; C10) -/
  | notModelled (what : String)
deriving Repr, Inhabited

/-- `Protocol.Invoke` after the request packet has been read (servant registered with context, no
    deadline firing), `rsp2Byte`, then `handleConn`'s one-way test and the write -/
def serverCore (vs : Variants) (env : Env) (sreg : ServerReg) (iface : Iface) (req : ReqPacket) :
    List Ev × ServerRes :=
  -- `rspPackage.IVersion = reqPackage.IVersion; rspPackage.IRequestId = reqPackage.IRequestId`
  let rsp0 : RspPacket := { RspPacket.zero with iVersion := req.iVersion, iRequestId := req.iRequestId }
  let (tr, err, rsp1) :=
    if req.sFuncName ≠ ascii "tars_ping" then
      runServer vs.postFilter none sreg (dispatch env iface req) rsp0
    else ([], none, rsp0)
  match err with
  | some (.panic site) => (tr, .panicked site)
  | some .notModelled => (tr, .notModelled "request version is not TARS")
  | _ =>
    let rsp2 : RspPacket :=
      match err with
      | some e =>
        let (iret, desc) := serverErr vs.zeroCode e.toGo
        { rsp1 with iRet := iret, sResultDesc := desc }
      | none => rsp1
    -- `rspPackage.CPacketType = reqPackage.CPacketType`
    let rsp3 := { rsp2 with cPacketType := req.cPacketType }
    if rsp3.iVersion = (cpTUPVERSION : Int) then (tr, .notModelled "TUP response")
    else
      let frame := rsp2Byte rsp3
      -- handleConn: `if cPacketType == basef.TARSONEWAY { return }`
      if rsp3.cPacketType = (cpTARSONEWAY : Int) then (tr, .silent)
      else (tr ++ [Ev.reply frame], .reply frame)

/-- `tcpHandler.handleConn` → `TarsServer.invoke` → `Protocol.Invoke` on one package:
    `is := codec.NewReader(req[4:]); reqPackage.ReadFrom(is)`, then `serverCore` -/
def serverHandle (vs : Variants) (env : Env) (sreg : ServerReg) (iface : Iface) (pkg : Bytes) :
    List Ev × ServerRes :=
  if pkg.length < cpInvokeHeaderSkip then ([], .panicked "slice bounds")
  else
    let r := Reader.mk0 (pkg.drop cpInvokeHeaderSkip)
    match (decStruct packetEnv reqPacketName (freshStruct packetEnv reqPacketName) r).1 with
    | .error _ => ([], .notModelled "request packet does not decode")
    | .ok v =>
      match ReqPacket.ofVal v with
      | none => ([], .notModelled "model: ill-typed request packet")
      | some req => serverCore vs env sreg iface req

/-! ## Client side -/

/-- the proxy's servant: `s.version`, `s.name`, `s.timeout`, the id `genRequestID` hands out for this
    call, and the package length limits of both peers -/
structure Cfg where
  version   : Int := cpTARSVERSION
  servant   : Bytes
  timeout   : Int
  reqId     : Int
  maxLen    : Int := maxPackageLengthDefault
deriving Repr, Inhabited

/-- what `doInvoke` returns (everything but `nil` is a non-nil error for filters and caller) -/
inductive DoRes where
  | nil
  /-- the error made from the response (`clientErr`) -/
  | err (e : GoErr)
  /-- no response is delivered for this request: the call ends with the timeout error when the
      deadline fires (C09) -/
  | timeout (why : String)
  | notModelled (what : String)
deriving Repr, Inhabited

abbrev ClientReg := Reg Ev RspPacket DoRes

/-- `TarsInvoke`'s request packet (no dyeing, no trace: `msgType = 0`, status unchanged) -/
def mkRequest (cfg : Cfg) (cType : Int) (fn : Bytes) (buf : Bytes) (status ctx : Option StrMap) :
    ReqPacket :=
  { iVersion := cfg.version, cPacketType := cType, iMessageType := 0, iRequestId := cfg.reqId,
    sServantName := cfg.servant, sFuncName := fn, sBuffer := buf, iTimeout := cfg.timeout,
    context := ctx.getD [], status := status.getD [] }

/-- `AdapterProxy.Recv` for the package `pkg`, as seen by the call waiting for `reqId` -/
def clientRecv (reqId : Int) (pkg : Bytes) : Except String RspPacket :=
  if pkg.length < cpUnpackHeaderSkip then .error "recv panic: slice bounds"
  else
    let r := Reader.mk0 (pkg.drop cpUnpackHeaderSkip)
    match (decStruct packetEnv rspPacketName (freshStruct packetEnv rspPacketName) r).1 with
    | .error _ => .error "decode packet error"
    | .ok v =>
      match RspPacket.ofVal v with
      | none => .error "model: ill-typed response packet"
      | some p =>
        if p.iRequestId = 0 then .error "push message"
        else if p.cPacketType = cpTARSONEWAY then .error "one-way response dropped"
        else if p.iRequestId = reqId then .ok p
        else .error "response for another request"

/-- the waiting call got `msg.Resp = p`: the error mapping of `doInvoke` -/
def respToErr (tr : List Ev) (p : RspPacket) : Option GoErr → List Ev × DoRes × RspPacket
  | some e => (tr, .err e, p)
  | none => (tr, .nil, p)

/-- what `AdapterProxy.Recv` did with the package -/
def deliver (vs : Variants) (tr : List Ev) (resp : RspPacket) :
    Except String RspPacket → List Ev × DoRes × RspPacket
  | .error why => (tr, .timeout why, resp)
  | .ok p => respToErr tr p (clientErr vs.emptyDesc p.iRet p.sResultDesc)

/-- `doInvoke` once the client's receive loop has looked at the bytes the server wrote:
    `AdapterProxy.Recv` delivers the packet to the waiting call, which maps it to an error -/
def awaitReply (vs : Variants) (reqId : Int) (tr : List Ev) (resp : RspPacket) :
    Recv → List Ev × DoRes × RspPacket
  | .less => (tr, .timeout "client: incomplete package", resp)
  | .error => (tr, .timeout "client: package error, connection closed", resp)
  | .pkg rpkg => deliver vs tr resp (clientRecv reqId rpkg)

/-- `doInvoke` after `adp.Send`: a one-way call returns nil at once; otherwise the call waits for
    what the server does with the package -/
def afterServer (vs : Variants) (cfg : Cfg) (req : ReqPacket) (resp : RspPacket) :
    List Ev × ServerRes → List Ev × DoRes × RspPacket
  | (tr, sres) =>
    if req.cPacketType = cpTARSONEWAY then (tr, .nil, resp)
    else
      match sres with
      | .silent => (tr, .timeout "no response written", resp)
      | .panicked _ => (tr, .timeout "server panicked", resp)
      | .notModelled what => (tr, .notModelled what, resp)
      | .reply frame => awaitReply vs req.iRequestId tr resp (recvFirst cfg.maxLen frame)

/-- what the server's receive loop makes of the bytes of the request -/
def afterSend (vs : Variants) (env : Env) (cfg : Cfg) (sreg : ServerReg) (iface : Iface)
    (req : ReqPacket) (resp : RspPacket) : Recv → List Ev × DoRes × RspPacket
  | .less => ([], .timeout "server: incomplete package", resp)
  | .error => ([], .timeout "server: package error, connection closed", resp)
  | .pkg pkg => afterServer vs cfg req resp (serverHandle vs env sreg iface pkg)

/-- `ServantProxy.doInvoke` over one fresh TCP connection to a server running `serverHandle`:
    `adp.Send(msg.Req)` (`RequestPack`, the bytes reach the server's receive loop), one-way → nil at
    once; otherwise wait for the response (`msg.Resp`, the state of this computation) and map it
    to an error. The server's events are part of the trace. -/
def doInvoke (vs : Variants) (env : Env) (cfg : Cfg) (sreg : ServerReg) (iface : Iface)
    (req : ReqPacket) : Comp Ev RspPacket DoRes := fun resp =>
  afterSend vs env cfg sreg iface req resp (recvFirst cfg.maxLen (requestPack req))

/-- what the caller holds after the proxy function returned -/
structure CallerView where
  ret    : Option Val            -- the function result (`none` for a void function)
  outs   : List Val              -- the variables behind the out parameters, in order
  ctx    : Option StrMap         -- the map passed as `opts[0]` (`none`: nil map or not passed)
  status : Option StrMap         -- the map passed as `opts[1]`
deriving Repr, Inhabited

inductive Result where
  /-- the proxy function returned `err` (`none` = nil) -/
  | returned (err : Option GoErr) (view : CallerView)
  /-- it returned the codec error of its own decoding of the response buffer; how far the out
      variables were written is not modelled -/
  | decodeFailed (e : Err)
  /-- it panicked -/
  | panicked (site : String)
  /-- it returns the timeout error when the deadline fires (C09); the caller's variables are untouched -/
  | timeout (why : String)
  | notModelled (what : String)
deriving Repr, Inhabited

/-- the proxy's copy-back of a response map into a caller-supplied map:
    ```go
    for k := range contextMap { delete(contextMap, k) }
    for k, v := range tarsResp.Context { contextMap[k] = v }
    ```
    deleting from and ranging over a nil map is fine; assigning to one panics (D20) -/
def copyBack (target : Option StrMap) (src : StrMap) : Except String (Option StrMap) :=
  match target with
  | some _ => .ok (some src)
  | none => if src.isEmpty then .ok none else .error "assignment to entry in nil map"

/-- `var statusMap, contextMap map[string]string; if len(opts) == 1 {…} else if len(opts) == 2 {…}` -/
def optsMaps (opts : List (Option StrMap)) : Option StrMap × Option StrMap :=
  match opts with
  | [c] => (c, none)
  | [c, s] => (c, s)
  | _ => (none, none)

/-- the copy-back block of the generated proxy; returns what the caller's context / status maps hold
    afterwards.  `asFound` (D20):
    ```go
    if len(opts) == 1 { <contextMap := tarsResp.Context> }
    else if len(opts) == 2 { <contextMap := tarsResp.Context>; <statusMap := tarsResp.Status> }
    ```
    where `<m := src>` is `copyBack` (assigning into a nil map panics).  `repaired` (commit
    "generated proxies no longer panic when the caller passes a nil context or status map"):
    ```go
    if len(opts) >= 1 && contextMap != nil { <contextMap := tarsResp.Context> }
    if len(opts) == 2 && statusMap != nil { <statusMap := tarsResp.Status> }
    ```
    a nil map is left alone. -/
def copyBackAll (v : Variant) (opts : List (Option StrMap)) (rctx rst : StrMap) :
    Except String (Option StrMap × Option StrMap) :=
  match v with
  | .asFound =>
    match opts with
    | [c] =>
      match copyBack c rctx with
      | .error site => .error site
      | .ok c' => .ok (c', none)
    | [c, s] =>
      match copyBack c rctx with
      | .error site => .error site
      | .ok c' =>
        match copyBack s rst with
        | .error site => .error site
        | .ok s' => .ok (c', s')
    | _ => .ok (optsMaps opts)
  | .repaired =>
    let contextMap := (optsMaps opts).1
    let statusMap := (optsMaps opts).2
    let c' := if opts.length ≥ 1 ∧ contextMap.isSome then some rctx else contextMap
    let s' := if opts.length = 2 ∧ statusMap.isSome then some rst else statusMap
    .ok (c', s')

/-- the generated proxy after `TarsInvoke` returned nil (not one-way): read the return value (tag 0)
    and the out parameters (tag `k+1`) from `tarsResp.SBuffer` into `ret` and the caller's
    variables, then copy the response context / status back into the caller's maps -/
def proxyFinish (v : Variant) (env : Env) (sig : Sig) (args : List Val) (opts : List (Option StrMap))
    (resp : RspPacket) : Result :=
  let fs := rspFields sig
  let olds := (sig.ret.map (zeroOf env)).toList ++ outVals sig.params args
  let r := Reader.mk0 resp.sBuffer
  match (decMembers env (argFuel env r) fs olds r).1 with
  | .error (.panic site) => .panicked site
  | .error e => .decodeFailed e
  | .ok vals =>
    let ret := if sig.ret.isSome then vals.head? else none
    let outs := if sig.ret.isSome then vals.drop 1 else vals
    match copyBackAll v opts resp.context resp.status with
    | .error site => .panicked site
    | .ok (c, s) => .returned none ⟨ret, outs, c, s⟩

/-- the request packet the proxy function hands to the transport: every parameter (tag `k+1`) in
    the buffer, packet type 1 for the one-way variant, the maps of `opts` -/
def proxyRequest (env : Env) (cfg : Cfg) (fn : Bytes) (sig : Sig) (oneway : Bool) (args : List Val)
    (opts : List (Option StrMap)) : ReqPacket :=
  mkRequest cfg (if oneway then cpProxyOnewayType else cpProxyNormalType) fn
    (encMembers env (reqFields sig) args) (optsMaps opts).2 (optsMaps opts).1

/-- what the caller holds if the call changes nothing: zero return value, its variables, its maps -/
def view0 (env : Env) (sig : Sig) (args : List Val) (opts : List (Option StrMap)) : CallerView :=
  ⟨sig.ret.map (zeroOf env), outVals sig.params args, (optsMaps opts).1, (optsMaps opts).2⟩

/-- the generated proxy function after `TarsInvoke` returned `(err, *resp)` -/
def proxyAfter (v : Variant) (env : Env) (sig : Sig) (oneway : Bool) (args : List Val)
    (opts : List (Option StrMap)) : List Ev × DoRes × RspPacket → List Ev × Result
  | (tr, .err e, _) => (tr, .returned (some e) (view0 env sig args opts))
  | (tr, .timeout why, _) => (tr, .timeout why)
  | (tr, .notModelled what, _) => (tr, .notModelled what)
  | (tr, .nil, resp) =>
    -- `*resp = *msg.Resp`
    if oneway then (tr, .returned none (view0 env sig args opts))
    else (tr, proxyFinish v env sig args opts resp)

/-- A call through the generated proxy function `<fn>WithContext` (`oneway = false`) or
    `<fn>OneWayWithContext` (`oneway = true`) for the interface function `(fn, sig)`:
    `args` are the values of ALL parameters (for an out parameter: what the caller's variable holds
    before the call), `opts` the trailing `...map[string]string` arguments.
    Returns the event trace and what the caller gets. -/
def callWith (vs : Variants) (env : Env) (cfg : Cfg) (creg : ClientReg) (sreg : ServerReg)
    (iface : Iface) (fn : Bytes) (sig : Sig) (oneway : Bool) (args : List Val)
    (opts : List (Option StrMap)) : List Ev × Result :=
  proxyAfter vs.nilMapGuard env sig oneway args opts
    -- TarsInvoke: filters around doInvoke; `msg.Resp` starts as the proxy's `tarsResp`
    (runClient DoRes.nil creg
      (doInvoke vs env cfg sreg iface (proxyRequest env cfg fn sig oneway args opts)) RspPacket.zero)

/-- no filters registered on either side, current code -/
def call (env : Env) (cfg : Cfg) (iface : Iface) (fn : Bytes) (sig : Sig) (oneway : Bool)
    (args : List Val) (opts : List (Option StrMap)) : List Ev × Result :=
  callWith {} env cfg {} {} iface fn sig oneway args opts

end Tars.CallPath
