/-
  The generated `ResetDefault` AS FOUND at the pinned commit, before the repair
  "fix: ResetDefault resets every member" (defect D13): only members with an explicit default are
  assigned; every other member keeps its value (nested struct members are reset recursively).
  Kept only to state the D13 counterexamples; the current generator is modelled in `Schema.lean`.
  Core Lean only.
-/
import TarsModel.Model.Schema

namespace Tars.AsFound
open Tars

/-- as-found `ResetDefault()` -/
def resetDefault (env : Env) : Nat → List Field → List Val → List Val
  | 0, _, vs => vs
  | _, [], _ => []
  | _, _, [] => []
  | fuel+1, f :: fs, v :: vs =>
    let v1 := match f.ty, v with
      | .struct name, .struct inner =>
        match env.find name with
        | some ifs => Val.struct (resetDefault env fuel ifs inner)
        | none => v
      | _, _ => v
    let v2 := match f.dflt with
      | some d => d
      | none => v1
    v2 :: resetDefault env (fuel+1) fs vs
termination_by fuel fs _ => (fuel, fs.length)

/-- as-found `st.ReadFrom(readBuf)`: `ResetDefault` as found, then the member reads.  Faithful to
    the as-found generated code for structs without nested struct members (the `ReadBlock` of a
    nested struct member inside `decMembers` calls the current `ResetDefault`). -/
def decStruct (env : Env) (name : String) (old : Val) : RM Val := fun r =>
  match env.find name, old with
  | some fs, .struct ovs =>
    let fuel := decFuel env r
    match decMembers env fuel fs (AsFound.resetDefault env fuel fs ovs) r with
    | (.error er, r') => (.error er, r')
    | (.ok vs, r1) => (.ok (.struct vs), r1)
  | _, _ => (.error (.panic "model: ill-typed target"), r)

end Tars.AsFound
