/-
  Model of the trace-key parser of tars/util/trace/trace.go: `initType` (type and parameter limit
  out of a trace id `<type>[.<maxLen>]-<id>`), `SpanContext.Init` (the key
  `<traceID>|<parentSpan>[|<span>]`) and `getNeedParam`.  `Protocol.Invoke` runs them on the
  STATUS_TRACE_KEY entry of the status map of every request whose iMessageType has the trace bit,
  under `defer CheckPanic()` (a panic ends the process), so the only thing that matters for C05 is
  that no string makes them panic.  Go's slice expression `s[lo:hi]` is therefore an explicit
  partial operation (`slice`: `.panic` unless `lo ≤ hi ≤ len`).

  `strings.Index` / `strings.Split` with a one-byte separator are modelled literally on byte
  lists; `strconv.ParseInt(s, 16, 32)` / `strconv.ParseUint(s, 10, 32)` by what they accept
  (`none` = `err != nil`): optional sign (ParseInt only), a non-empty run of digits of the base,
  the value within the 32-bit range — validated by the correspondence stream of harness c05hdr.
  Core Lean only.
-/
import TarsModel.Model.Wire

namespace Tars.TraceKey
open Tars

def dash : Byte := byte 45
def dot : Byte := byte 46
def bar : Byte := byte 124

/-- Go `s[lo:hi]`: run-time panic unless `lo ≤ hi ≤ len(s)` -/
def slice (s : Bytes) (lo hi : Nat) : Except Err Bytes :=
  if lo ≤ hi ∧ hi ≤ s.length then .ok ((s.drop lo).take (hi - lo))
  else .error (.panic "slice bounds out of range")

/-- `strings.Index(s, string(c))` / `strings.IndexByte(s, c)`: `none` = -1 -/
def indexByte (c : Byte) : Bytes → Option Nat
  | [] => none
  | b :: bs => if b = c then some 0 else (indexByte c bs).map (· + 1)

/-- `strings.Split(s, string(c))`: never empty -/
def splitOn (c : Byte) : Bytes → List Bytes
  | [] => [[]]
  | b :: bs =>
    if b = c then [] :: splitOn c bs
    else
      match splitOn c bs with
      | p :: ps => (b :: p) :: ps
      | [] => [[b]]

/-- value of a digit of `strconv`'s alphabet (`0-9`, `a-z`, `A-Z`) -/
def digitVal (b : Byte) : Option Nat :=
  if 48 ≤ b.val ∧ b.val ≤ 57 then some (b.val - 48)
  else if 97 ≤ b.val ∧ b.val ≤ 122 then some (b.val - 97 + 10)
  else if 65 ≤ b.val ∧ b.val ≤ 90 then some (b.val - 65 + 10)
  else none

/-- digits of `base`, most significant first -/
def digitsVal (base : Nat) : Bytes → Nat → Option Nat
  | [], acc => some acc
  | b :: bs, acc =>
    match digitVal b with
    | some d => if d < base then digitsVal base bs (acc * base + d) else none
    | none => none

/-- `strconv.ParseUint(s, base, 32)` with an explicit base: `none` = an error -/
def parseUint32 (base : Nat) (s : Bytes) : Option Nat :=
  if s = [] then none
  else
    match digitsVal base s 0 with
    | some v => if v < 2 ^ 32 then some v else none
    | none => none

/-- `strconv.ParseInt(s, base, 32)` with an explicit base -/
def parseInt32 (base : Nat) (s : Bytes) : Option Int :=
  match s with
  | [] => none
  | c :: rest =>
    let neg := c = byte 45
    let body := if c = byte 43 ∨ c = byte 45 then rest else s
    if body = [] then none
    else
      match digitsVal base body 0 with
      | some v =>
        if neg then (if v ≤ 2 ^ 31 then some (-(v : Int)) else none)
        else (if v < 2 ^ 31 then some (v : Int) else none)
      | none => none

/-- `if typ < 0 || typ > 15 { typ = 0 }` -/
def clampType (t : Int) : Int := if t < Consts.traceTypeMin ∨ t > Consts.traceTypeMax then 0 else t

/-- `initType(tid)`; `dflt` is `GetTraceParamMaxLen()`.
    ```
    pos := strings.Index(tid, "-")
    if pos != -1 {
      flags := strings.Split(tid[:pos], ".")
      if len(flags) >= 1 { v, err := strconv.ParseInt(flags[0], 16, 32); if err == nil { typ = int(v) } }
      if len(flags) >= 2 { v, err := strconv.ParseUint(flags[1], 10, 32); if err == nil && maxLen < uint(v) { maxLen = uint(v) } }
    }
    ``` -/
def initType (dflt : Nat) (tid : Bytes) : Except Err (Int × Nat) :=
  match indexByte dash tid with
  | none => .ok (clampType 0, dflt)
  | some pos =>
    match slice tid 0 pos with
    | .error e => .error e
    | .ok pre =>
      let flags := splitOn dot pre
      let typ : Int := match flags[0]? with
        | some f => (parseInt32 16 f).getD 0
        | none => 0
      let maxLen : Nat := match flags[1]? with
        | some f => (match parseUint32 10 f with
          | some v => if dflt < v then v else dflt
          | none => dflt)
        | none => dflt
      .ok (clampType typ, maxLen)

/-- The rewrite of seeded change C05g ("cut the prefix in place"): the '.' is looked up in the
    WHOLE id, `flag, limit = tid[:dot], tid[dot+1:pos]`.  Kept as the counterexample the totality
    theorem is about. -/
def initTypeCut (dflt : Nat) (tid : Bytes) : Except Err (Int × Nat) :=
  match indexByte dash tid with
  | none => .ok (clampType 0, dflt)
  | some pos =>
    match slice tid 0 pos with
    | .error e => .error e
    | .ok flag0 =>
      let cut : Except Err (Bytes × Bytes) :=
        match indexByte dot tid with
        | none => .ok (flag0, [])
        | some d =>
          match slice tid 0 d, slice tid (d + 1) pos with
          | .ok a, .ok b => .ok (a, b)
          | .error e, _ => .error e
          | _, .error e => .error e
      match cut with
      | .error e => .error e
      | .ok (flag, limit) =>
        let typ : Int := (parseInt32 16 flag).getD 0
        let maxLen : Nat :=
          if limit = [] then dflt
          else match parseUint32 10 limit with
            | some v => if dflt < v then v else dflt
            | none => dflt
        .ok (clampType typ, maxLen)

/-- `SpanContext.Init(traceKey)`: `none` = the key has neither two nor three parts (`Reset`, false);
    otherwise the parsed type and limit of the trace id -/
def spanInit (dflt : Nat) (key : Bytes) : Except Err (Option (Int × Nat)) :=
  let parts := splitOn bar key
  if parts.length = 2 ∨ parts.length = 3 then
    match initType dflt (parts.headD []) with
    | .ok r => .ok (some r)
    | .error e => .error e
  else .ok none

/-- `getNeedParam(es, typ, len, maxLen)`: 0 = EnpNo, 1 = EnpNormal, 2 = EnpOverMaxLen -/
def getNeedParam (es : Nat) (typ : Int) (len maxLen : Nat) : Nat :=
  let es := if es = 9 then 1 else if es = 10 then 2 else es
  if (es &&& typ.toNat) = 0 then 0 else if len > maxLen * 1024 then 2 else 1

end Tars.TraceKey
