/-
  Instrumented variants of the decoders (C05): the same computations as `Model/Wire.lean` and
  `Model/Schema.lean`, returning in addition
    * `depth`: the Go call depth of the `skipField` recursion (skipField → skipFieldList /
      skipFieldMap / SkipToStructEnd → skipField → …), counted in `skipField` frames;
    * `Cost`: the allocation requested by the generated decoders (`make([]T, n)` elements, bytes
      of `[]int8`/`[]uint8`/strings, map entries) and the maximal nesting of not-yet-filled
      slices.  Every `make` happens after `CheckLength` (fix 040488e), as in the model.
    * `AsFound.vecMake`: the LIST head of `genReadVector` as found before that fix (no check).
  `Proofs/TotalCost.lean` (`skipD_eq`) and `Proofs/TotalAlloc.lean` (`decA_eq`, `decStructA_eq`) prove
  that the first component is exactly the original result.
  Core Lean only.
-/
import TarsModel.Model.Schema

namespace Tars
open Consts

/-! ## call depth of the skip family -/

mutual
/-- `skipField` with the depth of nested `skipField` frames (this frame included) -/
def skipFieldD : Nat → Nat → Reader → Res Unit × Nat
  | 0, _, r => ((.error .fuel, r), 0)
  | fuel+1, ty, r =>
    if ty = tyMAP then
      match readLen r with
      | (.error e, r') => ((.error e, r'), 1)
      | (.ok len, r1) =>
        let x := skipElemsD fuel (wrapS 32 (len * 2)) r1
        (x.1, x.2 + 1)
    else if ty = tyLIST then
      match readLen r with
      | (.error e, r') => ((.error e, r'), 1)
      | (.ok len, r1) =>
        let x := skipElemsD fuel len r1
        (x.1, x.2 + 1)
    else if ty = tyStructBegin then
      let x := skipToStructEndD fuel r
      (x.1, x.2 + 1)
    else
      -- the remaining wire types do not recurse
      (skipField 1 ty r, 1)

/-- element loop of `skipFieldList`/`skipFieldMap`: the deepest element -/
def skipElemsD : Nat → Int → Reader → Res Unit × Nat
  | 0, _, r => ((.error .fuel, r), 0)
  | fuel+1, n, r =>
    if n ≤ 0 then ((.ok (), r), 0)
    else
      match readHead r with
      | (.error e, r') => ((.error e, r'), 0)
      | (.ok (tyCur, _), r1) =>
        let x := skipFieldD fuel tyCur r1
        let y := skipElemsD fuel (n - 1) x.1.2
        (y.1, max x.2 y.2)

/-- `SkipToStructEnd`: the deepest field -/
def skipToStructEndD : Nat → Reader → Res Unit × Nat
  | 0, r => ((.error .fuel, r), 0)
  | fuel+1, r =>
    match readHead r with
    | (.error e, r') => ((.error e, r'), 0)
    | (.ok (ty, _), r1) =>
      let x := skipFieldD fuel ty r1
      match x.1 with
      | (.error e, r') => ((.error e, r'), x.2)
      | (.ok (), r2) =>
        if ty = tyStructEnd then ((.ok (), r2), x.2)
        else
          let y := skipToStructEndD fuel r2
          (y.1, max x.2 y.2)
end

/-- Go call depth (in `skipField` frames) of skipping one field of wire type `ty` -/
def skipDepth (ty : Nat) (r : Reader) : Nat := (skipFieldD r.fuel ty r).2

/-- Go call depth (in `skipField` frames) below one `SkipToStructEnd` call -/
def structEndDepth (r : Reader) : Nat := (skipToStructEndD r.fuel r).2

/-! ## allocation of the generated decoders -/

structure Cost where
  /-- elements requested from `make([]T, n)` + bytes of byte slices and strings + map entries -/
  alloc : Nat
  /-- maximal number of nested slices allocated but not yet completely filled -/
  nest  : Nat
deriving Repr, DecidableEq

namespace Cost
def zero : Cost := ⟨0, 0⟩
/-- two computations one after the other -/
def seq (a b : Cost) : Cost := ⟨a.alloc + b.alloc, max a.nest b.nest⟩
/-- `make([]T, n)`, then filling it at cost `c` -/
def make (n : Nat) (c : Cost) : Cost := ⟨n + c.alloc, c.nest + 1⟩
/-- a flat allocation of `n` bytes -/
def flat (n : Nat) : Cost := ⟨n, 1⟩
end Cost

/-- bytes of the Go string allocated by `ReadString`: only when the field was found and read -/
def strAlloc (tag : Nat) (req : Bool) (r : Reader) (x : Res Val) : Nat :=
  match skipToNoCheck tag req r, x with
  | (.ok (true, _), _), (.ok (.str s), _) => s.length
  | _, _ => 0

mutual
/-- `decVar` with allocation accounting -/
def decVarA (env : Env) : Nat → Nat → Bool → Ty → Val → Reader → Res Val × Cost
  | 0, _, _, _, _, r => ((.error .fuel, r), Cost.zero)
  | fuel+1, tag, req, ty, old, r =>
    match ty with
    | .vec e =>
      match skipToNoCheck tag req r with
      | (.error er, r') => ((.error er, r'), Cost.zero)
      | (.ok (have_, tyCur), r1) =>
        if !req && !have_ then ((.ok old, r1), Cost.zero)
        else if tyCur = tyLIST then
          match readLen r1 with
          | (.error er, r') => ((.error er, r'), Cost.zero)
          | (.ok len, r2) =>
            match checkLength len r2 with
            | (.error er, r') => ((.error er, r'), Cost.zero)
            | (.ok (), r3) =>
              -- x = make([]e, length), after CheckLength
              let x := decElemsA env fuel e len.toNat [] r3
              (x.1, Cost.make len.toNat x.2)
        else if tyCur = tySimpleList then
          if e = .i8 ∨ e = .u8 then
            match skipTo tyBYTE 0 true r1 with
            | (.error er, r') => ((.error er, r'), Cost.zero)
            | (.ok _, r2) =>
              match readLen r2 with
              | (.error er, r') => ((.error er, r'), Cost.zero)
              | (.ok len, r3) =>
                let oldBytes := match old with
                  | .list vs => int8Bytes vs
                  | _ => []
                -- ReadSliceInt8/Uint8: `make([]int8, len)` when `len > 0` and CheckLength passed
                let c := if len ≤ 0 then Cost.zero else
                  match checkLength len r3 with
                  | (.ok (), _) => Cost.flat len.toNat
                  | (.error _, _) => Cost.zero
                match readSlice8 oldBytes len r3 with
                | (.error er, r') => ((.error er, r'), c)
                | (.ok bs, r4) => ((.ok (.list (bytesToVals (e = .i8) bs)), r4), c)
          else ((.error .mismatch, r1), Cost.zero)
        else ((.error .mismatch, r1), Cost.zero)
    | .arr n e =>
      match skipToNoCheck tag req r with
      | (.error er, r') => ((.error er, r'), Cost.zero)
      | (.ok (have_, tyCur), r1) =>
        if !req && !have_ then ((.ok old, r1), Cost.zero)
        else if tyCur = tyLIST then
          match readLen r1 with
          | (.error er, r') => ((.error er, r'), Cost.zero)
          | (.ok len, r2) =>
            let oldVs := match old with
              | .list vs => vs
              | _ => []
            -- fixed array: no allocation of its own
            if len > (n : Int) then ((.error .mismatch, r2), Cost.zero)
            else decArrA env fuel e n 0 len oldVs r2
        else ((.error .mismatch, r1), Cost.zero)
    | .map k v =>
      match skipTo tyMAP tag req r with
      | (.error er, r') => ((.error er, r'), Cost.zero)
      | (.ok have_, r1) =>
        if !req && !have_ then ((.ok old, r1), Cost.zero)
        else
          match readLen r1 with
          | (.error er, r') => ((.error er, r'), Cost.zero)
          | (.ok len, r2) =>
            match checkLength len r2 with
            | (.error er, r') => ((.error er, r'), Cost.zero)
            | (.ok (), r3) => decPairsA env fuel k v len [] r3
    | .struct name =>
      match env.find name, old with
      | some fs, .struct ovs =>
        let o1 := resetDefault env fuel fs ovs
        match skipTo tyStructBegin tag req r with
        | (.error er, r') => ((.error er, r'), Cost.zero)
        | (.ok have_, r1) =>
          if !have_ then
            if req then ((.error .require, r1), Cost.zero) else ((.ok (.struct o1), r1), Cost.zero)
          else
            let x := decMembersA env fuel fs (resetDefault env fuel fs o1) r1
            match x.1 with
            | (.error er, r') => ((.error er, r'), x.2)
            | (.ok vs, r2) =>
              match skipToStructEnd r2.fuel r2 with
              | (.error er, r') => ((.error er, r'), x.2)
              | (.ok (), r3) => ((.ok (.struct vs), r3), x.2)
      | _, _ => ((.error (.panic "model: ill-typed target"), r), Cost.zero)
    | t =>
      let x := readScalar t old tag req r
      (x, ⟨strAlloc tag req r x, 0⟩)

def decElemsA (env : Env) : Nat → Ty → Nat → List Val → Reader → Res Val × Cost
  | 0, _, _, _, r => ((.error .fuel, r), Cost.zero)
  | fuel+1, e, n, acc, r =>
    match n with
    | 0 => ((.ok (.list acc.reverse), r), Cost.zero)
    | n'+1 =>
      let x := decVarA env fuel 0 true e (zeroOf env e) r
      match x.1 with
      | (.error er, r') => ((.error er, r'), x.2)
      | (.ok v, r1) =>
        let y := decElemsA env fuel e n' (v :: acc) r1
        (y.1, Cost.seq x.2 y.2)

def decArrA (env : Env) : Nat → Ty → Nat → Nat → Int → List Val → Reader → Res Val × Cost
  | 0, _, _, _, _, _, r => ((.error .fuel, r), Cost.zero)
  | fuel+1, e, n, i, len, cur, r =>
    if (i : Int) ≥ len then ((.ok (.list cur), r), Cost.zero)
    else if i ≥ n then (arrOverflow e r, Cost.zero)
    else
      let x := decVarA env fuel 0 true e (cur.getD i (zeroOf env e)) r
      match x.1 with
      | (.error er, r') => ((.error er, r'), x.2)
      | (.ok v, r1) =>
        let y := decArrA env fuel e n (i+1) len (listSet cur i v) r1
        (y.1, Cost.seq x.2 y.2)

def decPairsA (env : Env) : Nat → Ty → Ty → Int → List (Val × Val) → Reader → Res Val × Cost
  | 0, _, _, _, _, r => ((.error .fuel, r), Cost.zero)
  | fuel+1, k, v, len, acc, r =>
    if len ≤ 0 then ((.ok (.map acc), r), Cost.zero)
    else
      let x := decVarA env fuel 0 true k (zeroOf env k) r
      match x.1 with
      | (.error er, r') => ((.error er, r'), x.2)
      | (.ok a, r1) =>
        let y := decVarA env fuel 1 true v (zeroOf env v) r1
        match y.1 with
        | (.error er, r') => ((.error er, r'), Cost.seq x.2 y.2)
        | (.ok b, r2) =>
          -- m[k] = v : one map entry
          let z := decPairsA env fuel k v (len - 1) (mapInsert acc a b keyEq) r2
          (z.1, Cost.seq (Cost.seq x.2 y.2) (Cost.seq ⟨1, 0⟩ z.2))

def decMembersA (env : Env) : Nat → List Field → List Val → Reader → Res (List Val) × Cost
  | 0, _, _, r => ((.error .fuel, r), Cost.zero)
  | fuel+1, fs, olds, r =>
    match fs, olds with
    | f :: fs', o :: os =>
      let x := decVarA env fuel f.tag f.req f.ty o r
      match x.1 with
      | (.error er, r') => ((.error er, r'), x.2)
      | (.ok v, r1) =>
        let y := decMembersA env fuel fs' os r1
        match y.1 with
        | (.error er, r') => ((.error er, r'), Cost.seq x.2 y.2)
        | (.ok vs, r2) => ((.ok (v :: vs), r2), Cost.seq x.2 y.2)
    | _, _ => ((.ok [], r), Cost.zero)
end

/-- `decStruct` with allocation accounting -/
def decStructA (env : Env) (name : String) (old : Val) (r : Reader) : Res Val × Cost :=
  match env.find name, old with
  | some fs, .struct ovs =>
    let fuel := decFuel env r
    let x := decMembersA env fuel fs (resetDefault env fuel fs ovs) r
    match x.1 with
    | (.error er, r') => ((.error er, r'), x.2)
    | (.ok vs, r1) => ((.ok (.struct vs), r1), x.2)
  | _, _ => ((.error (.panic "model: ill-typed target"), r), Cost.zero)

/-! ## the vector head as found (before fix 040488e), for the D11 counterexamples -/

/-- `genReadVector`, LIST branch, AS FOUND: `ReadInt32(&length, 0, true)` directly followed by
    `make([]T, length)`: a negative length panics, any other length is requested from the
    allocator without looking at the input.  Returns the number of elements requested. -/
def AsFound.vecMake (tag : Nat) (req : Bool) : RM Nat := fun r =>
  match skipToNoCheck tag req r with
  | (.error er, r') => (.error er, r')
  | (.ok (_, tyCur), r1) =>
    if tyCur = tyLIST then
      match readLen r1 with
      | (.error er, r') => (.error er, r')
      | (.ok len, r2) =>
        if len < 0 then (.error (.panic "makeslice"), r2) else (.ok len.toNat, r2)
    else (.error .mismatch, r1)

/-- `genReadArray`, LIST branch, AS FOUND: the element loop was entered without comparing the
    announced length with the array size `n` -/
def AsFound.arrLoop (env : Env) (fuel : Nat) (e : Ty) (n : Nat) (old : List Val) : RM Val := fun r =>
  match readLen r with
  | (.error er, r') => (.error er, r')
  | (.ok len, r2) => decArr env fuel e n 0 len old r2

end Tars
