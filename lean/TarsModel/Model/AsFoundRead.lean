/-
  Two complete readers of codec.go AS FOUND (before the D8 repair), built from the as-found
  primitives of `WireAsFound.lean`; identical to `readInt16`/`readString` of `Wire.lean` except
  for the primitive used.  Only needed to state the D8 counterexamples at reader level.
-/
import TarsModel.Model.WireAsFound

namespace Tars.AsFound
open Tars Consts

/-- as-found `Reader.ReadInt16` -/
def readInt16 (old : Int) (tag : Nat) (require : Bool) : RM Int := fun r =>
  match skipToNoCheck tag require r with
  | (.error e, r') => (.error e, r')
  | (.ok (false, _), r1) => (.ok old, r1)
  | (.ok (true, ty), r1) =>
    if ty = tyZeroTag then (.ok 0, r1)
    else if ty = tyBYTE then mapRes (toS 8) (bReadU8 r1)
    else if ty = tySHORT then mapRes (toS 16) (AsFound.bReadU 2 r1)
    else (.error .mismatch, r1)

/-- as-found `Reader.ReadString` -/
def readString (old : Bytes) (tag : Nat) (require : Bool) : RM Bytes := fun r =>
  match skipToNoCheck tag require r with
  | (.error e, r') => (.error e, r')
  | (.ok (false, _), r1) => (.ok old, r1)
  | (.ok (true, ty), r1) =>
    if ty = tySTRING4 then
      match AsFound.bReadU 4 r1 with
      | (.error e, r') => (.error e, r')
      | (.ok l, r2) => readStringTail l r2
    else if ty = tySTRING1 then
      match bReadU8 r1 with
      | (.error e, r') => (.error e, r')
      | (.ok l, r2) => readStringTail l r2
    else (.error .mismatch, r1)

end Tars.AsFound
