/-
  Model of the goroutine pool `tars/util/gpool/gpool.go` (C19) as a labelled transition system.
  Core Lean only.

  One LTS action = one channel operation (or one call/return boundary) of one goroutine.
  Goroutines and their program counters, read off the Go source:

  * worker `w` (`Worker.Start`, N of them):
        for { w.WorkerQueue <- w                      -- pc `reg`     (action `wReg`)
              select { case job = <-w.JobChannel:     -- pc `wait`    (rendezvous `dGive`)
                           job()                      -- pc `got j` → `start` → pc `run j` → `fin`
                       case <-w.Stop:                 -- pc `wait`    (rendezvous `sSend`)
                           w.Stop <- struct{}{}       -- pc `stopAck` (rendezvous `sAck`)
                           return } }                 -- pc `dead`
  * dispatcher (`Pool.dispatch`, one):
        for { select { case job := <-p.JobQueue:      -- pc `sel`     (`dTake`, or rendezvous `subSend` when Q = 0)
                           worker := <-p.WorkerQueue  -- pc `hold j`  (`dPick`)
                           worker.JobChannel <- job   -- pc `give j w`(rendezvous `dGive`)
                       case <-p.stop:                 -- pc `sel`     (rendezvous `relSend`)
                           for i := 0; i < cap(p.WorkerQueue); i++ {
                               worker := <-p.WorkerQueue   -- pc `stop i`, i < N   (`sTake`)
                               worker.Stop <- struct{}{}   -- pc `stopSend i w`    (rendezvous `sSend`)
                               <-worker.Stop }             -- pc `stopWait i w`    (rendezvous `sAck`)
                           p.stop <- struct{}{}            -- pc `stop i`, ¬ i < N (rendezvous `dAck`)
                           return } }                      -- pc `done`
  * `Pool.Release` (called at most once, by one goroutine; see `RPc`):
        p.stop <- struct{}{}                          -- pc `called`  (rendezvous `relSend`)
        <-p.stop                                      -- pc `sent`    (rendezvous `dAck`)
                                                      -- pc `acked` → `relRet` → pc `returned`
  * submitters (any number of client goroutines): `pool.JobQueue <- job`
        `subCall j` (the client is about to send) → `subSend j` (the send completes) → `subRet j`.

  Channels: `JobQueue` buffered with capacity Q (Q = 0: unbuffered, the send is a rendezvous with the
  dispatcher's `select`), `WorkerQueue` buffered with capacity N, `JobChannel`, `Worker.Stop`,
  `Pool.stop` unbuffered (`Consts.poolJobChannelCap = poolWorkerStopCap = poolStopCap = 0`,
  re-extracted from the source on every run): a send and the matching receive are ONE joint action.
  `select` = nondeterministic choice among the enabled cases.

  Not modelled (assumptions, listed in checks/C19.json): job bodies return and do not panic, and do
  not themselves wait for the pool; `Release` is called at most once and not from inside a job.
-/
import TarsModel.Generated.Consts

namespace Tars.Pool

abbrev Job := Nat
abbrev Wid := Nat

/-- program counter of a worker goroutine (`Worker.Start`) -/
inductive WPc
  | reg            -- at `w.WorkerQueue <- w`
  | wait           -- registered, blocked in `select { <-w.JobChannel | <-w.Stop }`
  | got (j : Job)  -- received `j` on `JobChannel`, about to call `job()`
  | run (j : Job)  -- inside `job()`
  | stopAck        -- received on `w.Stop`, at `w.Stop <- struct{}{}`
  | dead           -- returned
  deriving DecidableEq, Hashable, Repr

/-- program counter of the dispatcher goroutine (`Pool.dispatch`) -/
inductive DPc
  | sel                          -- in the outer `select`
  | hold (j : Job)               -- at `worker := <-p.WorkerQueue` with `job = j`
  | give (j : Job) (w : Wid)     -- at `worker.JobChannel <- job`
  | stop (i : Nat)               -- stop loop head with loop variable `i`
  | stopSend (i : Nat) (w : Wid) -- at `worker.Stop <- struct{}{}`
  | stopWait (i : Nat) (w : Wid) -- at `<-worker.Stop`
  | done                         -- returned
  deriving DecidableEq, Hashable, Repr

/-- program counter of the (single) caller of `Pool.Release` -/
inductive RPc
  | idle      -- `Release` not called
  | called    -- at `p.stop <- struct{}{}`
  | sent      -- at `<-p.stop`
  | acked     -- received, about to return
  | returned
  deriving DecidableEq, Hashable, Repr

/-- pool parameters: `NewPool(n, q)` -/
structure Cfg where
  n : Nat
  q : Nat
  deriving DecidableEq, Repr

structure State where
  jobQ : List Job          -- contents of `p.JobQueue` (FIFO, head = oldest)
  idleQ : List Wid         -- contents of `p.WorkerQueue` (FIFO)
  ws : List WPc            -- worker goroutines
  d : DPc
  rel : RPc
  calling : List Job       -- submitters blocked in / about to do `JobQueue <- job`
  retq : List Job          -- sends that completed, submitter has not yet returned
  submitted : List Job     -- ghost: every job whose send completed
  done : List Job          -- ghost: every job whose `job()` returned (latest first)
  deriving DecidableEq, Hashable, Repr

/-- visible events (what an instrumented client can observe) -/
inductive Ev
  | call (j : Job)    -- a client is about to execute `pool.JobQueue <- job_j`
  | ret (j : Job)     -- that send statement returned
  | start (j : Job)   -- `job_j()` began (on some worker)
  | fin (j : Job)     -- `job_j()` returned
  | relCall           -- `Release()` called
  | relRet            -- `Release()` returned
  deriving DecidableEq, Hashable, Repr

inductive Action
  | subCall (j : Job)
  | subSend (j : Job)        -- `pool.JobQueue <- job` completes
  | subRet (j : Job)
  | wReg (w : Wid)           -- `w.WorkerQueue <- w`
  | dTake                    -- `job := <-p.JobQueue`
  | dPick                    -- `worker := <-p.WorkerQueue` (job branch)
  | dGive                    -- `worker.JobChannel <- job` ∥ `job = <-w.JobChannel`
  | start (w : Wid) (j : Job) -- worker `w` calls `job()`
  | fin (w : Wid) (j : Job)   -- `job()` returns on worker `w`
  | relCall
  | relSend                  -- `p.stop <- struct{}{}` (Release) ∥ `<-p.stop` (dispatcher select)
  | sTake                    -- `worker := <-p.WorkerQueue` (stop loop)
  | sSend                    -- `worker.Stop <- struct{}{}` ∥ `<-w.Stop` (worker select)
  | sAck                     -- `w.Stop <- struct{}{}` ∥ `<-worker.Stop`
  | dAck                     -- `p.stop <- struct{}{}` (dispatcher) ∥ `<-p.stop` (Release)
  | relRet
  deriving DecidableEq, Repr

/-- label of an action: `none` = internal (τ) -/
def Action.label : Action → Option Ev
  | .subCall j => some (.call j)
  | .subRet j => some (.ret j)
  | .start _ j => some (.start j)
  | .fin _ j => some (.fin j)
  | .relCall => some .relCall
  | .relRet => some .relRet
  | _ => none

/-- Environment actions: those by which the clients give the pool new work (a new submission
    begins or completes its send, `Release` is called). Every other action is a step of a pool
    goroutine, of a job body, or a return to a client. -/
def Action.isEnv : Action → Bool
  | .subCall _ | .subSend _ | .relCall => true
  | _ => false

def Action.isStart : Action → Bool
  | .start _ _ => true
  | _ => false

/-- outcome of `NewPool(numWorkers, jobQueueLen)`: `make(chan _, negative)` panics -/
inductive NewPoolErr
  | panicMakechan     -- "makechan: size out of range"
  deriving DecidableEq, Repr

/-- state right after `NewPool` returned: N worker goroutines and the dispatcher spawned, none has
    executed a channel operation yet -/
def init (cfg : Cfg) : State :=
  { jobQ := [], idleQ := [], ws := List.replicate cfg.n .reg, d := .sel, rel := .idle,
    calling := [], retq := [], submitted := [], done := [] }

/-- `NewPool`: both `make(chan Job, jobQueueLen)` and `make(chan *Worker, numWorkers)` panic on a
    negative size (the job queue is made first) -/
def newPool (numWorkers jobQueueLen : Int) : Except NewPoolErr (Cfg × State) :=
  if jobQueueLen < 0 then .error .panicMakechan
  else if numWorkers < 0 then .error .panicMakechan
  else
    let cfg : Cfg := { n := numWorkers.toNat, q := jobQueueLen.toNat }
    .ok (cfg, init cfg)

/-! ### the transition function, one definition per action -/

def stepSubCall (s : State) (j : Job) : Option State :=
  if j ∉ s.calling ∧ j ∉ s.submitted then some { s with calling := j :: s.calling } else none

/-- `pool.JobQueue <- job`: buffered channel with room → enqueue; unbuffered channel (Q = 0) →
    rendezvous with the dispatcher's `case job := <-p.JobQueue` -/
def stepSubSend (cfg : Cfg) (s : State) (j : Job) : Option State :=
  if j ∈ s.calling then
    if s.jobQ.length < cfg.q then
      some { s with calling := s.calling.filter (· != j), jobQ := s.jobQ ++ [j],
                    submitted := j :: s.submitted, retq := j :: s.retq }
    else if cfg.q = 0 ∧ s.d = .sel then
      some { s with calling := s.calling.filter (· != j), d := .hold j,
                    submitted := j :: s.submitted, retq := j :: s.retq }
    else none
  else none

def stepSubRet (s : State) (j : Job) : Option State :=
  if j ∈ s.retq then some { s with retq := s.retq.filter (· != j) } else none

/-- `w.WorkerQueue <- w` (buffered, capacity N: blocks when full) -/
def stepWReg (cfg : Cfg) (s : State) (w : Wid) : Option State :=
  if s.ws[w]? = some .reg ∧ s.idleQ.length < cfg.n then
    some { s with ws := s.ws.set w .wait, idleQ := s.idleQ ++ [w] }
  else none

def stepDTake (s : State) : Option State :=
  match s.d, s.jobQ with
  | .sel, j :: rest => some { s with d := .hold j, jobQ := rest }
  | _, _ => none

def stepDPick (s : State) : Option State :=
  match s.d, s.idleQ with
  | .hold j, w :: rest => some { s with d := .give j w, idleQ := rest }
  | _, _ => none

def stepDGive (s : State) : Option State :=
  match s.d with
  | .give j w =>
    if s.ws[w]? = some .wait then some { s with d := .sel, ws := s.ws.set w (.got j) } else none
  | _ => none

def stepStart (s : State) (w : Wid) (j : Job) : Option State :=
  if s.ws[w]? = some (.got j) then some { s with ws := s.ws.set w (.run j) } else none

def stepFin (s : State) (w : Wid) (j : Job) : Option State :=
  if s.ws[w]? = some (.run j) then some { s with ws := s.ws.set w .reg, done := j :: s.done } else none

def stepRelCall (s : State) : Option State :=
  if s.rel = .idle then some { s with rel := .called } else none

def stepRelSend (s : State) : Option State :=
  if s.rel = .called ∧ s.d = .sel then some { s with rel := .sent, d := .stop 0 } else none

def stepSTake (cfg : Cfg) (s : State) : Option State :=
  match s.d, s.idleQ with
  | .stop i, w :: rest =>
    if i < cfg.n then some { s with d := .stopSend i w, idleQ := rest } else none
  | _, _ => none

def stepSSend (s : State) : Option State :=
  match s.d with
  | .stopSend i w =>
    if s.ws[w]? = some .wait then some { s with d := .stopWait i w, ws := s.ws.set w .stopAck } else none
  | _ => none

def stepSAck (s : State) : Option State :=
  match s.d with
  | .stopWait i w =>
    if s.ws[w]? = some .stopAck then some { s with d := .stop (i + 1), ws := s.ws.set w .dead } else none
  | _ => none

def stepDAck (cfg : Cfg) (s : State) : Option State :=
  match s.d with
  | .stop i =>
    if ¬ i < cfg.n ∧ s.rel = .sent then some { s with d := .done, rel := .acked } else none
  | _ => none

def stepRelRet (s : State) : Option State :=
  if s.rel = .acked then some { s with rel := .returned } else none

/-- `step cfg s a = none` ⇔ action `a` is not enabled in `s` (the goroutine is blocked / not there) -/
def step (cfg : Cfg) (s : State) : Action → Option State
  | .subCall j => stepSubCall s j
  | .subSend j => stepSubSend cfg s j
  | .subRet j => stepSubRet s j
  | .wReg w => stepWReg cfg s w
  | .dTake => stepDTake s
  | .dPick => stepDPick s
  | .dGive => stepDGive s
  | .start w j => stepStart s w j
  | .fin w j => stepFin s w j
  | .relCall => stepRelCall s
  | .relSend => stepRelSend s
  | .sTake => stepSTake cfg s
  | .sSend => stepSSend s
  | .sAck => stepSAck s
  | .dAck => stepDAck cfg s
  | .relRet => stepRelRet s

/-- run a schedule (list of actions); `none` if some action is not enabled when its turn comes -/
def run (cfg : Cfg) : State → List Action → Option State
  | s, [] => some s
  | s, a :: as => match step cfg s a with
    | some s' => run cfg s' as
    | none => none

/-- the states reachable from `NewPool(n, q)` by any interleaving -/
inductive Reach (cfg : Cfg) : State → Prop
  | init : Reach cfg (init cfg)
  | step {s s' : State} (a : Action) : Reach cfg s → step cfg s a = some s' → Reach cfg s'

/-! ### observation functions used by the property statements -/

/-- jobs inside a worker (received or running) -/
def WPc.jobs : WPc → List Job
  | .got j => [j]
  | .run j => [j]
  | _ => []

/-- jobs whose body is executing -/
def WPc.running : WPc → List Job
  | .run j => [j]
  | _ => []

/-- jobs held by the dispatcher -/
def DPc.jobs : DPc → List Job
  | .hold j => [j]
  | .give j _ => [j]
  | _ => []

def workerJobs (s : State) : List Job := s.ws.flatMap WPc.jobs
def runningJobs (s : State) : List Job := s.ws.flatMap WPc.running

/-- number of places (queue, dispatcher, workers, done-list) in which job `j` currently is -/
def places (s : State) (j : Job) : Nat :=
  s.jobQ.count j + s.d.jobs.count j + (workerJobs s).count j + s.done.count j

/-- the channel capacities the synchronous-rendezvous actions rely on (regenerated from gpool.go) -/
def unbufferedOk : Bool :=
  Consts.poolJobChannelCap == 0 && Consts.poolWorkerStopCap == 0 && Consts.poolStopCap == 0

/-- The handlers that own a pool (`tcpHandler.Handle`, `udpHandler.Handle`) release it only after
    they have waited for their outstanding invocations — in execution order, deferred calls in
    reverse order of registration (constants regenerated from the handlers by the extractor; a
    handler that never releases its pool satisfies this vacuously). Releasing earlier loses the
    handlers still queued: `C19_release_loses_exactly_the_queued_jobs`. -/
def handlersReleaseAfterDrain : Bool :=
  Consts.poolTcpReleaseAfterDrain == 1 && Consts.poolUdpReleaseAfterDrain == 1

end Tars.Pool
