/-
  Model of the asynchronous log queue of `tars/util/rogger/logger.go` (property C20).
  Core Lean only (no Mathlib) so that the driver links.

  Go code mirrored (statement by statement; each LTS action is one channel / shared-memory
  operation of one goroutine):

  * `(*Logger).Writef`, `(*Logger).WriteLog`  — build the `logValue` and `logQueue <- v`
      `logCall e`  the call is entered with entry `e` (visible)
      `enq g`      the channel send of goroutine `g` completes; enabled iff the buffer is not full
                   (a send on a full buffered channel blocks)
      `logRet g`   the call returns (visible)
  * `flushLog` (the single background flusher, started from `init`)
        for {
          select {                                   -- pc `outer`
          case v := <-logQueue:  v.writer.Write(v.value)      `fOuterRecv`, then `fWrite`
          default:                                            `fOuterDefault` (only if queue empty)
            [verifYield]                             -- pc `inner`
            select {
            case v := <-logQueue: v.writer.Write(v.value)     `fInnerRecv`, then `fWrite`
            case <-syncDone.Done():                           `fInnerSync`   (either case when both ready)
              asyncCancel(); return                           `fAck`                       (as found)
              for { select { case v := <-logQueue: Write      `fDrainRecv`, `fWrite`       (repaired)
                             default: asyncCancel(); return } }  `fDrainDefault`, `fAck`
            }}}
  * `FlushLogger`
      `flushCall`     the call is entered (visible)
      `flushSync`     `syncCancel()`  — the flush request
      `flushDone`     returns through `<-asyncDone.Done()` (visible)
      `flushTimeout`  returns through `<-time.After(waitFlushTimeout)` (visible; the timer is an
                      environment action that may fire at any time after the request)

  The buffered channel is a bounded FIFO (`send` enabled iff not full, `recv` iff non-empty); a
  `select` chooses among its enabled cases, `default` only when none is enabled; a cancelled
  context is a flag that makes its receive case permanently enabled (DESIGN.md App. B).
  A direct hand-off of a send to a receiver parked in a `select` is `enq` followed by the recv.

  `Variant` selects the body of the `case <-syncDone.Done()` clause: `asFound` is the code of the
  snapshot, `repaired` the code after `pending/C20-fix-flush.patch`.

  Not modelled: a `Writef` call below the log level returns before the send and produces no entry;
  formatting of the line (`writeLine`/`writeJson`) — an entry is its final bytes; more than one
  `FlushLogger` call per flusher (`panic.go` and `application.go` call it once before exiting).
-/
import TarsModel.Generated.Consts

namespace Tars.Logger

inductive Variant
  | asFound
  | repaired
deriving DecidableEq, Repr

/-- Which variant the source tree is, as far as the extractor can see: `flushLog` receives from
`logQueue` at two places as found (outer and inner select) and at three with the drain loop.
The harness expects the real code to behave like this variant. -/
def treeVariant : Variant :=
  if Tars.Consts.loggerFlushLogRecvs ≤ 2 then .asFound else .repaired

/-- One log entry: the logging goroutine, the `LogWriter` of its `Logger`, the bytes of the line. -/
structure Entry where
  g : Nat
  w : Nat
  val : List Nat
deriving DecidableEq, Repr

/-- One call `writer.Write(data)` as seen by the writers. -/
structure WriteCall where
  w : Nat
  data : List Nat
deriving DecidableEq, Repr

/-- `v.writer.Write(v.value)`: the whole value, to the entry's own writer, in one call. -/
def Entry.call (e : Entry) : WriteCall := ⟨e.w, e.val⟩

/-- where `flushLog` continues after `v.writer.Write(v.value)` -/
inductive Ret
  | loop   -- back to the top of the `for`
  | drain  -- back to the drain loop (repaired variant only)
deriving DecidableEq, Repr

/-- program counter of the `flushLog` goroutine -/
inductive FPc
  | outer
  | inner
  | writing (e : Entry) (ret : Ret)
  | drain
  | ack
  | exited
deriving DecidableEq, Repr

/-- program counter of the (single) `FlushLogger` call; `returned true` = through `asyncDone` -/
inductive FlushPc
  | idle
  | called
  | waiting
  | returned (completed : Bool)
deriving DecidableEq, Repr

structure State where
  /-- log calls entered whose channel send has not completed -/
  inCall : List Entry := []
  /-- log calls whose send has completed and that have not returned yet -/
  sent : List Entry := []
  /-- buffer of `logQueue` -/
  queue : List Entry := []
  fpc : FPc := .outer
  /-- `syncDone` cancelled (flush requested) -/
  syncReq : Bool := false
  /-- `asyncDone` cancelled (completion signalled) -/
  asyncDone : Bool := false
  flush : FlushPc := .idle
  /-- observable: the `Write` calls made so far, in order -/
  writes : List WriteCall := []
  /-- history: entries in the order their logging calls were entered -/
  called : List Entry := []
  /-- history: entries in the order their sends completed -/
  logged : List Entry := []
  /-- history: the entry behind each `Write` call -/
  written : List Entry := []
  /-- history: entries whose logging call has returned -/
  returned : List Entry := []
  /-- history: `logged` at the moment of the flush request -/
  cutLogged : Option (List Entry) := none
  /-- history: `returned` at the moment of the flush request -/
  cutReturned : List Entry := []
deriving DecidableEq, Repr

def init : State := {}

inductive Action
  | logCall (e : Entry)
  | enq (g : Nat)
  | logRet (g : Nat)
  | fOuterRecv
  | fOuterDefault
  | fInnerRecv
  | fInnerSync
  | fWrite
  | fDrainRecv
  | fDrainDefault
  | fAck
  | flushCall
  | flushSync
  | flushDone
  | flushTimeout
deriving DecidableEq, Repr

/-- the entry the flusher has received and not yet written -/
def FPc.hand : FPc → List Entry
  | .writing e _ => [e]
  | _ => []

def FPc.draining : FPc → Bool
  | .writing _ .drain => true
  | .drain => true
  | _ => false

def busy (s : State) (g : Nat) : Bool :=
  s.inCall.any (fun e => e.g == g) || s.sent.any (fun e => e.g == g)

/-- One atomic step; `none` = the action is not enabled in this state. `cap` = `cap(logQueue)`. -/
def step (v : Variant) (cap : Nat) (s : State) : Action → Option State
  | .logCall e =>
    if busy s e.g then none else some { s with inCall := s.inCall ++ [e], called := s.called ++ [e] }
  | .enq g =>
    match s.inCall.find? (fun e => e.g == g) with
    | none => none
    | some e =>
      if s.queue.length < cap then
        some { s with inCall := s.inCall.erase e, sent := s.sent ++ [e],
                      queue := s.queue ++ [e], logged := s.logged ++ [e] }
      else none
  | .logRet g =>
    match s.sent.find? (fun e => e.g == g) with
    | none => none
    | some e => some { s with sent := s.sent.erase e, returned := s.returned ++ [e] }
  | .fOuterRecv =>
    match s.fpc, s.queue with
    | .outer, e :: q => some { s with fpc := .writing e .loop, queue := q }
    | _, _ => none
  | .fOuterDefault =>
    match s.fpc, s.queue with
    | .outer, [] => some { s with fpc := .inner }
    | _, _ => none
  | .fInnerRecv =>
    match s.fpc, s.queue with
    | .inner, e :: q => some { s with fpc := .writing e .loop, queue := q }
    | _, _ => none
  | .fInnerSync =>
    match s.fpc with
    | .inner =>
      if s.syncReq then
        some { s with fpc := match v with | .asFound => .ack | .repaired => .drain }
      else none
    | _ => none
  | .fWrite =>
    match s.fpc with
    | .writing e r =>
      some { s with fpc := match r with | .loop => .outer | .drain => .drain,
                    writes := s.writes ++ [e.call], written := s.written ++ [e] }
    | _ => none
  | .fDrainRecv =>
    match s.fpc, s.queue with
    | .drain, e :: q => some { s with fpc := .writing e .drain, queue := q }
    | _, _ => none
  | .fDrainDefault =>
    match s.fpc, s.queue with
    | .drain, [] => some { s with fpc := .ack }
    | _, _ => none
  | .fAck =>
    match s.fpc with
    | .ack => some { s with fpc := .exited, asyncDone := true }
    | _ => none
  | .flushCall =>
    match s.flush with
    | .idle => some { s with flush := .called }
    | _ => none
  | .flushSync =>
    match s.flush with
    | .called => some { s with flush := .waiting, syncReq := true,
                               cutLogged := some s.logged, cutReturned := s.returned }
    | _ => none
  | .flushDone =>
    match s.flush with
    | .waiting => if s.asyncDone then some { s with flush := .returned true } else none
    | _ => none
  | .flushTimeout =>
    match s.flush with
    | .waiting => some { s with flush := .returned false }
    | _ => none

/-- run a schedule (a list of actions) from `s`; `none` if some action was not enabled -/
def runFrom (v : Variant) (cap : Nat) (s : State) : List Action → Option State
  | [] => some s
  | a :: as =>
    match step v cap s a with
    | none => none
    | some s' => runFrom v cap s' as

def run (v : Variant) (cap : Nat) (acts : List Action) : Option State := runFrom v cap init acts

/-- the states reachable under any interleaving -/
inductive Reachable (v : Variant) (cap : Nat) : State → Prop
  | init : Reachable v cap init
  | step {s s' : State} (a : Action) : Reachable v cap s → step v cap s a = some s' → Reachable v cap s'

/-! ### Observed histories (`admits`)

What a harness can see of a run of the real code: entering / returning from a logging call,
each `Write` call with its argument, entering / returning from `FlushLogger`. Everything else is
internal (τ). `admits` decides, by a subset construction over the τ-steps, whether the LTS has a
run with exactly this visible history. -/

inductive Event
  | logCall (e : Entry)
  | logRet (e : Entry)
  | write (c : WriteCall)
  | flushCall
  | flushRet (completed : Bool)
deriving DecidableEq, Repr

/-- the visible step matching an observed event -/
def fire (v : Variant) (cap : Nat) (s : State) : Event → Option State
  | .logCall e => step v cap s (.logCall e)
  | .logRet e =>
    match s.sent.find? (fun x => x.g == e.g) with
    | some e' => if e' = e then step v cap s (.logRet e.g) else none
    | none => none
  | .write c =>
    match s.fpc with
    | .writing e _ => if e.call = c then step v cap s .fWrite else none
    | _ => none
  | .flushCall => step v cap s .flushCall
  | .flushRet true => step v cap s .flushDone
  | .flushRet false => step v cap s .flushTimeout

/-- internal (unobservable) actions -/
def Action.isTau : Action → Bool
  | .enq _ | .fOuterRecv | .fOuterDefault | .fInnerRecv | .fInnerSync | .fDrainRecv
  | .fDrainDefault | .fAck | .flushSync => true
  | _ => false

def tauActions (s : State) : List Action :=
  s.inCall.map (fun e => Action.enq e.g) ++
    [.fOuterRecv, .fOuterDefault, .fInnerRecv, .fInnerSync, .fDrainRecv, .fDrainDefault, .fAck, .flushSync]

/-- A guide restricts the search to runs whose sends complete in the given order (`none`: no
restriction). Restricting can only lose runs, never invent one. -/
abbrev Guide := Option (List Entry)

def allowed (guide : Guide) (s : State) : Action → Bool
  | .enq g =>
    match guide with
    | none => true
    | some l => s.inCall.find? (fun e => e.g == g) == l[s.logged.length]?
  | _ => true

def tauSucc (v : Variant) (cap : Nat) (guide : Guide) (s : State) : List State :=
  ((tauActions s).filter (allowed guide s)).filterMap (step v cap s)

/-- The part of the state that decides which actions are enabled now and later (guards of `step`
and of `allowed` read nothing else); the remaining fields only record history. Two states with
the same core have the same visible futures, so the search keeps one of them. -/
structure Core where
  inCall : List Entry
  sent : List Entry
  queue : List Entry
  fpc : FPc
  syncReq : Bool
  asyncDone : Bool
  flush : FlushPc
  nLogged : Nat
deriving DecidableEq

def State.core (s : State) : Core :=
  ⟨s.inCall, s.sent, s.queue, s.fpc, s.syncReq, s.asyncDone, s.flush, s.logged.length⟩

def known (seen : List State) (s : State) : Bool :=
  seen.any (fun x => decide (x.core = s.core))

def insertNew (seen : List State) (s : State) : List State :=
  if known seen s then seen else s :: seen

/-- breadth-first τ-closure. Every τ-step either completes a pending send or advances the flusher /
the flush call along a path without cycles (a `Write` is visible), so the depth is bounded by
the number of pending sends plus a constant; `fuel` is that bound. -/
def closure (v : Variant) (cap : Nat) (guide : Guide) : Nat → List State → List State → List State
  | 0, _, seen => seen
  | _ + 1, [], seen => seen
  | fuel + 1, frontier, seen =>
    let next := frontier.foldl (fun acc s => (tauSucc v cap guide s).foldl insertNew acc) []
    let fresh := next.filter (fun s => !known seen s)
    closure v cap guide fuel fresh (fresh ++ seen)

def closureOf (v : Variant) (cap : Nat) (guide : Guide) (ss : List State) : List State :=
  let fuel := ss.foldl (fun m s => max m s.inCall.length) 0 + 8
  closure v cap guide fuel ss ss

/-- `admitsFrom ss h i`: `.error (i, 0)` if no state of the current set can perform event `i`,
`.error (i, n)` if the state set grew to `n > limit` (nothing decided), otherwise the set of
states after the whole history and the size of the largest set met -/
def admitsFrom (v : Variant) (cap : Nat) (guide : Guide) (limit : Nat) :
    List State → List Event → Nat → Nat → Except (Nat × Nat) (List State × Nat)
  | ss, [], _, mx => .ok (ss, mx)
  | ss, ev :: rest, i, mx =>
    let cl := closureOf v cap guide ss
    if cl.length > limit then .error (i, cl.length)
    else
      let nxt := cl.foldl (fun acc s => match fire v cap s ev with
                                        | some s' => insertNew acc s'
                                        | none => acc) []
      if nxt.isEmpty then .error (i, 0)
      else admitsFrom v cap guide limit nxt rest (i + 1) (max mx cl.length)

/-- the entry of a `Write` call: the first entry among `pool` with that call -/
def takeCall (c : WriteCall) : List Entry → Option (Entry × List Entry)
  | [] => none
  | e :: es =>
    if e.call = c then some (e, es)
    else match takeCall c es with
      | some (x, rest) => some (x, e :: rest)
      | none => none

/-- entries behind the `Write` events of a history, in `Write` order -/
def writtenOf : List Event → List Entry → List Entry
  | [], _ => []
  | .logCall e :: h, pool => writtenOf h (pool ++ [e])
  | .write c :: h, pool =>
    match takeCall c pool with
    | some (e, rest) => e :: writtenOf h rest
    | none => writtenOf h pool
  | _ :: h, pool => writtenOf h pool

/-- entries of the `logRet` events of a history -/
def retsOf : List Event → List Entry
  | [] => []
  | .logRet e :: h => e :: retsOf h
  | _ :: h => retsOf h

/-- the `Write` calls of a history -/
def writesOf : List Event → List WriteCall
  | [] => []
  | .write c :: h => c :: writesOf h
  | _ :: h => writesOf h

/-- The send order suggested by a history: written entries in `Write` order (the queue is FIFO),
then the entries whose call returned without having been written, in return order. -/
def guideOf (h : List Event) : List Entry :=
  let w := writtenOf h []
  w ++ (retsOf h).filter (fun e => !w.contains e)

/-- The search the driver runs: first guided by `guideOf h` (small state sets), then — only if that
fails — unrestricted. The flag says whether the guided search succeeded. -/
def admitsSearch (v : Variant) (cap : Nat) (h : List Event) (limit : Nat) :
    Bool × Except (Nat × Nat) (List State × Nat) :=
  match admitsFrom v cap (some (guideOf h)) limit [init] h 0 1 with
  | .ok r => (true, .ok r)
  | .error _ => (false, admitsFrom v cap none limit [init] h 0 1)

/-- Does the LTS have a run whose visible history is exactly `h`? (`false` also when the
unrestricted search exceeded `limit` states: nothing decided.) -/
def admits (v : Variant) (cap : Nat) (h : List Event) (limit : Nat := 1000000) : Bool :=
  match (admitsSearch v cap h limit).2 with
  | .ok _ => true
  | .error _ => false

end Tars.Logger
