/-
  Specification vocabulary for C14 (no implementation content): what "the current endpoint set",
  "ring point", "clockwise successor", "no collision" and "history over a universe" mean.
  Everything here is defined without reference to the ring's data structures (`hashRing`,
  `sortedKeys`); the theorems of `Props/C14.lean` relate the model of the Go code to these.
-/
import TarsModel.Model.ConHash

namespace Tars.ConHash

variable {H : Type}

/-- hosts of a universe are pairwise distinct: an endpoint is determined by its `HashKey()` -/
def HostsInj (U : List (Ep H)) : Prop :=
  ∀ e1, e1 ∈ U → ∀ e2, e2 ∈ U → e1.host = e2.host → e1 = e2

/-- a history only mentions endpoints of the universe (in particular an endpoint is removed with
    the weight it was added with) -/
def OverU (U : List (Ep H)) (ops : List (Op H)) : Prop :=
  ∀ op, op ∈ ops → ∀ e, e ∈ op.eps → e ∈ U

/-- distinct hosts of the universe have disjoint ring points -/
def NoCollision (cfg : Cfg) (pts : H → Nat → List Nat) (U : List (Ep H)) : Prop :=
  ∀ e1, e1 ∈ U → ∀ e2, e2 ∈ U → e1.host ≠ e2.host → ∀ p, p ∈ ptsOf cfg pts e1 → p ∉ ptsOf cfg pts e2

/-- two distinct hosts claim the same ring point -/
def Collide (cfg : Cfg) (pts : H → Nat → List Nat) (e1 e2 : Ep H) (p : Nat) : Prop :=
  e1.host ≠ e2.host ∧ p ∈ ptsOf cfg pts e1 ∧ p ∈ ptsOf cfg pts e2

/-- the current endpoint set after one selector call, as a list of host keys in insertion order
    (pure bookkeeping: no ring involved).  `Refresh` installs the listed hosts (first occurrence
    wins), `Add` inserts unless present, `Remove` deletes. -/
def setStep [DecidableEq H] (s : List H) : Op H → List H
  | .refresh eps => eps.foldl (fun s e => if e.host ∈ s then s else s ++ [e.host]) []
  | .add ep => if ep.host ∈ s then s else s ++ [ep.host]
  | .remove ep => s.filter (fun h => h ≠ ep.host)

/-- the current endpoint set after a history -/
def setAfter [DecidableEq H] (s : List H) (ops : List (Op H)) : List H := ops.foldl setStep s

/-- `p` is a ring point of the set `S` of hosts: a point of some endpoint of the universe whose
    host is in `S` -/
def IsPoint (cfg : Cfg) (pts : H → Nat → List Nat) (U : List (Ep H)) (S : List H) (p : Nat) : Prop :=
  ∃ e, e ∈ U ∧ e.host ∈ S ∧ p ∈ ptsOf cfg pts e

/-- `p` is the clockwise successor of `k` among the points `P`: the least point `≥ k`, or, when
    there is none, the least point (wrap-around) -/
def IsSucc (P : Nat → Prop) (k p : Nat) : Prop :=
  P p ∧ ((k ≤ p ∧ ∀ q, P q → k ≤ q → p ≤ q) ∨ ((∀ q, P q → q < k) ∧ ∀ q, P q → p ≤ q))

/-- `e` is the endpoint the property prescribes for code `k` on the set `S`: the owner of the
    clockwise successor of `k` -/
def Owner (cfg : Cfg) (pts : H → Nat → List Nat) (U : List (Ep H)) (S : List H) (k : Nat) (e : Ep H) : Prop :=
  ∃ p, IsSucc (IsPoint cfg pts U S) k p ∧ e ∈ U ∧ e.host ∈ S ∧ p ∈ ptsOf cfg pts e

/-- two host lists denote the same set -/
def SameSet (s1 s2 : List H) : Prop := ∀ h, h ∈ s1 ↔ h ∈ s2

end Tars.ConHash
