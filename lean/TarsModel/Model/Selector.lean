/-
  The endpoint selectors as state machines (C13).

  Mirrors `/repo/tars/selector/roundrobin/round_robin.go`, `random/random.go`, `modhash/modhash.go`:
  `New, Select, Refresh, Add, addLocked, Remove, reBuildLocked`.  The three packages share the bodies of
  `Refresh/Add/addLocked/Remove` word for word (modulo the receiver name; `random.Add` inlines
  `addLocked`); they differ in `Select` and `reBuildLocked`.  One structure therefore carries the
  union of their fields and `kind` selects the package.  Every exported method runs under the
  selector's `sync.RWMutex` (updates exclusively; `Select` shared, with the round-robin cursor
  advanced by `atomic.AddUint64`), so an execution with concurrent selectors and updaters is a
  sequence of these atomic steps: "all interleavings" is "all `List Op`".

  Ownership: the state is a value — `refresh eps` stores (a de-duplicated copy of) the LIST `eps`, so
  in the model nothing the caller does to its slice afterwards can reach the selector.  That the Go
  code really copies (`make` + `append`) instead of keeping the caller's backing array (`eps[:0]`)
  cannot be stated about values; it is checked on the real code by the harness: every slice handed to
  `Refresh` has spare capacity and is overwritten / deleted from in place / appended to right after
  the call (and in the endpointmanager style: in-place delete from the caller's list, then `Remove`),
  for all four selectors; a selector that aliases the argument then returns a non-member
  (`C13:not-member:<selector>.Refresh-aliased`).

  The consistent-hash selector is not modelled here (ring placement belongs to C14); its C13 clauses
  are checked on the real code only.   Core Lean only.
-/
import TarsModel.Model.Weight

namespace Tars.Sel

inductive Kind
  | roundRobin
  | random
  | modHash
deriving DecidableEq, Repr

/-- `roundrobin.RoundRobin` / `random.Random` / `modhash.ModHash` -/
structure State where
  kind : Kind
  enableWeight : Bool
  /-- keys of `mapValues map[string]struct{}` (the hosts) -/
  mapValues : List (List Nat)
  endpoints : List Ep
  /-- `staticWeightRouterCache`; Go `nil` and the empty slice are both `[]` (only `len` is used) -/
  cache : List Nat
  /-- round robin only (uint64) -/
  lastPosition : Nat
  /-- round robin only (uint64) -/
  lastStaticWeightPosition : Nat
deriving DecidableEq, Repr

/-- `New(enableWeight)` -/
def State.new (k : Kind) (ew : Bool) : State :=
  { kind := k, enableWeight := ew, mapValues := [], endpoints := [], cache := [],
    lastPosition := 0, lastStaticWeightPosition := 0 }

/-- An atomic step. `r1 r2` are the two values `reBuildLocked` draws from its freshly seeded
`rand.Rand` (`rd.Intn(n)`, used modulo `n`); `select arg`: the value drawn by `random.Select`
(`r.rand.Intn(n)`), the message's `HashCode()` for mod-hash, unused by round robin. -/
inductive Op
  | refresh (eps : List Ep) (r1 r2 : Nat)
  | add (ep : Ep) (r1 r2 : Nat)
  | remove (ep : Ep) (r1 r2 : Nat)
  | select (arg : Nat)
deriving Repr

/-- What the caller observes. -/
inductive Res
  /-- `Refresh` returned / `Add`,`Remove` returned nil -/
  | done
  /-- an `error` was returned -/
  | err
  /-- a Go run-time panic left the method -/
  | panic (site : String)
  /-- `Select` returned this endpoint and a nil error -/
  | selected (ep : Ep)
deriving DecidableEq, Repr

def uint64Mod : Nat := 18446744073709551616
def uint32Mod : Nat := 4294967296

/-- `addLocked`: `none` is the "already exists" error. -/
def addLocked (s : State) (ep : Ep) : Option State :=
  if s.mapValues.contains ep.hashKey then none
  else some { s with endpoints := s.endpoints ++ [ep], mapValues := ep.hashKey :: s.mapValues }

/-- the loop of `Remove`: delete the first endpoint whose `HashKey()` equals the argument's -/
def removeFirst (h : List Nat) : List Ep → List Ep
  | [] => []
  | e :: es => if e.hashKey = h then es else e :: removeFirst h es

/-- `reBuildLocked`.  The assignments preceding the call of `BuildStaticWeightList` have taken
effect when that call panics: the state returned with `.panic` is what a caller that recovers
keeps using. -/
def reBuildLocked (v : Variant) (s : State) (r1 r2 : Nat) : State × Res :=
  let n := s.endpoints.length
  let s1 : State :=
    match s.kind with
    | .roundRobin =>
      { s with lastPosition := if n > 0 then r1 % n else 0, lastStaticWeightPosition := 0, cache := [] }
    | _ => { s with cache := [] }
  if s.enableWeight then
    match buildStaticWeightList v s1.endpoints with
    | .panic site => (s1, .panic site)
    | .nil => (s1, .done)
    | .ok _ l =>
      match s.kind with
      | .roundRobin =>
        ({ s1 with cache := l,
                   lastStaticWeightPosition := if l.length > 0 then r2 % l.length else 0 }, .done)
      | _ => ({ s1 with cache := l }, .done)
  else (s1, .done)

/-- `Refresh`: errors of `addLocked` (duplicate hosts) are ignored. -/
def refreshAdd (s : State) : List Ep → State
  | [] => s
  | e :: es => refreshAdd ((addLocked s e).getD s) es

/-- index expression `a[i]` on a Go slice: out of range is a run-time panic -/
def index {α : Type} (l : List α) (i : Nat) : Except String α :=
  match l[i]? with
  | some x => .ok x
  | none => .error "index out of range"

/-- `r.endpoints[cache[pos % len(cache)]]` -/
def pickCached (eps : List Ep) (l : List Nat) (pos : Nat) : Res :=
  match index l (pos % l.length) with
  | .error e => .panic e
  | .ok i =>
    match index eps i with
    | .error e => .panic e
    | .ok ep => .selected ep

/-- `r.endpoints[pos % len(r.endpoints)]` -/
def pickDirect (eps : List Ep) (pos : Nat) : Res :=
  match index eps (pos % eps.length) with
  | .error e => .panic e
  | .ok ep => .selected ep

/-- `Select` -/
def select (s : State) (arg : Nat) : State × Res :=
  if s.endpoints.length = 0 then (s, .err)
  else
    match s.kind with
    | .roundRobin =>
      if s.cache.length ≠ 0 then
        -- `idx := atomic.AddUint64(&r.lastStaticWeightPosition, 1)`
        let idx := (s.lastStaticWeightPosition + 1) % uint64Mod
        ({ s with lastStaticWeightPosition := idx }, pickCached s.endpoints s.cache idx)
      else
        let idx := (s.lastPosition + 1) % uint64Mod
        ({ s with lastPosition := idx }, pickDirect s.endpoints idx)
    | .random =>
      -- `rand.Intn(n)` returns a value in `[0, n)`: `arg` is used modulo `n`
      if s.cache.length ≠ 0 then (s, pickCached s.endpoints s.cache arg)
      else (s, pickDirect s.endpoints arg)
    | .modHash =>
      -- `hashCode % uint32(len(...))`, `hashCode` is a uint32
      let h := arg % uint32Mod
      if s.cache.length ≠ 0 then (s, pickCached s.endpoints s.cache h)
      else (s, pickDirect s.endpoints h)

/-- one atomic step of a selector -/
def step (v : Variant) (s : State) : Op → State × Res
  | .refresh eps r1 r2 =>
    reBuildLocked v (refreshAdd { s with mapValues := [], endpoints := [] } eps) r1 r2
  | .add ep r1 r2 =>
    match addLocked s ep with
    | none => (s, .err)
    | some s' => reBuildLocked v s' r1 r2
  | .remove ep r1 r2 =>
    if ¬ s.mapValues.contains ep.hashKey then (s, .err)
    else
      reBuildLocked v
        { s with mapValues := s.mapValues.erase ep.hashKey,
                 endpoints := removeFirst ep.hashKey s.endpoints } r1 r2
  | .select arg => select s arg

/-- run a history; the results are in order -/
def run (v : Variant) : State → List Op → State × List Res
  | s, [] => (s, [])
  | s, op :: ops =>
    let (s', r) := step v s op
    let (s'', rs) := run v s' ops
    (s'', r :: rs)

/-- the state after a history -/
def after (v : Variant) (s : State) (ops : List Op) : State := (run v s ops).1

end Tars.Sel
