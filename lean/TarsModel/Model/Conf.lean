/-
  Model of tars/util/conf/conf.go (property C17).  Core Lean only.

  Text is modelled as byte strings (`Txt = List (Fin 256)`): every operation of conf.go that looks
  at characters (`strings.Trim` with an ASCII cut set, `strings.SplitN(line, "=", 2)`,
  `line[0] == '#'`, `strings.Split(path, "/")`, `bufio.ScanLines`) works on single ASCII bytes, so
  the byte view is the literal one.

  Boundary of the model: `encoding/xml`'s tokenizer is NOT modelled.  `InitFromBytes` is modelled
  from the token stream on (`Stream` = the tokens `xmlDecoder.Token()` returned, followed by how
  the stream ended: `io.EOF` or a syntax error).  `tokens : Doc → List Token` states which token
  stream a grammar document has; the harness checks on every generated document that Go's
  `xml.Decoder` yields exactly that stream on `render d`, and feeds the real token stream of
  every malformed input to the model.

  Go's pointer structure (`nodeStack []*elem` aliasing nodes of the tree) is represented as a
  zipper: a stack of frames, each holding the *current* value of an open node and the key under
  which its parent holds it; `plug` writes every open node back into its parent.  While a node is
  open only the top of the stack is mutated, so the zipper is exact.

  `Variant.asFound` is conf.go as found (defects D7, D21): the error of `xmlDecoder.Token()` is
  discarded and `bufio.Scanner`'s 64 KiB token limit ends the line loop silently.
  `Variant.repaired` is conf.go with pending/C17-*.patch: a tokenizer error other than io.EOF is
  returned, the scanner buffer is `len(chardata)+1` and `Scanner.Err()` is returned.
-/
import TarsModel.Model.Bytes
import TarsModel.Generated.Consts

namespace Tars.Conf
open Tars

abbrev Txt := Bytes

/-! ## Characters (regenerated from conf.go where conf.go spells them) -/

/-- `whiteSpaceChars = " \n\t"` -/
def trimSet : Txt := [byte Consts.confTrim0, byte Consts.confTrim1, byte Consts.confTrim2]
/-- `line[0] == '#'` -/
def hashCh : Byte := byte Consts.confCommentChar
/-- separator of `strings.SplitN(line, "=", 2)` -/
def eqCh : Byte := byte Consts.confKvSep
/-- `strings.Split(path, "/")` -/
def slashCh : Byte := byte Consts.confPathSep
/-- `strings.Split(lastItem, "<")` -/
def ltCh : Byte := byte Consts.confPathOpen
/-- `strings.Trim(lastPair[1], ">")` -/
def gtCh : Byte := byte Consts.confPathClose
/-- line terminator of `bufio.ScanLines` (Go standard library) -/
def nlCh : Byte := byte 10
/-- `dropCR` of `bufio.ScanLines` (Go standard library) -/
def crCh : Byte := byte 13
/-- `bufio.MaxScanTokenSize` (Go standard library): default limit of a `bufio.Scanner` -/
def maxScanTokenSize : Nat := 64 * 1024

/-! ## `strings.Trim`, `bufio.Scanner` with `ScanLines` -/

/-- membership in a cut set (`asciiSet.contains`) -/
def inSet (cut : Txt) (b : Byte) : Bool := cut.contains b
/-- `strings.TrimLeft(s, cut)` for an ASCII cut set -/
def trimLeft (cut : Txt) (s : Txt) : Txt := s.dropWhile (inSet cut)
/-- `strings.TrimRight(s, cut)` for an ASCII cut set -/
def trimRight (cut : Txt) (s : Txt) : Txt := (s.reverse.dropWhile (inSet cut)).reverse
/-- `strings.Trim(s, cut)` = `trimLeftASCII(trimRightASCII(s))` -/
def trim (cut : Txt) (s : Txt) : Txt := trimLeft cut (trimRight cut s)

/-- the token `ScanLines` returns for a line whose bytes (without the terminator) are `cur`
    reversed: `dropCR` removes one trailing `\r` -/
def lineOfRev (cur : Txt) : Txt :=
  match cur with
  | [] => []
  | c :: r => if c = crCh then r.reverse else (c :: r).reverse

/-- `for lineDecoder.Scan() { … lineDecoder.Text() … }` over the reader's bytes, with a
    `bufio.Scanner` whose buffer may grow to `max` bytes.  `cur` = bytes of the line being read
    (reversed), `acc` = tokens so far (reversed).  Returns the tokens and whether the loop ended
    with `ErrTooLong`: a line of `max` or more bytes before its `\n` (or before the end) fills the
    buffer without a terminator.  At the end of the data a non-empty remainder is a final token. -/
def scanLines (max : Nat) : Txt → Txt → List Txt → List Txt × Bool
  | [], cur, acc =>
    if cur.isEmpty then (acc.reverse, false)
    else if max ≤ cur.length then (acc.reverse, true)
    else ((lineOfRev cur :: acc).reverse, false)
  | c :: cs, cur, acc =>
    if c = nlCh then
      if max ≤ cur.length then (acc.reverse, true)
      else scanLines max cs [] (lineOfRev cur :: acc)
    else scanLines max cs (c :: cur) acc

/-! ## `elem` -/

/-- `Node = iota`, `Leaf` -/
inductive Kind
  | node | leaf
  deriving DecidableEq, Repr

/-- `type elem struct { kind; name; value; children map[string]*elem; line []string }`.
    The map is an association list with unique keys (see `assocSet`); Go's iteration order over
    it is unspecified, so listings are compared as sets. -/
inductive Elem where
  | mk (kind : Kind) (name value : Txt) (children : List (Txt × Elem)) (line : List Txt)

/-- `m[k]` -/
def assocFind {α : Type} : List (Txt × α) → Txt → Option α
  | [], _ => none
  | (m, x) :: rest, n => if m = n then some x else assocFind rest n

/-- `m[k] = v`: replaces the binding of an existing key, otherwise adds one -/
def assocSet {α : Type} : List (Txt × α) → Txt → α → List (Txt × α)
  | [], n, e => [(n, e)]
  | (m, x) :: rest, n, e => if m = n then (n, e) :: rest else (m, x) :: assocSet rest n e

namespace Elem
def kind : Elem → Kind | mk k _ _ _ _ => k
def name : Elem → Txt | mk _ n _ _ _ => n
def value : Elem → Txt | mk _ _ v _ _ => v
def children : Elem → List (Txt × Elem) | mk _ _ _ c _ => c
def line : Elem → List Txt | mk _ _ _ _ l => l

/-- `elem.setValue` -/
def setValue : Elem → Txt → Elem | mk k n _ c l, v => mk k n v c l
/-- `elem.addChild` -/
def addChild : Elem → Txt → Elem → Elem | mk k n v c l, key, child => mk k n v (assocSet c key child) l
/-- `elem.addLine` -/
def addLine : Elem → Txt → Elem | mk k n v c l, ln => mk k n v c (l ++ [ln])
/-- `elem.findChild` -/
def findChild (e : Elem) (key : Txt) : Option Elem := assocFind e.children key
/-- `elem.isNode` / `elem.isLeaf` -/
def isNode (e : Elem) : Bool := e.kind = .node
def isLeaf (e : Elem) : Bool := e.kind = .leaf
end Elem

/-- `newElem(kind, name)` -/
def newElem (k : Kind) (n : Txt) : Elem := .mk k n [] [] []

/-- `leaf := newElem(Leaf, k); leaf.setValue(v)` -/
def newLeaf (k v : Txt) : Elem := (newElem .leaf k).setValue v

/-- name of the root element created by `New()` : `newElem(Node, "root")` -/
def rootName : Txt := [byte 114, byte 111, byte 111, byte 116]

/-- `New()`: the root of a fresh `Conf` -/
def newRoot : Elem := newElem .node rootName

/-! ## `InitFromBytes` -/

/-- the value of `kv := strings.SplitN(line, "=", 2)`, given the line from its first `=` on
    (empty when there is no `=`): `""` if `len(kv) == 1`, else `strings.Trim(kv[1], whiteSpaceChars)` -/
def valueOf (rest : Txt) : Txt :=
  match rest with
  | [] => []
  | _ :: after => trim trimSet after

/-- body of the `for lineDecoder.Scan()` loop for one scanned line `text`, applied to `currNode` -/
def procLine (text : Txt) (cur : Elem) : Elem :=
  let line := trim trimSet text
  match line with
  | [] => cur                                   -- `line == ""` → continue
  | c :: _ =>
    if c = hashCh then cur                      -- `line[0] == '#'` → continue
    else
      let cur := cur.addLine line               -- currNode.addLine(line)
      -- kv := strings.SplitN(line, "=", 2)
      let kv : Txt × Txt := (line.takeWhile (fun b => b != eqCh), line.dropWhile (fun b => b != eqCh))
      let k := trim trimSet kv.1
      if k.isEmpty then cur                     -- `k == ""` → continue
      else
        cur.addChild k (newLeaf k (valueOf kv.2))

/-- what `xmlDecoder.Token()` returns (only the parts `InitFromBytes` looks at);
    `other` = `xml.Comment`, `xml.ProcInst`, `xml.Directive` -/
inductive Token
  | start (name : Txt)      -- xml.StartElement, `t.Name.Local`
  | fin (name : Txt)        -- xml.EndElement, `t.Name.Local`
  | chardata (t : Txt)      -- xml.CharData
  | other

/-- the sequence of results of `xmlDecoder.Token()`: the tokens, then `(nil, io.EOF)`
    (`err = false`) or `(nil, syntax error)` (`err = true`) -/
structure Stream where
  toks : List Token
  err : Bool

inductive Variant
  | asFound | repaired
  deriving DecidableEq, Repr

/-- size limit of the line scanner's buffer for a chardata token `t`: the default of
    `bufio.NewScanner` as found, `lineDecoder.Buffer(nil, len(t)+1)` after the repair -/
def scanMax : Variant → Txt → Nat
  | .asFound, _ => maxScanTokenSize
  | .repaired, t => t.length + 1

inductive ErrKind
  | endMismatch     -- "xml end not match" (conf.go's own check)
  | tokenizer       -- error of xmlDecoder.Token() (repaired only)
  | lineTooLong     -- lineDecoder.Err() (repaired only; unreachable with the enlarged buffer)
  deriving DecidableEq, Repr

/-- one entry of `nodeStack`: the open node and the key under which its parent holds it -/
structure Frame where
  key : Txt
  node : Elem

/-- result of running the token loop -/
inductive Run
  | done (top : Frame) (rest : List Frame)     -- `token == nil` → break; the (non-empty) stack
  | error (e : ErrKind)           -- return err
  | panic                         -- `nodeStack[len(nodeStack)-1]` on an empty stack

/-- the `for { … }` loop of `InitFromBytes` over the remaining tokens -/
def run (v : Variant) : List Token → List Frame → Run
  | _, [] => .panic
  | [], cur :: rest => .done cur rest
  | t :: ts, cur :: rest =>
    match t with
    | .chardata text =>
      let sc := scanLines (scanMax v text) text [] []
      let node := sc.1.foldl (fun c l => procLine l c) cur.node
      if sc.2 && v = .repaired then .error .lineTooLong
      else run v ts ({ cur with node := node } :: rest)
    | .start n =>
      match cur.node.findChild n with
      | some child => run v ts (⟨n, child⟩ :: cur :: rest)
      | none =>
        let child := newElem .node n
        run v ts (⟨n, child⟩ :: { cur with node := cur.node.addChild n child } :: rest)
    | .fin n =>
      if cur.node.name ≠ n then .error .endMismatch
      else
        match rest with
        | [] => run v ts []
        | parent :: rest' => run v ts ({ parent with node := parent.node.addChild cur.key cur.node } :: rest')
    | .other => run v ts (cur :: rest)

/-- the tree reachable from `c.root` when the loop stops: every open node written back -/
def plug (f : Frame) : List Frame → Elem
  | [] => f.node
  | g :: rest => plug { g with node := g.node.addChild f.key f.node } rest

/-- result of `InitFromBytes` -/
inductive Outcome
  | ok (root : Elem)
  | error (e : ErrKind)
  | panic

/-- `Conf.InitFromBytes` on a `Conf` whose root is `root0`, from the token stream on -/
def initFrom (v : Variant) (root0 : Elem) (s : Stream) : Outcome :=
  match run v s.toks [⟨[], root0⟩] with
  | .panic => .panic
  | .error e => .error e
  | .done top rest =>
    if s.err && v = .repaired then .error .tokenizer
    else .ok (plug top rest)

/-- `New()` followed by `InitFromBytes` -/
def initFromTokens (v : Variant) (s : Stream) : Outcome := initFrom v newRoot s

/-- what Go's strict `xml.Decoder` guarantees about the tokens it returns (assumption, checked by
    the harness on every input): never an end element without an open start element; `depth` is
    the number of open elements -/
def wellNested : List Token → Nat → Bool
  | [], _ => true
  | .start _ :: ts, d => wellNested ts (d + 1)
  | .fin _ :: ts, d => match d with | 0 => false | d + 1 => wellNested ts d
  | .chardata _ :: ts, d => wellNested ts d
  | .other :: ts, d => wellNested ts d

/-! ## Paths and getters -/

/-- `strings.Split(s, sep)` for a one-byte separator, returned as (all items but the last, last
    item) — `pathVec[:len(pathVec)-1]`, `pathVec[len(pathVec)-1]`.  `cur` is the current item
    reversed, `acc` the finished items reversed. -/
def splitInitLast (sep : Byte) : Txt → Txt → List Txt → List Txt × Txt
  | [], cur, acc => (acc.reverse, cur.reverse)
  | c :: cs, cur, acc =>
    if c = sep then splitInitLast sep cs [] (cur.reverse :: acc)
    else splitInitLast sep cs (c :: cur) acc

/-- `elem.analysisPath` -/
def analysisPath (path : Txt) : List Txt :=
  let pv := splitInitLast slashCh path [] []
  let lastPair := splitInitLast ltCh pv.2 [] []
  let pathVec :=
    match lastPair.1 with
    | [first] => pv.1 ++ [first, trim [gtCh] lastPair.2]      -- len(lastPair) == 2
    | _ => pv.1 ++ [pv.2]
  pathVec.filter (fun item => !item.isEmpty)

/-- `elem.getElem` (`none` = "not find") -/
def getElem (e : Elem) : List Txt → Option Elem
  | [] => some e
  | item :: rest =>
    match e.findChild item with
    | none => none
    | some t => getElem t rest

/-- `elem.getDomain`: names of the `Node` children -/
def getDomainV (e : Elem) (p : List Txt) : Option (List Txt) :=
  (getElem e p).map fun t => (t.children.filter (fun c => c.2.isNode)).map (fun c => c.2.name)

/-- `elem.getDomainKey`: names of the `Leaf` children -/
def getDomainKeyV (e : Elem) (p : List Txt) : Option (List Txt) :=
  (getElem e p).map fun t => (t.children.filter (fun c => c.2.isLeaf)).map (fun c => c.2.name)

/-- `elem.getDomainLine` -/
def getDomainLineV (e : Elem) (p : List Txt) : Option (List Txt) :=
  (getElem e p).map fun t => t.line

/-- `elem.getMap`: `kvMap[child.name] = child.value` for the `Leaf` children -/
def getMapV (e : Elem) (p : List Txt) : Option (List (Txt × Txt)) :=
  (getElem e p).map fun t => (t.children.filter (fun c => c.2.isLeaf)).map (fun c => (c.2.name, c.2.value))

/-- `elem.getValue` -/
def getValueV (e : Elem) (p : List Txt) : Option Txt := (getElem e p).map Elem.value

/-- `Conf.GetDomain` (error → `[]string{}`) -/
def GetDomain (root : Elem) (path : Txt) : List Txt := (getDomainV root (analysisPath path)).getD []
/-- `Conf.GetDomainKey` -/
def GetDomainKey (root : Elem) (path : Txt) : List Txt := (getDomainKeyV root (analysisPath path)).getD []
/-- `Conf.GetDomainLine` -/
def GetDomainLine (root : Elem) (path : Txt) : List Txt := (getDomainLineV root (analysisPath path)).getD []
/-- `Conf.GetMap` (error → the empty map) -/
def GetMap (root : Elem) (path : Txt) : List (Txt × Txt) := (getMapV root (analysisPath path)).getD []

/-- `Conf.GetStringWithDef` -/
def GetStringWithDef (root : Elem) (path : Txt) (defVal : Txt) : Txt :=
  match getValueV root (analysisPath path) with
  | none => defVal
  | some v => v

/-- `Conf.GetString` -/
def GetString (root : Elem) (path : Txt) : Txt := GetStringWithDef root path []

/-- common shape of `GetIntWithDef`, `GetInt32WithDef`, `GetBoolWithDef`, `GetFloatWithDef`:
    `getValue` failed → default; `strconv` parse failed → default; else the parsed value -/
def getTypedWithDef {α : Type} (parse : Txt → Option α) (root : Elem) (path : Txt) (defVal : α) : α :=
  match getValueV root (analysisPath path) with
  | none => defVal
  | some v => match parse v with
    | none => defVal
    | some x => x

/-! ### `strconv` (the used subset) -/

/-- decimal digits only, at least one -/
def parseDigits : Txt → Option Nat → Option Nat
  | [], acc => acc
  | c :: cs, acc =>
    if 48 ≤ c.val ∧ c.val ≤ 57 then parseDigits cs (some (acc.getD 0 * 10 + (c.val - 48))) else none

/-- `strconv.ParseInt(s, 10, bits)` (and `strconv.Atoi` for `bits = 64`): optional sign, one or
    more decimal digits, value within the signed `bits`-bit range; anything else is an error -/
def parseIntBits (bits : Nat) (s : Txt) : Option Int :=
  let body : Txt × Bool :=
    match s with
    | c :: cs => if c.val = 45 then (cs, true) else if c.val = 43 then (cs, false) else (s, false)
    | [] => ([], false)
  match parseDigits body.1 none with
  | none => none
  | some n =>
    let v : Int := if body.2 then -(n : Int) else (n : Int)
    if -(2 : Int) ^ (bits - 1) ≤ v ∧ v < (2 : Int) ^ (bits - 1) then some v else none

/-- `strconv.ParseBool` -/
def parseBool (s : Txt) : Option Bool :=
  let t : List Nat := s.map (·.val)
  if t = [49] ∨ t = [116] ∨ t = [84] ∨ t = [84, 82, 85, 69] ∨ t = [116, 114, 117, 101] ∨ t = [84, 114, 117, 101] then some true
  else if t = [48] ∨ t = [102] ∨ t = [70] ∨ t = [70, 65, 76, 83, 69] ∨ t = [102, 97, 108, 115, 101] ∨ t = [70, 97, 108, 115, 101] then some false
  else none

/-- `Conf.GetIntWithDef` (`strconv.Atoi`, 64-bit `int`) -/
def GetIntWithDef (root : Elem) (path : Txt) (d : Int) : Int := getTypedWithDef (parseIntBits 64) root path d
/-- `Conf.GetInt` -/
def GetInt (root : Elem) (path : Txt) : Int := GetIntWithDef root path 0
/-- `Conf.GetInt32WithDef` -/
def GetInt32WithDef (root : Elem) (path : Txt) (d : Int) : Int := getTypedWithDef (parseIntBits 32) root path d
/-- `Conf.GetBoolWithDef` -/
def GetBoolWithDef (root : Elem) (path : Txt) (d : Bool) : Bool := getTypedWithDef parseBool root path d
/-- `Conf.GetFloatWithDef`; `strconv.ParseFloat(·, 64)` is a parameter of the model -/
def GetFloatWithDef {F : Type} (parseFloat : Txt → Option F) (root : Elem) (path : Txt) (d : F) : F :=
  getTypedWithDef parseFloat root path d

/-! ## The configuration grammar (DESIGN.md Appendix C) -/

/-- one line of text inside a domain (without its terminating `\n`) -/
inductive Line
  /-- `pre key mid [= ws value] post` -/
  | kv (pre key mid : Txt) (val : Option (Txt × Txt)) (post : Txt)
  /-- `pre # text` -/
  | comment (pre text : Txt)
  /-- blanks only -/
  | blank (ws : Txt)

/-- a run of text between two tags: complete lines, then an unterminated run of blanks (the
    indentation of the following tag, or the end of the document) -/
structure Text where
  lines : List Line
  tail : Txt

/-- `item := text | '<' name '>' item* '</' name '>'`.  Appendix C's `ws` before a tag is the
    `tail` of the preceding text, its `nl` after a tag an empty `blank` line of the following one. -/
inductive Item
  | text (t : Text)
  | dom (name : Txt) (body : List Item)

abbrev Doc := List Item

/-- blanks and tabs (Appendix C `ws`) -/
def blankSet : Txt := [byte 32, byte 9]
def isWs (t : Txt) : Bool := t.all (inSet blankSet)

/-- first and last byte are not in `cut` (vacuous for the empty text) -/
def noEdge (cut : Txt) (t : Txt) : Bool :=
  (match t with | [] => true | c :: _ => !inSet cut c) &&
  (match t.reverse with | [] => true | c :: _ => !inSet cut c)

namespace Line
/-- the bytes of the line -/
def text : Line → Txt
  | kv pre key mid val post =>
    pre ++ key ++ mid ++ (match val with | none => [] | some (w, v) => eqCh :: (w ++ v)) ++ post
  | comment pre t => pre ++ hashCh :: t
  | blank ws => ws

/-- side conditions of the grammar: `ws` are blanks/tabs; a key is non-empty, has no `=`, `\n`,
    `\r`, no surrounding blank and does not start with `#`; a value has no `\n`, `\r` and no
    surrounding blank (it may contain `=` and may be empty); a comment has no `\n`, `\r` -/
def wf : Line → Bool
  | kv pre key mid val post =>
    isWs pre && isWs mid && isWs post &&
    !key.isEmpty && !key.contains eqCh && !key.contains nlCh && !key.contains crCh &&
    noEdge trimSet key && (match key with | c :: _ => c != hashCh | [] => false) &&
    (match val with
      | none => true
      | some (w, v) => isWs w && !v.contains nlCh && !v.contains crCh && noEdge trimSet v)
  | comment pre t => isWs pre && !t.contains nlCh && !t.contains crCh
  | blank ws => isWs ws

/-- the key/value entry the line writes -/
def entry : Line → Option (Txt × Txt)
  | kv _ key _ val _ => some (key, match val with | none => [] | some (_, v) => v)
  | _ => none

/-- the line as listed by `GetDomainLine`: surrounding blanks removed -/
def listed : Line → Option Txt
  | kv _ key mid val _ =>
    some (key ++ (match val with
      | none => []
      | some (w, v) => mid ++ eqCh :: (if v.isEmpty then [] else w ++ v)))
  | _ => none
end Line

namespace Text
def render (t : Text) : Txt := (t.lines.map (fun l => l.text ++ [nlCh])).flatten ++ t.tail
def wf (t : Text) : Bool := t.lines.all Line.wf && isWs t.tail
end Text

mutual
/-- the bytes of an item -/
def Item.render : Item → Txt
  | .text t => t.render
  | .dom n body => ltCh :: n ++ gtCh :: renderL body ++ ltCh :: slashCh :: n ++ [gtCh]
def renderL : List Item → Txt
  | [] => []
  | i :: is => i.render ++ renderL is
end

mutual
/-- the token stream of an item: one `chardata` per non-empty text, `start`/`fin` per domain -/
def Item.tokens : Item → List Token
  | .text t => if t.render.isEmpty then [] else [.chardata t.render]
  | .dom n body => .start n :: (tokensL body ++ [.fin n])
def tokensL : List Item → List Token
  | [] => []
  | i :: is => i.tokens ++ tokensL is
end

mutual
def Item.wf : Item → Bool
  | .text t => t.wf
  | .dom _ body => wfL body
def wfL : List Item → Bool
  | [] => true
  | i :: is => i.wf && wfL is
end

mutual
/-- Go's tokenizer returns one `CharData` per maximal run of text: a document is canonical when no
    text item is empty and no two text items are adjacent (needed only for the tie
    `xml.Decoder (render d) = tokens d`, not for the parse theorems) -/
def Item.canon : Item → Bool
  | .text t => !t.render.isEmpty
  | .dom _ body => canonL body
def canonL : List Item → Bool
  | [] => true
  | [i] => i.canon
  | i :: j :: rest =>
    i.canon && (match i, j with | .text _, .text _ => false | _, _ => true) && canonL (j :: rest)
end

mutual
/-- longest line of any text of the item (bytes before the `\n`) -/
def Item.maxLine : Item → Nat
  | .text t => (t.lines.map (fun l => l.text.length)).foldr Nat.max t.tail.length
  | .dom _ body => maxLineL body
def maxLineL : List Item → Nat
  | [] => 0
  | i :: is => Nat.max i.maxLine (maxLineL is)
end

/-! ### What a document says (independent of the parser) -/

/-- key/value entries written directly in this list of items, in document order -/
def entriesOf : List Item → List (Txt × Txt)
  | [] => []
  | .text t :: is => t.lines.filterMap Line.entry ++ entriesOf is
  | .dom _ _ :: is => entriesOf is

/-- lines written directly in this list of items, as listed, in document order -/
def linesOf : List Item → List Txt
  | [] => []
  | .text t :: is => t.lines.filterMap Line.listed ++ linesOf is
  | .dom _ _ :: is => linesOf is

/-- names of the sub-domains written directly in this list of items (with repetitions) -/
def domsOf : List Item → List Txt
  | [] => []
  | .text _ :: is => domsOf is
  | .dom n _ :: is => n :: domsOf is

/-- the items of all sub-domains named `n`, in document order (equal domains merge) -/
def bodyOf (n : Txt) : List Item → List Item
  | [] => []
  | .text _ :: is => bodyOf n is
  | .dom m body :: is => if m = n then body ++ bodyOf n is else bodyOf n is

/-- the items of the domain addressed by a list of names, `none` when no such domain is written -/
def descend (d : List Item) : List Txt → Option (List Item)
  | [] => some d
  | n :: p => if n ∈ domsOf d then descend (bodyOf n d) p else none

/-- keys written directly in this list of items -/
def keysOf (d : List Item) : List Txt := (entriesOf d).map Prod.fst

/-- the grammar's side condition "within one domain key names and sub-domain names are disjoint",
    for every (merged) domain of the document -/
def NoClash (d : Doc) : Prop :=
  ∀ p b, descend d p = some b → ∀ n, n ∈ keysOf b → n ∉ domsOf b

/-- the path string `/n1/n2/…/nk` -/
def domPath : List Txt → Txt
  | [] => []
  | n :: p => slashCh :: n ++ domPath p

/-- the path string `/n1/…/nk<key>` -/
def keyPath (p : List Txt) (k : Txt) : Txt := domPath p ++ ltCh :: k ++ [gtCh]

/-- a name that a path string can spell as a domain: non-empty, without `/` and `<` -/
def pathName (n : Txt) : Bool := !n.isEmpty && !n.contains slashCh && !n.contains ltCh

/-- a key that a path string can spell: non-empty, without `/` and `<`, no `>` at either end -/
def pathKey (k : Txt) : Bool := pathName k && noEdge [gtCh] k

end Tars.Conf
