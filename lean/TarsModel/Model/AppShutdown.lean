/-
  Application-level composition for C12: `application.graceShutdown` (tars/application.go).

      for obj, s := range a.goSvrs {            -- (as found: `for _, obj := range a.objRunList { if s, ok := a.goSvrs[obj]; ok {`)
          wg.Add(1)
          go func(s *transport.TarsServer, …) { defer wg.Done(); s.Shutdown(ctx) … }(s, …)     `iter`, later `call j`
      }
      go func() { wg.Wait(); cancel() }()   …   select { <-ctx.Done() | <-time.After(timeout) }

  The application owns one `transport.TarsServer` per tars adapter; the servers share nothing, so the
  application's state is a list of independent server LTSs (`Model/ServerConn.lean`), and every step of
  adapter k's server, clients and poller is a step of the k-th component (`srv k a`). What the
  application adds is WHICH server each spawned goroutine calls `Shutdown` on:

    `Capture.argument`      the server is an argument of the `go func(…)` call (or a variable declared
                            inside the loop body): goroutine j calls Shutdown on adapter j — the code;
    `Capture.loopVariable`  the function literal captures the range statement's variable. go.mod says
                            `go 1.14`: ONE variable per loop, so a goroutine that runs after later
                            iterations sees their value (variant of `C12_app_captured_counterexample`).

  Core Lean only.
-/
import TarsModel.Model.ServerConn

namespace Tars.AppShutdown
open Tars.ServerConn

inductive Capture
  | argument
  | loopVariable
deriving DecidableEq, Repr

/-- one goroutine spawned by the loop -/
structure GoR where
  /-- the server passed as an argument (`none`: the closure reads the loop variable when it runs) -/
  arg : Option Nat
  /-- the adapter it has called `Shutdown` on -/
  target : Option Nat
deriving DecidableEq, Repr

structure AState where
  /-- one server LTS per tars adapter -/
  servers : List State
  /-- next iteration of the loop -/
  i : Nat := 0
  /-- current value of the range variable `s` -/
  loopVar : Option Nat := none
  gos : List GoR := []
  /-- ghost: the adapters `Shutdown` has been called on, in call order -/
  shutdownOn : List Nat := []
deriving DecidableEq, Repr

def init (n : Nat) : AState := { servers := List.replicate n ServerConn.init }

inductive AAction
  | iter                          -- one loop iteration: `wg.Add(1); go func…`
  | call (j : Nat)                -- goroutine j evaluates its receiver and calls `Shutdown(ctx)`
  | srv (k : Nat) (a : Action)    -- any other step of adapter k (server goroutines, clients, poller, context)
deriving DecidableEq, Repr

def astep (v : Capture) (cfg : Cfg) (s : AState) : AAction → Option AState
  | .iter =>
    if s.i < s.servers.length then
      some { s with i := s.i + 1, loopVar := some s.i,
                    gos := s.gos ++ [{ arg := match v with | .argument => some s.i | .loopVariable => none,
                                       target := none }] }
    else none
  | .call j =>
    match s.gos[j]? with
    | some g =>
      match g.target, (match g.arg with | some t => some t | none => s.loopVar) with
      | none, some t =>
        match s.servers[t]? with
        | some st =>
          -- a second `Shutdown` on the same server finds `isClosed` already set and polls alongside
          let st' := match step cfg st .shutdownCall with | some x => x | none => st
          some { s with gos := s.gos.set j { g with target := some t }, servers := s.servers.set t st',
                        shutdownOn := s.shutdownOn ++ [t] }
        | none => none
      | _, _ => none
    | none => none
  | .srv k a =>
    if a = .shutdownCall then none
    else
      match s.servers[k]? with
      | some st => (step cfg st a).map fun st' => { s with servers := s.servers.set k st' }
      | none => none

def arunFrom (v : Capture) (cfg : Cfg) (s : AState) : List AAction → Option AState
  | [] => some s
  | a :: as =>
    match astep v cfg s a with
    | none => none
    | some s' => arunFrom v cfg s' as

def arun (v : Capture) (cfg : Cfg) (n : Nat) (acts : List AAction) : Option AState := arunFrom v cfg (init n) acts

/-- What the extractor saw in `graceShutdown`: a goroutine that calls `Shutdown` on the captured range
variable, in a module whose go.mod asks for per-loop variables (`go < 1.22`). -/
def treeCapture : Capture :=
  if Consts.appShutdownServerCaptured ≥ 1 ∧ Consts.appGoModMinor < 22 then .loopVariable else .argument

end Tars.AppShutdown
