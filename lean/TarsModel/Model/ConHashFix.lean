/-
  The consistent-hash ring as REPAIRED by `pending/C14-conhash-collision.patch` (variant
  `repaired` of DESIGN §3.5), modelled literally; `Model/ConHash.lean` stays the model of the
  code as found.  Differences, exactly those of the patch:

  * `mapValues map[string]endpoint.Endpoint` — the selector remembers the endpoints it holds;
  * `setPointLocked`: a ring point already held by an endpoint with a smaller hash key is kept,
    otherwise the new endpoint takes it; the key is appended to `sortedKeys` only when new;
  * `Remove` rebuilds the ring from the remaining endpoints (the weight of its argument is not
    looked at any more).

  `hlt : H → H → Bool` is Go's `<` on the hash keys (strings).  `FindInt32`, `sort`, `weight`
  and the point function are shared with the as-found model.  Core Lean only.
-/
import TarsModel.Model.ConHash
import TarsModel.Model.ConHashSpec

namespace Tars.ConHashFix
open Tars.ConHash

structure RingF (H : Type) where
  cfg : Cfg
  /-- Go: `map[string]endpoint.Endpoint` keyed by `HashKey()`, kept in insertion order -/
  mapValues : List (Ep H)
  hashRing : List (Nat × Ep H)
  sortedKeys : Array Nat

def RingF.new {H : Type} (enableWeight : Bool) : RingF H :=
  { cfg := ⟨enableWeight, Consts.conHashVirtualNodes⟩, mapValues := [], hashRing := [], sortedKeys := #[] }

/-- the fields `FindInt32` reads -/
def RingF.toRing {H : Type} (r : RingF H) : Ring H :=
  { cfg := r.cfg, mapValues := r.mapValues.map (·.host), hashRing := r.hashRing, sortedKeys := r.sortedKeys }

/-- `(*ConsistentHash).FindInt32` (unchanged by the patch) -/
def findInt32 {H : Type} (r : RingF H) (key : Nat) : Found H := ConHash.findInt32 r.toRing key

/-- `(*ConsistentHash).setPointLocked` on the pair (`hashRing`, `sortedKeys`) -/
def setPoint {H : Type} (hlt : H → H → Bool) (st : List (Nat × Ep H) × Array Nat) (p : Nat) (ep : Ep H) :
    List (Nat × Ep H) × Array Nat :=
  match mget st.1 p with
  | none => (mset st.1 p ep, st.2.push p)
  | some old => if hlt old.host ep.host then st else (mset st.1 p ep, st.2)

/-- `(*ConsistentHash).addLocked`; `none` = "already exists" -/
def addLocked {H : Type} [DecidableEq H] (hlt : H → H → Bool) (pts : H → Nat → List Nat) (r : RingF H) (ep : Ep H) :
    Option (RingF H) :=
  if ep.host ∈ r.mapValues.map (·.host) then none
  else
    let st := (ptsOf r.cfg pts ep).foldl (fun st p => setPoint hlt st p ep) (r.hashRing, r.sortedKeys)
    some { r with hashRing := st.1, sortedKeys := st.2, mapValues := r.mapValues ++ [ep] }

/-- the loop body `_ = c.addLocked(ep)` of `Refresh` and of the rebuild in `Remove` -/
def refreshBody {H : Type} [DecidableEq H] (hlt : H → H → Bool) (pts : H → Nat → List Nat) (r : RingF H) (ep : Ep H) : RingF H :=
  match addLocked hlt pts r ep with | some r' => r' | none => r

/-- clear, add every listed endpoint, sort: `Refresh`, and the tail of `Remove` -/
def rebuild {H : Type} [DecidableEq H] (hlt : H → H → Bool) (pts : H → Nat → List Nat) (r : RingF H) (eps : List (Ep H)) : RingF H :=
  let r0 : RingF H := { r with mapValues := [], hashRing := [], sortedKeys := #[] }
  let r1 := eps.foldl (refreshBody hlt pts) r0
  { r1 with sortedKeys := sortKeys r1.sortedKeys }

/-- `(*ConsistentHash).Refresh` -/
def refresh {H : Type} [DecidableEq H] (hlt : H → H → Bool) (pts : H → Nat → List Nat) (r : RingF H) (eps : List (Ep H)) : RingF H :=
  rebuild hlt pts r eps

/-- `(*ConsistentHash).Add` -/
def add {H : Type} [DecidableEq H] (hlt : H → H → Bool) (pts : H → Nat → List Nat) (r : RingF H) (ep : Ep H) : Option (RingF H) :=
  match addLocked hlt pts r ep with
  | none => none
  | some r' => some { r' with sortedKeys := sortKeys r'.sortedKeys }

/-- `(*ConsistentHash).Remove`: `delete(c.mapValues, key)`, then the ring is rebuilt from the
    remaining endpoints.  Go ranges over the map in an unspecified order; the model uses insertion
    order — `C14_fix_pure` shows the order cannot be observed. -/
def remove {H : Type} [DecidableEq H] (hlt : H → H → Bool) (pts : H → Nat → List Nat) (r : RingF H) (ep : Ep H) : Option (RingF H) :=
  if ep.host ∈ r.mapValues.map (·.host) then
    some (rebuild hlt pts r (r.mapValues.filter (fun e => e.host ≠ ep.host)))
  else none

def step {H : Type} [DecidableEq H] (hlt : H → H → Bool) (pts : H → Nat → List Nat) (r : RingF H) : Op H → RingF H
  | .refresh eps => refresh hlt pts r eps
  | .add ep => (add hlt pts r ep).getD r
  | .remove ep => (remove hlt pts r ep).getD r

def run {H : Type} [DecidableEq H] (hlt : H → H → Bool) (pts : H → Nat → List Nat) (r : RingF H) (ops : List (Op H)) : RingF H :=
  ops.foldl (step hlt pts) r

/-! ## Specification vocabulary for the repaired ring (no universe needed: the selector itself
    remembers the endpoints) -/

/-- the current endpoint set after one call, as the list of endpoints in insertion order -/
def epsStep {H : Type} [DecidableEq H] (s : List (Ep H)) : Op H → List (Ep H)
  | .refresh eps => eps.foldl (fun s e => if e.host ∈ s.map (·.host) then s else s ++ [e]) []
  | .add ep => if ep.host ∈ s.map (·.host) then s else s ++ [ep]
  | .remove ep => s.filter (fun e => e.host ≠ ep.host)

def epsAfter {H : Type} [DecidableEq H] (s : List (Ep H)) (ops : List (Op H)) : List (Ep H) := ops.foldl epsStep s

/-- `p` is a ring point of the set `S` -/
def IsPointS {H : Type} (cfg : Cfg) (pts : H → Nat → List Nat) (S : List (Ep H)) (p : Nat) : Prop :=
  ∃ e, e ∈ S ∧ p ∈ ptsOf cfg pts e

/-- `e` holds `p`: it claims it and no other claimant of the set has a smaller hash key -/
def Wins {H : Type} (hlt : H → H → Bool) (cfg : Cfg) (pts : H → Nat → List Nat) (S : List (Ep H)) (e : Ep H) (p : Nat) : Prop :=
  e ∈ S ∧ p ∈ ptsOf cfg pts e ∧ ∀ e', e' ∈ S → p ∈ ptsOf cfg pts e' → hlt e'.host e.host = false

/-- the endpoint prescribed for key `k`: the holder of the clockwise successor of `k` -/
def OwnerF {H : Type} (hlt : H → H → Bool) (cfg : Cfg) (pts : H → Nat → List Nat) (S : List (Ep H)) (k : Nat) (e : Ep H) : Prop :=
  ∃ p, IsSucc (IsPointS cfg pts S) k p ∧ Wins hlt cfg pts S e p

/-- `hlt` is a strict total order (Go's `<` on strings is one) -/
structure StrictTotal {H : Type} (hlt : H → H → Bool) : Prop where
  irrefl : ∀ a, hlt a a = false
  trans : ∀ a b c, hlt a b = true → hlt b c = true → hlt a c = true
  total : ∀ a b, a ≠ b → hlt a b = true ∨ hlt b a = true

/-- same set of endpoints -/
def SameEps {H : Type} (s1 s2 : List (Ep H)) : Prop := ∀ e, e ∈ s1 ↔ e ∈ s2

/-- Go's `<` on strings: lexicographic order of the bytes -/
def bytesLt : List Nat → List Nat → Bool
  | [], [] => false
  | [], _ :: _ => true
  | _ :: _, [] => false
  | a :: as, b :: bs => if a < b then true else if b < a then false else bytesLt as bs

end Tars.ConHashFix
