/-
  Well-formed wire fields (DESIGN Appendix C, "Wire inputs"): the syntax of one Tars field as it
  appears on the wire, one constructor per wire type, recursive for MAP / LIST / StructBegin…End.
  This is a *specification-side* grammar (what "any well-formed field" ranges over in C04–C06); it
  mirrors no Go function.  `render` produces the bytes (head included), `body` the bytes after the
  head — exactly what `Reader.skipField(ty)` has to consume.

  The tree `WFField` carries the payloads; the numeric side conditions of the protocol (tags are
  bytes, STRING1 lengths fit a byte, counts are non-negative int32, …) are the Boolean predicate
  `WFField.wf` (`WFField.WF f := f.wf = true`), because a nested inductive type cannot mention
  `List.length` of its own nested occurrence in a constructor argument.
  Core Lean only.
-/
import TarsModel.Model.Wire

namespace Tars
open Consts

/-- one field on the wire -/
inductive WFField where
  /-- BYTE head + 1 payload byte -/
  | byte (tag : Nat) (b : Byte)
  /-- SHORT head + 2 bytes (`be 2 x`) -/
  | short (tag : Nat) (x : Nat)
  /-- INT head + 4 bytes -/
  | int (tag : Nat) (x : Nat)
  /-- LONG head + 8 bytes -/
  | long (tag : Nat) (x : Nat)
  /-- FLOAT head + 4 bytes (bit pattern) -/
  | float (tag : Nat) (bits : Nat)
  /-- DOUBLE head + 8 bytes (bit pattern) -/
  | double (tag : Nat) (bits : Nat)
  /-- STRING1 head + 1 length byte + the bytes -/
  | string1 (tag : Nat) (s : Bytes)
  /-- STRING4 head + 4 length bytes (big endian) + the bytes -/
  | string4 (tag : Nat) (s : Bytes)
  /-- ZeroTag head, no payload -/
  | zero (tag : Nat)
  /-- MAP head + count (int32 field, tag 0, narrowest width) + count × (key field, value field) -/
  | map (tag : Nat) (kvs : List (WFField × WFField))
  /-- LIST head + count (int32 field, tag 0, narrowest width) + count element fields -/
  | list (tag : Nat) (es : List WFField)
  /-- SimpleList head + BYTE head with tag 0 + length (int32 field, tag 0) + the bytes -/
  | simpleList (tag : Nat) (bs : Bytes)
  /-- StructBegin head + member fields + StructEnd head (tag 0) -/
  | struct (tag : Nat) (ms : List WFField)
deriving Repr, Inhabited

namespace WFField

/-- the tag in the field's head -/
def tag : WFField → Nat
  | byte t _ | short t _ | int t _ | long t _ | float t _ | double t _ | string1 t _
  | string4 t _ | zero t | map t _ | list t _ | simpleList t _ | struct t _ => t

/-- the wire type in the field's head -/
def ty : WFField → Nat
  | byte .. => tyBYTE
  | short .. => tySHORT
  | int .. => tyINT
  | long .. => tyLONG
  | float .. => tyFLOAT
  | double .. => tyDOUBLE
  | string1 .. => tySTRING1
  | string4 .. => tySTRING4
  | zero .. => tyZeroTag
  | map .. => tyMAP
  | list .. => tyLIST
  | simpleList .. => tySimpleList
  | struct .. => tyStructBegin

/-- a length / count prefix: what `WriteInt32(int32(n), 0)` writes (narrowest width) -/
def lenField (n : Nat) : Bytes := writeInt32 (n : Int) 0

mutual
/-- the bytes after the head -/
def body : WFField → Bytes
  | byte _ b => [b]
  | short _ x => be 2 x
  | int _ x => be 4 x
  | long _ x => be 8 x
  | float _ x => be 4 x
  | double _ x => be 8 x
  | string1 _ s => Tars.byte s.length :: s
  | string4 _ s => be 4 s.length ++ s
  | zero _ => []
  | map _ kvs => lenField kvs.length ++ renderPairs kvs
  | list _ es => lenField es.length ++ renderList es
  | simpleList _ bs => writeHead tyBYTE 0 ++ lenField bs.length ++ bs
  | struct _ ms => renderList ms ++ writeHead tyStructEnd 0
/-- concatenated renderings of a list of fields -/
def renderList : List WFField → Bytes
  | [] => []
  | f :: fs => (writeHead f.ty f.tag ++ body f) ++ renderList fs
/-- concatenated renderings of (key, value) pairs -/
def renderPairs : List (WFField × WFField) → Bytes
  | [] => []
  | (k, v) :: rest =>
    (writeHead k.ty k.tag ++ body k) ++ (writeHead v.ty v.tag ++ body v) ++ renderPairs rest
end

/-- the whole field: head (one or two bytes, determined by the tag) and body -/
def render (f : WFField) : Bytes := writeHead f.ty f.tag ++ body f

mutual
/-- side conditions of the wire format -/
def wf : WFField → Bool
  | byte t _ | short t _ | int t _ | long t _ | float t _ | double t _ | zero t => decide (t < 256)
  | string1 t s => decide (t < 256) && decide (s.length ≤ 255)
  | string4 t s => decide (t < 256) && decide (s.length < 2 ^ 32)
  | map t kvs => decide (t < 256) && decide (2 * kvs.length < 2 ^ 31) && wfPairs kvs
  | list t es => decide (t < 256) && decide (es.length < 2 ^ 31) && wfElems es
  | simpleList t bs => decide (t < 256) && decide (bs.length < 2 ^ 31)
  | struct t ms => decide (t < 256) && wfMembers ms
/-- list elements: every element is a field with tag 0 -/
def wfElems : List WFField → Bool
  | [] => true
  | e :: es => decide (e.tag = 0) && e.wf && wfElems es
/-- struct members: arbitrary well-formed fields -/
def wfMembers : List WFField → Bool
  | [] => true
  | m :: ms => m.wf && wfMembers ms
/-- map entries: key with tag 0, value with tag 1 -/
def wfPairs : List (WFField × WFField) → Bool
  | [] => true
  | (k, v) :: rest => decide (k.tag = 0) && decide (v.tag = 1) && k.wf && v.wf && wfPairs rest
end

/-- well-formed field -/
def WF (f : WFField) : Prop := f.wf = true

instance (f : WFField) : Decidable f.WF := inferInstanceAs (Decidable (f.wf = true))

mutual
/-- fuel that `skipField` needs for the body of the field (each recursive call and each loop
    iteration of the skip family costs one unit) -/
def cost : WFField → Nat
  | map _ kvs => 1 + costPairs kvs
  | list _ es => 1 + costList es
  | struct _ ms => 1 + (costList ms + 1)
  | _ => 1
/-- fuel for the loop over a list of fields (`skipElems`, `skipToStructEnd` up to the StructEnd) -/
def costList : List WFField → Nat
  | [] => 1
  | f :: fs => 1 + cost f + costList fs
def costPairs : List (WFField × WFField) → Nat
  | [] => 1
  | (k, v) :: rest => 2 + cost k + cost v + costPairs rest
end

end WFField

end Tars
